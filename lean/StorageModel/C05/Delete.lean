import StorageModel.C05.Rc
/-
  C05 — DeleteById → cleanupLinks → EntityDeleted (both kinds of collection), and Create.
-/
set_option linter.unusedSectionVars false
namespace StorageModel.C05

section
variable {K : Type} [KOrd K] [DecidableEq K]

/-! ### linkCollectionImpl.EntityDeleted -/

theorem mem_foldl_symRemove (sd : Side) (id : K) (L : List K) (s : St K) (sd' : Side) (x y : K) :
    y ∈ linksOf (L.foldl (fun s k => symRemoveLink s (sd.other, k) id) s) (sd', x) ↔
      y ∈ linksOf s (sd', x) ∧ ¬(sd' = sd.other ∧ x ∈ L ∧ y = id) := by
  induction L generalizing s with
  | nil => simp
  | cons k ks ih =>
    simp only [List.foldl_cons]
    rw [ih]
    unfold symRemoveLink
    rw [mem_updL_erase]
    simp only [Prod.mk.injEq, List.mem_cons]
    constructor
    · rintro ⟨⟨h, h1⟩, h2⟩
      refine ⟨h, ?_⟩
      rintro ⟨a, b | b, c⟩
      · exact h1 ⟨⟨a.symm, b.symm⟩, c⟩
      · exact h2 ⟨a, b, c⟩
    · rintro ⟨h, h1⟩
      refine ⟨⟨h, ?_⟩, ?_⟩
      · rintro ⟨⟨a, b⟩, c⟩; exact h1 ⟨a.symm, Or.inl b.symm, c⟩
      · rintro ⟨a, b, c⟩; exact h1 ⟨a, Or.inr b, c⟩

theorem exists_foldl_symRemove (sd : Side) (id : K) (L : List K) (s : St K) (r : Ref K) :
    exists? (L.foldl (fun s k => symRemoveLink s (sd.other, k) id) s) r = exists? s r := by
  induction L generalizing s with
  | nil => rfl
  | cons k ks ih => simp only [List.foldl_cons]; rw [ih]; unfold symRemoveLink; rw [exists_upd]

theorem rcOf_foldl_symRemove (sd : Side) (id : K) (L : List K) (s : St K) (r : Ref K) (j : K) :
    rcOf (L.foldl (fun s k => symRemoveLink s (sd.other, k) id) s) r j = rcOf s r j := by
  induction L generalizing s with
  | nil => rfl
  | cons k ks ih => simp only [List.foldl_cons]; rw [ih]; unfold symRemoveLink; rw [rcOf_updL]

theorem allSorted_foldl_symRemove (sd : Side) (id : K) (L : List K) {s : St K} (h : AllSorted s) :
    AllSorted (L.foldl (fun s k => symRemoveLink s (sd.other, k) id) s) := by
  induction L generalizing s with
  | nil => exact h
  | cons k ks ih =>
    simp only [List.foldl_cons]; apply ih
    unfold symRemoveLink; exact allSorted_updL h _ _ (fun _ hl => ssorted_eraseS hl)

/-! ### rcLinkCollectionImpl.EntityDeleted -/

theorem rcOf_rcSymUnlink (s : St K) (r r' : Ref K) (l j : K) :
    rcOf (rcSymUnlink s r l) r' j = if r = r' ∧ l = j then none else rcOf s r' j := by
  unfold rcSymUnlink
  rw [rcOf_updR s r r' (fun m => m.del l) j]
  by_cases h : r = r'
  · subst h
    simp only [true_and, if_true]
    cases hg : s.get r with
    | none => simp [rcOf, hg]
    | some e => simp only; rw [Map.get_del]; simp [rcOf, hg]
  · simp [h]

theorem rcOf_foldl_rcUnlink (sd : Side) (id : K) (L : List K) (s : St K) (sd' : Side) (x j : K) :
    rcOf (L.foldl (fun s k => rcSymUnlink s (sd.other, k) id) s) (sd', x) j =
      if sd' = sd.other ∧ x ∈ L ∧ j = id then none else rcOf s (sd', x) j := by
  induction L generalizing s with
  | nil => simp
  | cons k ks ih =>
    simp only [List.foldl_cons]
    rw [ih, rcOf_rcSymUnlink]
    by_cases h1 : sd' = sd.other ∧ x ∈ ks ∧ j = id
    · have : sd' = sd.other ∧ x ∈ k :: ks ∧ j = id := ⟨h1.1, List.mem_cons_of_mem _ h1.2.1, h1.2.2⟩
      rw [if_pos h1, if_pos this]
    · rw [if_neg h1]
      by_cases h2 : (sd.other, k) = (sd', x) ∧ id = j
      · obtain ⟨a, b⟩ := Prod.mk.inj h2.1
        have : sd' = sd.other ∧ x ∈ k :: ks ∧ j = id := ⟨a.symm, by rw [← b]; simp, h2.2.symm⟩
        rw [if_pos h2, if_pos this]
      · have : ¬ (sd' = sd.other ∧ x ∈ k :: ks ∧ j = id) := by
          rintro ⟨a, b, c⟩
          rcases List.mem_cons.mp b with b | b
          · exact h2 ⟨by rw [a, b], c.symm⟩
          · exact h1 ⟨a, b, c⟩
        rw [if_neg h2, if_neg this]

theorem linksOf_foldl_rcUnlink (sd : Side) (id : K) (L : List K) (s : St K) (r : Ref K) :
    linksOf (L.foldl (fun s k => rcSymUnlink s (sd.other, k) id) s) r = linksOf s r := by
  induction L generalizing s with
  | nil => rfl
  | cons k ks ih => simp only [List.foldl_cons]; rw [ih]; unfold rcSymUnlink; rw [linksOf_updR s _ _ (fun m => m.del id)]

theorem exists_foldl_rcUnlink (sd : Side) (id : K) (L : List K) (s : St K) (r : Ref K) :
    exists? (L.foldl (fun s k => rcSymUnlink s (sd.other, k) id) s) r = exists? s r := by
  induction L generalizing s with
  | nil => rfl
  | cons k ks ih => simp only [List.foldl_cons]; rw [ih]; unfold rcSymUnlink; rw [exists_upd]

theorem mem_keys (m : Map K Int) (x : K) : x ∈ m.map (·.1) ↔ m.get x ≠ none := by
  induction m with
  | nil => simp [Map.get]
  | cons p m ih =>
    obtain ⟨a, v⟩ := p
    simp only [List.map_cons, List.mem_cons, Map.get]
    by_cases h : a = x
    · subst h; simp
    · have : ¬ x = a := fun e => h e.symm
      simp [h, this, ih]

/-! ### DeleteById -/

theorem deleteEntity_missing {s : St K} {sd : Side} {id : K} (hid : exists? s (sd, id) = false) :
    deleteEntity s sd id = (s, some .notFound) := by
  unfold deleteEntity; unfold exists? at hid
  cases hg : s.get (sd, id) <;> simp_all

/-- what a successful delete leaves: the entity is gone, no link set and no count map of the
    other side mentions it (given that the sets it was in are exactly the ones it lists), and
    nothing else changes -/
theorem deleteEntity_ok {s : St K} {sd : Side} {id : K} (hid : exists? s (sd, id) = true) :
    (deleteEntity s sd id).2 = none ∧
    (∀ r, exists? (deleteEntity s sd id).1 r = if (sd, id) = r then false else exists? s r) ∧
    (∀ sd' x y, y ∈ linksOf (deleteEntity s sd id).1 (sd', x) ↔
      ¬((sd, id) = (sd', x)) ∧ y ∈ linksOf s (sd', x) ∧ ¬(sd' = sd.other ∧ x ∈ linksOf s (sd, id) ∧ y = id)) ∧
    (∀ sd' x j, rcOf (deleteEntity s sd id).1 (sd', x) j =
      if (sd, id) = (sd', x) then none
      else if sd' = sd.other ∧ rcOf s (sd, id) x ≠ none ∧ j = id then none
      else rcOf s (sd', x) j) := by
  obtain ⟨e, he, _⟩ := get_of_exists hid
  have hst : deleteEntity s sd id = ((rcEntityDeleted (linksEntityDeleted s sd id) sd id).del (sd, id), none) := by
    unfold deleteEntity; rw [he]
  -- the local bucket is untouched by the first cleanup
  have hexl : exists? (linksEntityDeleted s sd id) (sd, id) = true := by
    unfold linksEntityDeleted; rw [exists_foldl_symRemove]; exact hid
  obtain ⟨e1, he1, _⟩ := get_of_exists hexl
  have hrc1 : ∀ x, e1.rc.get x = rcOf s (sd, id) x := by
    intro x
    have : rcOf (linksEntityDeleted s sd id) (sd, id) x = rcOf s (sd, id) x := by
      unfold linksEntityDeleted; rw [rcOf_foldl_symRemove]
    rw [← this]; simp [rcOf, he1]
  have hst2 : rcEntityDeleted (linksEntityDeleted s sd id) sd id =
      (e1.rc.map (·.1)).foldl (fun s k => rcSymUnlink s (sd.other, k) id) (linksEntityDeleted s sd id) := by
    unfold rcEntityDeleted; rw [he1]
  refine ⟨by rw [hst], ?_, ?_, ?_⟩
  · intro r
    rw [hst]; simp only
    rw [exists_del, hst2, exists_foldl_rcUnlink]
    unfold linksEntityDeleted; rw [exists_foldl_symRemove]
  · intro sd' x y
    rw [hst]; simp only
    rw [linksOf_del, hst2, linksOf_foldl_rcUnlink]
    by_cases h : (sd, id) = (sd', x)
    · simp [h]
    · simp only [h, if_false, not_false_eq_true, true_and]
      unfold linksEntityDeleted; rw [mem_foldl_symRemove]
  · intro sd' x j
    rw [hst]; simp only
    rw [rcOf_del, hst2, rcOf_foldl_rcUnlink]
    by_cases h : (sd, id) = (sd', x)
    · simp [h]
    · simp only [h, if_false]
      simp only [mem_keys, hrc1]
      unfold linksEntityDeleted; rw [rcOf_foldl_symRemove]

theorem deleteEntity_sym {s : St K} {sd : Side} {id : K} (h : Sym s) (hok : (deleteEntity s sd id).2 = none) :
    Sym (deleteEntity s sd id).1 := by
  cases hid : exists? s (sd, id) with
  | false => rw [deleteEntity_missing hid] at hok; cases hok
  | true =>
    obtain ⟨_, _, hm, _⟩ := deleteEntity_ok hid
    intro sd' a b
    rw [hm, hm]
    have h1 := h sd' a b
    have h2 := h sd id a
    have h3 := h sd id b
    simp only [Prod.mk.injEq]
    cases sd <;> cases sd' <;> simp [Side.other] at h1 h2 h3 ⊢ <;> grind

theorem deleteEntity_allSorted {s : St K} {sd : Side} {id : K} (h : AllSorted s) :
    AllSorted (deleteEntity s sd id).1 := by
  cases hid : exists? s (sd, id) with
  | false => rw [deleteEntity_missing hid]; exact h
  | true =>
    obtain ⟨e, he, _⟩ := get_of_exists hid
    have hst : deleteEntity s sd id = ((rcEntityDeleted (linksEntityDeleted s sd id) sd id).del (sd, id), none) := by
      unfold deleteEntity; rw [he]
    rw [hst]; simp only
    apply allSorted_del
    intro r
    have h1 : AllSorted (linksEntityDeleted s sd id) := by
      unfold linksEntityDeleted; exact allSorted_foldl_symRemove sd id _ h
    unfold rcEntityDeleted
    cases hg : (linksEntityDeleted s sd id).get (sd, id) with
    | none => exact h1 r
    | some e1 => simp only; rw [linksOf_foldl_rcUnlink]; exact h1 r

theorem deleteEntity_rcInv {s : St K} {w : Int} {sd : Side} {id : K} (h : RcInv s w)
    (hok : (deleteEntity s sd id).2 = none) : RcInv (deleteEntity s sd id).1 w := by
  cases hid : exists? s (sd, id) with
  | false => rw [deleteEntity_missing hid] at hok; cases hok
  | true =>
    obtain ⟨_, _, _, hr⟩ := deleteEntity_ok hid
    constructor
    · intro sd' a b
      rw [hr, hr]
      have h1 := h.1 sd' a b
      have h2 := h.1 sd id a
      have h3 := h.1 sd id b
      simp only [Prod.mk.injEq]
      cases sd <;> cases sd' <;> simp [Side.other] at h1 h2 h3 ⊢ <;> grind
    · intro r j c hc
      obtain ⟨sd', x⟩ := r
      rw [hr] at hc
      split at hc
      · cases hc
      · split at hc
        · cases hc
        · exact h.2 _ _ _ hc

/-! ### Create -/

theorem create_fresh {s : St K} {r : Ref K} (hid : exists? s r = false) :
    (∀ r', linksOf (s.put r {}) r' = linksOf s r') ∧
    (∀ r' j, rcOf (s.put r {}) r' j = rcOf s r' j) := by
  constructor
  · intro r'; rw [linksOf_put]
    by_cases h : r = r'
    · subst h; simp [linksOf_of_not_exists hid]
    · simp [h]
  · intro r' j; rw [rcOf_put]
    by_cases h : r = r'
    · subst h; simp [rcOf_of_not_exists hid, Map.get]
    · simp [h]

end
end StorageModel.C05
