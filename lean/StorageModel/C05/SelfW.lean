import StorageModel.C05.Hist
/-
  C05 — the self-referential wiring: ONE store whose set symbol is linked with itself
  (`store.AddLinkCollection(peers, peers)`), so that `otherField` is the collection's own field and
  an entity can be linked to itself.  The operations are the same Go functions; the model is the
  same state type restricted to one side (`(Side.A, id)`), with "the other side" being that same
  side.  `sEntityDeleted` follows the repaired `EntityDeleted` (b23d525): the keys are collected
  first and then removed, i.e. a fold over the snapshot of the bucket — which matters exactly
  here, because `RemoveLink(id, id)` deletes from the bucket being walked.
-/
set_option linter.unusedSectionVars false
namespace StorageModel.C05.SelfW
open StorageModel.C05

section
variable {K : Type} [KOrd K] [DecidableEq K]

abbrev R (x : K) : Ref K := (Side.A, x)

theorem R_inj {x y : K} : R x = R y ↔ x = y := by simp [R]

def L (s : St K) (x : K) : List K := linksOf s (R x)

/-! ### operations (link_collection.go with field = otherField) -/

def slink (s : St K) (id k : K) : St K × Option Err :=
  symAddLink (upd s (R id) fun e => { e with links := insertS k e.links }) (R k) id

def sunlink (s : St K) (id k : K) : St K :=
  symRemoveLink (upd s (R id) fun e => { e with links := eraseS k e.links }) (R k) id

def slinkAll (id : K) : List K → St K → St K × Option Err
  | [], s => (s, none)
  | k :: ks, s =>
    match slink s id k with
    | (s', some e) => (s', some e)
    | (s', none) => slinkAll id ks s'

def sunlinkAll (id : K) : List K → St K → St K
  | [], s => s
  | k :: ks, s => sunlinkAll id ks (sunlink s id k)

def saddLinks (s : St K) (id : K) (keys : List K) : St K × Option Err :=
  match s.get (R id) with
  | none => (s, some .missing)
  | some _ => slinkAll id keys s

def sremoveLinks (s : St K) (id : K) (keys : List K) : St K × Option Err :=
  match s.get (R id) with
  | none => (s, some .missing)
  | some _ => (sunlinkAll id keys s, none)

def saddLink (s : St K) (id k : K) : St K × Bool × Option Err :=
  match s.get (R id) with
  | none => (s, false, some .missing)
  | some e =>
    let r := slink s id k
    (r.1, !(e.links.contains k), r.2)

def sremoveLink (s : St K) (id k : K) : St K × Bool × Option Err :=
  match s.get (R id) with
  | none => (s, false, some .missing)
  | some e => (sunlink s id k, e.links.contains k, none)

def ssetLinks (s : St K) (id : K) (keys : List K) : St K × Option Err :=
  match s.get (R id) with
  | none => (s, some .missing)
  | some e =>
    let w := mergeWalk e.links (sortK keys) [] []
    slinkAll id (w.2.1 ++ w.1) (sunlinkAll id w.2.2 s)

/-- repaired `EntityDeleted`: collect the keys, then `RemoveLink(key, id)` for each -/
def sEntityDeleted (s : St K) (id : K) : St K :=
  (L s id).foldl (fun s k => symRemoveLink s (R k) id) s

def sdelete (s : St K) (id : K) : St K × Option Err :=
  match s.get (R id) with
  | none => (s, some .notFound)
  | some _ => ((sEntityDeleted s id).del (R id), none)

def screate (s : St K) (id : K) (blank : Bool) (links : Option (List K)) : St K × Option Err :=
  if blank then (s, some .blank)
  else match s.get (R id) with
  | some _ => (s, some .exists)
  | none =>
    match links with
    | none => (s.put (R id) {}, none)
    | some ks => ssetLinks (s.put (R id) {}) id ks

inductive SOp (K : Type)
  | create (id : K) (blank : Bool) (links : Option (List K))
  | delete (id : K)
  | addLinks (id : K) (keys : List K)
  | removeLinks (id : K) (keys : List K)
  | setLinks (id : K) (keys : List K)
  | addLink (id k : K)
  | removeLink (id k : K)
  | getLinks (id : K)

def sstepW (s : St K) : SOp K → Out K
  | .create id blank links => let r := screate s id blank links; { st := r.1, err := r.2 }
  | .delete id => let r := sdelete s id; { st := r.1, err := r.2 }
  | .addLinks id keys => let r := saddLinks s id keys; { st := r.1, err := r.2 }
  | .removeLinks id keys => let r := sremoveLinks s id keys; { st := r.1, err := r.2 }
  | .setLinks id keys => let r := ssetLinks s id keys; { st := r.1, err := r.2 }
  | .addLink id k => let r := saddLink s id k; { st := r.1, ret := .bool r.2.1, err := r.2.2 }
  | .removeLink id k => let r := sremoveLink s id k; { st := r.1, ret := .bool r.2.1, err := r.2.2 }
  | .getLinks id => { st := s, ret := .keys (L s id) }

def srunOpsW : St K → List (SOp K) → St K × Bool
  | s, [] => (s, false)
  | s, op :: ops =>
    let o := sstepW s op
    match o.err with
    | some _ => (o.st, true)
    | none => srunOpsW o.st ops

def scommitW (s : St K) (ops : List (SOp K)) : St K :=
  let r := srunOpsW s ops
  if r.2 then s else r.1

def srunHistW (s : St K) (txs : List (List (SOp K))) : St K := txs.foldl scommitW s

/-! ### link / unlink -/

/-- symmetric: b is in a's set iff a is in b's -/
def SymW (s : St K) : Prop := ∀ a b, b ∈ L s a ↔ a ∈ L s b

theorem symW_nil : SymW ([] : St K) := by intro a b; simp [L, linksOf, Map.get]

theorem slink_err {s : St K} {id k : K} (h : exists? s (R k) = false) : (slink s id k).2 = some .notFound := by
  unfold slink; rw [symAddLink_none]; rw [exists_upd]; exact h

theorem slink_ok {s : St K} {id k : K} (h : exists? s (R k) = true) :
    slink s id k = (upd (upd s (R id) fun e => { e with links := insertS k e.links }) (R k)
      (fun e => { e with links := insertS id e.links }), none) := by
  unfold slink; rw [symAddLink_some]; rw [exists_upd]; exact h

theorem slink_err_or_ok (s : St K) (id k : K) :
    ((slink s id k).2 = some .notFound ∧ exists? s (R k) = false) ∨
    ((slink s id k).2 = none ∧ exists? s (R k) = true) := by
  cases h : exists? s (R k)
  · left; exact ⟨slink_err h, rfl⟩
  · right; rw [slink_ok h]; exact ⟨rfl, rfl⟩

theorem exists_slink (s : St K) (id k : K) (r : Ref K) : exists? (slink s id k).1 r = exists? s r := by
  cases h : exists? s (R k)
  · unfold slink; rw [symAddLink_none]
    · simp [exists_upd]
    · rw [exists_upd]; exact h
  · rw [slink_ok h]; simp [exists_upd]

theorem mem_slink {s : St K} {id k : K} (hk : exists? s (R k) = true) (hid : exists? s (R id) = true) (x y : K) :
    y ∈ L (slink s id k).1 x ↔ y ∈ L s x ∨ (x = id ∧ y = k) ∨ (x = k ∧ y = id) := by
  rw [slink_ok hk]
  simp only [L, mem_updL_insert, exists_upd, hk, hid, R_inj, true_and]
  constructor
  · rintro ((h | ⟨h1, h2⟩) | ⟨h1, h2⟩)
    · exact Or.inl h
    · exact Or.inr (Or.inl ⟨h1.symm, h2⟩)
    · exact Or.inr (Or.inr ⟨h1.symm, h2⟩)
  · rintro (h | ⟨h1, h2⟩ | ⟨h1, h2⟩)
    · exact Or.inl (Or.inl h)
    · exact Or.inl (Or.inr ⟨h1.symm, h2⟩)
    · exact Or.inr ⟨h1.symm, h2⟩

theorem allSorted_slink {s : St K} (h : AllSorted s) (id k : K) : AllSorted (slink s id k).1 := by
  cases hk : exists? s (R k)
  · unfold slink; rw [symAddLink_none]
    · exact allSorted_updL h _ _ (fun _ hl => ssorted_insertS hl)
    · rw [exists_upd]; exact hk
  · rw [slink_ok hk]
    exact allSorted_updL (allSorted_updL h _ _ (fun _ hl => ssorted_insertS hl)) _ _ (fun _ hl => ssorted_insertS hl)

theorem symW_slink {s : St K} (h : SymW s) {id k : K} (hk : exists? s (R k) = true) (hid : exists? s (R id) = true) :
    SymW (slink s id k).1 := by
  intro a b
  rw [mem_slink hk hid, mem_slink hk hid, h a b]
  grind

theorem mem_sunlink (s : St K) (id k x y : K) :
    y ∈ L (sunlink s id k) x ↔ y ∈ L s x ∧ ¬(x = id ∧ y = k) ∧ ¬(x = k ∧ y = id) := by
  unfold sunlink symRemoveLink
  simp only [L, mem_updL_erase, R_inj]
  constructor
  · rintro ⟨⟨h, h1⟩, h2⟩
    exact ⟨h, fun ⟨a, b⟩ => h1 ⟨a.symm, b⟩, fun ⟨a, b⟩ => h2 ⟨a.symm, b⟩⟩
  · rintro ⟨h, h1, h2⟩
    exact ⟨⟨h, fun ⟨a, b⟩ => h1 ⟨a.symm, b⟩⟩, fun ⟨a, b⟩ => h2 ⟨a.symm, b⟩⟩

theorem exists_sunlink (s : St K) (id k : K) (r : Ref K) : exists? (sunlink s id k) r = exists? s r := by
  unfold sunlink symRemoveLink; simp [exists_upd]

theorem allSorted_sunlink {s : St K} (h : AllSorted s) (id k : K) : AllSorted (sunlink s id k) := by
  unfold sunlink symRemoveLink
  exact allSorted_updL (allSorted_updL h _ _ (fun _ hl => ssorted_eraseS hl)) _ _ (fun _ hl => ssorted_eraseS hl)

theorem symW_sunlink {s : St K} (h : SymW s) (id k : K) : SymW (sunlink s id k) := by
  intro a b
  rw [mem_sunlink, mem_sunlink, h a b]
  grind

/-! ### loops -/

theorem exists_slinkAll (id : K) (ks : List K) (s : St K) (r : Ref K) :
    exists? (slinkAll id ks s).1 r = exists? s r := by
  induction ks generalizing s with
  | nil => rfl
  | cons k ks ih =>
    unfold slinkAll
    have hl := exists_slink s id k r
    cases hr : slink s id k with
    | mk s' e =>
      rw [hr] at hl
      cases e with
      | some e => simpa using hl
      | none => simp only; rw [ih]; exact hl

theorem allSorted_slinkAll (id : K) (ks : List K) {s : St K} (h : AllSorted s) : AllSorted (slinkAll id ks s).1 := by
  induction ks generalizing s with
  | nil => exact h
  | cons k ks ih =>
    unfold slinkAll
    have hl := allSorted_slink h id k
    cases hr : slink s id k with
    | mk s' e =>
      rw [hr] at hl
      cases e with
      | some e => exact hl
      | none => exact ih hl

theorem slinkAll_ok (id : K) (ks : List K) {s : St K} (hid : exists? s (R id) = true)
    (hall : ∀ k ∈ ks, exists? s (R k) = true) :
    (slinkAll id ks s).2 = none ∧
    ∀ x y, y ∈ L (slinkAll id ks s).1 x ↔ y ∈ L s x ∨ (x = id ∧ y ∈ ks) ∨ (x ∈ ks ∧ y = id) := by
  induction ks generalizing s with
  | nil => simp [slinkAll]
  | cons k ks ih =>
    have hk := hall k (by simp)
    unfold slinkAll
    have hm := mem_slink hk hid
    have he := fun r => exists_slink s id k r
    rw [slink_ok hk] at hm he ⊢
    simp only
    have ih' := ih (s := _) (by rw [he]; exact hid) (fun k' hk' => by rw [he]; exact hall k' (by simp [hk']))
    refine ⟨ih'.1, ?_⟩
    intro x y
    rw [ih'.2, hm]
    simp only [List.mem_cons]
    constructor
    · rintro ((h | ⟨a, b⟩ | ⟨a, b⟩) | ⟨a, b⟩ | ⟨a, b⟩)
      · exact Or.inl h
      · exact Or.inr (Or.inl ⟨a, Or.inl b⟩)
      · exact Or.inr (Or.inr ⟨Or.inl a, b⟩)
      · exact Or.inr (Or.inl ⟨a, Or.inr b⟩)
      · exact Or.inr (Or.inr ⟨Or.inr a, b⟩)
    · rintro (h | ⟨a, b | b⟩ | ⟨a | a, b⟩)
      · exact Or.inl (Or.inl h)
      · exact Or.inl (Or.inr (Or.inl ⟨a, b⟩))
      · exact Or.inr (Or.inl ⟨a, b⟩)
      · exact Or.inl (Or.inr (Or.inr ⟨a, b⟩))
      · exact Or.inr (Or.inr ⟨a, b⟩)

theorem slinkAll_missing (id : K) (ks : List K) (s : St K) (hmiss : ∃ k ∈ ks, exists? s (R k) = false) :
    (slinkAll id ks s).2 = some .notFound := by
  induction ks generalizing s with
  | nil => obtain ⟨k, hk, _⟩ := hmiss; cases hk
  | cons k ks ih =>
    unfold slinkAll
    rcases slink_err_or_ok s id k with ⟨h1, _⟩ | ⟨h1, h2⟩
    · cases hr : slink s id k with
      | mk s' e => rw [hr] at h1; simp at h1; subst h1; rfl
    · cases hr : slink s id k with
      | mk s' e =>
        rw [hr] at h1; simp at h1; subst h1
        simp only
        apply ih
        obtain ⟨k', hk', hm⟩ := hmiss
        rcases List.mem_cons.mp hk' with rfl | hk'
        · rw [h2] at hm; cases hm
        · refine ⟨k', hk', ?_⟩
          have := exists_slink s id k (R k')
          rw [hr] at this; rw [this]; exact hm

theorem slinkAll_err (id : K) (ks : List K) (s : St K) :
    (slinkAll id ks s).2 = none ∨ (slinkAll id ks s).2 = some .notFound := by
  induction ks generalizing s with
  | nil => left; rfl
  | cons k ks ih =>
    unfold slinkAll
    rcases slink_err_or_ok s id k with ⟨h1, _⟩ | ⟨h1, _⟩
    · cases hr : slink s id k with
      | mk s' e => rw [hr] at h1; simp at h1; subst h1; right; rfl
    · cases hr : slink s id k with
      | mk s' e => rw [hr] at h1; simp at h1; subst h1; exact ih s'

theorem symW_slinkAll (id : K) (ks : List K) {s : St K} (h : SymW s) (hid : exists? s (R id) = true)
    (hok : (slinkAll id ks s).2 = none) : SymW (slinkAll id ks s).1 := by
  induction ks generalizing s with
  | nil => exact h
  | cons k ks ih =>
    unfold slinkAll at hok ⊢
    rcases slink_err_or_ok s id k with ⟨h1, _⟩ | ⟨h1, h2⟩
    · cases hr : slink s id k with
      | mk s' e => rw [hr] at h1 hok; simp at h1; subst h1; simp at hok
    · have hs := symW_slink h h2 hid
      have he := exists_slink s id k (R id)
      cases hr : slink s id k with
      | mk s' e =>
        rw [hr] at h1 hok hs he; simp at h1; subst h1
        simp only at hok ⊢
        exact ih hs (by rw [he]; exact hid) hok

theorem mem_sunlinkAll (id : K) (ks : List K) (s : St K) (x y : K) :
    y ∈ L (sunlinkAll id ks s) x ↔ y ∈ L s x ∧ ¬(x = id ∧ y ∈ ks) ∧ ¬(x ∈ ks ∧ y = id) := by
  induction ks generalizing s with
  | nil => simp [sunlinkAll]
  | cons k ks ih =>
    unfold sunlinkAll
    rw [ih, mem_sunlink]
    simp only [List.mem_cons]
    constructor
    · rintro ⟨⟨h, h1, h2⟩, h3, h4⟩
      refine ⟨h, ?_, ?_⟩
      · rintro ⟨a, b | b⟩
        · exact h1 ⟨a, b⟩
        · exact h3 ⟨a, b⟩
      · rintro ⟨a | a, b⟩
        · exact h2 ⟨a, b⟩
        · exact h4 ⟨a, b⟩
    · rintro ⟨h, h1, h2⟩
      exact ⟨⟨h, fun ⟨a, b⟩ => h1 ⟨a, Or.inl b⟩, fun ⟨a, b⟩ => h2 ⟨Or.inl a, b⟩⟩,
        fun ⟨a, b⟩ => h1 ⟨a, Or.inr b⟩, fun ⟨a, b⟩ => h2 ⟨Or.inr a, b⟩⟩

theorem exists_sunlinkAll (id : K) (ks : List K) (s : St K) (r : Ref K) :
    exists? (sunlinkAll id ks s) r = exists? s r := by
  induction ks generalizing s with
  | nil => rfl
  | cons k ks ih => unfold sunlinkAll; rw [ih, exists_sunlink]

theorem allSorted_sunlinkAll (id : K) (ks : List K) {s : St K} (h : AllSorted s) : AllSorted (sunlinkAll id ks s) := by
  induction ks generalizing s with
  | nil => exact h
  | cons k ks ih => unfold sunlinkAll; exact ih (allSorted_sunlink h id k)

theorem symW_sunlinkAll (id : K) (ks : List K) {s : St K} (h : SymW s) : SymW (sunlinkAll id ks s) := by
  induction ks generalizing s with
  | nil => exact h
  | cons k ks ih => unfold sunlinkAll; exact ih (symW_sunlink h id k)

/-! ### SetLinks -/

theorem ssetLinks_unfold {s : St K} {id : K} (req : List K) (hid : exists? s (R id) = true) :
    ssetLinks s id req =
      slinkAll id ((mergeWalk (L s id) (sortK req) [] []).2.1 ++ (mergeWalk (L s id) (sortK req) [] []).1)
        (sunlinkAll id (mergeWalk (L s id) (sortK req) [] []).2.2 s) := by
  obtain ⟨e, hg, hl⟩ := get_of_exists hid
  unfold ssetLinks; rw [hg]; simp only [hl, L]

theorem ssetLinks_missing_local {s : St K} {id : K} (req : List K) (hid : exists? s (R id) = false) :
    ssetLinks s id req = (s, some .missing) := by
  unfold ssetLinks; unfold exists? at hid
  cases hg : s.get (R id) <;> simp_all

/-- set-links leaves exactly the requested set — also when the entity requests, keeps or drops a
    link to itself -/
theorem ssetLinks_ok {s : St K} {id : K} {req : List K} (hs : AllSorted s) (hid : exists? s (R id) = true)
    (hall : ∀ k ∈ req, exists? s (R k) = true) :
    (ssetLinks s id req).2 = none ∧ L (ssetLinks s id req).1 id = dedupK (sortK req) := by
  rw [ssetLinks_unfold req hid]
  obtain ⟨A, B, C⟩ := mergeWalk_sets (L s id) req (hs (R id))
  generalize hw : mergeWalk (L s id) (sortK req) [] [] = w at A B C
  have hid1 : exists? (sunlinkAll id w.2.2 s) (R id) = true := by rw [exists_sunlinkAll]; exact hid
  have hall1 : ∀ k ∈ w.2.1 ++ w.1, exists? (sunlinkAll id w.2.2 s) (R k) = true := by
    intro k hk; rw [exists_sunlinkAll]; exact hall k (B k hk)
  obtain ⟨hok, hmem⟩ := slinkAll_ok id (w.2.1 ++ w.1) hid1 hall1
  refine ⟨hok, ?_⟩
  apply ssorted_ext
  · exact allSorted_slinkAll id _ (allSorted_sunlinkAll id _ hs) (R id)
  · exact ssorted_dedup_sort req
  · intro y
    show y ∈ L _ id ↔ _
    rw [hmem, mem_sunlinkAll, mem_dedup_sort]
    simp only [true_and]
    constructor
    · rintro (⟨h1, h2, _⟩ | h | ⟨h, rfl⟩)
      · exact Classical.byContradiction fun hn => h2 ((A y).mpr ⟨h1, hn⟩)
      · exact B y h
      · exact B y h
    · intro h
      rcases C y h with h' | h'
      · exact Or.inr (Or.inl h')
      · refine Or.inl ⟨h', fun hh => ((A y).mp hh).2 h, ?_⟩
        rintro ⟨hh, rfl⟩
        exact ((A y).mp hh).2 h

theorem ssetLinks_sym {s : St K} {id : K} {req : List K} (h : SymW s) (hok : (ssetLinks s id req).2 = none) :
    SymW (ssetLinks s id req).1 := by
  cases hid : exists? s (R id) with
  | false => rw [ssetLinks_missing_local req hid]; exact h
  | true =>
    rw [ssetLinks_unfold req hid] at hok ⊢
    exact symW_slinkAll id _ (symW_sunlinkAll id _ h) (by rw [exists_sunlinkAll]; exact hid) hok

theorem ssetLinks_allSorted {s : St K} (h : AllSorted s) (id : K) (req : List K) : AllSorted (ssetLinks s id req).1 := by
  cases hid : exists? s (R id) with
  | false => rw [ssetLinks_missing_local req hid]; exact h
  | true => rw [ssetLinks_unfold req hid]; exact allSorted_slinkAll id _ (allSorted_sunlinkAll id _ h)

theorem ssetLinks_missing {s : St K} {id : K} {req : List K} (hs : AllSorted s) (hid : exists? s (R id) = true)
    (hcur : ∀ k ∈ L s id, exists? s (R k) = true) (hmiss : ∃ k ∈ req, exists? s (R k) = false) :
    (ssetLinks s id req).2 = some .notFound := by
  rw [ssetLinks_unfold req hid]
  obtain ⟨_, _, C⟩ := mergeWalk_sets (L s id) req (hs (R id))
  apply slinkAll_missing
  obtain ⟨k, hk, hm⟩ := hmiss
  refine ⟨k, ?_, by rw [exists_sunlinkAll]; exact hm⟩
  rcases C k hk with h | h
  · exact h
  · rw [hcur k h] at hm; cases hm

/-! ### DeleteById -/

theorem mem_foldl_remove (id : K) (Lst : List K) (s : St K) (x y : K) :
    y ∈ L (Lst.foldl (fun s k => symRemoveLink s (R k) id) s) x ↔ y ∈ L s x ∧ ¬(x ∈ Lst ∧ y = id) := by
  induction Lst generalizing s with
  | nil => simp
  | cons k ks ih =>
    simp only [List.foldl_cons]
    rw [ih]
    unfold symRemoveLink
    simp only [L, mem_updL_erase, R_inj, List.mem_cons]
    constructor
    · rintro ⟨⟨h, h1⟩, h2⟩
      refine ⟨h, ?_⟩
      rintro ⟨b | b, c⟩
      · exact h1 ⟨b.symm, c⟩
      · exact h2 ⟨b, c⟩
    · rintro ⟨h, h1⟩
      exact ⟨⟨h, fun ⟨b, c⟩ => h1 ⟨Or.inl b.symm, c⟩⟩, fun ⟨b, c⟩ => h1 ⟨Or.inr b, c⟩⟩

theorem exists_foldl_remove (id : K) (Lst : List K) (s : St K) (r : Ref K) :
    exists? (Lst.foldl (fun s k => symRemoveLink s (R k) id) s) r = exists? s r := by
  induction Lst generalizing s with
  | nil => rfl
  | cons k ks ih => simp only [List.foldl_cons]; rw [ih]; unfold symRemoveLink; rw [exists_upd]

theorem allSorted_foldl_remove (id : K) (Lst : List K) {s : St K} (h : AllSorted s) :
    AllSorted (Lst.foldl (fun s k => symRemoveLink s (R k) id) s) := by
  induction Lst generalizing s with
  | nil => exact h
  | cons k ks ih =>
    simp only [List.foldl_cons]; apply ih
    unfold symRemoveLink; exact allSorted_updL h _ _ (fun _ hl => ssorted_eraseS hl)

theorem sdelete_missing {s : St K} {id : K} (hid : exists? s (R id) = false) : sdelete s id = (s, some .notFound) := by
  unfold sdelete; unfold exists? at hid
  cases hg : s.get (R id) <;> simp_all

theorem sdelete_ok {s : St K} {id : K} (hid : exists? s (R id) = true) :
    (sdelete s id).2 = none ∧
    (∀ r, exists? (sdelete s id).1 r = if R id = r then false else exists? s r) ∧
    (∀ x y, y ∈ L (sdelete s id).1 x ↔ x ≠ id ∧ y ∈ L s x ∧ ¬(x ∈ L s id ∧ y = id)) := by
  obtain ⟨e, he, _⟩ := get_of_exists hid
  have hst : sdelete s id = ((sEntityDeleted s id).del (R id), none) := by unfold sdelete; rw [he]
  refine ⟨by rw [hst], ?_, ?_⟩
  · intro r; rw [hst]; simp only
    rw [exists_del]; unfold sEntityDeleted; rw [exists_foldl_remove]
  · intro x y
    rw [hst]; simp only
    show y ∈ linksOf _ (R x) ↔ _
    rw [linksOf_del]
    by_cases h : R id = R x
    · have : id = x := R_inj.mp h
      subst this; simp
    · have hx : x ≠ id := fun e => h (by rw [e])
      simp only [h, if_false, hx, ne_eq, not_false_eq_true, true_and]
      unfold sEntityDeleted
      exact mem_foldl_remove id (L s id) s x y

theorem sdelete_sym {s : St K} {id : K} (h : SymW s) (hok : (sdelete s id).2 = none) : SymW (sdelete s id).1 := by
  cases hid : exists? s (R id) with
  | false => rw [sdelete_missing hid] at hok; cases hok
  | true =>
    obtain ⟨_, _, hm⟩ := sdelete_ok hid
    intro a b
    rw [hm, hm]
    have h1 := h a b
    have h2 := h id a
    have h3 := h id b
    grind

theorem sdelete_allSorted {s : St K} {id : K} (h : AllSorted s) : AllSorted (sdelete s id).1 := by
  cases hid : exists? s (R id) with
  | false => rw [sdelete_missing hid]; exact h
  | true =>
    obtain ⟨e, he, _⟩ := get_of_exists hid
    have hst : sdelete s id = ((sEntityDeleted s id).del (R id), none) := by unfold sdelete; rw [he]
    rw [hst]; simp only
    apply allSorted_del
    unfold sEntityDeleted
    exact allSorted_foldl_remove id _ h

/-! ### invariants over operations, transactions, histories -/

structure LInvW (s : St K) : Prop where
  sym : SymW s
  sorted : AllSorted s

theorem lInvW_nil : LInvW ([] : St K) := ⟨symW_nil, allSorted_nil⟩

theorem lInvW_create {s : St K} (h : LInvW s) {id : K} (hne : exists? s (R id) = false) : LInvW (s.put (R id) {}) := by
  have f := (create_fresh hne).1
  constructor
  · intro a b; show b ∈ linksOf _ (R a) ↔ a ∈ linksOf _ (R b); rw [f, f]; exact h.sym a b
  · intro r; rw [f]; exact h.sorted r

theorem sstepW_lInv {s : St K} (h : LInvW s) (op : SOp K) (hok : (sstepW s op).err = none) : LInvW (sstepW s op).st := by
  cases op with
  | create id blank links =>
    simp only [sstepW] at hok ⊢
    unfold screate at hok ⊢
    cases blank with
    | true => simp at hok
    | false =>
      simp only [Bool.false_eq_true, if_false] at hok ⊢
      cases hg : s.get (R id) with
      | some e => rw [hg] at hok; simp at hok
      | none =>
        rw [hg] at hok; simp only at hok ⊢
        have hne : exists? s (R id) = false := by simp [exists?, hg]
        have h1 := lInvW_create h hne
        cases links with
        | none => exact h1
        | some ks => simp only at hok ⊢; exact ⟨ssetLinks_sym h1.sym hok, ssetLinks_allSorted h1.sorted _ _⟩
  | delete id =>
    simp only [sstepW] at hok ⊢
    exact ⟨sdelete_sym h.sym hok, sdelete_allSorted h.sorted⟩
  | addLinks id keys =>
    simp only [sstepW] at hok ⊢
    unfold saddLinks at hok ⊢
    cases hg : s.get (R id) with
    | none => rw [hg] at hok; simp at hok
    | some e =>
      rw [hg] at hok; simp only at hok ⊢
      have hid : exists? s (R id) = true := by simp [exists?, hg]
      exact ⟨symW_slinkAll id keys h.sym hid hok, allSorted_slinkAll id keys h.sorted⟩
  | removeLinks id keys =>
    simp only [sstepW] at hok ⊢
    unfold sremoveLinks at hok ⊢
    cases hg : s.get (R id) with
    | none => rw [hg] at hok; simp at hok
    | some e => simp only; exact ⟨symW_sunlinkAll id keys h.sym, allSorted_sunlinkAll id keys h.sorted⟩
  | setLinks id keys =>
    simp only [sstepW] at hok ⊢
    exact ⟨ssetLinks_sym h.sym hok, ssetLinks_allSorted h.sorted _ _⟩
  | addLink id k =>
    simp only [sstepW] at hok ⊢
    unfold saddLink at hok ⊢
    cases hg : s.get (R id) with
    | none => rw [hg] at hok; simp at hok
    | some e =>
      rw [hg] at hok; simp only at hok ⊢
      have hid : exists? s (R id) = true := by simp [exists?, hg]
      rcases slink_err_or_ok s id k with ⟨e1, _⟩ | ⟨_, e2⟩
      · rw [e1] at hok; cases hok
      · exact ⟨symW_slink h.sym e2 hid, allSorted_slink h.sorted id k⟩
  | removeLink id k =>
    simp only [sstepW] at hok ⊢
    unfold sremoveLink at hok ⊢
    cases hg : s.get (R id) with
    | none => rw [hg] at hok; simp at hok
    | some e => simp only; exact ⟨symW_sunlink h.sym id k, allSorted_sunlink h.sorted id k⟩
  | getLinks id => exact h

theorem srunOpsW_cons_err {s : St K} {op : SOp K} {ops : List (SOp K)} {e : Err} (h : (sstepW s op).err = some e) :
    srunOpsW s (op :: ops) = ((sstepW s op).st, true) := by simp only [srunOpsW, h]

theorem srunOpsW_cons_ok {s : St K} {op : SOp K} {ops : List (SOp K)} (h : (sstepW s op).err = none) :
    srunOpsW s (op :: ops) = srunOpsW (sstepW s op).st ops := by simp only [srunOpsW, h]

theorem srunOpsW_lInv {s : St K} (h : LInvW s) (ops : List (SOp K)) (hok : (srunOpsW s ops).2 = false) :
    LInvW (srunOpsW s ops).1 := by
  induction ops generalizing s with
  | nil => exact h
  | cons op ops ih =>
    cases he : (sstepW s op).err with
    | some e => rw [srunOpsW_cons_err he] at hok; simp at hok
    | none => rw [srunOpsW_cons_ok he] at hok ⊢; exact ih (sstepW_lInv h op he) hok

theorem scommitW_lInv {s : St K} (h : LInvW s) (ops : List (SOp K)) : LInvW (scommitW s ops) := by
  unfold scommitW
  cases hf : (srunOpsW s ops).2 with
  | true => simp only [hf, if_true]; exact h
  | false => simp only [hf, Bool.false_eq_true, if_false]; exact srunOpsW_lInv h ops hf

theorem srunHistW_lInv {s : St K} (h : LInvW s) (txs : List (List (SOp K))) : LInvW (srunHistW s txs) := by
  induction txs generalizing s with
  | nil => exact h
  | cons tx txs ih => exact ih (scommitW_lInv h tx)

end
end StorageModel.C05.SelfW
