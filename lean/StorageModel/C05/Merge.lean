import StorageModel.C05.Links
/-
  C05 — the sorted-merge loop of `SetLinks`: for every strictly sorted current key list and every
  sorted request (duplicates allowed) the walk computes  toRemove = cur \ req  and
  toAdd ∪ leftover ⊆ req ⊆ toAdd ∪ leftover ∪ cur.
-/
set_option linter.unusedSectionVars false
namespace StorageModel.C05

section
variable {K : Type} [KOrd K] [DecidableEq K]
open KOrd

theorem wsorted_tail {k : K} {ks : List K} (h : WSorted (k :: ks)) : WSorted ks :=
  (List.pairwise_cons.mp h).2

theorem wsorted_head {k : K} {ks : List K} (h : WSorted (k :: ks)) : ∀ x ∈ ks, lt x k = false :=
  (List.pairwise_cons.mp h).1

/-- the inner loop for one row -/
theorem mergeRow_spec (row : K) (skip : Option K) (keys toAdd : List K) (hs : WSorted keys)
    (hskip : ∀ c, skip = some c → c ∈ toAdd ∧ lt c row = true) :
    let r := mergeRow row skip keys toAdd
    (∀ x, x ∈ r.2.1 ↔ x ∈ toAdd ∨ (x ∈ keys ∧ lt x row = true)) ∧
    (∀ x, x ∈ r.1 → x ∈ keys ∧ lt x row = false) ∧
    (∀ x, x ∈ keys → lt row x = true → x ∈ r.1) ∧
    (r.2.2 = true ↔ row ∉ keys) ∧
    WSorted r.1 := by
  induction keys generalizing skip toAdd with
  | nil => simp [mergeRow, WSorted]
  | cons k ks ih =>
    have hks := wsorted_tail hs
    have hhead := wsorted_head hs
    unfold mergeRow
    split
    · -- duplicate of the key just added: skipped
      next hsk =>
      obtain ⟨hc1, hc2⟩ := hskip k hsk
      have := ih skip toAdd hks hskip
      obtain ⟨a, b, c, d, e⟩ := this
      refine ⟨?_, ?_, ?_, ?_, e⟩
      · intro x; rw [a x]; simp only [List.mem_cons]
        constructor
        · rintro (h | ⟨h1, h2⟩)
          · exact Or.inl h
          · exact Or.inr ⟨Or.inr h1, h2⟩
        · rintro (h | ⟨rfl | h1, h2⟩)
          · exact Or.inl h
          · exact Or.inl hc1
          · exact Or.inr ⟨h1, h2⟩
      · intro x hx; have := b x hx; exact ⟨List.mem_cons_of_mem _ this.1, this.2⟩
      · intro x hx hlt
        rcases List.mem_cons.mp hx with rfl | hx
        · rw [asymm hc2] at hlt; cases hlt
        · exact c x hx hlt
      · rw [d]; simp only [List.mem_cons, not_or]
        constructor
        · intro h; exact ⟨fun e => (by subst e; rw [irrefl] at hc2; cases hc2), h⟩
        · intro h; exact h.2
    · split
      · -- compare < cursorCurrent: add, then skip its duplicates
        next _ hlt =>
        have := ih (some k) (toAdd ++ [k]) hks (by
          intro c hc; cases hc; exact ⟨by simp, hlt⟩)
        obtain ⟨a, b, c, d, e⟩ := this
        refine ⟨?_, ?_, ?_, ?_, e⟩
        · intro x; rw [a x]; simp only [List.mem_append, List.mem_cons, List.mem_nil_iff, or_false]
          constructor
          · rintro ((h | rfl) | ⟨h1, h2⟩)
            · exact Or.inl h
            · exact Or.inr ⟨Or.inl rfl, hlt⟩
            · exact Or.inr ⟨Or.inr h1, h2⟩
          · rintro (h | ⟨rfl | h1, h2⟩)
            · exact Or.inl (Or.inl h)
            · exact Or.inl (Or.inr rfl)
            · exact Or.inr ⟨h1, h2⟩
        · intro x hx; have := b x hx; exact ⟨List.mem_cons_of_mem _ this.1, this.2⟩
        · intro x hx hl
          rcases List.mem_cons.mp hx with rfl | hx
          · rw [asymm hlt] at hl; cases hl
          · exact c x hx hl
        · rw [d]; simp only [List.mem_cons, not_or]
          constructor
          · intro h; exact ⟨fun e => (by subst e; rw [irrefl] at hlt; cases hlt), h⟩
          · intro h; exact h.2
      · next _ hnlt =>
        have hnlt' : lt k row = false := by simpa using hnlt
        split
        · -- compare > cursorCurrent: the row is removed, keys stay
          next hgt =>
          have hall : ∀ x ∈ k :: ks, lt x row = false := by
            intro x hx
            rcases List.mem_cons.mp hx with rfl | hx
            · exact hnlt'
            · cases hxr : lt x row with
              | false => rfl
              | true =>
                have := trans _ _ _ hxr hgt
                rw [hhead x hx] at this; cases this
          refine ⟨?_, ?_, ?_, ?_, hs⟩
          · intro x; constructor
            · intro h; exact Or.inl h
            · rintro (h | ⟨h1, h2⟩)
              · exact h
              · rw [hall x h1] at h2; cases h2
          · intro x hx; exact ⟨hx, hall x hx⟩
          · intro x hx _; exact hx
          · simp only [true_iff]
            intro hmem
            have := hall row hmem
            rcases List.mem_cons.mp hmem with rfl | hm
            · rw [irrefl] at hgt; cases hgt
            · have h2 := hhead row hm
              rw [hgt] at h2; cases h2
        · -- equal: consume one request
          next hngt =>
          have hngt' : lt row k = false := by simpa using hngt
          have heq : k = row := eq_of_not_lt hnlt' hngt'
          subst heq
          refine ⟨?_, ?_, ?_, ?_, hks⟩
          · intro x; constructor
            · intro h; exact Or.inl h
            · rintro (h | ⟨h1, h2⟩)
              · exact h
              · rcases List.mem_cons.mp h1 with rfl | h1
                · rw [irrefl] at h2; cases h2
                · rw [hhead x h1] at h2; cases h2
          · intro x hx; exact ⟨List.mem_cons_of_mem _ hx, hhead x hx⟩
          · intro x hx hl
            rcases List.mem_cons.mp hx with rfl | hx
            · rw [irrefl] at hl; cases hl
            · exact hx
          · simp

/-- the whole cursor walk -/
theorem mergeWalk_spec (rows keys toAdd toRemove : List K) (hr : SSorted rows) (hk : WSorted keys) :
    let r := mergeWalk rows keys toAdd toRemove
    (∀ x, x ∈ r.2.2 ↔ x ∈ toRemove ∨ (x ∈ rows ∧ x ∉ keys)) ∧
    (∀ x, x ∈ r.2.1 → x ∈ toAdd ∨ x ∈ keys) ∧
    (∀ x, x ∈ toAdd → x ∈ r.2.1) ∧
    (∀ x, x ∈ r.1 → x ∈ keys) ∧
    (∀ x, x ∈ keys → x ∈ r.2.1 ∨ x ∈ r.1 ∨ x ∈ rows) := by
  induction rows generalizing keys toAdd toRemove with
  | nil =>
    simp only [mergeWalk]
    exact ⟨fun _ => by simp, fun _ h => Or.inl h, fun _ h => h, fun _ h => h, fun _ h => Or.inr (Or.inl h)⟩
  | cons row rows ih =>
    have hrows := (List.pairwise_cons.mp hr).2
    have hrow := (List.pairwise_cons.mp hr).1
    obtain ⟨a, b, c, d, e⟩ := mergeRow_spec row none keys toAdd hk (by intro c hc; cases hc)
    unfold mergeWalk
    simp only
    have := ih (mergeRow row none keys toAdd).1 (mergeRow row none keys toAdd).2.1
      (if (mergeRow row none keys toAdd).2.2 then toRemove ++ [row] else toRemove) hrows e
    obtain ⟨A, B, C, D, E⟩ := this
    -- membership of later rows in the remaining keys is membership in the original keys
    have hlater : ∀ x ∈ rows, (x ∈ (mergeRow row none keys toAdd).1 ↔ x ∈ keys) := by
      intro x hx
      constructor
      · intro h; exact (b x h).1
      · intro h; exact c x h (hrow x hx)
    refine ⟨?_, ?_, ?_, ?_, ?_⟩
    · intro x
      rw [A x]
      simp only [List.mem_cons]
      constructor
      · rintro (h | ⟨h1, h2⟩)
        · split at h
          · next hrem =>
            rcases List.mem_append.mp h with h | h
            · exact Or.inl h
            · simp only [List.mem_cons, List.mem_nil_iff, or_false] at h
              subst h; exact Or.inr ⟨Or.inl rfl, d.mp hrem⟩
          · exact Or.inl h
        · exact Or.inr ⟨Or.inr h1, fun hk' => h2 ((hlater x h1).mpr hk')⟩
      · rintro (h | ⟨rfl | h1, h2⟩)
        · left; split
          · exact List.mem_append_left _ h
          · exact h
        · left
          have : (mergeRow x none keys toAdd).2.2 = true := d.mpr h2
          rw [this]; simp
        · exact Or.inr ⟨h1, fun hk' => h2 ((hlater x h1).mp hk')⟩
    · intro x hx
      rcases B x hx with h | h
      · rcases (a x).mp h with h | ⟨h, _⟩
        · exact Or.inl h
        · exact Or.inr h
      · exact Or.inr (b x h).1
    · intro x hx; exact C x ((a x).mpr (Or.inl hx))
    · intro x hx; exact (b x (D x hx)).1
    · intro x hx
      rcases tri x row with h | h | h
      · exact Or.inl (C x ((a x).mpr (Or.inr ⟨hx, h⟩)))
      · subst h; exact Or.inr (Or.inr (by simp))
      · rcases E x (c x hx h) with h' | h' | h'
        · exact Or.inl h'
        · exact Or.inr (Or.inl h')
        · exact Or.inr (Or.inr (List.mem_cons_of_mem _ h'))

/-- `SetLinks` on the sorted request: removals are exactly `cur \ req`; additions and leftovers
    are requested keys and cover `req \ cur` -/
theorem mergeWalk_sets (cur req : List K) (hc : SSorted cur) :
    let r := mergeWalk cur (sortK req) [] []
    (∀ x, x ∈ r.2.2 ↔ (x ∈ cur ∧ x ∉ req)) ∧
    (∀ x, x ∈ r.2.1 ++ r.1 → x ∈ req) ∧
    (∀ x, x ∈ req → x ∈ r.2.1 ++ r.1 ∨ x ∈ cur) := by
  obtain ⟨A, B, _, D, E⟩ := mergeWalk_spec cur (sortK req) [] [] hc (wsorted_sortK req)
  refine ⟨?_, ?_, ?_⟩
  · intro x; rw [A x]; simp [mem_sortK]
  · intro x hx
    rcases List.mem_append.mp hx with h | h
    · rcases B x h with h | h
      · cases h
      · exact mem_sortK.mp h
    · exact mem_sortK.mp (D x h)
  · intro x hx
    rcases E x (mem_sortK.mpr hx) with h | h | h
    · exact Or.inl (List.mem_append_left _ h)
    · exact Or.inl (List.mem_append_right _ h)
    · exact Or.inr h

end
end StorageModel.C05
