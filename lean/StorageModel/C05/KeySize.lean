import StorageModel.C05.SchemaSpec
/-
  C05 — the KEY-SIZE boundary of ids in link operations.

  bbolt accepts a bucket name of any length (an entity id is a bucket name) but `Put` refuses a key
  longer than `MaxKeySize` = 32768 bytes, and a link / count entry's key is the type byte plus the
  OTHER entity's id: an id of >= 32768 bytes (`big`) cannot be stored as a link key.  What the code
  does with bbolt's "key too large" (observed on the tree and followed here, operation by operation):

    * `SetListEntry` / `CheckAndSetListEntry` (AddLinks, AddLink, SetLinks' additions, SetLinkedIds) and
      `IncrementLinkCount` return the error: the operation fails — before anything is written when the
      key of the LOCAL entry is big, after the local entry was written when the key of the peer's entry
      (the local id) is big; the transaction is rolled back;
    * `TypedBucket.SetLinkCount(…, count ≠ 0)` likewise since fix 2a864e9 (before it the error was
      dropped — `bucket.SetInt32(…); return current, nil` — the entry with the big key was silently not
      written, the other side was, the call succeeded and the two sides disagreed: found by this check;
      `rcSetK_before_2a864e9`);
    * removals, decrements, `SetLinkCount(…, 0)`, reads and the delete clean-up never `Put` a new key.

  `gstepK` = `gstep` whenever no id or key of the operation is big (`gstepK_small`, by definition).
  The specification (`gsstepK`): an operation that would have to store a big key fails (and the
  transaction with it); everything else is C05/SchemaSpec.lean.
-/
set_option linter.unusedSectionVars false
namespace StorageModel.C05.Schema
open StorageModel.C05

inductive KErr
  | base (e : Err)
  | tooLarge            -- bbolt: "key too large"
  deriving DecidableEq, Repr

section
variable {K : Type} [KOrd K] [DecidableEq K]

structure KOut (K : Type) where
  st : GSt K
  ret : Ret K := .unit
  err : Option KErr := none

def liftOut (o : GOut K) : KOut K := { st := o.st, ret := o.ret, err := o.err.map .base }

/-- `linkCollectionImpl.link` with bbolt's key-size check -/
def linkK (big : K → Bool) (s : St K) (sd : Side) (id k : K) : St K × Option KErr :=
  if big k then (s, some .tooLarge)                       -- the local entry's key
  else
    let s1 := upd s (sd, id) fun e => { e with links := insertS k e.links }
    match s1.get (sd.other, k) with
    | none => (s1, some (.base .notFound))
    | some _ =>
      if big id then (s1, some .tooLarge)                 -- the peer's entry is keyed by the local id
      else ((symAddLink s1 (sd.other, k) id).1, none)

def linkAllK (big : K → Bool) (sd : Side) (id : K) : List K → St K → St K × Option KErr
  | [], s => (s, none)
  | k :: ks, s =>
    match linkK big s sd id k with
    | (s', some e) => (s', some e)
    | (s', none) => linkAllK big sd id ks s'

def addLinksK (big : K → Bool) (s : St K) (sd : Side) (id : K) (keys : List K) : St K × Option KErr :=
  match s.get (sd, id) with
  | none => (s, some (.base .missing))
  | some _ => linkAllK big sd id keys s

/-- `checkAndLink`: a failing local write returns `changed = false` -/
def addLinkK (big : K → Bool) (s : St K) (sd : Side) (id k : K) : St K × Bool × Option KErr :=
  match s.get (sd, id) with
  | none => (s, false, some (.base .missing))
  | some e =>
    if big k then (s, false, some .tooLarge)
    else
      let r := linkK big s sd id k
      (r.1, !(e.links.contains k), r.2)

def setLinksK (big : K → Bool) (s : St K) (sd : Side) (id : K) (keys : List K) : St K × Option KErr :=
  match s.get (sd, id) with
  | none => (s, some (.base .missing))
  | some e =>
    let w := mergeWalk e.links (sortK keys) [] []
    linkAllK big sd id (w.2.1 ++ w.1) (unlinkAll sd id w.2.2 s)

/-- `IncrementLinkCount`: both `TypedBucket.IncrementLinkCount` calls return the bucket error -/
def rcIncrK (big : K → Bool) (s : St K) (sd : Side) (id k : K) : St K × Int × Option KErr :=
  match s.get (sd, id) with
  | none => (s, 0, some (.base .missing))
  | some e =>
    if big k then (s, 0, some .tooLarge)
    else
      let s1 := s.put (sd, id) (bucketIncr e k).1
      match s1.get (sd.other, k) with
      | none => (s1, 0, some (.base .notFound))
      | some _ =>
        if big id then (s1, 0, some .tooLarge)
        else let r := rcIncr s sd id k; (r.1, r.2.1, r.2.2.map .base)

/-- `SetLinkCount` (since fix 2a864e9 `TypedBucket.SetLinkCount` returns the bucket error after
    `SetInt32`): like `IncrementLinkCount` — a non-zero count under a big key is an error, before anything
    is written when the local entry's key is big, after the local entry when the peer's is -/
def rcSetK (big : K → Bool) (s : St K) (sd : Side) (id k : K) (count : Int) :
    St K × Option Int × Option Int × Option KErr :=
  match s.get (sd, id) with
  | none => (s, none, none, some (.base .missing))
  | some e =>
    if big k && count != 0 then (s, none, none, some .tooLarge)
    else
      let s1 := s.put (sd, id) (bucketSet e k count).1
      match s1.get (sd.other, k) with
      | none => (s1, none, none, some (.base .notFound))
      | some _ =>
        if big id && count != 0 then (s1, none, none, some .tooLarge)
        else let r := rcSet s sd id k count; (r.1, r.2.1, r.2.2.1, r.2.2.2.map .base)

/-- the behaviour before fix 2a864e9: `TypedBucket.SetLinkCount` dropped the error of a refused `Put`
    (`bucket.SetInt32(…); return current, nil`) — the entry with the big key was silently not written, the
    other side was, the call succeeded -/
def rcSetK_before_2a864e9 (big : K → Bool) (s : St K) (sd : Side) (id k : K) (count : Int) :
    St K × Option Int × Option Int × Option KErr :=
  match s.get (sd, id) with
  | none => (s, none, none, some (.base .missing))
  | some e =>
    let l := if big k && count != 0 then (e, e.rc.get k) else bucketSet e k count
    let s1 := s.put (sd, id) l.1
    match s1.get (sd.other, k) with
    | none => (s1, none, none, some (.base .notFound))
    | some o =>
      let r := if big id && count != 0 then (o, o.rc.get id) else bucketSet o id count
      (s1.put (sd.other, k) r.1, l.2, r.2, none)

def GOp.keys : GOp K → List K
  | .create _ id _ links => id :: (match links with | some (_, ks) => ks | none => [])
  | .update _ id _ ks _ => id :: ks
  | .delete _ id => [id]
  | .link _ op =>
    match op with
    | .addLinks _ id ks => id :: ks
    | .removeLinks _ id ks => id :: ks
    | .setLinks _ id ks => id :: ks
    | .addLink _ id k => [id, k]
    | .removeLink _ id k => [id, k]
    | .getLinks _ id => [id]
    | .isLinked _ id k => [id, k]
  | .count _ op =>
    match op with
    | .incr _ id k => [id, k]
    | .decr _ id k => [id, k]
    | .setCount _ id k _ => [id, k]
    | .getCounts _ id k => [id, k]

/-- `SetLinkedIds` on a plain collection, with the key-size check -/
def gsetLinksK (sc : Schema) (big : K → Bool) (g : GSt K) (x : Store) (i : Nat) (id : K) (keys : List K) :
    GSt K × Option KErr :=
  match sc.colls[i]? with
  | some (.plain ca cb) =>
    match (Coll.plain ca cb).sideOf x with
    | some sd => let r := setLinksK big (g.slots i) sd id keys; (g.setSlot i r.1, r.2)
    | none => (g, some (.base .missing))
  | _ => let r := gsetLinks sc g x i id keys; (r.1, r.2.map .base)

/-- one operation, with bbolt's key-size limit: exactly `gstep` when no id or key is big -/
def gstepK (sc : Schema) (big : K → Bool) (g : GSt K) (op : GOp K) : KOut K :=
  if op.keys.all (fun k => !big k) then liftOut (gstep sc g op)
  else
    match op with
    | .create x id blank (some (i, keys)) =>
      -- the entity bucket itself can be created (a bucket name may be long); then `SetLinkedIds`
      let r := gcreate sc g x id blank none
      match r.2 with
      | some e => { st := r.1, err := some (.base e) }
      | none => let r2 := gsetLinksK sc big r.1 x i id keys; { st := r2.1, err := r2.2 }
    | .update x id i keys true =>
      if g.ents x id = false then { st := g, err := some (.base .notFound) }
      else let r := gsetLinksK sc big g x i id keys; { st := r.1, err := r.2 }
    | .link i (.addLinks sd id keys) =>
      match sc.colls[i]? with
      | some (.plain _ _) => let r := addLinksK big (g.slots i) sd id keys; { st := g.setSlot i r.1, err := r.2 }
      | _ => liftOut (gstep sc g op)
    | .link i (.setLinks sd id keys) =>
      match sc.colls[i]? with
      | some (.plain _ _) => let r := setLinksK big (g.slots i) sd id keys; { st := g.setSlot i r.1, err := r.2 }
      | _ => liftOut (gstep sc g op)
    | .link i (.addLink sd id k) =>
      match sc.colls[i]? with
      | some (.plain _ _) =>
        let r := addLinkK big (g.slots i) sd id k; { st := g.setSlot i r.1, ret := .bool r.2.1, err := r.2.2 }
      | _ => liftOut (gstep sc g op)
    | .count i (.incr sd id k) =>
      match sc.colls[i]? with
      | some (.rc _ _) =>
        let r := rcIncrK big (g.slots i) sd id k; { st := g.setSlot i r.1, ret := .int r.2.1, err := r.2.2 }
      | _ => liftOut (gstep sc g op)
    | .count i (.setCount sd id k c) =>
      match sc.colls[i]? with
      | some (.rc _ _) =>
        let r := rcSetK big (g.slots i) sd id k c
        { st := g.setSlot i r.1, ret := .olds r.2.1 r.2.2.1, err := r.2.2.2 }
      | _ => liftOut (gstep sc g op)
    -- removals, decrements, reads, entity create / delete never store a new link key
    | _ => liftOut (gstep sc g op)

/-- with ids below the key-size limit nothing changes -/
theorem gstepK_small (sc : Schema) (big : K → Bool) (g : GSt K) (op : GOp K)
    (h : ∀ k ∈ op.keys, big k = false) : gstepK sc big g op = liftOut (gstep sc g op) := by
  unfold gstepK
  have : op.keys.all (fun k => !big k) = true := by
    rw [List.all_eq_true]; intro k hk; simp [h k hk]
  simp [this]

/-! ### the specification -/

/-- the operation would have to store a link / count entry under a big key -/
def putsBig (big : K → Bool) : GOp K → Bool
  | .create _ id _ (some (_, keys)) => keys.any big || (big id && !keys.isEmpty)
  | .update _ id _ keys true => keys.any big || (big id && !keys.isEmpty)
  | .link _ (.addLinks _ id keys) => keys.any big || (big id && !keys.isEmpty)
  | .link _ (.setLinks _ id keys) => keys.any big || (big id && !keys.isEmpty)
  | .link _ (.addLink _ id k) => big id || big k
  | .count _ (.incr _ id k) => big id || big k
  | .count _ (.setCount _ id k c) => c != 0 && (big id || big k)
  | _ => false

/-- an operation either fails (leaving, after the rollback, both sides unchanged) or succeeds
    symmetrically: one that would have to store a big key cannot succeed symmetrically, so it fails -/
def gsstepK (sc : Schema) (big : K → Bool) (g : GSSt K) (op : GOp K) : Option (GSSt K × Ret K) :=
  if putsBig big op then none else gsstep sc g op

end

/-! ### on Nat keys with `big n := n ≥ 100` -/

/-- `SetLinkCount(7, 100, 3)` and `IncrementLinkCount` of that pair fail with key-too-large from either
    side; before fix 2a864e9 the `SetLinkCount` succeeded and left B.100 with count 3 for A.7 while A.7
    held nothing for B.100 (found by this check) -/
example :
    let big : Nat → Bool := fun n => decide (n ≥ 100)
    let s : St Nat := [((.A, 7), {}), ((.B, 100), {})]
    (rcSetK big s .A 7 100 3).2.2.2 = some .tooLarge ∧ rcOf (rcSetK big s .A 7 100 3).1 (.B, 100) 7 = none ∧
    (rcSetK big s .B 100 7 3).2.2.2 = some .tooLarge ∧ (rcSetK big s .A 7 100 0).2.2.2 = none ∧
    (rcIncrK big s .A 7 100).2.2 = some .tooLarge ∧ (rcIncrK big s .B 100 7).2.2 = some .tooLarge ∧
    (rcSetK_before_2a864e9 big s .A 7 100 3).2.2.2 = none ∧
    rcOf (rcSetK_before_2a864e9 big s .A 7 100 3).1 (.B, 100) 7 = some 3 ∧
    rcOf (rcSetK_before_2a864e9 big s .A 7 100 3).1 (.A, 7) 100 = none := by decide

end StorageModel.C05.Schema
