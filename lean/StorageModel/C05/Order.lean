import StorageModel.Base.Bytes
/-
  C05 — keys, their order, and sorted key lists.

  Link ids are Go strings; `sort.Strings`, the `<`/`>` comparisons of `SetLinks` and the key order
  of a bbolt bucket (`bytes.Compare`) are all the byte-wise lexicographic order.  The model is
  written over an abstract key type with a strict total order (`KOrd`), and instantiated with
  `Bytes` (lexicographic order on `List UInt8`) in the driver; the `Bytes` instance is proved
  here, so the theorems hold for the order the Go code uses.

  A link bucket (keys in `bytes.Compare` order, no duplicates) is a strictly sorted `List K`.
-/
set_option linter.unusedSectionVars false
namespace StorageModel.C05

/-- strict total order with decidable comparison -/
class KOrd (K : Type) where
  lt : K → K → Bool
  irrefl : ∀ a, lt a a = false
  trans : ∀ a b c, lt a b = true → lt b c = true → lt a c = true
  tri : ∀ a b, lt a b = true ∨ a = b ∨ lt b a = true

namespace KOrd
variable {K : Type} [KOrd K]

theorem asymm {a b : K} (h : lt a b = true) : lt b a = false := by
  cases hb : lt b a with
  | false => rfl
  | true => have := trans a b a h hb; rw [irrefl] at this; cases this

theorem ne_of_lt {a b : K} (h : lt a b = true) : a ≠ b := by
  intro e; subst e; rw [irrefl] at h; cases h

theorem eq_of_not_lt {a b : K} (h1 : lt a b = false) (h2 : lt b a = false) : a = b := by
  rcases tri a b with h | h | h
  · rw [h1] at h; cases h
  · exact h
  · rw [h2] at h; cases h

end KOrd

/-! ### lexicographic order on byte strings (= Go string comparison = bytes.Compare) -/

def bytesLt : List UInt8 → List UInt8 → Bool
  | [], [] => false
  | [], _ :: _ => true
  | _ :: _, [] => false
  | a :: as, b :: bs => decide (a < b) || (decide (a = b) && bytesLt as bs)

theorem bytesLt_irrefl : ∀ a, bytesLt a a = false
  | [] => rfl
  | a :: as => by
    have : ¬ a < a := by rw [UInt8.lt_iff_toNat_lt]; omega
    simp [bytesLt, this, bytesLt_irrefl as]

theorem bytesLt_trans : ∀ a b c, bytesLt a b = true → bytesLt b c = true → bytesLt a c = true
  | [], [], _, h, _ => by simp [bytesLt] at h
  | [], _ :: _, [], _, h => by simp [bytesLt] at h
  | [], _ :: _, _ :: _, _, _ => by simp [bytesLt]
  | _ :: _, [], _, h, _ => by simp [bytesLt] at h
  | _ :: _, _ :: _, [], _, h => by simp [bytesLt] at h
  | a :: as, b :: bs, c :: cs, h1, h2 => by
    simp only [bytesLt, Bool.or_eq_true, Bool.and_eq_true, decide_eq_true_eq] at h1 h2 ⊢
    rcases h1 with h1 | ⟨h1, t1⟩ <;> rcases h2 with h2 | ⟨h2, t2⟩
    · left; rw [UInt8.lt_iff_toNat_lt] at *; omega
    · subst h2; left; exact h1
    · subst h1; left; exact h2
    · subst h1; subst h2; right; exact ⟨rfl, bytesLt_trans as bs cs t1 t2⟩

theorem bytesLt_tri : ∀ a b, bytesLt a b = true ∨ a = b ∨ bytesLt b a = true
  | [], [] => by simp
  | [], _ :: _ => by simp [bytesLt]
  | _ :: _, [] => by simp [bytesLt]
  | a :: as, b :: bs => by
    simp only [bytesLt, Bool.or_eq_true, Bool.and_eq_true, decide_eq_true_eq, List.cons.injEq]
    by_cases hab : a < b
    · left; left; exact hab
    · by_cases hba : b < a
      · right; right; left; exact hba
      · have e : a = b := by
          apply UInt8.toNat_inj.mp
          rw [UInt8.lt_iff_toNat_lt] at hab hba; omega
        subst e
        rcases bytesLt_tri as bs with h | h | h
        · left; right; exact ⟨rfl, h⟩
        · right; left; exact ⟨rfl, h⟩
        · right; right; right; exact ⟨rfl, h⟩

instance : KOrd Bytes where
  lt := bytesLt
  irrefl := bytesLt_irrefl
  trans := bytesLt_trans
  tri := bytesLt_tri

instance : KOrd Nat where
  lt a b := decide (a < b)
  irrefl a := by simp
  trans a b c h1 h2 := by simp at *; omega
  tri a b := by simp; omega

/-! ### sorted key lists -/

section
variable {K : Type} [KOrd K] [DecidableEq K]
open KOrd

/-- strictly increasing: the key list of a bbolt bucket -/
def SSorted (l : List K) : Prop := l.Pairwise (fun a b => lt a b = true)

/-- non-strictly increasing: a `sort.Strings` result (duplicates allowed) -/
def WSorted (l : List K) : Prop := l.Pairwise (fun a b => lt b a = false)

/-- `bucket.Put(key)` into a key list kept in key order (idempotent on an existing key) -/
def insertS (k : K) : List K → List K
  | [] => [k]
  | x :: xs => if lt k x then k :: x :: xs else if k = x then x :: xs else x :: insertS k xs

/-- `bucket.Delete(key)` -/
def eraseS (k : K) (l : List K) : List K := l.filter (fun x => x ≠ k)

/-- insertion of one element into a sorted list keeping duplicates (`sort.Strings`, one step) -/
def insertW (k : K) : List K → List K
  | [] => [k]
  | x :: xs => if lt x k then x :: insertW k xs else k :: x :: xs

/-- `sort.Strings`: insertion sort, duplicates kept -/
def sortK (l : List K) : List K := l.foldr insertW []

/-- drop adjacent duplicates of a sorted list -/
def dedupK : List K → List K
  | [] => []
  | [x] => [x]
  | x :: y :: r => if x = y then dedupK (y :: r) else x :: dedupK (y :: r)

theorem mem_insertS {k x : K} {l : List K} : x ∈ insertS k l ↔ x = k ∨ x ∈ l := by
  induction l with
  | nil => simp [insertS]
  | cons y ys ih =>
    unfold insertS
    split
    · simp
    · split
      · next h => subst h; simp
      · simp [ih]; constructor
        · rintro (h | h | h) <;> simp [h]
        · rintro (h | h | h) <;> simp [h]

theorem mem_eraseS {k x : K} {l : List K} : x ∈ eraseS k l ↔ x ∈ l ∧ x ≠ k := by
  simp [eraseS, List.mem_filter]

theorem ssorted_nil : SSorted ([] : List K) := List.Pairwise.nil

theorem ssorted_insertS {k : K} {l : List K} (h : SSorted l) : SSorted (insertS k l) := by
  induction l with
  | nil => simp [insertS, SSorted]
  | cons y ys ih =>
    have hy := List.pairwise_cons.mp h
    unfold insertS
    split
    · next hlt =>
      apply List.pairwise_cons.mpr
      refine ⟨?_, h⟩
      intro a ha
      rcases List.mem_cons.mp ha with rfl | ha
      · exact hlt
      · exact trans _ _ _ hlt (hy.1 a ha)
    · next hnlt =>
      split
      · exact h
      · next hne =>
        apply List.pairwise_cons.mpr
        refine ⟨?_, ih hy.2⟩
        intro a ha
        rcases mem_insertS.mp ha with rfl | ha
        · rcases tri a y with h1 | h1 | h1
          · simp [h1] at hnlt
          · exact absurd h1 hne
          · exact h1
        · exact hy.1 a ha

theorem ssorted_eraseS {k : K} {l : List K} (h : SSorted l) : SSorted (eraseS k l) :=
  List.Pairwise.sublist List.filter_sublist h

/-- two strictly sorted lists with the same members are equal -/
theorem ssorted_ext : ∀ {l₁ l₂ : List K}, SSorted l₁ → SSorted l₂ → (∀ x, x ∈ l₁ ↔ x ∈ l₂) → l₁ = l₂
  | [], [], _, _, _ => rfl
  | [], y :: ys, _, _, h => by have := (h y).mpr (by simp); simp at this
  | x :: xs, [], _, _, h => by have := (h x).mp (by simp); simp at this
  | x :: xs, y :: ys, h1, h2, h => by
    have p1 := List.pairwise_cons.mp h1
    have p2 := List.pairwise_cons.mp h2
    have hxy : x = y := by
      have hx := (h x).mp (by simp)
      have hy := (h y).mpr (by simp)
      rcases List.mem_cons.mp hx with e | hx'
      · exact e
      · rcases List.mem_cons.mp hy with e | hy'
        · exact e.symm
        · have a := p2.1 x hx'
          have b := p1.1 y hy'
          rw [asymm a] at b; cases b
    subst hxy
    have : xs = ys := by
      apply ssorted_ext p1.2 p2.2
      intro z
      constructor
      · intro hz
        have := (h z).mp (List.mem_cons_of_mem _ hz)
        rcases List.mem_cons.mp this with e | hz'
        · subst e; have := p1.1 z hz; rw [irrefl] at this; cases this
        · exact hz'
      · intro hz
        have := (h z).mpr (List.mem_cons_of_mem _ hz)
        rcases List.mem_cons.mp this with e | hz'
        · subst e; have := p2.1 z hz; rw [irrefl] at this; cases this
        · exact hz'
    rw [this]

theorem mem_insertW {k x : K} {l : List K} : x ∈ insertW k l ↔ x = k ∨ x ∈ l := by
  induction l with
  | nil => simp [insertW]
  | cons y ys ih =>
    unfold insertW
    split
    · simp [ih]; constructor
      · rintro (h | h | h) <;> simp [h]
      · rintro (h | h | h) <;> simp [h]
    · simp

theorem mem_sortK {x : K} {l : List K} : x ∈ sortK l ↔ x ∈ l := by
  induction l with
  | nil => simp [sortK]
  | cons y ys ih =>
    have : sortK (y :: ys) = insertW y (sortK ys) := rfl
    rw [this, mem_insertW, ih]; simp

theorem wsorted_insertW {k : K} {l : List K} (h : WSorted l) : WSorted (insertW k l) := by
  induction l with
  | nil => simp [insertW, WSorted]
  | cons y ys ih =>
    have hy := List.pairwise_cons.mp h
    unfold insertW
    split
    · next hlt =>
      apply List.pairwise_cons.mpr
      refine ⟨?_, ih hy.2⟩
      intro a ha
      rcases mem_insertW.mp ha with rfl | ha
      · exact asymm hlt
      · exact hy.1 a ha
    · next hnlt =>
      apply List.pairwise_cons.mpr
      refine ⟨?_, h⟩
      intro a ha
      rcases List.mem_cons.mp ha with rfl | ha
      · simpa using hnlt
      · -- k ≤ y ≤ a
        have h1 : lt a y = false := hy.1 a ha
        cases hak : lt a k with
        | false => rfl
        | true =>
          rcases tri k y with h2 | h2 | h2
          · have := trans _ _ _ hak h2; rw [h1] at this; cases this
          · subst h2; rw [h1] at hak; cases hak
          · simp [h2] at hnlt

theorem wsorted_sortK (l : List K) : WSorted (sortK l) := by
  induction l with
  | nil => exact List.Pairwise.nil
  | cons y ys ih => exact wsorted_insertW ih

theorem mem_dedupK {x : K} : ∀ {l : List K}, x ∈ dedupK l ↔ x ∈ l
  | [] => by simp [dedupK]
  | [y] => by simp [dedupK]
  | y :: z :: r => by
    have ih := @mem_dedupK x (z :: r)
    unfold dedupK
    split
    · next e => subst e; rw [ih]; simp
    · simp only [List.mem_cons] at ih ⊢; rw [ih]

theorem ssorted_dedupK : ∀ {l : List K}, WSorted l → SSorted (dedupK l)
  | [], _ => List.Pairwise.nil
  | [y], _ => by simp [dedupK, SSorted]
  | y :: z :: r, h => by
    have hy := List.pairwise_cons.mp h
    have ih := @ssorted_dedupK (z :: r) hy.2
    unfold dedupK
    split
    · exact ih
    · next hne =>
      apply List.pairwise_cons.mpr
      refine ⟨?_, ih⟩
      intro a ha
      have ha' : a ∈ z :: r := mem_dedupK.mp ha
      -- y ≤ z ≤ a, y ≠ z
      have hz := List.pairwise_cons.mp hy.2
      have h1 : lt z y = false := hy.1 z (by simp)
      have hyz : lt y z = true := by
        rcases tri y z with h | h | h
        · exact h
        · exact absurd h hne
        · rw [h1] at h; cases h
      rcases List.mem_cons.mp ha' with rfl | har
      · exact hyz
      · have h2 : lt a z = false := hz.1 a har
        rcases tri z a with h | h | h
        · exact trans _ _ _ hyz h
        · subst h; exact hyz
        · rw [h2] at h; cases h

/-- `dedup (sort req)` is the strictly sorted list of the members of `req` -/
theorem ssorted_dedup_sort (l : List K) : SSorted (dedupK (sortK l)) := ssorted_dedupK (wsorted_sortK l)

theorem mem_dedup_sort {x : K} {l : List K} : x ∈ dedupK (sortK l) ↔ x ∈ l := by
  rw [mem_dedupK, mem_sortK]

end
end StorageModel.C05
