import StorageModel.C05.SchemaLemmas
/-
  C05 — schema-parametrised model: the invariant `GInv` and the slot-wise simulation by the base
  models (see the header of C05/SchemaLemmas.lean).
-/
set_option linter.unusedSectionVars false
namespace StorageModel.C05.Schema
open StorageModel.C05

section
variable {K : Type} [KOrd K] [DecidableEq K]

/-! ### self-referential slot: collection operations keep the entity buckets -/

theorem exists_ssetLinks (s : St K) (id : K) (req : List K) (r : Ref K) :
    exists? (SelfW.ssetLinks s id req).1 r = exists? s r := by
  cases hid : exists? s (SelfW.R id) with
  | false => rw [SelfW.ssetLinks_missing_local req hid]
  | true => rw [SelfW.ssetLinks_unfold req hid, SelfW.exists_slinkAll, SelfW.exists_sunlinkAll]

theorem exists_sstepW_link (s : St K) (op : PlainOp K) (r : Ref K) :
    exists? (SelfW.sstepW s op.toSOp).st r = exists? s r := by
  cases op with
  | addLinks sd id keys =>
    simp only [PlainOp.toSOp, SelfW.sstepW, SelfW.saddLinks]
    cases hg : s.get (SelfW.R id) with
    | none => rfl
    | some e => simp only; rw [SelfW.exists_slinkAll]
  | removeLinks sd id keys =>
    simp only [PlainOp.toSOp, SelfW.sstepW, SelfW.sremoveLinks]
    cases hg : s.get (SelfW.R id) with
    | none => rfl
    | some e => simp only; rw [SelfW.exists_sunlinkAll]
  | setLinks sd id keys => simp only [PlainOp.toSOp, SelfW.sstepW]; rw [exists_ssetLinks]
  | addLink sd id k =>
    simp only [PlainOp.toSOp, SelfW.sstepW, SelfW.saddLink]
    cases hg : s.get (SelfW.R id) with
    | none => rfl
    | some e => simp only; rw [SelfW.exists_slink]
  | removeLink sd id k =>
    simp only [PlainOp.toSOp, SelfW.sstepW, SelfW.sremoveLink]
    cases hg : s.get (SelfW.R id) with
    | none => rfl
    | some e => simp only; rw [SelfW.exists_sunlink]
  | getLinks sd id => rfl
  | isLinked sd id k => rfl

/-! ### the invariant -/

structure GInv (sc : Schema) (g : GSt K) : Prop where
  /-- field buckets exist exactly inside the entity buckets of the collection's stores -/
  coh : ∀ i c, sc.colls[i]? = some c → ∀ sd id, exists? (g.slots i) (sd, id) =
      (match c.storeAt sd with | some x => g.ents x id | none => false)
  /-- a child-store entity is a sub-bucket of a root entity -/
  par : ∀ sd id, g.ents ⟨sd, true⟩ id = true → g.ents ⟨sd, false⟩ id = true
  noRc : ∀ i ca cb, sc.colls[i]? = some (.plain ca cb) → NoRc (g.slots i)
  noLinks : ∀ i ca cb, sc.colls[i]? = some (.rc ca cb) → NoLinks (g.slots i)

theorem gInv_g0 (sc : Schema) : GInv sc (g0 : GSt K) := by
  refine ⟨?_, ?_, ?_, ?_⟩
  · intro i c _ sd id
    cases c.storeAt sd <;> rfl
  · intro sd id h; cases h
  · intro i ca cb _; exact noRc_nil
  · intro i ca cb _; exact noLinks_nil

theorem coh_at {sc : Schema} {g : GSt K} (h : GInv sc g) {i : Nat} {c : Coll} (hi : sc.colls[i]? = some c)
    {sd : Side} {x : Store} (hx : c.sideOf x = some sd) (id : K) : exists? (g.slots i) (sd, id) = g.ents x id := by
  rw [h.coh i c hi sd id, (sideOf_eq_some_iff c x sd).mp hx]

/-! ### slots of the store-level functions -/

theorem mapSlots_slot (sc : Schema) (g : GSt K) (f : Coll → St K → St K) {i : Nat} {c : Coll} (hi : sc.colls[i]? = some c) :
    (mapSlots sc g f).slots i = f c (g.slots i) := by
  simp [mapSlots, hi]

theorem setSlot_same (g : GSt K) (i : Nat) (s : St K) : (g.setSlot i s).slots i = s := by simp [GSt.setSlot]
theorem setSlot_ne (g : GSt K) {i j : Nat} (s : St K) (h : j ≠ i) : (g.setSlot i s).slots j = g.slots j := by
  simp [GSt.setSlot, h]

theorem cleanupLinks_ents (sc : Schema) (g : GSt K) (x : Store) (id : K) : (cleanupLinks sc g x id).ents = g.ents := rfl

/-- what `cleanupLinks` of store `x` does to the slot of collection `c` -/
def cleanupSlot (c : Coll) (x : Store) (id : K) (s : St K) : St K :=
  match c, c.sideOf x with
  | .plain _ _, some sd => linksEntityDeleted s sd id
  | .self _ _, some _ => SelfW.sEntityDeleted s id
  | .rc _ _, some sd => rcEntityDeleted s sd id
  | _, _ => s

theorem cleanupLinks_slot (sc : Schema) (g : GSt K) (x : Store) (id : K) {i : Nat} {c : Coll} (hi : sc.colls[i]? = some c) :
    (cleanupLinks sc g x id).slots i = cleanupSlot c x id (g.slots i) := by
  unfold cleanupLinks cleanupRc cleanupPlain
  rw [mapSlots_slot _ _ _ hi, mapSlots_slot _ _ _ hi]
  cases c <;> (cases hs : Coll.sideOf _ x <;> simp [cleanupSlot, hs])

theorem cleanupSlot_none {c : Coll} {x : Store} (hx : c.sideOf x = none) (id : K) (s : St K) :
    cleanupSlot c x id s = s := by
  cases c <;> simp [cleanupSlot, hx]

theorem cleanupLinks_slot_none (sc : Schema) (g : GSt K) (x : Store) (id : K) {i : Nat} {c : Coll} (hi : sc.colls[i]? = some c)
    (hx : c.sideOf x = none) : (cleanupLinks sc g x id).slots i = g.slots i := by
  rw [cleanupLinks_slot sc g x id hi, cleanupSlot_none hx]

theorem putEntity_slot (sc : Schema) (g : GSt K) (x : Store) (id : K) {i : Nat} {c : Coll} (hi : sc.colls[i]? = some c) :
    (putEntity sc g x id).slots i =
      match c.sideOf x with
      | some s => (g.slots i).put (s, id) {}
      | none => g.slots i := by
  show (match sc.colls[i]? with | some c => _ | none => _) = _
  rw [hi]; rfl

theorem dropEntity_slot (sc : Schema) (g : GSt K) (sd : Side) (id : K) {i : Nat} {c : Coll} (hi : sc.colls[i]? = some c) :
    (dropEntity sc g sd id).slots i =
      match c.famSide sd with
      | some s => (g.slots i).del (s, id)
      | none => g.slots i := by
  show (match sc.colls[i]? with | some c => _ | none => _) = _
  rw [hi]; rfl

/-! ### slot moves: sequences of successful base-model operations -/

/-- `s'` is reached from `s` by a body of base-model operations that all succeed; inside the
    vocabulary (`v`) the body is inside the base vocabulary and weighs at most `w` -/
def Moves (s s' : St K) (w : Int) (v : Prop) : Prop :=
  ∃ bops : List (Op K), runOps s bops = (s', false) ∧ (v → TxVocab bops ∧ txWeight bops ≤ w)

def SMoves (s s' : St K) : Prop := ∃ sops : List (SelfW.SOp K), SelfW.srunOpsW s sops = (s', false)

theorem runOps_append {s s' : St K} {a b : List (Op K)} (h : runOps s a = (s', false)) :
    runOps s (a ++ b) = runOps s' b := by
  induction a generalizing s with
  | nil => simp only [runOps] at h; cases h; rfl
  | cons op ops ih =>
    cases he : (step s op).err with
    | some e => rw [runOps_cons_err he] at h; cases h
    | none =>
      rw [runOps_cons_ok he] at h
      rw [List.cons_append, runOps_cons_ok he]
      exact ih h

theorem srunOpsW_append {s s' : St K} {a b : List (SelfW.SOp K)} (h : SelfW.srunOpsW s a = (s', false)) :
    SelfW.srunOpsW s (a ++ b) = SelfW.srunOpsW s' b := by
  induction a generalizing s with
  | nil => simp only [SelfW.srunOpsW] at h; cases h; rfl
  | cons op ops ih =>
    cases he : (SelfW.sstepW s op).err with
    | some e => rw [SelfW.srunOpsW_cons_err he] at h; cases h
    | none =>
      rw [SelfW.srunOpsW_cons_ok he] at h
      rw [List.cons_append, SelfW.srunOpsW_cons_ok he]
      exact ih h

theorem txWeight_append (a b : List (Op K)) : txWeight (a ++ b) = txWeight a + txWeight b := by
  simp [txWeight, List.map_append, List.sum_append]

theorem Moves.refl (s : St K) {w : Int} (hw : 0 ≤ w) (v : Prop) : Moves s s w v :=
  ⟨[], rfl, fun _ => ⟨fun _ h => (by cases h), (by simpa [txWeight] using hw)⟩⟩

theorem Moves.single {s : St K} {bop : Op K} (hok : (step s bop).err = none) {w : Int} {v : Prop}
    (hv : v → OpVocab bop ∧ weight bop ≤ w) : Moves s (step s bop).st w v := by
  refine ⟨[bop], ?_, fun h => ⟨?_, ?_⟩⟩
  · rw [runOps_cons_ok hok]; rfl
  · intro o ho; simp only [List.mem_cons, List.mem_nil_iff, or_false] at ho; subst ho; exact (hv h).1
  · simpa [txWeight] using (hv h).2

theorem Moves.trans {s s' s'' : St K} {w w' : Int} {v v' : Prop} (h : Moves s s' w v) (h' : Moves s' s'' w' v') :
    Moves s s'' (w + w') (v ∧ v') := by
  obtain ⟨a, ha, va⟩ := h
  obtain ⟨b, hb, vb⟩ := h'
  refine ⟨a ++ b, by rw [runOps_append ha, hb], fun ⟨hv, hv'⟩ => ⟨?_, ?_⟩⟩
  · intro o ho
    rcases List.mem_append.mp ho with ho | ho
    · exact (va hv).1 o ho
    · exact (vb hv').1 o ho
  · rw [txWeight_append]; have := (va hv).2; have := (vb hv').2; omega

theorem Moves.weaken {s s' : St K} {w w' : Int} {v v' : Prop} (h : Moves s s' w v) (hw : w ≤ w') (hv : v' → v) :
    Moves s s' w' v' := by
  obtain ⟨a, ha, va⟩ := h
  exact ⟨a, ha, fun h => ⟨(va (hv h)).1, by have := (va (hv h)).2; omega⟩⟩

theorem SMoves.refl (s : St K) : SMoves s s := ⟨[], rfl⟩

theorem SMoves.single {s : St K} {sop : SelfW.SOp K} (hok : (SelfW.sstepW s sop).err = none) :
    SMoves s (SelfW.sstepW s sop).st :=
  ⟨[sop], by rw [SelfW.srunOpsW_cons_ok hok]; rfl⟩

theorem SMoves.trans {s s' s'' : St K} (h : SMoves s s') (h' : SMoves s' s'') : SMoves s s'' := by
  obtain ⟨a, ha⟩ := h
  obtain ⟨b, hb⟩ := h'
  exact ⟨a ++ b, by rw [srunOpsW_append ha, hb]⟩

/-- how the slot of a declared collection moves -/
def SlotMoves (c : Coll) (s s' : St K) (w : Int) (v : Prop) : Prop :=
  match c with
  | .self _ _ => SMoves s s'
  | _ => Moves s s' w v

theorem SlotMoves.refl (c : Coll) (s : St K) {w : Int} (hw : 0 ≤ w) (v : Prop) : SlotMoves c s s w v := by
  cases c
  · exact Moves.refl s hw v
  · exact Moves.refl s hw v
  · exact SMoves.refl s

theorem SlotMoves.trans {c : Coll} {s s' s'' : St K} {w w' : Int} {v v' : Prop}
    (h : SlotMoves c s s' w v) (h' : SlotMoves c s' s'' w' v') : SlotMoves c s s'' (w + w') (v ∧ v') := by
  cases c
  · exact Moves.trans h h'
  · exact Moves.trans h h'
  · exact SMoves.trans h h'

theorem SlotMoves.weaken {c : Coll} {s s' : St K} {w w' : Int} {v v' : Prop}
    (h : SlotMoves c s s' w v) (hw : w ≤ w') (hv : v' → v) : SlotMoves c s s' w' v' := by
  cases c
  · exact Moves.weaken h hw hv
  · exact Moves.weaken h hw hv
  · exact h

/-! ### putEntity -/

theorem putEntity_ginv {sc : Schema} {g : GSt K} (h : GInv sc g) {x : Store} {id : K}
    (hpar : x.child = true → g.ents ⟨x.side, false⟩ id = true) : GInv sc (putEntity sc g x id) := by
  refine ⟨?_, ?_, ?_, ?_⟩
  · intro i c hi sd id'
    rw [putEntity_slot sc g x id hi]
    have hc := h.coh i c hi sd id'
    cases hs : c.sideOf x with
    | none =>
      simp only
      rw [hc]
      cases hst : c.storeAt sd with
      | none => rfl
      | some y =>
        have hne : y ≠ x := fun e => (sideOf_eq_none_iff c x).mp hs sd (by rw [hst, e])
        simp [putEntity, hne]
    | some s =>
      simp only
      rw [exists_put, hc]
      have hsx := (sideOf_eq_some_iff c x s).mp hs
      by_cases he : (s, id) = (sd, id')
      · obtain ⟨e1, e2⟩ := Prod.mk.inj he
        subst e1; subst e2
        simp [putEntity, hsx]
      · simp only [he, if_false]
        cases hst : c.storeAt sd with
        | none => rfl
        | some y =>
          simp only [putEntity]
          by_cases hy : y = x ∧ id' = id
          · exfalso
            obtain ⟨e1, e2⟩ := hy
            subst e1; subst e2
            have := (sideOf_eq_some_iff c y sd).mpr hst
            rw [hs] at this
            exact he (by cases this; rfl)
          · simp [hy]
  · intro sd id' hc
    simp only [putEntity] at hc ⊢
    by_cases h1 : (⟨sd, true⟩ : Store) = x ∧ id' = id
    · obtain ⟨e1, e2⟩ := h1
      subst e1; subst e2
      have := hpar rfl
      simp only at this
      simp [this]
    · simp only [h1, if_false] at hc
      have := h.par sd id' hc
      simp [this]
  · intro i ca cb hi
    rw [putEntity_slot sc g x id hi]
    have := h.noRc i ca cb hi
    cases (Coll.plain ca cb).sideOf x with
    | none => exact this
    | some s =>
      simp only
      intro r k
      rw [rcOf_put]
      by_cases hr : (s, id) = r
      · simp [hr, Map.get]
      · simp only [hr, if_false]; exact this r k
  · intro i ca cb hi
    rw [putEntity_slot sc g x id hi]
    have := h.noLinks i ca cb hi
    cases (Coll.rc ca cb).sideOf x with
    | none => exact this
    | some s =>
      simp only
      intro r
      rw [linksOf_put]
      by_cases hr : (s, id) = r
      · simp [hr]
      · simp only [hr, if_false]; exact this r

theorem putEntity_ents_self (sc : Schema) (g : GSt K) (x : Store) (id : K) : (putEntity sc g x id).ents x id = true := by
  simp [putEntity]

theorem putEntity_ents_other (sc : Schema) (g : GSt K) {x y : Store} (id id' : K) (h : ¬ (y = x ∧ id' = id)) :
    (putEntity sc g x id).ents y id' = g.ents y id' := by
  simp [putEntity, h]

theorem putEntity_moves {sc : Schema} {g : GSt K} (h : GInv sc g) {x : Store} {id : K} (hx : g.ents x id = false)
    {i : Nat} {c : Coll} (hi : sc.colls[i]? = some c) (v : Prop) :
    SlotMoves c (g.slots i) ((putEntity sc g x id).slots i) 0 v := by
  rw [putEntity_slot sc g x id hi]
  cases hs : c.sideOf x with
  | none => exact SlotMoves.refl c _ (Int.le_refl 0) v
  | some s =>
    simp only
    have hne : exists? (g.slots i) (s, id) = false := by rw [coh_at h hi hs]; exact hx
    have hg : (g.slots i).get (s, id) = none := by
      unfold exists? at hne; cases hg : (g.slots i).get (s, id) <;> simp_all
    cases c with
    | plain ca cb =>
      have e : step (g.slots i) (.create s id false none) = { st := (g.slots i).put (s, id) {}, err := none } := by
        simp [step, createEntity, hg]
      have := Moves.single (s := g.slots i) (bop := .create s id false none) (w := 0) (v := v) (by rw [e])
        (fun _ => ⟨trivial, by simp [weight]⟩)
      rw [e] at this; exact this
    | rc ca cb =>
      have e : step (g.slots i) (.create s id false none) = { st := (g.slots i).put (s, id) {}, err := none } := by
        simp [step, createEntity, hg]
      have := Moves.single (s := g.slots i) (bop := .create s id false none) (w := 0) (v := v) (by rw [e])
        (fun _ => ⟨trivial, by simp [weight]⟩)
      rw [e] at this; exact this
    | self sd' c' =>
      have hs' : s = .A := by
        have := (sideOf_eq_some_iff _ _ _).mp hs
        cases s with
        | A => rfl
        | B => simp [Coll.storeAt] at this
      subst hs'
      have e : SelfW.sstepW (g.slots i) (.create id false none) = { st := (g.slots i).put (SelfW.R id) {}, err := none } := by
        simp [SelfW.sstepW, SelfW.screate, hg]
      have := SMoves.single (s := g.slots i) (sop := .create id false none) (by rw [e])
      rw [e] at this; exact this

end
end StorageModel.C05.Schema
