import StorageModel.C05.SchemaStep
/-
  C05 — schema-parametrised model: transactions and histories.  After every committed history over
  any schema, the slot of each declared collection is the state of a committed history of the base
  model (two-store model for plain / ref-counted collections, self-referential model for `self`).
-/
set_option linter.unusedSectionVars false
namespace StorageModel.C05.Schema
open StorageModel.C05

section
variable {K : Type} [KOrd K] [DecidableEq K]

theorem grunOps_cons_err {sc : Schema} {g : GSt K} {op : GOp K} {ops : List (GOp K)} {e : Err}
    (h : (gstep sc g op).err = some e) : grunOps sc g (op :: ops) = ((gstep sc g op).st, true) := by
  simp only [grunOps, h]

theorem grunOps_cons_ok {sc : Schema} {g : GSt K} {op : GOp K} {ops : List (GOp K)}
    (h : (gstep sc g op).err = none) : grunOps sc g (op :: ops) = grunOps sc (gstep sc g op).st ops := by
  simp only [grunOps, h]

theorem gcommitTx_failed {sc : Schema} {g : GSt K} {ops : List (GOp K)} (h : (grunOps sc g ops).2 = true) :
    gcommitTx sc g ops = g := by
  simp only [gcommitTx, h, if_true]

theorem gcommitTx_ok {sc : Schema} {g : GSt K} {ops : List (GOp K)} (h : (grunOps sc g ops).2 = false) :
    gcommitTx sc g ops = (grunOps sc g ops).1 := by
  simp [gcommitTx, h]

theorem gweight_nonneg {op : GOp K} (h : GOpVocab op) : 0 ≤ gweight op := by
  cases op with
  | count i op => exact weight_nonneg (K := K) (op := op.toOp) h
  | _ => exact Int.le_refl 0

theorem gtxWeight_nonneg {ops : List (GOp K)} (h : GTxVocab ops) : 0 ≤ gtxWeight ops := by
  induction ops with
  | nil => simp [gtxWeight]
  | cons op ops ih =>
    have h1 := gweight_nonneg (h op (by simp))
    have h2 := ih (fun o ho => h o (by simp [ho]))
    simp only [gtxWeight, List.map_cons, List.sum_cons] at h2 ⊢; omega

theorem ghistWeight_nonneg {txs : List (List (GOp K))} (h : GHistVocab txs) : 0 ≤ ghistWeight txs := by
  induction txs with
  | nil => simp [ghistWeight]
  | cons tx txs ih =>
    have h1 := gtxWeight_nonneg (h tx (by simp))
    have h2 := ih (fun o ho => h o (by simp [ho]))
    simp only [ghistWeight, List.map_cons, List.sum_cons] at h2 ⊢; omega

/-- a successful transaction body keeps `GInv` and moves every slot by successful base operations -/
theorem grunOps_ok {sc : Schema} {g : GSt K} (h : GInv sc g) (ops : List (GOp K)) (hok : (grunOps sc g ops).2 = false) :
    GInv sc (grunOps sc g ops).1 ∧
    ∀ j c, sc.colls[j]? = some c → SlotMoves c (g.slots j) ((grunOps sc g ops).1.slots j) (gtxWeight ops) (GTxVocab ops) := by
  induction ops generalizing g with
  | nil => exact ⟨h, fun j c _ => SlotMoves.refl c _ (by simp [gtxWeight]) _⟩
  | cons op ops ih =>
    cases he : (gstep sc g op).err with
    | some e => rw [grunOps_cons_err he] at hok; simp at hok
    | none =>
      rw [grunOps_cons_ok he] at hok ⊢
      obtain ⟨h1, m1⟩ := gstep_ok h op he
      obtain ⟨h2, m2⟩ := ih h1 hok
      refine ⟨h2, fun j c hj => ?_⟩
      have := SlotMoves.trans (m1 j c hj) (m2 j c hj)
      refine SlotMoves.weaken this ?_ ?_
      · simp [gtxWeight]
      · intro hv; exact ⟨hv op (by simp), fun o ho => hv o (by simp [ho])⟩

theorem gcommitTx_ginv {sc : Schema} {g : GSt K} (h : GInv sc g) (ops : List (GOp K)) : GInv sc (gcommitTx sc g ops) := by
  cases hf : (grunOps sc g ops).2 with
  | true => rw [gcommitTx_failed hf]; exact h
  | false => rw [gcommitTx_ok hf]; exact (grunOps_ok h ops hf).1

theorem grunHist_ginv {sc : Schema} {g : GSt K} (h : GInv sc g) (txs : List (List (GOp K))) : GInv sc (grunHist sc g txs) := by
  induction txs generalizing g with
  | nil => exact h
  | cons tx txs ih => exact ih (gcommitTx_ginv h tx)

/-! ### naming and the extended flag are irrelevant to the behaviour -/

/-- no operation looks at how the set symbols are named, keyed or prefixed, nor at the extended
    flag: two schemas with the same declared collections behave identically, operation by operation
    and history by history (only the rendered bucket paths differ) -/
theorem gstep_naming_irrelevant (sc : Schema) (e : Side → Bool) (n : Nat → Side → Naming) (g : GSt K) (op : GOp K) :
    gstep { colls := sc.colls, ext := e, naming := n } g op = gstep sc g op := rfl

theorem grunOps_naming_irrelevant (sc : Schema) (e : Side → Bool) (n : Nat → Side → Naming) (g : GSt K)
    (ops : List (GOp K)) : grunOps { colls := sc.colls, ext := e, naming := n } g ops = grunOps sc g ops := by
  induction ops generalizing g with
  | nil => rfl
  | cons op ops ih =>
    simp only [grunOps, gstep_naming_irrelevant]
    cases (gstep sc g op).err with
    | some _ => rfl
    | none => exact ih _

theorem naming_irrelevant (sc : Schema) (e : Side → Bool) (n : Nat → Side → Naming) (g : GSt K)
    (h : List (List (GOp K))) :
    grunHist { colls := sc.colls, ext := e, naming := n } g h = grunHist sc g h := by
  induction h generalizing g with
  | nil => rfl
  | cons tx txs ih =>
    simp only [grunHist, List.foldl_cons] at ih ⊢
    have : gcommitTx { colls := sc.colls, ext := e, naming := n } g tx = gcommitTx sc g tx := by
      simp only [gcommitTx, grunOps_naming_irrelevant]
    rw [this]; exact ih _

/-! ### reachability in the base models -/

/-- the slot is the state of a committed base-model history; inside the vocabulary (`v`) that
    history is inside the base vocabulary and weighs at most `w` -/
def SlotReach (c : Coll) (s : St K) (w : Int) (v : Prop) : Prop :=
  match c with
  | .self _ _ => ∃ h' : List (List (SelfW.SOp K)), s = SelfW.srunHistW [] h'
  | _ => ∃ h' : List (List (Op K)), s = runHist [] h' ∧ (v → HistVocab h' ∧ histWeight h' ≤ w)

theorem runHist_snoc (s : St K) (h : List (List (Op K))) (tx : List (Op K)) :
    runHist s (h ++ [tx]) = commitTx (runHist s h) tx := by
  simp [runHist, List.foldl_append]

theorem srunHistW_snoc (s : St K) (h : List (List (SelfW.SOp K))) (tx : List (SelfW.SOp K)) :
    SelfW.srunHistW s (h ++ [tx]) = SelfW.scommitW (SelfW.srunHistW s h) tx := by
  simp [SelfW.srunHistW, List.foldl_append]

theorem histWeight_snoc (h : List (List (Op K))) (tx : List (Op K)) : histWeight (h ++ [tx]) = histWeight h + txWeight tx := by
  simp [histWeight, List.map_append, List.sum_append]

theorem SlotReach.weaken {c : Coll} {s : St K} {w w' : Int} {v v' : Prop} (h : SlotReach c s w v)
    (hw : v' → w ≤ w') (hv : v' → v) : SlotReach c s w' v' := by
  cases c with
  | self _ _ => exact h
  | plain _ _ =>
    obtain ⟨h', e, p⟩ := h
    exact ⟨h', e, fun x => ⟨(p (hv x)).1, by have := (p (hv x)).2; have := hw x; omega⟩⟩
  | rc _ _ =>
    obtain ⟨h', e, p⟩ := h
    exact ⟨h', e, fun x => ⟨(p (hv x)).1, by have := (p (hv x)).2; have := hw x; omega⟩⟩

theorem SlotReach.step {c : Coll} {s s' : St K} {w w' : Int} {v v' : Prop} (h : SlotReach c s w v)
    (m : SlotMoves c s s' w' v') : SlotReach c s' (w + w') (v ∧ v') := by
  cases c with
  | self _ _ =>
    obtain ⟨h', e⟩ := h
    obtain ⟨sops, hs⟩ := m
    refine ⟨h' ++ [sops], ?_⟩
    rw [srunHistW_snoc, ← e]
    simp [SelfW.scommitW, hs]
  | plain _ _ =>
    obtain ⟨h', e, p⟩ := h
    obtain ⟨bops, hs, q⟩ := m
    refine ⟨h' ++ [bops], ?_, ?_⟩
    · rw [runHist_snoc, ← e]; simp [commitTx, hs]
    · rintro ⟨x, y⟩
      refine ⟨?_, ?_⟩
      · intro tx htx
        rcases List.mem_append.mp htx with htx | htx
        · exact (p x).1 tx htx
        · simp only [List.mem_cons, List.mem_nil_iff, or_false] at htx; subst htx; exact (q y).1
      · rw [histWeight_snoc]; have := (p x).2; have := (q y).2; omega
  | rc _ _ =>
    obtain ⟨h', e, p⟩ := h
    obtain ⟨bops, hs, q⟩ := m
    refine ⟨h' ++ [bops], ?_, ?_⟩
    · rw [runHist_snoc, ← e]; simp [commitTx, hs]
    · rintro ⟨x, y⟩
      refine ⟨?_, ?_⟩
      · intro tx htx
        rcases List.mem_append.mp htx with htx | htx
        · exact (p x).1 tx htx
        · simp only [List.mem_cons, List.mem_nil_iff, or_false] at htx; subst htx; exact (q y).1
      · rw [histWeight_snoc]; have := (p x).2; have := (q y).2; omega

/-- coherent state all of whose slots are base-reachable -/
def Reach (sc : Schema) (g : GSt K) (w : Int) (v : Prop) : Prop :=
  GInv sc g ∧ ∀ j c, sc.colls[j]? = some c → SlotReach c (g.slots j) w v

theorem reach_g0 (sc : Schema) : Reach sc (g0 : GSt K) 0 True := by
  refine ⟨gInv_g0 sc, fun j c _ => ?_⟩
  cases c with
  | self _ _ => exact ⟨[], rfl⟩
  | plain _ _ => exact ⟨[], rfl, fun _ => ⟨fun _ h => (by cases h), by simp [histWeight]⟩⟩
  | rc _ _ => exact ⟨[], rfl, fun _ => ⟨fun _ h => (by cases h), by simp [histWeight]⟩⟩

theorem reach_commit {sc : Schema} {g : GSt K} {w : Int} {v : Prop} (h : Reach sc g w v) (ops : List (GOp K)) :
    Reach sc (gcommitTx sc g ops) (w + gtxWeight ops) (v ∧ GTxVocab ops) := by
  cases hf : (grunOps sc g ops).2 with
  | true =>
    rw [gcommitTx_failed hf]
    refine ⟨h.1, fun j c hj => (h.2 j c hj).weaken ?_ (fun x => x.1)⟩
    rintro ⟨_, y⟩; have := gtxWeight_nonneg y; omega
  | false =>
    rw [gcommitTx_ok hf]
    obtain ⟨h1, m⟩ := grunOps_ok h.1 ops hf
    exact ⟨h1, fun j c hj => (h.2 j c hj).step (m j c hj)⟩

theorem reach_hist {sc : Schema} {g : GSt K} {w : Int} {v : Prop} (h : Reach sc g w v) (txs : List (List (GOp K))) :
    Reach sc (grunHist sc g txs) (w + ghistWeight txs) (v ∧ GHistVocab txs) := by
  induction txs generalizing g w v with
  | nil =>
    refine ⟨h.1, fun j c hj => (h.2 j c hj).weaken ?_ (fun x => x.1)⟩
    intro _; simp [ghistWeight]
  | cons tx txs ih =>
    have := ih (reach_commit h tx)
    refine ⟨this.1, fun j c hj => (this.2 j c hj).weaken ?_ ?_⟩
    · intro _; simp only [ghistWeight, List.map_cons, List.sum_cons]; omega
    · rintro ⟨x, y⟩
      exact ⟨⟨x, y tx (by simp)⟩, fun t ht => y t (by simp [ht])⟩

/-- **every declared collection of every schema is a two-store model**: after any committed
    history, the slot of a plain or ref-counted collection is the committed state of a history of
    C05/Model.lean; inside the vocabulary that history is inside the base vocabulary and weighs at
    most as much -/
theorem slot_reachable (sc : Schema) (h : List (List (GOp K))) {j : Nat} {c : Coll} (hj : sc.colls[j]? = some c)
    (hc : ∀ sd ch, c ≠ .self sd ch) :
    ∃ h' : List (List (Op K)), (grunHist sc (g0 : GSt K) h).slots j = runHist [] h' ∧
      (GHistVocab h → HistVocab h' ∧ histWeight h' ≤ ghistWeight h) := by
  have := (reach_hist (reach_g0 (K := K) sc) h).2 j c hj
  cases c with
  | self sd ch => exact absurd rfl (hc sd ch)
  | plain _ _ =>
    obtain ⟨h', e, p⟩ := this
    exact ⟨h', e, fun hv => ⟨(p ⟨trivial, hv⟩).1, by have := (p ⟨trivial, hv⟩).2; omega⟩⟩
  | rc _ _ =>
    obtain ⟨h', e, p⟩ := this
    exact ⟨h', e, fun hv => ⟨(p ⟨trivial, hv⟩).1, by have := (p ⟨trivial, hv⟩).2; omega⟩⟩

/-- … and the slot of a self-referential collection is a committed state of C05/SelfW.lean -/
theorem self_slot_reachable (sc : Schema) (h : List (List (GOp K))) {j : Nat} {sd : Side} {ch : Bool}
    (hj : sc.colls[j]? = some (.self sd ch)) :
    ∃ h' : List (List (SelfW.SOp K)), (grunHist sc (g0 : GSt K) h).slots j = SelfW.srunHistW [] h' :=
  (reach_hist (reach_g0 (K := K) sc) h).2 j _ hj

end
end StorageModel.C05.Schema
