import StorageModel.C05.SchemaHist
import StorageModel.C05.SchemaSpec
/-
  C05 — refused operations inside a transaction that carries on, and the entity-level entry to
  SetLinks through a child store (round 14).

  The models so far treat a failing operation as "its transaction is rolled back".  A caller may
  instead TOLERATE a refused `DeleteById` (skip the entity) and commit.  Whether that is harmless
  depends on what the code has written before it refuses.  store_crud.go / indexes.go:

    DeleteById(id):  child store forwards to the parent;  FindById → not found  (nothing written);
      for every registered child store that finds the entity: processDeleteConstraints =
          indexingContext.ProcessBeforeDelete()   -- Parent context FIRST (the root store's constraints),
                                                   -- then the child store's; a constraint that refuses
                                                   -- sets the error holder
          cleanupLinks(tx, id, errHolder)          -- every EntityDeleted is guarded by !holder.HasError()
      then the same for the store itself; then the entity bucket is deleted.

  So every refusal by a constraint of the ROOT store (a restricting fk: `fkDeleteConstraint` finds
  back-references; the system-entity constraint; a custom Constraint whose ProcessBeforeDelete sets an
  error) happens before the first link write of the whole DeleteById — also when a child store with
  collections holds the entity, because the child store's indexing context runs its parent's
  constraints first and `cleanupLinks` does nothing once the holder has an error.  This file models the
  restricting fk: one (nullable) fk index from one root store to the other
  (`AddNullableFkIndex(ref, refd)`: `fkIndex` on the referring store, `fkDeleteConstraint` on the
  referred one).  With ONE direction a store never carries both an `fkIndex` and an
  `fkDeleteConstraint`, so the refusal is also preceded by no fk-index write.  (Not in the family: fk
  in both directions / a store referring to itself — there `fkIndex.ProcessBeforeDelete` of the same
  store removes the entity's own back-reference before `fkDeleteConstraint` refuses; that is fk-index
  state, C04's subject, not link state.  Two child stores of one root: the second one's own constraint
  could refuse after the first one's cleanupLinks.)

  Operations that DO leave partial link writes when they fail stay "must roll back": AddLinks /
  SetLinks / Create-with-links naming a missing entity (local entry first, then the other side
  fails — Model.lean has that write order), and Create with an fk value naming a missing entity
  (PersistEntity has written links and the field, then `fkIndex.ProcessAfterUpdate` fails).

  Second addition: `createP` — Create through a CHILD store whose entity strategy persists the
  parent's fields on `ctx.GetParentContext()` (IsCreate inherited), i.e. `SetLinkedIds` → `SetLinks` on
  a collection of the ROOT store for an entity that may already exist there and already have links.
-/
set_option linter.unusedSectionVars false
namespace StorageModel.C05.Restrict
open StorageModel.C05 StorageModel.C05.Schema

/-- a schema of C05/Schema.lean plus the restricting fk: `some s` = root store `s` declares the fk
    field `ref` (nullable fk index) to the other root store -/
structure RSchema where
  sc : Schema
  fk : Option Side := none

inductive RErr
  | base (e : Err)
  | referenced   -- NewReferenceByIdError from fkDeleteConstraint.ProcessBeforeDelete
  | fkMissing    -- fkIndex.getIndexBucket: the referred entity does not exist
  deriving DecidableEq, Repr

section
variable {K : Type} [KOrd K] [DecidableEq K]

structure RSt (K : Type) where
  g : GSt K := {}
  /-- the fk field of the referring entities: (referrer, target) -/
  fkv : List (K × K) := []
  /-- the back-reference sets inside the referred entities' buckets: (target, referrer) -/
  idx : List (K × K) := []

inductive ROp (K : Type)
  /-- an operation of C05/Schema.lean (DeleteById goes through `rdelete`) -/
  | g (op : GOp K)
  /-- Create through the referring root store with the fk field set -/
  | createRef (id : K) (blank : Bool) (links : Option (Nat × List K)) (target : K)
  /-- Create through store `x` (a child store); PersistEntity calls SetLinkedIds on GetParentContext() -/
  | createP (x : Store) (id : K) (blank : Bool) (i : Nat) (keys : List K)
  /-- DeleteById whose error the caller tolerates: the transaction carries on -/
  | deleteT (x : Store) (id : K)

structure ROut (K : Type) where
  st : RSt K
  ret : Ret K := .unit
  err : Option RErr := none

def ROp.tolerated : ROp K → Bool
  | .deleteT _ _ => true
  | _ => false

/-- `DeleteById` with the restricting fk: not found; refused while back-references exist (BEFORE any
    write); otherwise the delete of C05/Schema.lean, `fkIndex.ProcessBeforeDelete` of a referrer removes
    its back-reference, and the entity bucket takes field and back-reference set with it -/
def rdelete (rs : RSchema) (r : RSt K) (x : Store) (id : K) : ROut K :=
  if r.g.ents ⟨x.side, false⟩ id = true ∧ rs.fk = some x.side.other ∧ r.idx.any (fun p => decide (p.1 = id)) = true then
    { st := r, err := some .referenced }
  else
    let o := gstep rs.sc r.g (.delete x id)
    match o.err with
    | some e => { st := { r with g := o.st }, err := some (.base e) }
    | none =>
      { st := { g := o.st
                fkv := if rs.fk = some x.side then r.fkv.filter (fun p => !decide (p.1 = id)) else r.fkv
                idx := if rs.fk = some x.side then r.idx.filter (fun p => !decide (p.2 = id))
                       else if rs.fk = some x.side.other then r.idx.filter (fun p => !decide (p.1 = id)) else r.idx } }

def rstep (rs : RSchema) (r : RSt K) : ROp K → ROut K
  | .g (.delete x id) => rdelete rs r x id
  | .deleteT x id => rdelete rs r x id
  | .g op =>
    let o := gstep rs.sc r.g op
    { st := { r with g := o.st }, ret := o.ret, err := o.err.map .base }
  | .createRef id blank links target =>
    match rs.fk with
    | none =>
      let o := gstep rs.sc r.g (.create ⟨.A, false⟩ id blank links)
      { st := { r with g := o.st }, err := o.err.map .base }
    | some s =>
      let o := gstep rs.sc r.g (.create ⟨s, false⟩ id blank links)
      match o.err with
      | some e => { st := { r with g := o.st }, err := some (.base e) }
      | none =>
        -- PersistEntity has written the links and the field; now fkIndex.ProcessAfterUpdate
        if o.st.ents ⟨s.other, false⟩ target = true then
          { st := { g := o.st, fkv := (id, target) :: r.fkv, idx := (target, id) :: r.idx } }
        else
          { st := { g := o.st, fkv := (id, target) :: r.fkv, idx := r.idx }, err := some .fkMissing }
  | .createP x id blank i keys =>
    let o := gstep rs.sc r.g (.create x id blank none)
    match o.err with
    | some e => { st := { r with g := o.st }, err := some (.base e) }
    | none =>
      let o2 := gstep rs.sc o.st (.update ⟨x.side, false⟩ id i keys true)
      { st := { r with g := o2.st }, err := o2.err.map .base }

/-- the body of one `Db.Update`: the first error that the caller does not tolerate ends it -/
def rrunOps (rs : RSchema) : RSt K → List (ROp K) → RSt K × Bool
  | r, [] => (r, false)
  | r, op :: ops =>
    let o := rstep rs r op
    match o.err with
    | some _ => if op.tolerated then rrunOps rs o.st ops else (o.st, true)
    | none => rrunOps rs o.st ops

def rcommitTx (rs : RSchema) (r : RSt K) (ops : List (ROp K)) : RSt K :=
  let o := rrunOps rs r ops
  if o.2 then r else o.1

def rrunHist (rs : RSchema) (r : RSt K) (txs : List (List (ROp K))) : RSt K := txs.foldl (rcommitTx rs) r

def r0 : RSt K := {}

def ROpVocab : ROp K → Prop
  | .g op => GOpVocab op
  | _ => True

def rweight : ROp K → Int
  | .g op => gweight op
  | _ => 0

def rtxWeight (ops : List (ROp K)) : Int := (ops.map rweight).sum
def rhistWeight (txs : List (List (ROp K))) : Int := (txs.map rtxWeight).sum
def RTxVocab (ops : List (ROp K)) : Prop := ∀ op ∈ ops, ROpVocab op
def RHistVocab (txs : List (List (ROp K))) : Prop := ∀ tx ∈ txs, RTxVocab tx

/-! ### the specification: one relation / count map per collection (C05/SchemaSpec.lean), the fk as a
    set of (referrer, target) pairs; a refused delete changes nothing and may be tolerated -/

structure RSSt (K : Type) where
  g : GSSt K := {}
  refs : List (K × K) := []

def rsdelete (rs : RSchema) (r : RSSt K) (x : Store) (id : K) : Option (RSSt K × Ret K) :=
  if rs.fk = some x.side.other ∧ r.refs.any (fun p => decide (p.2 = id)) = true then none
  else
    (gsstep rs.sc r.g (.delete x id)).map fun q =>
      ({ g := q.1, refs := if rs.fk = some x.side then r.refs.filter (fun p => !decide (p.1 = id)) else r.refs }, q.2)

def rsstep (rs : RSchema) (r : RSSt K) : ROp K → Option (RSSt K × Ret K)
  | .g (.delete x id) => rsdelete rs r x id
  | .deleteT x id => rsdelete rs r x id
  | .g op => (gsstep rs.sc r.g op).map fun q => ({ r with g := q.1 }, q.2)
  | .createRef id blank links target =>
    match rs.fk with
    | none => (gsstep rs.sc r.g (.create ⟨.A, false⟩ id blank links)).map fun q => ({ r with g := q.1 }, q.2)
    | some s =>
      match gsstep rs.sc r.g (.create ⟨s, false⟩ id blank links) with
      | none => none
      | some q => if q.1.ents ⟨s.other, false⟩ target then some ({ g := q.1, refs := (id, target) :: r.refs }, q.2) else none
  | .createP x id blank i keys =>
    -- afterwards the entity exists in `x` and its links are exactly the requested set
    match gsstep rs.sc r.g (.create x id blank none) with
    | none => none
    | some q => (gsstep rs.sc q.1 (.update ⟨x.side, false⟩ id i keys true)).map fun q2 => ({ r with g := q2.1 }, q2.2)

/-! ### lemmas -/

theorem rdelete_err {rs : RSchema} {r : RSt K} {x : Store} {id : K} {e : RErr}
    (h : (rdelete rs r x id).err = some e) : (rdelete rs r x id).st = r := by
  unfold rdelete at h ⊢
  by_cases hc : r.g.ents ⟨x.side, false⟩ id = true ∧ rs.fk = some x.side.other ∧ r.idx.any (fun p => decide (p.1 = id)) = true
  · rw [if_pos hc]
  · rw [if_neg hc] at h ⊢
    simp only [gstep] at h ⊢
    cases hd : (gdelete rs.sc r.g x id).2 with
    | none => rw [hd] at h; simp at h
    | some e' =>
      have := (gdelete_failure hd).1
      show ({ r with g := (gdelete rs.sc r.g x id).1 } : RSt K) = r
      rw [this]

theorem rdelete_ok {rs : RSchema} {r : RSt K} {x : Store} {id : K}
    (h : (rdelete rs r x id).err = none) :
    (gstep rs.sc r.g (.delete x id)).err = none ∧ (rdelete rs r x id).st.g = (gstep rs.sc r.g (.delete x id)).st := by
  unfold rdelete at h ⊢
  split
  · rename_i hc; simp [hc] at h
  · rename_i hc
    simp only [hc, if_false] at h
    cases hd : (gstep rs.sc r.g (.delete x id)).err with
    | none => simp [hd]
    | some e' => simp [hd] at h

/-- a successful operation keeps the schema invariant and moves every slot by successful base operations -/
theorem rstep_ok {rs : RSchema} {r : RSt K} (h : GInv rs.sc r.g) (op : ROp K) (hok : (rstep rs r op).err = none) :
    GInv rs.sc (rstep rs r op).st.g ∧
    ∀ j c, rs.sc.colls[j]? = some c →
      SlotMoves c (r.g.slots j) ((rstep rs r op).st.g.slots j) (rweight op) (ROpVocab op) := by
  have viaG : ∀ (gop : GOp K), (gstep rs.sc r.g gop).err = none →
      GInv rs.sc (gstep rs.sc r.g gop).st ∧ ∀ j c, rs.sc.colls[j]? = some c →
        SlotMoves c (r.g.slots j) ((gstep rs.sc r.g gop).st.slots j) (gweight gop) (GOpVocab gop) :=
    fun gop hg => gstep_ok h gop hg
  have delCase : ∀ x id, (rdelete rs r x id).err = none →
      GInv rs.sc (rdelete rs r x id).st.g ∧ ∀ j c, rs.sc.colls[j]? = some c →
        SlotMoves c (r.g.slots j) ((rdelete rs r x id).st.g.slots j) 0 True := by
    intro x id hd
    obtain ⟨h1, h2⟩ := rdelete_ok hd
    rw [h2]
    obtain ⟨a, b⟩ := viaG _ h1
    exact ⟨a, fun j c hj => (b j c hj).weaken (by simp [gweight]) (fun _ => trivial)⟩
  cases op with
  | deleteT x id => exact delCase x id hok
  | g gop =>
    cases gop with
    | delete x id =>
      obtain ⟨a, b⟩ := delCase x id hok
      exact ⟨a, fun j c hj => (b j c hj).weaken (by simp [rweight, gweight]) (fun _ => trivial)⟩
    | create x id blank links =>
      simp only [rstep] at hok ⊢
      have hg : (gstep rs.sc r.g (.create x id blank links)).err = none := by
        cases he : (gstep rs.sc r.g (.create x id blank links)).err <;> simp [he] at hok ⊢
      exact viaG _ hg
    | update x id i keys p =>
      simp only [rstep] at hok ⊢
      have hg : (gstep rs.sc r.g (.update x id i keys p)).err = none := by
        cases he : (gstep rs.sc r.g (.update x id i keys p)).err <;> simp [he] at hok ⊢
      exact viaG _ hg
    | link i lop =>
      simp only [rstep] at hok ⊢
      have hg : (gstep rs.sc r.g (.link i lop)).err = none := by
        cases he : (gstep rs.sc r.g (.link i lop)).err <;> simp [he] at hok ⊢
      exact viaG _ hg
    | count i cop =>
      simp only [rstep] at hok ⊢
      have hg : (gstep rs.sc r.g (.count i cop)).err = none := by
        cases he : (gstep rs.sc r.g (.count i cop)).err <;> simp [he] at hok ⊢
      exact viaG _ hg
  | createRef id blank links target =>
    simp only [rstep] at hok ⊢
    cases hf : rs.fk with
    | none =>
      simp only [hf] at hok ⊢
      have hg : (gstep rs.sc r.g (.create ⟨.A, false⟩ id blank links)).err = none := by
        cases he : (gstep rs.sc r.g (.create ⟨.A, false⟩ id blank links)).err <;> simp [he] at hok ⊢
      obtain ⟨a, b⟩ := viaG _ hg
      exact ⟨a, fun j c hj => (b j c hj).weaken (by simp [rweight, gweight]) (fun _ => trivial)⟩
    | some s =>
      simp only [hf] at hok ⊢
      cases he : (gstep rs.sc r.g (.create ⟨s, false⟩ id blank links)).err with
      | some e => simp [he] at hok
      | none =>
        simp only [he] at hok ⊢
        obtain ⟨a, b⟩ := viaG _ he
        split
        · exact ⟨a, fun j c hj => (b j c hj).weaken (by simp [rweight, gweight]) (fun _ => trivial)⟩
        · rename_i hc; simp [hc] at hok
  | createP x id blank i keys =>
    simp only [rstep] at hok ⊢
    cases he : (gstep rs.sc r.g (.create x id blank none)).err with
    | some e => simp [he] at hok
    | none =>
      simp only [he] at hok ⊢
      obtain ⟨a, b⟩ := viaG _ he
      have hg2 : (gstep rs.sc (gstep rs.sc r.g (.create x id blank none)).st (.update ⟨x.side, false⟩ id i keys true)).err = none := by
        cases he2 : (gstep rs.sc (gstep rs.sc r.g (.create x id blank none)).st (.update ⟨x.side, false⟩ id i keys true)).err <;>
          simp [he2] at hok ⊢
      obtain ⟨a2, b2⟩ := gstep_ok a _ hg2
      exact ⟨a2, fun j c hj => ((b j c hj).trans (b2 j c hj)).weaken (by simp [rweight, gweight]) (fun _ => ⟨trivial, trivial⟩)⟩

/-- **a refused operation that the caller may tolerate leaves the whole state — every link set and
    every count map, on both sides, of every collection — exactly as it was**, inside the transaction -/
theorem tolerated_refusal_changes_nothing {rs : RSchema} {r : RSt K} {op : ROp K} {e : RErr}
    (ht : op.tolerated = true) (h : (rstep rs r op).err = some e) : (rstep rs r op).st = r := by
  cases op with
  | deleteT x id => exact rdelete_err h
  | g _ => cases ht
  | createRef _ _ _ _ => cases ht
  | createP _ _ _ _ _ => cases ht

theorem rweight_nonneg {op : ROp K} (h : ROpVocab op) : 0 ≤ rweight op := by
  cases op with
  | g op => exact gweight_nonneg h
  | _ => exact Int.le_refl 0

theorem rtxWeight_nonneg {ops : List (ROp K)} (h : RTxVocab ops) : 0 ≤ rtxWeight ops := by
  induction ops with
  | nil => simp [rtxWeight]
  | cons op ops ih =>
    have h1 := rweight_nonneg (h op (by simp))
    have h2 := ih (fun o ho => h o (by simp [ho]))
    simp only [rtxWeight, List.map_cons, List.sum_cons] at h2 ⊢
    omega

/-- a committing transaction body — refused deletes tolerated or not present — keeps the invariant
    and moves every slot by successful base operations -/
theorem rrunOps_ok {rs : RSchema} {r : RSt K} (h : GInv rs.sc r.g) (ops : List (ROp K)) (hok : (rrunOps rs r ops).2 = false) :
    GInv rs.sc (rrunOps rs r ops).1.g ∧
    ∀ j c, rs.sc.colls[j]? = some c →
      SlotMoves c (r.g.slots j) ((rrunOps rs r ops).1.g.slots j) (rtxWeight ops) (RTxVocab ops) := by
  induction ops generalizing r with
  | nil => exact ⟨h, fun j c _ => SlotMoves.refl c _ (by simp [rtxWeight]) _⟩
  | cons op ops ih =>
    cases he : (rstep rs r op).err with
    | some e =>
      cases ht : op.tolerated with
      | false => simp [rrunOps, he, ht] at hok
      | true =>
        have hst := tolerated_refusal_changes_nothing ht he
        have hrun : rrunOps rs r (op :: ops) = rrunOps rs r ops := by
          simp only [rrunOps, he, ht, if_true, hst]
        rw [hrun] at hok ⊢
        obtain ⟨h2, m2⟩ := ih h hok
        refine ⟨h2, fun j c hj => (m2 j c hj).weaken ?_ ?_⟩
        · have : rweight op = 0 := by
            cases op with
            | deleteT _ _ => rfl
            | g _ => cases ht
            | createRef _ _ _ _ => cases ht
            | createP _ _ _ _ _ => cases ht
          simp [rtxWeight, this]
        · intro hv o ho; exact hv o (by simp [ho])
    | none =>
      have hrun : rrunOps rs r (op :: ops) = rrunOps rs (rstep rs r op).st ops := by
        simp only [rrunOps, he]
      rw [hrun] at hok ⊢
      obtain ⟨h1, m1⟩ := rstep_ok h op he
      obtain ⟨h2, m2⟩ := ih h1 hok
      refine ⟨h2, fun j c hj => ?_⟩
      have := SlotMoves.trans (m1 j c hj) (m2 j c hj)
      refine SlotMoves.weaken this ?_ ?_
      · simp [rtxWeight]
      · intro hv; exact ⟨hv op (by simp), fun o ho => hv o (by simp [ho])⟩

theorem rreach_commit {rs : RSchema} {r : RSt K} {w : Int} {v : Prop} (h : Reach rs.sc r.g w v) (ops : List (ROp K)) :
    Reach rs.sc (rcommitTx rs r ops).g (w + rtxWeight ops) (v ∧ RTxVocab ops) := by
  cases hf : (rrunOps rs r ops).2 with
  | true =>
    have : rcommitTx rs r ops = r := by simp [rcommitTx, hf]
    rw [this]
    refine ⟨h.1, fun j c hj => (h.2 j c hj).weaken ?_ (fun x => x.1)⟩
    rintro ⟨_, y⟩; have := rtxWeight_nonneg y; omega
  | false =>
    have : rcommitTx rs r ops = (rrunOps rs r ops).1 := by simp [rcommitTx, hf]
    rw [this]
    obtain ⟨h1, m⟩ := rrunOps_ok h.1 ops hf
    exact ⟨h1, fun j c hj => (h.2 j c hj).step (m j c hj)⟩

theorem rreach_hist {rs : RSchema} {r : RSt K} {w : Int} {v : Prop} (h : Reach rs.sc r.g w v) (txs : List (List (ROp K))) :
    Reach rs.sc (rrunHist rs r txs).g (w + rhistWeight txs) (v ∧ RHistVocab txs) := by
  induction txs generalizing r w v with
  | nil =>
    refine ⟨h.1, fun j c hj => (h.2 j c hj).weaken ?_ (fun x => x.1)⟩
    intro _; simp [rhistWeight]
  | cons tx txs ih =>
    have := ih (rreach_commit h tx)
    refine ⟨this.1, fun j c hj => (this.2 j c hj).weaken ?_ ?_⟩
    · intro _; simp only [rhistWeight, List.map_cons, List.sum_cons]; omega
    · rintro ⟨x, y⟩
      exact ⟨⟨x, y tx (by simp)⟩, fun t ht => y t (by simp [ht])⟩

/-- after any history with tolerated refused deletes, fk values and child-store creates over existing
    parents, the slot of every declared plain / ref-counted collection is still the committed state
    of a history of the two-store model (inside the vocabulary: inside the base vocabulary, not heavier) -/
theorem r_slot_reachable (rs : RSchema) (h : List (List (ROp K))) {j : Nat} {c : Coll} (hj : rs.sc.colls[j]? = some c)
    (hc : ∀ sd ch, c ≠ .self sd ch) :
    ∃ h' : List (List (Op K)), (rrunHist rs (r0 : RSt K) h).g.slots j = runHist [] h' ∧
      (RHistVocab h → HistVocab h' ∧ histWeight h' ≤ rhistWeight h) := by
  have := (rreach_hist (rs := rs) (r := (r0 : RSt K)) (reach_g0 (K := K) rs.sc) h).2 j c hj
  cases c with
  | self sd ch => exact absurd rfl (hc sd ch)
  | plain ca cb =>
    obtain ⟨h', e, p⟩ := this
    exact ⟨h', e, fun hv => by have := p ⟨trivial, hv⟩; exact ⟨this.1, by have := this.2; omega⟩⟩
  | rc ca cb =>
    obtain ⟨h', e, p⟩ := this
    exact ⟨h', e, fun hv => by have := p ⟨trivial, hv⟩; exact ⟨this.1, by have := this.2; omega⟩⟩

theorem r_self_slot_reachable (rs : RSchema) (h : List (List (ROp K))) {j : Nat} {sd : Side} {ch : Bool}
    (hj : rs.sc.colls[j]? = some (.self sd ch)) :
    ∃ h' : List (List (SelfW.SOp K)), (rrunHist rs (r0 : RSt K) h).g.slots j = SelfW.srunHistW [] h' :=
  (rreach_hist (rs := rs) (r := (r0 : RSt K)) (reach_g0 (K := K) rs.sc) h).2 j _ hj

end
end StorageModel.C05.Restrict
