import StorageModel.C05.Schema
/-
  C05 — schema-parametrised model: every declared collection of every schema moves like the
  two-store model (C05/Model.lean) resp. the self-referential model (C05/SelfW.lean).

  * `GInv`: the field buckets of a collection exist exactly inside the entity buckets of the
    collection's stores (coherence), a child-store entity lives inside a root entity, a plain
    collection's slot holds no counts and a ref-counted one no link keys;
  * `gstep_slot`: under `GInv`, a successful store-level or collection-level operation moves the
    slot of each declared collection by at most ONE successful operation of the base model
    (`Create` ↦ create, `DeleteById` of any store of the family ↦ delete, `cleanupLinks` of the
    registries ↦ that collection's `EntityDeleted`);
  * hence (`slot_reachable`, `self_slot_reachable`) after every committed schema-level history the
    slot of each collection is the state of a committed history of the base model — every theorem
    about reachable states of the base model holds for every collection of every schema.
-/
set_option linter.unusedSectionVars false
namespace StorageModel.C05.Schema
open StorageModel.C05

/-! ### which store sits where -/

theorem sideOf_eq_some_iff (c : Coll) (x : Store) (sd : Side) : c.sideOf x = some sd ↔ c.storeAt sd = some x := by
  obtain ⟨xs, xc⟩ := x
  cases c <;> cases sd <;> cases xs <;> cases xc <;> rename_i a b <;> cases a <;> cases b <;> decide

theorem sideOf_eq_none_iff (c : Coll) (x : Store) : c.sideOf x = none ↔ ∀ sd, c.storeAt sd ≠ some x := by
  constructor
  · intro h sd hs
    rw [(sideOf_eq_some_iff c x sd).mpr hs] at h; cases h
  · intro h
    cases hs : c.sideOf x with
    | none => rfl
    | some sd => exact absurd ((sideOf_eq_some_iff c x sd).mp hs) (h sd)

/-- a collection has at most one store in each family, at one side -/
theorem storeAt_family_unique (c : Coll) {s s' : Side} {sd : Side} {ch ch' : Bool}
    (h : c.storeAt s = some ⟨sd, ch⟩) (h' : c.storeAt s' = some ⟨sd, ch'⟩) : s = s' ∧ ch = ch' := by
  cases c <;> cases s <;> cases s' <;> cases sd <;> simp [Coll.storeAt] at h h' <;>
    first
    | exact ⟨rfl, by rw [← h, ← h']⟩
    | (obtain ⟨a, b⟩ := h; obtain ⟨a', b'⟩ := h'; first | exact ⟨rfl, by rw [← b, ← b']⟩ | (subst a; cases a'))

theorem famSide_eq_some_iff (c : Coll) (sd s : Side) : c.famSide sd = some s ↔ ∃ ch, c.storeAt s = some ⟨sd, ch⟩ := by
  unfold Coll.famSide
  cases h1 : c.sideOf ⟨sd, false⟩ with
  | some s1 =>
    have e1 := (sideOf_eq_some_iff c _ s1).mp h1
    simp only [Option.some.injEq]
    constructor
    · intro e; subst e; exact ⟨false, e1⟩
    · rintro ⟨ch, e⟩; exact (storeAt_family_unique c e1 e).1
  | none =>
    simp only
    constructor
    · intro e; exact ⟨true, (sideOf_eq_some_iff c _ s).mp e⟩
    · rintro ⟨ch, e⟩
      cases ch with
      | true => exact (sideOf_eq_some_iff c _ s).mpr e
      | false => exact absurd e ((sideOf_eq_none_iff c _).mp h1 s)

theorem famSide_eq_none_iff (c : Coll) (sd : Side) : c.famSide sd = none ↔ ∀ s ch, c.storeAt s ≠ some ⟨sd, ch⟩ := by
  constructor
  · intro h s ch hs
    rw [(famSide_eq_some_iff c sd s).mpr ⟨ch, hs⟩] at h; cases h
  · intro h
    cases hs : c.famSide sd with
    | none => rfl
    | some s => obtain ⟨ch, e⟩ := (famSide_eq_some_iff c sd s).mp hs; exact absurd e (h s ch)

section
variable {K : Type} [KOrd K] [DecidableEq K]

/-! ### a plain collection's slot holds no counts, a ref-counted one no link keys -/

def NoRc (s : St K) : Prop := ∀ r k, rcOf s r k = none
def NoLinks (s : St K) : Prop := ∀ r, linksOf s r = []

theorem noRc_nil : NoRc ([] : St K) := fun _ _ => rfl
theorem noLinks_nil : NoLinks ([] : St K) := fun _ => rfl

theorem noRc_of_eq {s s' : St K} (h : NoRc s) (he : ∀ r k, rcOf s' r k = rcOf s r k) : NoRc s' :=
  fun r k => by rw [he]; exact h r k

theorem noLinks_of_eq {s s' : St K} (h : NoLinks s) (he : ∀ r, linksOf s' r = linksOf s r) : NoLinks s' :=
  fun r => by rw [he]; exact h r

theorem map_eq_nil_of_get_none (m : Map K Int) (h : ∀ k, m.get k = none) : m = [] := by
  cases m with
  | nil => rfl
  | cons p m => obtain ⟨a, v⟩ := p; have := h a; simp [Map.get] at this

theorem del_of_not_exists {s : St K} {r : Ref K} (h : exists? s r = false) : s.del r = s := by
  unfold exists? at h
  induction s with
  | nil => rfl
  | cons p s ih =>
    obtain ⟨a, v⟩ := p
    simp only [Map.get] at h
    by_cases ha : a = r
    · simp [ha] at h
    · simp only [ha, if_false] at h
      have := ih h
      unfold Map.del at this ⊢
      simp only [List.filter, ne_eq, ha, not_false_eq_true, decide_true]
      rw [this]

/-- with no counts, `rcLinkCollectionImpl.EntityDeleted` has nothing to do -/
theorem rcEntityDeleted_noRc {s : St K} (h : NoRc s) (sd : Side) (id : K) : rcEntityDeleted s sd id = s := by
  unfold rcEntityDeleted
  cases hg : s.get (sd, id) with
  | none => rfl
  | some e =>
    have : e.rc = [] := map_eq_nil_of_get_none e.rc fun k => by
      have := h (sd, id) k; simpa [rcOf, hg] using this
    simp [this]

/-- with no link keys, `linkCollectionImpl.EntityDeleted` has nothing to do -/
theorem linksEntityDeleted_noLinks {s : St K} (h : NoLinks s) (sd : Side) (id : K) : linksEntityDeleted s sd id = s := by
  unfold linksEntityDeleted; rw [h]; rfl

theorem rcOf_linksEntityDeleted (s : St K) (sd : Side) (id : K) (r : Ref K) (k : K) :
    rcOf (linksEntityDeleted s sd id) r k = rcOf s r k := by
  unfold linksEntityDeleted; rw [rcOf_foldl_symRemove]

theorem exists_linksEntityDeleted (s : St K) (sd : Side) (id : K) (r : Ref K) :
    exists? (linksEntityDeleted s sd id) r = exists? s r := by
  unfold linksEntityDeleted; rw [exists_foldl_symRemove]

theorem linksOf_rcEntityDeleted (s : St K) (sd : Side) (id : K) (r : Ref K) :
    linksOf (rcEntityDeleted s sd id) r = linksOf s r := by
  unfold rcEntityDeleted
  cases hg : s.get (sd, id) with
  | none => rfl
  | some e => simp only; rw [linksOf_foldl_rcUnlink]

theorem exists_rcEntityDeleted (s : St K) (sd : Side) (id : K) (r : Ref K) :
    exists? (rcEntityDeleted s sd id) r = exists? s r := by
  unfold rcEntityDeleted
  cases hg : s.get (sd, id) with
  | none => rfl
  | some e => simp only; rw [exists_foldl_rcUnlink]

theorem exists_sEntityDeleted (s : St K) (id : K) (r : Ref K) :
    exists? (SelfW.sEntityDeleted s id) r = exists? s r := by
  unfold SelfW.sEntityDeleted; rw [SelfW.exists_foldl_remove]

/-- in a plain collection's slot, the model's `DeleteById` is the links clean-up plus the bucket -/
theorem deleteEntity_plain {s : St K} (h : NoRc s) {sd : Side} {id : K} (hid : exists? s (sd, id) = true) :
    deleteEntity s sd id = ((linksEntityDeleted s sd id).del (sd, id), none) := by
  obtain ⟨e, he, _⟩ := get_of_exists hid
  unfold deleteEntity; rw [he]; simp only
  rw [rcEntityDeleted_noRc (noRc_of_eq h (rcOf_linksEntityDeleted s sd id))]

/-- in a ref-counted collection's slot, it is the count clean-up plus the bucket -/
theorem deleteEntity_rc {s : St K} (h : NoLinks s) {sd : Side} {id : K} (hid : exists? s (sd, id) = true) :
    deleteEntity s sd id = ((rcEntityDeleted s sd id).del (sd, id), none) := by
  obtain ⟨e, he, _⟩ := get_of_exists hid
  unfold deleteEntity; rw [he]; simp only
  rw [linksEntityDeleted_noLinks h]

/-! ### collection operations never create or delete an entity bucket -/

theorem exists_rcIncr (s : St K) (sd : Side) (id k : K) (r : Ref K) : exists? (rcIncr s sd id k).1 r = exists? s r := by
  unfold rcIncr
  cases he : s.get (sd, id) with
  | none => rfl
  | some e =>
    simp only
    have h1 : ∀ e' r, exists? (s.put (sd, id) e') r = exists? s r := by
      intro e' r; rw [exists_put]; by_cases h : (sd, id) = r
      · subst h; simp [exists?, he]
      · simp [h]
    cases ho : (s.put (sd, id) (bucketIncr e k).1).get (sd.other, k) with
    | none => simp only; exact h1 _ r
    | some o =>
      have h2 : ∀ o', exists? ((s.put (sd, id) (bucketIncr e k).1).put (sd.other, k) o') r = exists? s r := by
        intro o'; rw [exists_put]; by_cases h : (sd.other, k) = r
        · subst h; simp only [if_true]; rw [← h1 (bucketIncr e k).1]; simp [exists?, ho]
        · simp only [h, if_false]; exact h1 _ r
      simp only
      split <;> exact h2 _

theorem exists_rcDecr (s : St K) (sd : Side) (id k : K) (r : Ref K) : exists? (rcDecr s sd id k).1 r = exists? s r := by
  unfold rcDecr
  cases he : s.get (sd, id) with
  | none => rfl
  | some e =>
    simp only
    have h1 : ∀ e' r, exists? (s.put (sd, id) e') r = exists? s r := by
      intro e' r; rw [exists_put]; by_cases h : (sd, id) = r
      · subst h; simp [exists?, he]
      · simp [h]
    cases ho : (s.put (sd, id) (bucketDecr e k).1).get (sd.other, k) with
    | none => simp only; split <;> exact h1 _ r
    | some o =>
      have h2 : ∀ o', exists? ((s.put (sd, id) (bucketDecr e k).1).put (sd.other, k) o') r = exists? s r := by
        intro o'; rw [exists_put]; by_cases h : (sd.other, k) = r
        · subst h; simp only [if_true]; rw [← h1 (bucketDecr e k).1]; simp [exists?, ho]
        · simp only [h, if_false]; exact h1 _ r
      simp only
      split <;> exact h2 _

theorem exists_rcSet (s : St K) (sd : Side) (id k : K) (c : Int) (r : Ref K) :
    exists? (rcSet s sd id k c).1 r = exists? s r := by
  unfold rcSet
  cases he : s.get (sd, id) with
  | none => rfl
  | some e =>
    simp only
    have h1 : ∀ e' r, exists? (s.put (sd, id) e') r = exists? s r := by
      intro e' r; rw [exists_put]; by_cases h : (sd, id) = r
      · subst h; simp [exists?, he]
      · simp [h]
    cases ho : (s.put (sd, id) (bucketSet e k c).1).get (sd.other, k) with
    | none => simp only; exact h1 _ r
    | some o =>
      simp only
      rw [exists_put]; by_cases h : (sd.other, k) = r
      · subst h; simp only [if_true]; rw [← h1 (bucketSet e k c).1]; simp [exists?, ho]
      · simp only [h, if_false]; exact h1 _ r

theorem exists_step_plain (s : St K) (op : PlainOp K) (r : Ref K) : exists? (step s op.toOp).st r = exists? s r := by
  cases op with
  | addLinks sd id keys =>
    simp only [PlainOp.toOp, step]
    cases hid : exists? s (sd, id) with
    | false => rw [addLinks_missing_local keys hid]
    | true => rw [addLinks_unfold keys hid, exists_linkAll]
  | removeLinks sd id keys =>
    simp only [PlainOp.toOp, step]
    cases hid : exists? s (sd, id) with
    | false => rw [removeLinks_missing_local keys hid]
    | true => rw [removeLinks_unfold keys hid]; simp only; rw [exists_unlinkAll]
  | setLinks sd id keys => simp only [PlainOp.toOp, step]; rw [setLinks_exists]
  | addLink sd id k =>
    simp only [PlainOp.toOp, step]
    cases hid : exists? s (sd, id) with
    | false => rw [addLink_missing_local k hid]
    | true => rw [(addLink_unfold k hid).1, exists_link]
  | removeLink sd id k =>
    simp only [PlainOp.toOp, step]
    cases hid : exists? s (sd, id) with
    | false => rw [removeLink_missing_local k hid]
    | true => rw [(removeLink_unfold k hid).1, exists_unlink]
  | getLinks sd id => rfl
  | isLinked sd id k => rfl

theorem exists_step_rc (s : St K) (op : RcOp K) (r : Ref K) : exists? (step s op.toOp).st r = exists? s r := by
  cases op with
  | incr sd id k => simp only [RcOp.toOp, step]; rw [exists_rcIncr]
  | decr sd id k => simp only [RcOp.toOp, step]; rw [exists_rcDecr]
  | setCount sd id k c => simp only [RcOp.toOp, step]; rw [exists_rcSet]
  | getCounts sd id k => rfl

theorem rcOf_step_plain (s : St K) (op : PlainOp K) (r : Ref K) (j : K) : rcOf (step s op.toOp).st r j = rcOf s r j := by
  cases op with
  | addLinks sd id keys =>
    simp only [PlainOp.toOp, step]
    cases hid : exists? s (sd, id) with
    | false => rw [addLinks_missing_local keys hid]
    | true => rw [addLinks_unfold keys hid, rcOf_linkAll]
  | removeLinks sd id keys =>
    simp only [PlainOp.toOp, step]
    cases hid : exists? s (sd, id) with
    | false => rw [removeLinks_missing_local keys hid]
    | true => rw [removeLinks_unfold keys hid]; simp only; rw [rcOf_unlinkAll]
  | setLinks sd id keys => simp only [PlainOp.toOp, step]; rw [setLinks_rcOf]
  | addLink sd id k =>
    simp only [PlainOp.toOp, step]
    cases hid : exists? s (sd, id) with
    | false => rw [addLink_missing_local k hid]
    | true => rw [(addLink_unfold k hid).1, rcOf_link]
  | removeLink sd id k =>
    simp only [PlainOp.toOp, step]
    cases hid : exists? s (sd, id) with
    | false => rw [removeLink_missing_local k hid]
    | true => rw [(removeLink_unfold k hid).1, rcOf_unlink]
  | getLinks sd id => rfl
  | isLinked sd id k => rfl

theorem linksOf_step_rc (s : St K) (op : RcOp K) (r : Ref K) : linksOf (step s op.toOp).st r = linksOf s r := by
  cases op with
  | incr sd id k => simp only [RcOp.toOp, step]; rw [linksOf_rcIncr]
  | decr sd id k => simp only [RcOp.toOp, step]; rw [linksOf_rcDecr]
  | setCount sd id k c => simp only [RcOp.toOp, step]; rw [linksOf_rcSet]
  | getCounts sd id k => rfl

end
end StorageModel.C05.Schema
