import StorageModel.Tx.Failures
import StorageModel.Tx.GroupLemmas
import StorageModel.Generated.CrudReturns
/-
  C07 — Transactions are all-or-nothing and every failure reaches the caller.

  "If anything fails inside a Db.Update or Db.Batch transaction - the caller's function returns an
  error, a store operation is rejected (validation, index, foreign key, constraint veto, storage
  error) or a pre-commit action fails - the caller receives a non-nil error, the database is left
  exactly as it was before the transaction, and no commit action or listener runs. Conversely no
  create, update or delete reports success when one of its steps was rejected: a veto or storage
  error raised at any stage is always returned to the caller."

  Model: StorageModel/Tx/{Types,Store,Db}.lean follow boltz/store_crud.go, store.go, db.go,
  tx_context.go stage by stage; at every `if err != nil` site the model does what the table
  `Generated.crudReturns` — regenerated from the source by /verif/extract/returns.go on every run —
  says the Go code does there.  Spec: StorageModel/Tx/Spec.lean.

  The model includes custom boltz.Constraint implementations registered with AddConstraint on the
  parent and on the child store, which veto chosen (stage, id) pairs through the IndexingContext's
  error holder in ProcessBeforeUpdate / ProcessAfterUpdate / ProcessBeforeDelete, and the way that
  holder travels (`ixStage`: chained contexts, parent store first, a level skipped when the holder has
  an error; the entity bucket as holder in Create / Update, shared with the parent bucket by
  PersistContext.GetParentContext; nothing written once it has an error; a fresh holder returned by
  processDeleteConstraints), as well as child data created over an existing plain parent entity.

  The theorems are about `Generated.crudReturns`, i.e. about the return paths the code has NOW.
  bbolt's rollback itself is modelled, not verified (`rollback` in Tx/Db.lean restores the database
  and drops the OnCommit queue; the harness compares the real bucket tree before and after).
-/
namespace StorageModel.Properties.C07
open StorageModel.Tx StorageModel.Tx.Spec

/-- Obligation on regenerated data: the return paths of the four operations and their helpers are the
    ones under which every raised error is handed on. -/
theorem table_is_expected : Generated.crudReturns = expectedReturns := by decide

def expectedAdapter (name : String) : String :=
  name ++ " = created: go state.FinalState | call state.FinalState; updated: go state.FinalState | call state.FinalState; deleted: go state.InitialState | call state.InitialState"

set_option maxRecDepth 100000 in
/-- Obligation on regenerated data: post-commit work starts only through tx.OnCommit, and the three
    listener adapters have the modelled shape. -/
theorem delivery_is_expected :
    Generated.deliveryFlags.all (·.2) = true ∧ Generated.deliveryFlags.length = 16 ∧
    Generated.adapterShapes = ["entityListenerAdapter", "entityFunctionListenerAdapter", "untypedEventListenerWrapper"].map expectedAdapter := by
  decide

/-- Obligation on regenerated data: how the error holder travels (boltz/indexes.go, base.go,
    typed_bucket.go, store_crud.go) has the modelled shape — newIndexingContext chains the parent store's
    context with the same holder; the three Process* functions run the parent context first and their own
    constraints only while the holder is empty; ProceedWithSet refuses to write once the holder has an
    error; stage order in Create / Update / processDeleteConstraints.  (That GetParentContext lets the
    parent bucket record into the child bucket's holder is the table field `persistSharesHolder`.) -/
theorem holder_plumbing_is_expected :
    Generated.holderFlags.all (·.2) = true ∧ Generated.holderFlags.length = 16 := by
  decide

/-- environments whose return table is the one regenerated from the code (registrations and the
    number of tx-complete listeners are arbitrary) -/
def FromCode (env : Env) : Prop := env.t = Generated.crudReturns

theorem FromCode.expected {env : Env} (h : FromCode env) : env.t = expectedReturns := h.trans table_is_expected

example : FromCode { regsP := [.constraint true [(.deleted, "a")]], regsC := [], txListeners := 1, t := Generated.crudReturns
                     ixP := [[(.beforeUpdate, "a")]], ixC := [[(.beforeDelete, "b"), (.afterUpdate, "a")]] } := rfl

/-! ## every failure of a store operation reaches the caller -/

/-- Errors are only ever added to the record of raised errors. -/
theorem raised_only_grows (env : Env) (h : FromCode env) (fault : Fault) (o : Op) (st : TxSt) :
    ∃ more, (runOp env fault o st).1.raised = st.raised ++ more :=
  (runOp_ghost env h.expected fault o st).2.1

/-- **C07, error propagation (all operations, all states, all registrations, every injected storage
    fault, every stage).**  If anything was raised while the operation ran — by a validation, by the
    storage layer (unusable key, injected FillEntity / PersistEntity error), by an index (duplicate,
    null, missing fk target, referenced entity), by a vetoing entity constraint in the parent or the
    child flow, by a custom index-stage constraint of the parent or the child store through the error
    holder (before the update, after the write, before the delete), by the query parser — the
    operation does not report success. -/
theorem op_error_surfaces (env : Env) (h : FromCode env) (fault : Fault) (o : Op) (st : TxSt)
    (hr : (runOp env fault o st).1.raised ≠ st.raised) : (runOp env fault o st).2 ≠ .ok :=
  fun hok => hr ((runOp_ghost env h.expected fault o st).2.2 hok)

/-- **C07, error propagation by failure kind** (with or without an injected storage fault): blank or existing id,
    missing entity, unusable key, duplicate / null name, empty role, missing fk target, referenced
    entity, veto on create / update / delete in the parent or in the child flow, unparsable query —
    the operation's result is an error, for every operation, state and set of registrations. -/
theorem op_failure_kind_surfaces (env : Env) (h : FromCode env) (fault : Fault) (o : Op) (st : TxSt)
    (hf : OpFails env st.db o) : (runOp env fault o st).2 ≠ .ok := by
  intro hok
  have := (runOp_refines env h.expected fault o st).2.1.mp hok
  rw [opFails_rejected env fault st.db o hf] at this
  cases this

-- non-vacuity: a vetoing constraint on the child store and a delete through the parent store
example : OpFails { regsP := [], regsC := [.constraint false [(.deleted, "c1")]], txListeners := 0, t := Generated.crudReturns }
    [("c1", { f := ⟨"n", [], none, [], []⟩, child := some "k" })] (.delete .P "c1") :=
  .deleteVetoChildFlow .P .C "c1" (by decide) (by decide) (by decide)

-- non-vacuity: an entity with data in both child stores; a constraint of the SECOND child store vetoes the delete
example : OpFails { regsP := [], regsC := [], regsD := [.constraint true [(.deleted, "c1")]], txListeners := 0, t := Generated.crudReturns }
    [("c1", { f := ⟨"n", [], none, [], []⟩, child := some "k", child2 := some "g" })] (.delete .C "c1") :=
  .deleteVetoChildFlow .C .D "c1" (by decide) (by decide) (by decide)

-- non-vacuity: a custom constraint registered on the CHILD store vetoes the delete of an entity with
-- child data (delete through the parent store); one on the parent store vetoes an update before the write
example : OpFails { regsP := [], regsC := [], txListeners := 0, t := Generated.crudReturns, ixC := [[(.beforeDelete, "c1")]] }
    [("c1", { f := ⟨"n", [], none, [], []⟩, child := some "k" })] (.delete .P "c1") :=
  .deleteIxVetoChild .P .C "c1" (by decide) (by decide) (by decide)
example : OpFails { regsP := [], regsC := [], txListeners := 0, t := Generated.crudReturns, ixP := [[], [(.beforeUpdate, "c1")]] }
    [("c1", { f := ⟨"n", [], none, [], []⟩, child := some "k" })] (.update .C "c1" ⟨"m", [], none, [], []⟩ "k") :=
  .updateIxVetoParent .C "c1" _ _ .beforeUpdate (by decide) (by decide)

/-- **C07, no false success.**  An operation that reports success was accepted by the spec (none of
    its steps was rejected), has had its whole effect and raised nothing. -/
theorem no_false_success (env : Env) (h : FromCode env) (fault : Fault) (o : Op) (st : TxSt)
    (hok : (runOp env fault o st).2 = .ok) :
    (specOp env fault o st.db).accepted = true ∧
    (runOp env fault o st).1.db = (specOp env fault o st.db).db ∧
    (runOp env fault o st).1.raised = st.raised ∧
    ¬ OpFails env st.db o := by
  obtain ⟨_, hiff, hrest⟩ := runOp_refines env h.expected fault o st
  obtain ⟨h1, _, h3, _⟩ := hrest hok
  refine ⟨hiff.mp hok, h1, h3, ?_⟩
  intro hf
  exact op_failure_kind_surfaces env h fault o st hf hok

/-- the ghost form on its own: success means nothing was raised -/
theorem no_false_success_any_fault (env : Env) (h : FromCode env) (fault : Fault) (o : Op) (st : TxSt)
    (hok : (runOp env fault o st).2 = .ok) : (runOp env fault o st).1.raised = st.raised :=
  (runOp_ghost env h.expected fault o st).2.2 hok

/-! ## transactions -/

/-- **C07, atomicity** (every table, every body, Update and Batch, fresh or reused context): a
    transaction that does not succeed leaves the database as it was and runs nothing — no listener,
    no constraint post-commit, no commit action, no tx-complete listener.  (bbolt's rollback is what
    `rollback` models; that nothing is delivered except through the OnCommit queue is
    `delivery_is_expected`.) -/
theorem tx_atomic (env : Env) (db : Db) (prevCtx : Ctx) (tx : TxSpec)
    (hne : (runTx env db prevCtx tx).res ≠ .ok) :
    (runTx env db prevCtx tx).db = db ∧ (runTx env db prevCtx tx).fired = [] := by
  unfold runTx at hne ⊢
  cases hm : tx.mode with
  | update =>
    simp only [hm, dbUpdate] at hne ⊢
    cases hr : (attempt env true db (if tx.reuseCtx = true then prevCtx else Ctx.empty) tx.body).res with
    | ok => simp [hr, commit] at hne
    | err e => simp [rollback]
  | batch =>
    simp only [hm, dbBatch] at hne ⊢
    cases hr : (attempt env true db (if tx.reuseCtx = true then prevCtx else Ctx.empty) tx.body).res with
    | ok => simp [hr, commit] at hne
    | err e =>
      simp only [hr] at hne ⊢
      cases hr2 : (attempt env.later true db
          (attempt env true db (if tx.reuseCtx = true then prevCtx else Ctx.empty) tx.body).st.ctx (laterBody tx.body)).res with
      | ok => simp [hr2, commit] at hne
      | err e2 => simp [rollback]
  | raw =>
    simp only [hm, dbRaw] at hne ⊢
    cases hr : (runSteps env tx.body (beginTx db Ctx.empty)).2 with
    | ok => simp [hr, commit] at hne
    | err e => simp [rollback]

/-- **C07, every failure inside a transaction reaches the caller** (bodies that hand operation
    errors on, Update and Batch): whenever the spec says the transaction must not succeed — a step of
    the body is rejected, the caller returns an error, a pre-commit action of the context fails — the
    model of Db.Update / Db.Batch returns an error. -/
theorem tx_error_surfaces (env : Env) (h : FromCode env) (db : Db) (prevCtx : Ctx) (tx : TxSpec)
    (hw : tx.wellBehaved) (hs : (specTx env db prevCtx tx).ok = false) :
    (runTx env db prevCtx tx).res ≠ .ok := by
  intro hok
  have := (runTx_agree env h.expected db prevCtx tx hw).res.mp hok
  rw [hs] at this
  cases this

/-- **the caller's function returns an error** -> Db.Update returns an error -/
theorem caller_error_surfaces (env : Env) (h : FromCode env) (db : Db) (ctx : Ctx) (body : List Step)
    (hp : Propagating body) (tag : Nat) (hm : Step.fail tag ∈ body) :
    (dbUpdate env db ctx body).res ≠ .ok := by
  intro hok
  have ha := (dbUpdate_agree env h.expected db ctx body hp).res.mp hok
  rw [(specTxWith_ok env true db ctx body).1] at ha
  have : (specBody env db ctx body).accepted = false := specSteps_caller_error env body tag hm _
  simp [this] at ha

/-- an error the caller returns only the first time its function is executed fails a Db.Update (which
    executes it once); a Db.Batch runs the function again and may then commit — that run is covered by
    `tx_error_surfaces` / `history_refines_spec` through the spec of the re-run (`Env.later`, `laterBody`) -/
theorem first_run_error_surfaces (env : Env) (h : FromCode env) (db : Db) (ctx : Ctx) (body : List Step)
    (hp : Propagating body) (tag : Nat) (hm : Step.fail1 tag ∈ body) :
    (dbUpdate env db ctx body).res ≠ .ok := by
  intro hok
  have ha := (dbUpdate_agree env h.expected db ctx body hp).res.mp hok
  rw [(specTxWith_ok env true db ctx body).1] at ha
  have : (specBody env db ctx body).accepted = false := specSteps_first_run_error env body tag hm _
  simp [this] at ha

/-- **a pre-commit action fails** (registered on the context before or during the body) -> error -/
theorem pre_commit_error_surfaces (env : Env) (h : FromCode env) (db : Db) (ctx : Ctx) (body : List Step)
    (hp : Propagating body) (tag : Nat) (hm : (tag, true) ∈ ctx.preActions) :
    (dbUpdate env db ctx body).res ≠ .ok := by
  intro hok
  have ha := (dbUpdate_agree env h.expected db ctx body hp).res.mp hok
  rw [(specTxWith_ok env true db ctx body).1] at ha
  have hin : (tag, true) ∈ (specBody env db ctx body).ctx.preActions := specSteps_pre_mono env body _ _ hm
  have : preOk (specBody env db ctx body).ctx = false := by
    unfold preOk
    cases hall : (specBody env db ctx body).ctx.preActions.all (fun p => !p.2) with
    | false => rfl
    | true =>
      have := List.all_eq_true.mp hall _ hin
      simp at this
  simp [this] at ha

/-- **a store operation is rejected** at any position of the body -> error: the operations before it
    were accepted (so the body reaches it), it is rejected on the database they produced -/
theorem rejected_operation_surfaces (env : Env) (h : FromCode env) (db : Db) (ctx : Ctx)
    (pre post : List Step) (o : Op) (fault : Fault)
    (hp : Propagating (pre ++ .op o fault false :: post))
    (hrej : OpFails env (specBody env db ctx pre).db o) :
    (dbUpdate env db ctx (pre ++ .op o fault false :: post)).res ≠ .ok := by
  intro hok
  have ha := (dbUpdate_agree env h.expected db ctx _ hp).res.mp hok
  rw [(specTxWith_ok env true db ctx _).1] at ha
  have : (specBody env db ctx (pre ++ .op o fault false :: post)).accepted = false := by
    unfold specBody
    have happ : ∀ (l1 l2 : List Step) (b : Body), specSteps env (l1 ++ l2) b =
        if (specSteps env l1 b).accepted then specSteps env l2 (specSteps env l1 b) else specSteps env (l1 ++ l2) b := by
      intro l1 l2 b
      induction l1 generalizing b with
      | nil => cases hb : b.accepted <;> simp [specSteps, hb]
      | cons s rest ih =>
        cases s with
        | op o fault swallow =>
          simp only [List.cons_append, specSteps]
          split
          · exact ih _
          · split
            · exact ih _
            · simp
        | fail tag => simp [specSteps]
        | fail1 tag => simp [specSteps]
        | link op id ts =>
          simp only [List.cons_append, specSteps]
          split
          · simp
          · exact ih _
        | addCommit tag => simp only [List.cons_append, specSteps]; exact ih _
        | addPre tag fails => simp only [List.cons_append, specSteps]; exact ih _
        | nestedBegin => simp only [List.cons_append, specSteps]; exact ih _
        | nestedEnd => simp only [List.cons_append, specSteps]; exact ih _
        | useSystemCtx => simp only [List.cons_append, specSteps]; exact ih _
    rw [happ]
    split
    · unfold specBody at hrej
      simp only [specSteps, opFails_rejected env fault _ o hrej, Bool.false_eq_true, if_false]
    · rename_i hna
      have hfa : (specSteps env pre { accepted := true, db := db, flows := [], ctx := ctx, specified := true }).accepted = false := by
        simpa using hna
      -- the prefix already failed: the whole body fails
      have : ∀ (l1 l2 : List Step) (b : Body), (specSteps env l1 b).accepted = false →
          (specSteps env (l1 ++ l2) b).accepted = false := by
        intro l1 l2 b
        induction l1 generalizing b with
        | nil => intro hb; exact specSteps_rejected_stays env l2 b hb
        | cons s rest ih =>
          cases s with
          | op o fault swallow =>
            simp only [List.cons_append, specSteps]
            split
            · exact ih _
            · split
              · exact ih _
              · intro _; rfl
          | fail tag => intro _; rfl
          | fail1 tag => intro _; rfl
          | link op id ts =>
            simp only [List.cons_append, specSteps]
            split
            · intro _; rfl
            · exact ih _
          | addCommit tag => simp only [List.cons_append, specSteps]; exact ih _
          | addPre tag fails => simp only [List.cons_append, specSteps]; exact ih _
          | nestedBegin => simp only [List.cons_append, specSteps]; exact ih _
          | nestedEnd => simp only [List.cons_append, specSteps]; exact ih _
          | useSystemCtx => simp only [List.cons_append, specSteps]; exact ih _
      exact this _ _ _ hfa
  simp [this] at ha

/-- **a link operation of the caller is rejected** (AddLinks / SetLinks with a target that does not exist,
    any link operation on an entity that does not exist) at any position of the body -> error -/
theorem rejected_link_step_surfaces (env : Env) (h : FromCode env) (db : Db) (ctx : Ctx)
    (pre post : List Step) (op : LinkOp) (id : String) (ts : List String)
    (hp : Propagating (pre ++ .link op id ts :: post))
    (hrej : (linkStep op id ts (specBody env db ctx pre).db).1.isSome = true) :
    (dbUpdate env db ctx (pre ++ .link op id ts :: post)).res ≠ .ok := by
  intro hok
  have ha := (dbUpdate_agree env h.expected db ctx _ hp).res.mp hok
  rw [(specTxWith_ok env true db ctx _).1] at ha
  have : (specBody env db ctx (pre ++ .link op id ts :: post)).accepted = false := by
    unfold specBody at hrej ⊢
    rw [specSteps_append_accepted]
    cases hl : (linkStep op id ts (specSteps env pre { accepted := true, db := db, flows := [], ctx := ctx, specified := true }).db).1 with
    | none => rw [hl] at hrej; cases hrej
    | some e => simp [specSteps, hl]
  simp [this] at ha

-- non-vacuity: AddLinks with a target the linked store does not have
example : (linkStep .add "p1" ["q1", "zz"] [("p1", { f := ⟨"n", [], none, [], []⟩, child := none })]).1 = some .linkMissing := by
  decide

/-- **ghost form, any injected storage fault:** if anything at all was raised while a Db.Update
    transaction ran (body that hands errors on), Db.Update returns an error. -/
theorem tx_raised_surfaces (env : Env) (h : FromCode env) (db : Db) (ctx : Ctx) (body : List Step)
    (hp : Propagating body) (hr : (dbUpdate env db ctx body).raised ≠ []) :
    (dbUpdate env db ctx body).res ≠ .ok := by
  intro hok
  apply hr
  unfold dbUpdate at hok ⊢
  cases ha : (attempt env true db ctx body).res with
  | err e => simp [ha, rollback] at hok
  | ok =>
    simp only [commit, List.nil_append]
    unfold attempt at ha ⊢
    have hg := (runSteps_ghost env h.expected body hp (beginTx db ctx)).2
    cases hrs : (runSteps env body (beginTx db ctx)).2 with
    | err e => simp [hrs] at ha
    | ok =>
      simp only [hrs] at ha ⊢
      cases hpre : (runPre (runSteps env body (beginTx db ctx)).1.ctx.preActions).2 with
      | some e => simp [hpre] at ha
      | none =>
        simp only
        have := hg hrs
        split <;> simpa [TxSt.enqueue, beginTx] using this

/-- **C07, no false success of a transaction:** a transaction that reports success was accepted by
    the spec and the database is the one the spec computes (every operation had its whole effect). -/
theorem tx_no_false_success (env : Env) (h : FromCode env) (db : Db) (prevCtx : Ctx) (tx : TxSpec)
    (hw : tx.wellBehaved) (hok : (runTx env db prevCtx tx).res = .ok) :
    (specTx env db prevCtx tx).ok = true ∧ (runTx env db prevCtx tx).db = (specTx env db prevCtx tx).db := by
  have ha := runTx_agree env h.expected db prevCtx tx hw
  exact ⟨ha.res.mp hok, ha.db⟩

/-- **all histories:** over any sequence of transactions (each handing errors on), the model of the
    code agrees with the spec transaction by transaction: same outcome, same database, same context,
    and what runs at commit is exactly the commit list of the accepted changes. -/
theorem history_refines_spec (env : Env) (h : FromCode env) (txs : List TxSpec)
    (hw : ∀ tx ∈ txs, tx.wellBehaved) (db : Db) (ctx : Ctx) :
    CaseAgree env (runCase env txs db ctx) (specCase env txs db ctx) :=
  runCase_agree env h.expected txs hw db ctx

-- non-vacuity of the transaction hypotheses
def sampleBody : List Step := [.addCommit 1, .op (.create .C "c1" ⟨"n", ["r"], none, [], []⟩ "k") (.load .P 1) false, .fail 3]
example : TxSpec.wellBehaved { mode := .batch, reuseCtx := true, body := sampleBody } := by
  intro s hs
  simp [sampleBody] at hs
  rcases hs with rfl | rfl | rfl <;> rfl

/-- What the reverted fix 9b55bb4 looks like in the table: DeleteById returning nil when fireEvents
    fails. -/
def tableWithout9b55bb4 : CrudReturns := { expectedReturns with deleteFireEvents := .returnNil }

/-- Under that table the error of a vetoing constraint is dropped — the property fails on this
    concrete input (the veto is raised, the delete reports success). -/
example :
    (runOp { regsP := [], regsC := [.constraint true [(.deleted, "c1")]], txListeners := 0, t := tableWithout9b55bb4 }
      .none (.delete .C "c1") (beginTx [("c1", { f := ⟨"n2", [], none, [], []⟩, child := some "k1" })] Ctx.empty)).2 = .ok ∧
    (runOp { regsP := [], regsC := [.constraint true [(.deleted, "c1")]], txListeners := 0, t := tableWithout9b55bb4 }
      .none (.delete .C "c1") (beginTx [("c1", { f := ⟨"n2", [], none, [], []⟩, child := some "k1" })] Ctx.empty)).1.raised
        = [.veto .C 0] := by
  decide

/-- DeleteById not testing the error that comes with the child store's change flow (the reading of
    `changeFlow, err := …processDeleteConstraints(…); if changeFlow != nil {…} else if err != nil {return err}`). -/
def tableChildConstraintErrorUntested : CrudReturns := { expectedReturns with deleteChildConstraints := .ignore }

def c1Db : Db := [("c1", { f := ⟨"n2", [], none, [], []⟩, child := some "k1" })]

/-- Under that table a delete veto raised by a custom constraint registered ON THE CHILD STORE is
    dropped (one registered on the parent store is raised again by the parent store's own pass): the
    veto is raised, the delete reports success, the entity is gone. -/
example :
    (runOp { regsP := [], regsC := [], txListeners := 0, t := tableChildConstraintErrorUntested, ixC := [[(.beforeDelete, "c1")]] }
      .none (.delete .P "c1") (beginTx c1Db Ctx.empty)).2 = .ok ∧
    (runOp { regsP := [], regsC := [], txListeners := 0, t := tableChildConstraintErrorUntested, ixC := [[(.beforeDelete, "c1")]] }
      .none (.delete .P "c1") (beginTx c1Db Ctx.empty)).1.raised = [.ixVeto .C 0] ∧
    (runOp { regsP := [], regsC := [], txListeners := 0, t := tableChildConstraintErrorUntested, ixC := [[(.beforeDelete, "c1")]] }
      .none (.delete .P "c1") (beginTx c1Db Ctx.empty)).1.db = [] ∧
    (runOp { regsP := [], regsC := [], txListeners := 0, t := tableChildConstraintErrorUntested, ixP := [[(.beforeDelete, "c1")]] }
      .none (.delete .P "c1") (beginTx c1Db Ctx.empty)).2 = .err (.ixVeto .P 0) := by
  decide

/-- PersistContext.GetParentContext assigning the holder the other way round: the child bucket adopts
    the parent bucket's fresh holder. -/
def tableHolderNotShared : CrudReturns := { expectedReturns with persistSharesHolder := false }

/-- Under that table a veto recorded before persisting (ProcessBeforeUpdate, the stage of the
    system-entity constraint) is lost when an entity with child data is updated — through either store:
    the veto is raised, the update reports success and is applied.  A plain parent entity is not affected. -/
example :
    (runOp { regsP := [], regsC := [], txListeners := 0, t := tableHolderNotShared, ixP := [[(.beforeUpdate, "c1")]] }
      .none (.update .P "c1" ⟨"n9", [], none, [], []⟩ "") (beginTx c1Db Ctx.empty)).2 = .ok ∧
    (runOp { regsP := [], regsC := [], txListeners := 0, t := tableHolderNotShared, ixP := [[(.beforeUpdate, "c1")]] }
      .none (.update .P "c1" ⟨"n9", [], none, [], []⟩ "") (beginTx c1Db Ctx.empty)).1.raised = [.ixVeto .P 0] ∧
    (runOp { regsP := [], regsC := [], txListeners := 0, t := tableHolderNotShared, ixP := [[(.beforeUpdate, "c1")]] }
      .none (.update .P "c1" ⟨"n9", [], none, [], []⟩ "") (beginTx c1Db Ctx.empty)).1.db =
        [("c1", { f := ⟨"n9", [], none, [], []⟩, child := some "k1" })] ∧
    (runOp { regsP := [], regsC := [], txListeners := 0, t := tableHolderNotShared, ixP := [[(.beforeUpdate, "p1")]] }
      .none (.update .P "p1" ⟨"n9", [], none, [], []⟩ "") (beginTx [("p1", { f := ⟨"n1", [], none, [], []⟩, child := none })] Ctx.empty)).2
        = .err (.ixVeto .P 0) := by
  decide +kernel

/-- Witness for Db.Batch re-runs that succeed: the function creates an entity and then fails the first
    time only; bbolt runs it again, the second run commits — the result is ok, the body ran twice, the
    entity is there, and what the first run queued is gone with its transaction (one delivery, not two). -/
example :
    (runTx { regsP := [.listener .untyped [⟨.created, false⟩]], regsC := [], txListeners := 1, t := Generated.crudReturns }
      [] Ctx.empty
      { mode := .batch, reuseCtx := false, body := [.addCommit 1, .op (.create .P "p1" ⟨"n", [], none, [], []⟩ "") .none false, .fail1 7] }).res = .ok ∧
    (runTx { regsP := [.listener .untyped [⟨.created, false⟩]], regsC := [], txListeners := 1, t := Generated.crudReturns }
      [] Ctx.empty
      { mode := .batch, reuseCtx := false, body := [.addCommit 1, .op (.create .P "p1" ⟨"n", [], none, [], []⟩ "") .none false, .fail1 7] }).runs = 2 ∧
    (runTx { regsP := [.listener .untyped [⟨.created, false⟩]], regsC := [], txListeners := 1, t := Generated.crudReturns }
      [] Ctx.empty
      { mode := .batch, reuseCtx := false, body := [.addCommit 1, .op (.create .P "p1" ⟨"n", [], none, [], []⟩ "") .none false, .fail1 7] }).fired
      = [.commitActions [1, 1], .listener .P 0 0 false .created (some (.parent "p1" ⟨"n", [], none, [], []⟩)), .txComplete 0] := by
  decide +kernel

/-! ## batch groups: several Db.Batch calls coalesced by bbolt into one batch (Tx/Group.lean)

  bbolt runs the queued calls, in arrival order, inside ONE transaction; when a member's function returns an error
  the shared transaction is rolled back, that member is re-run alone (its result goes to its caller) and the others
  are re-run together.  The theorems hold for every schedule of the solo re-runs relative to the rounds of the batch,
  any number of members, any bodies that hand operation errors on, any fault positions (see also Properties/C08.lean
  for what the committed transactions deliver). -/

/-- **all-or-nothing for batch groups**: a transaction of the group that does not commit — the shared transaction
    in which some member failed, a failed solo re-run — leaves the database as it was and delivers nothing; the
    transactions of the group follow one another on the database (so the database after the group is the result of the
    committed ones alone); and a call that returned an error is part of no committed transaction. -/
theorem batch_group_atomic (env : Env) (specs : Nat → Member) (db : Db) (ctxs : Nat → Ctx)
    (arrival : List Nat) (hn : arrival.Nodup) (sched : List Sched) :
    (∀ t ∈ (runGroup (modelRunner env) specs db ctxs arrival sched).txs, t.committed = false →
      t.dbAfter = t.dbBefore ∧ t.fired = []) ∧
    Linked db (runGroup (modelRunner env) specs db ctxs arrival sched).txs
      (runGroup (modelRunner env) specs db ctxs arrival sched).db ∧
    (∀ k e, (runGroup (modelRunner env) specs db ctxs arrival sched).result k = some (.err e) →
      committedWith k (runGroup (modelRunner env) specs db ctxs arrival sched).txs = 0) := by
  have hi := runGroup_inv (modelRunner env) specs db ctxs arrival hn sched
  refine ⟨?_, hi.linked, ?_⟩
  · intro t ht hc
    exact ⟨(hi.wf t ht).rolled hc, by simp [GTx.fired, hc]⟩
  · intro k e hr
    rw [hi.count k, hr]
    simp

/-- **no false success in a batch group**: a Db.Batch call that returns nil was invoked in a committed transaction,
    and that invocation is one the spec accepts — no step of the body rejected (validation, index, foreign key,
    constraint veto, injected storage error), no error returned by the caller's function, no failing pre-commit action —
    on the database as it was inside that transaction.  Contrapositive: a member all of whose invocations are rejected
    never reports success. -/
theorem batch_group_no_false_success (env : Env) (h : FromCode env) (specs : Nat → Member)
    (hw : ∀ k, Propagating (specs k).body) (db : Db) (ctxs : Nat → Ctx) (arrival : List Nat) (hn : arrival.Nodup)
    (sched : List Sched) (k : Nat)
    (hok : (runGroup (modelRunner env) specs db ctxs arrival sched).result k = some .ok) :
    ∃ t ∈ (runGroup (modelRunner env) specs db ctxs arrival sched).txs, t.committed = true ∧
      ∃ p ∈ t.parts, p.member = k ∧ p.accepted env = true ∧ p.body = (specs k).bodyAt p.inv := by
  have hi := runGroup_inv (modelRunner env) specs db ctxs arrival hn sched
  have hc := hi.count k
  rw [hok] at hc
  simp only [if_true] at hc
  unfold committedWith at hc
  have hne : (List.filter (fun t => t.committed && t.invoked.contains k)
      (runGroup (modelRunner env) specs db ctxs arrival sched).txs) ≠ [] := by
    intro e; rw [e] at hc; cases hc
  obtain ⟨t, ht⟩ := List.exists_mem_of_ne_nil _ hne
  obtain ⟨ht1, ht2⟩ := List.mem_filter.mp ht
  simp only [Bool.and_eq_true, List.contains_iff_mem, GTx.invoked, List.mem_map] at ht2
  obtain ⟨hcm, p, hp, hpm⟩ := ht2
  have hwf := hi.wf t ht1
  have hf := hwf.parts p hp
  have hpp : Propagating p.body := by rw [hf.2]; exact bodyAt_propagating _ (hw _) _
  have hpok := chainOk_all_ok _ _ _ (hwf.chain hcm) p hp
  obtain ⟨_, m2, _⟩ := part_model env h.expected specs p hf hpp
  exact ⟨t, ht1, hcm, p, hp, hpm, m2.mp hpok, by rw [← hpm]; exact hf.2⟩

end StorageModel.Properties.C07
