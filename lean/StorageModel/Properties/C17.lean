import StorageModel.C17.SnapshotProofs
import StorageModel.C17.StagedProofs
import StorageModel.C17.PathsProofs
import StorageModel.C17.PathTable
import StorageModel.C17.TimelineConc
import StorageModel.C17.LockProofs
import StorageModel.C17.LockTable
import StorageModel.Generated.DbLocks
/-
  C17 — Snapshot and restore reproduce the database exactly.

  "A snapshot taken at a committed state, when later restored over any subsequent state, yields a
  database whose entire logical content equals the state at snapshot time, apart from the
  snapshot-id and timeline-reset markers the snapshot operation itself records. After the restore
  the reported snapshot id is the one returned when the snapshot was taken, restore listeners have
  fired, the next timeline-id request returns a fresh id exactly once, and transactions running
  concurrently with the restore see either the old or the new database in full, never a mixture."
  — for all histories (state A; snapshot; arbitrary further transactions; restore) and all
  interleavings of concurrent read/write transactions with the restore.

  PARTIAL.  The theorems are about the executable model in StorageModel/C17 (Snapshot.lean: the
  sequential behaviour of boltz/db.go over `(content, meta)`; Lock.lean: the reloadLock protocol as
  a transition system).  What the model cannot exhibit, and what therefore rests on the
  correspondence harness alone: that `tx.CopyFile/WriteTo` produce a consistent copy, that
  close/rename/reopen of the files succeed and are atomic enough, bbolt's `Close` waiting for open
  transactions, asynchronous delivery of `go listener()`, and the Go `sync.RWMutex` semantics the
  lock model assumes (writer preference: RLock blocks behind an announced writer).
-/
namespace StorageModel.Properties.C17
open StorageModel.C17 StorageModel.C17.Lock

/-! ## Sequential clauses, for all histories -/

/-- **the copy step.**  `persistSnapshot` = io.Copy: the persisted bytes are the concatenation of
    everything the reader returned, including bytes returned together with io.EOF — so for EVERY
    reader behaviour (explicit short / empty reads, any chunk size, EOF with the last data or on its
    own call) and every stream the persisted bytes are the stream. -/
theorem copy_reassembles {α : Type} (rd : Reader) (data : List α) : copyAll (script rd data) = data :=
  copyAll_script rd data

/-- hence reopening what was persisted yields the snapshot file, whatever reader delivered it -/
theorem restore_any_reader (f : Db) (rd : Reader) : restoreVia f rd = some f := restoreVia_eq f rd

/-- not vacuous: a copy loop that tests for EOF before writing loses the final chunk for a reader
    that returns its last bytes with EOF — a one-read stream is lost entirely, and an empty file is
    what bbolt turns into a brand-new empty database -/
example : copyDroppingEofData (script { eofWithData := true, chunk := 9 } [1, 2, 3]) = ([] : List Nat) := by decide
example : decodeDb (copyDroppingEofData (script { eofWithData := true, chunk := 99 }
    (encodeDb { content := [(0, 1)], mt := { present := true, sid := some 1, rt := some true } }))) = some {} := by decide
example : copyDroppingEofData (script { eofWithData := true, chunk := 1 } [1, 2, 3]) = [1, 2] := by decide
example : copyDroppingEofData (script { eofWithData := false, chunk := 1 } [1, 2, 3]) = [1, 2, 3] := by decide

/-- **restore ∘ snapshot.**  For every start state, every history `h1` leading to the state A at
    which the snapshot is taken, every further history `h2` (transactions, other snapshots into other
    slots, other restores, timeline requests, …) and every restore route and reader behaviour: the database after the
    restore is the database at snapshot time with exactly the two markers set (snapshot id = the id
    handed out, resetTimeline = true); in particular the content is A's content. -/
theorem restore_snapshot (s0 : Sys) (h1 h2 : List Op) (k : Nat) (inTx : Bool) (viaR : Reader) (hk : KeepsSlot k h2) :
    let sA := (run s0 h1).1
    (run s0 (h1 ++ [.snap k inTx] ++ h2 ++ [.restore k viaR])).1.db = mark sA.nextId sA.db ∧
    (run s0 (h1 ++ [.snap k inTx] ++ h2 ++ [.restore k viaR])).1.db.content = sA.db.content := by
  intro sA
  have key : (run s0 (h1 ++ [.snap k inTx] ++ h2 ++ [.restore k viaR])).1.db = mark sA.nextId sA.db := by
    simp only [run_append, List.append_assoc]
    have hfile : lookup k (run (run (run s0 h1).1 [.snap k inTx]).1 h2).1.files = some (mark sA.nextId sA.db) := by
      rw [run_keeps_file _ h2 k hk]
      simp [run, step, lookup_store_same, sA]
    simp only [run, step] at hfile ⊢
    simp [hfile]
  exact ⟨key, by rw [key]; rfl⟩

/-- the snapshot operation reports the id it wrote: the observation of `snap` carries `nextId` -/
theorem snapshot_reports_id (s : Sys) (k : Nat) (inTx : Bool) :
    (step s (.snap k inTx)).2 = .snapped s.nextId s.db := rfl

/-- **snapshot id kept.**  After the restore, GetSnapshotId reports the id returned by Snapshot. -/
theorem snapshot_id_kept (s0 : Sys) (h1 h2 : List Op) (k : Nat) (inTx : Bool) (viaR : Reader) (hk : KeepsSlot k h2) :
    let sA := (run s0 h1).1
    (step (run s0 (h1 ++ [.snap k inTx] ++ h2 ++ [.restore k viaR])).1 .gsid).2 = .sid (some sA.nextId) := by
  intro sA
  have := (restore_snapshot s0 h1 h2 k inTx viaR hk).1
  simp only [step, this]
  simp [mark, sA]

/-- **restore listeners fire**, each registered listener exactly once per restore. -/
theorem restore_fires_listeners (s : Sys) (k : Nat) (viaR : Reader) (f : Db) (hf : lookup k s.files = some f) :
    (step s (.restore k viaR)).1.fired = s.fired + s.listeners ∧
    (step s (.restore k viaR)).2 = .restored (s.fired + s.listeners) f := by
  simp [step, hf]

/-- **timeline once.**  In a state whose reset marker is set (as it is after restoring a marked
    snapshot, see `restore_snapshot`), the first GetTimelineId request — in any mode, with a working
    `idF` — calls `idF` exactly once and returns that fresh id; after any further history without
    another restore or forced reset, every request in `default` or `initIfEmpty` mode returns the
    same id and does not call `idF`. -/
theorem timeline_once (s : Sys) (hrt : s.db.mt.rt = some true) (m : Mode) :
    (step s (.gtl m true)).2 = .tl (some (s.idf + 1)) 1 ∧
    ∀ (h : List Op), (∀ o ∈ h, o.quiet = true) → ∀ (m' : Mode) (ok : Bool), m' ≠ .forceReset →
      (step (run (step s (.gtl m true)).1 h).1 (.gtl m' ok)).2 = .tl (some (s.idf + 1)) 0 := by
  have h1 : (step s (.gtl m true)) =
      ({ s with idf := s.idf + 1,
                db := { s.db with mt := { s.db.mt with present := true, tl := some (s.idf + 1), rt := some false } } },
       .tl (some (s.idf + 1)) 1) := by
    simp [step, getTimeline, hrt]
  refine ⟨by rw [h1], ?_⟩
  intro h hq m' ok hm'
  have hs : Settled (s.idf + 1) (step s (.gtl m true)).1 := by rw [h1]; exact ⟨rfl, rfl⟩
  obtain ⟨r1, r2⟩ := run_quiet_settled _ h _ hq hs
  have hf : m'.force (run (step s (.gtl m true)).1 h).1.db.mt.tl = false := by
    cases m' with
    | default => rfl
    | initIfEmpty => simp [Mode.force, r2]
    | forceReset => exact absurd rfl hm'
  generalize (run (step s (.gtl m true)).1 h).1 = S at r1 r2 hf
  rw [r2] at hf
  simp [step, getTimeline, r1, hf, r2]

/-- the two together: after `A; snapshot; …; restore` the reset marker is set, hence `timeline_once` applies -/
theorem restore_then_timeline_fresh (s0 : Sys) (h1 h2 : List Op) (k : Nat) (inTx : Bool) (viaR : Reader) (hk : KeepsSlot k h2)
    (m : Mode) :
    let s := (run s0 (h1 ++ [.snap k inTx] ++ h2 ++ [.restore k viaR])).1
    (step s (.gtl m true)).2 = .tl (some (s.idf + 1)) 1 := by
  intro s
  have hdb := (restore_snapshot s0 h1 h2 k inTx viaR hk).1
  exact (timeline_once s (by simp only [s, hdb, mark]) m).1

/-- **stream route.**  StreamToWriter + RestoreFromReader reproduce the database exactly (content
    and meta; no markers are written on this route). -/
theorem stream_restore_exact (s0 : Sys) (h1 h2 : List Op) (k : Nat) (viaR : Reader) (hk : KeepsSlot k h2) :
    (run s0 (h1 ++ [.stream k] ++ h2 ++ [.restore k viaR])).1.db = (run s0 h1).1.db := by
  simp only [run_append, List.append_assoc]
  have hfile : lookup k (run (run (run s0 h1).1 [.stream k]).1 h2).1.files = some (run s0 h1).1.db := by
    rw [run_keeps_file _ h2 k hk]
    simp [run, step, lookup_store_same]
  simp only [run, step] at hfile ⊢
  simp [hfile]

/-- **model ⊨ spec, all histories.**  `specHolds` is the property's clauses evaluated on an observed
    trace (restored dump = dump at snapshot time modulo the markers; id kept; listeners fired; next
    timeline request fresh exactly once, then stable) — the same function the check applies to the
    IMPLEMENTATION's observations on every run.  Every trace of the model satisfies it. -/
theorem model_meets_spec (h : List Op) : specHolds h (run {} h).2 = true :=
  rel_run {} {} h Rel_init

/-- the run-time oracle (`specFirstFail`, which also names the failing operation) accepts exactly the
    traces `specHolds` accepts, so it accepts every model trace -/
theorem oracle_accepts_model (h : List Op) : specFirstFail {} h (run {} h).2 0 = none :=
  (specFirstFail_none_iff {} h _ 0).mpr (model_meets_spec h)

/-! ## The restore in stages, with the caller re-entering through the reader

  `RestoreFromReader(snapshot io.Reader)` runs caller code — `snapshot.Read` — inside stage 1
  (persistSnapshot, no lock held).  That code may call back into the same DbImpl: a status poll
  (`GetSnapshotId`), `GetTimelineId` in any mode, a View / Update transaction, `Snapshot`,
  `StreamToWriter`, `AddRestoreListener`, another `RestoreSnapshot`.  `XOp.restoreCb k rd cbs` is that
  restore: reader behaviour `rd`, and a queue `cbs` of calls, each with the position in the stream at
  which it is issued (first Read / after a given share of the stream / on the Read reporting EOF).
  The theorems below quantify over ALL queues, ALL positions and ALL reader behaviours. -/

/-- **stage 1 is transparent.**  For every reader behaviour, every queue of calls and every choice of
    positions: the temporary file is the snapshot file, every queued call has been issued, and system
    and observations are those of the calls made one after the other on the state in which
    RestoreFromReader was entered. -/
theorem persist_stage_transparent (s : Sys) (f : Db) (rd : Reader) (cbs : List Cb) :
    (stagePersist s f rd cbs).tmp = encodeDb f ∧
    (stagePersist s f rd cbs).pending = [] ∧
    (stagePersist s f rd cbs).sys = (run s (cbs.map Cb.act)).1 ∧
    (stagePersist s f rd cbs).obs = (run s (cbs.map Cb.act)).2 :=
  stagePersist_eq s f rd cbs

/-- **the staged restore in closed form**: calls; swap in the file held by the slot AT ENTRY; fire. -/
theorem staged_restore_closed_form (s : Sys) (k : Nat) (rd : Reader) (cbs : List Cb) (f : Db)
    (hf : lookup k s.files = some f) :
    xstep s (.restoreCb k rd cbs) =
      ({ (run s (cbs.map Cb.act)).1 with
           db := f, prev := some (run s (cbs.map Cb.act)).1.db,
           fired := (run s (cbs.map Cb.act)).1.fired + (run s (cbs.map Cb.act)).1.listeners },
       .restoredCb (run s (cbs.map Cb.act)).2
         ((run s (cbs.map Cb.act)).1.fired + (run s (cbs.map Cb.act)).1.listeners) f) :=
  xstep_restoreCb s k rd cbs f hf

/-- **all interleaving points.**  Where in the stream the calls are issued, and how the reader
    chops the stream up, is irrelevant: two restores that issue the same calls in the same order
    are the same step (state and every observation). -/
theorem staged_restore_position_independent (s : Sys) (k : Nat) (rd rd' : Reader) (cbs cbs' : List Cb)
    (h : cbs.map Cb.act = cbs'.map Cb.act) :
    xstep s (.restoreCb k rd cbs) = xstep s (.restoreCb k rd' cbs') := by
  cases hf : lookup k s.files with
  | none => rw [xstep_restoreCb_nofile s k rd cbs hf, xstep_restoreCb_nofile s k rd' cbs' hf]
  | some f => rw [xstep_restoreCb s k rd cbs f hf, xstep_restoreCb s k rd' cbs' f hf, h]

/-- **after the restore every observation is the restored snapshot's**, whatever was called (and
    whatever those calls returned or changed) while the snapshot was streaming in — the calls may
    write, request timeline ids, take snapshots even into slot `k`, restore other snapshots: the live
    database is the file slot `k` held when RestoreFromReader was entered, a full dump shows it,
    GetSnapshotId reports its id, and its reset marker decides the next timeline request. -/
theorem staged_restore_installs (s : Sys) (k : Nat) (rd : Reader) (cbs : List Cb) (f : Db)
    (hf : lookup k s.files = some f) :
    let S := (xstep s (.restoreCb k rd cbs)).1
    S.db = f ∧
    (step S .dump).2 = .dump f ∧
    (step S .gsid).2 = .sid (if f.mt.present then f.mt.sid else none) ∧
    (f.mt.rt = some true → ∀ m, (step S (.gtl m true)).2 = .tl (some (S.idf + 1)) 1) := by
  intro S
  have hS : S.db = f := by simp only [S, xstep_restoreCb s k rd cbs f hf]
  refine ⟨hS, by simp [step, hS], by simp [step, hS], ?_⟩
  intro hrt m
  exact (timeline_once S (by rw [hS]; exact hrt) m).1

/-- … in particular the live database does not depend on the calls at all: it is the one the plain
    restore (no calls, any reader) produces -/
theorem staged_restore_db_eq_plain (s : Sys) (k : Nat) (rd rd' : Reader) (cbs : List Cb) :
    (xstep s (.restoreCb k rd cbs)).1.db = (step s (.restore k rd')).1.db := by
  cases hf : lookup k s.files with
  | none => rw [xstep_restoreCb_nofile s k rd cbs hf]; simp [step, hf]
  | some f => rw [xstep_restoreCb s k rd cbs f hf]; simp [step, hf]

/-- a restore whose reader issues no call is the restore of the sequential model -/
theorem staged_restore_nil (s : Sys) (k : Nat) (rd : Reader) :
    (xstep s (.restoreCb k rd [])).1 = (step s (.restore k rd)).1 := by
  cases hf : lookup k s.files with
  | none => rw [xstep_restoreCb_nofile s k rd [] hf]; simp [step, hf]
  | some f => rw [xstep_restoreCb s k rd [] f hf]; simp [step, hf, run]

/-- the enlarged model is conservative: on histories of the old vocabulary it is the old model -/
theorem staged_extends_plain (s : Sys) (h : List Op) :
    xrun s (h.map .plain) = ((run s h).1, (run s h).2.map .plain) := by
  induction h generalizing s with
  | nil => rfl
  | cons o os ih => simp [xrun, run, xstep, ih]

/-- **calls made during the stream see the OLD database in full**: reading calls return what they
    would have returned before RestoreFromReader was entered (none of them sees the incoming snapshot,
    or a half-swapped state) -/
theorem calls_during_stream_see_old (s : Sys) (k : Nat) (rd : Reader) (ps : List Pos) (as : List RoAct) (f : Db)
    (hf : lookup k s.files = some f) (hl : ps.length = as.length) :
    (xstep s (.restoreCb k rd ((ps.zip as).map fun pa => ⟨pa.1, pa.2.toOp⟩))).2 =
      .restoredCb (as.map (roObs s)) (s.fired + s.listeners) f := by
  have hm : ((ps.zip as).map fun pa => (⟨pa.1, pa.2.toOp⟩ : Cb)).map Cb.act = as.map RoAct.toOp := by
    rw [List.map_map]
    have : (Cb.act ∘ fun (pa : Pos × RoAct) => (⟨pa.1, pa.2.toOp⟩ : Cb)) = (RoAct.toOp ∘ Prod.snd) := rfl
    rw [this, ← List.map_map, List.map_snd_zip (by omega)]
  rw [xstep_restoreCb s k rd _ f hf, hm, run_ro]

/-- **restore ∘ snapshot, staged.**  The headline over histories of the enlarged vocabulary (restores
    with calls from inside their readers, transactions with reading calls around the copy, in `h1`
    and `h2` as well) and a final restore whose reader issues ANY calls at ANY positions. -/
theorem staged_restore_snapshot (s0 : Sys) (h1 h2 : List XOp) (k : Nat) (inTx : Bool) (rd : Reader) (cbs : List Cb)
    (hk : XKeepsSlot k h2) :
    let sA := (xrun s0 h1).1
    (xrun s0 (h1 ++ [.plain (.snap k inTx)] ++ h2 ++ [.restoreCb k rd cbs])).1.db = mark sA.nextId sA.db ∧
    (xrun s0 (h1 ++ [.plain (.snap k inTx)] ++ h2 ++ [.restoreCb k rd cbs])).1.db.content = sA.db.content := by
  intro sA
  have key : (xrun s0 (h1 ++ [.plain (.snap k inTx)] ++ h2 ++ [.restoreCb k rd cbs])).1.db = mark sA.nextId sA.db := by
    simp only [xrun_append, List.append_assoc]
    have hfile : lookup k (xrun (xrun (xrun s0 h1).1 [.plain (.snap k inTx)]).1 h2).1.files = some (mark sA.nextId sA.db) := by
      rw [xrun_keeps_file _ h2 k hk]
      simp [xrun, xstep, step, lookup_store_same, sA]
    simp only [xrun] at hfile ⊢
    rw [xstep_restoreCb _ k rd cbs _ hfile]
  exact ⟨key, by rw [key]; rfl⟩

/-- **snapshot id kept, staged**: whatever GetSnapshotId (or anything else) returned while the snapshot
    was streaming in, after the restore it reports the id the snapshot operation returned -/
theorem staged_snapshot_id_kept (s0 : Sys) (h1 h2 : List XOp) (k : Nat) (inTx : Bool) (rd : Reader) (cbs : List Cb)
    (hk : XKeepsSlot k h2) :
    let sA := (xrun s0 h1).1
    (step (xrun s0 (h1 ++ [.plain (.snap k inTx)] ++ h2 ++ [.restoreCb k rd cbs])).1 .gsid).2 = .sid (some sA.nextId) := by
  intro sA
  have := (staged_restore_snapshot s0 h1 h2 k inTx rd cbs hk).1
  simp only [step, this]
  simp [mark, sA]

/-- **listeners, staged**: every listener registered when the swap is done — those registered from
    inside the reader included — is started once; invocations caused by restores nested in the reader
    are counted before -/
theorem staged_restore_fires_listeners (s : Sys) (k : Nat) (rd : Reader) (cbs : List Cb) (f : Db)
    (hf : lookup k s.files = some f) :
    let s1 := (run s (cbs.map Cb.act)).1
    (xstep s (.restoreCb k rd cbs)).1.fired = s1.fired + s1.listeners ∧
    (xstep s (.restoreCb k rd cbs)).1.listeners = s1.listeners := by
  intro s1
  rw [xstep_restoreCb s k rd cbs f hf]
  exact ⟨rfl, rfl⟩

/-- **timeline once, staged**: `timeline_once` with the continuation ranging over the enlarged
    vocabulary (no further restore, no forced reset) -/
theorem staged_timeline_once (s : Sys) (hrt : s.db.mt.rt = some true) (m : Mode) :
    (step s (.gtl m true)).2 = .tl (some (s.idf + 1)) 1 ∧
    ∀ (h : List XOp), (∀ o ∈ h, o.quiet = true) → ∀ (m' : Mode) (ok : Bool), m' ≠ .forceReset →
      (step (xrun (step s (.gtl m true)).1 h).1 (.gtl m' ok)).2 = .tl (some (s.idf + 1)) 0 := by
  have h1 : (step s (.gtl m true)) =
      ({ s with idf := s.idf + 1,
                db := { s.db with mt := { s.db.mt with present := true, tl := some (s.idf + 1), rt := some false } } },
       .tl (some (s.idf + 1)) 1) := by
    simp [step, getTimeline, hrt]
  refine ⟨by rw [h1], ?_⟩
  intro h hq m' ok hm'
  have hs : Settled (s.idf + 1) (step s (.gtl m true)).1 := by rw [h1]; exact ⟨rfl, rfl⟩
  obtain ⟨r1, r2⟩ := xrun_quiet_settled _ h _ hq hs
  have hf : m'.force (xrun (step s (.gtl m true)).1 h).1.db.mt.tl = false := by
    cases m' with
    | default => rfl
    | initIfEmpty => simp [Mode.force, r2]
    | forceReset => exact absurd rfl hm'
  generalize (xrun (step s (.gtl m true)).1 h).1 = S at r1 r2 hf
  rw [r2] at hf
  simp [step, getTimeline, r1, hf, r2]

/-- after `A; snapshot; …; restore with calls from inside the reader` — GetTimelineId calls in any
    mode among them, which settle the OLD database's timeline — the next request is fresh, once -/
theorem staged_restore_then_timeline_fresh (s0 : Sys) (h1 h2 : List XOp) (k : Nat) (inTx : Bool) (rd : Reader)
    (cbs : List Cb) (hk : XKeepsSlot k h2) (m : Mode) :
    let s := (xrun s0 (h1 ++ [.plain (.snap k inTx)] ++ h2 ++ [.restoreCb k rd cbs])).1
    (step s (.gtl m true)).2 = .tl (some (s.idf + 1)) 1 := by
  intro s
  have hdb := (staged_restore_snapshot s0 h1 h2 k inTx rd cbs hk).1
  exact (staged_timeline_once s (by simp only [s, hdb, mark]) m).1

/-- **model ⊨ spec over the enlarged vocabulary, all histories.**  `xspecHolds` judges a restore with
    calls from inside its reader by: the calls like any other operation (against the bookkeeping at
    entry), then the restore clauses against what the slot held AT ENTRY. -/
theorem staged_model_meets_spec (h : List XOp) : xspecHolds h (xrun {} h).2 = true :=
  xrel_run {} {} h Rel_init

theorem staged_oracle_accepts_model (h : List XOp) : xspecFirstFail {} h (xrun {} h).2 0 = none :=
  (xspecFirstFail_none_iff {} h _ 0).mpr (staged_model_meets_spec h)

/-- **obligation on the regenerated field list** (Generated/DbLocks.lean, from `type DbImpl struct` and
    the package-level variables of boltz/db.go now): a DbImpl carries no state besides the handle, the
    lock and the listener slices — nothing read from the file is kept outside the file, so nothing
    observed during the stream can survive the swap, which is what the model's `Sys` assumes. -/
theorem dbimpl_state_modelled : stateModelled Generated.dbImplFields Generated.dbGoPackageVars = true := by decide

/-- non-vacuity of the hypotheses: a staged restore whose reader polls the snapshot id on its first
    Read, requests a timeline id mid-stream, writes, snapshots INTO THE SLOT BEING RESTORED and
    registers a listener at EOF, over a database that already carries snapshot id 1 — the poll sees
    id 1, afterwards the database reports id 2 and the content of snapshot 2 -/
example :
    let h : List XOp := [.plain (.tx [.put 0 1] true), .plain (.snap 0 false), .plain (.restore 0 {}), .plain .gsid,
      .plain (.tx [.put 0 2] true), .plain (.snap 1 false), .plain (.tx [.put 0 3] true),
      .restoreCb 1 { chunk := 0, eofWithData := true }
        [⟨.first, .gsid⟩, ⟨.at 500, .gtl .default true⟩, ⟨.at 500, .tx [.put 5 1] true⟩, ⟨.eof, .snap 1 false⟩, ⟨.eof, .listen⟩],
      .plain .gsid, .plain .dump]
    (xrun {} h).2.drop 7 =
      [.restoredCb [.sid (some 1), .tl (some 1) 1, .ok,
                    .snapped 3 { content := [(0, 3), (5, 1)], mt := { present := true, sid := some 1, rt := some false, tl := some 1 } }, .ok]
         1 { content := [(0, 2)], mt := { present := true, sid := some 2, rt := some true, tl := none } },
       .plain (.sid (some 2)),
       .plain (.dump { content := [(0, 2)], mt := { present := true, sid := some 2, rt := some true, tl := none } })] := by
  decide

/-- why `dbimpl_state_modelled` matters — the design of the seeded change C17-4, in small: GetSnapshotId
    answers from a field of the DbImpl when it is filled and fills it otherwise; RestoreFromReader
    empties the field on ENTRY (before stage 1).  A poll during the stream refills it from the old
    database, and after the swap the old id is reported although the file carries the new one. -/
def cachedPoll (cache : Option Nat) (live : Db) : Option Nat × Option Nat :=   -- (cache afterwards, reported id)
  match cache with
  | some id => (some id, some id)
  | none => let r := if live.mt.present then live.mt.sid else none; (r, r)

example :
    let old : Db := { mt := { present := true, sid := some 1 } }
    let new : Db := { mt := { present := true, sid := some 2 } }
    let cacheAtEntry : Option Nat := none                       -- `self.snapshotId.Store(nil)` at the top
    let duringStream := cachedPoll cacheAtEntry old             -- a poll from inside the reader
    (cachedPoll duringStream.1 new).2 = some 1 ∧                -- after the swap: the OLD id
    (cachedPoll cacheAtEntry new).2 = some 2 := by              -- without the poll: correct
  decide

/-! ## "fresh id exactly once" under concurrent requests

  Requests are programs of atomic steps, one per bolt transaction (C17/TimelineConc.lean); an
  interleaving is the list of requester indices in the order in which their steps happen. -/

/-- **timeline once, concurrently.**  After a restore (reset marker set), for ANY number of
    GetTimelineId requests in `default` / `initIfEmpty` mode running the code's program (decision and
    action in one Update transaction) and for EVERY interleaving of their steps — every prefix of
    it too: idF is called at most once; whoever has finished returned that one fresh id; and once
    every requester has had its turn, exactly one id was generated and every request returned it. -/
theorem timeline_once_concurrent (sys : Sys) (hrt : sys.db.mt.rt = some true) (ms : List Mode)
    (hms : ∀ m ∈ ms, m ≠ Mode.forceReset) (sched : List Nat) :
    let s := texec (tinit sys [.atomic] ms) sched
    (∀ r ∈ s.reqs, ∀ ret, r = .done ret → ret = some (sys.idf + 1) ∧ s.sys.idf = sys.idf + 1) ∧
    s.sys.idf ≤ sys.idf + 1 ∧
    ((∀ i, i < ms.length → i ∈ sched) → ms ≠ [] →
      s.sys.idf = sys.idf + 1 ∧ s.sys.db.mt.tl = some (sys.idf + 1) ∧ ∀ r ∈ s.reqs, r = .done (some (sys.idf + 1))) := by
  intro s
  have h0 := tinit_fresh sys hrt ms hms
  have hinv : TInv sys.idf s := texec_inv sys.idf _ sched h0
  have hlen : s.reqs.length = ms.length := by simp [s, texec_length, tinit]
  refine ⟨?_, ?_, ?_⟩
  · intro r hr ret hret
    rcases hinv with ⟨_, _, hall⟩ | ⟨_, hidf, hall⟩
    · obtain ⟨m, _, hm⟩ := hall r hr
      rw [hm] at hret; cases hret
    · rcases hall r hr with ⟨m, _, hm⟩ | hd
      · rw [hm] at hret; cases hret
      · rw [hd] at hret; cases hret; exact ⟨rfl, hidf⟩
  · rcases hinv with ⟨_, hidf, _⟩ | ⟨_, hidf, _⟩ <;> omega
  · intro hall hne
    have hdone : ∀ r ∈ s.reqs, r = .done (some (sys.idf + 1)) := by
      intro r hr
      obtain ⟨i, hi, hget⟩ := List.mem_iff_getElem.mp hr
      have := texec_scheduled_done sys.idf _ sched h0 i (hall i (by omega)) (by simpa [tinit] using (by omega : i < ms.length))
      rw [List.getElem?_eq_getElem hi, hget] at this
      exact Option.some.inj this
    have hpos : 0 < s.reqs.length := by
      rw [hlen]; exact List.length_pos_iff.mpr hne
    rcases hinv with ⟨_, _, hw⟩ | ⟨hset, hidf, _⟩
    · -- somebody has finished, so this is not the fresh phase
      obtain ⟨m, _, hm⟩ := hw _ (List.getElem_mem hpos)
      rw [hdone _ (List.getElem_mem hpos)] at hm; cases hm
    · exact ⟨hidf, hset.2, hdone⟩

/-- **obligation on the regenerated table** (Generated/DbLocks.lean, `dbMetaOps`, from boltz/db.go now):
    GetTimelineId is ONE Update transaction that reads both markers, calls idF and writes both markers under
    a guard on the values read in that same transaction — i.e. the requester program `[atomic]` of
    `timeline_once_concurrent`.  Splitting it into a read-only check and a separate write breaks this. -/
theorem timeline_steps_expected : readTlProgram (MetaOps.get Generated.dbMetaOps "GetTimelineId") = some [.atomic] := by decide

/-- … and GetSnapshotId is one View, MarkAsSnapshot writes both markers in one Update -/
theorem marker_steps_expected : markerStepsExpected Generated.dbMetaOps = true := by decide

/-- hence for the code's program as regenerated -/
theorem code_timeline_once_concurrent (prog : List TlAct) (hp : readTlProgram (MetaOps.get Generated.dbMetaOps "GetTimelineId") = some prog)
    (sys : Sys) (hrt : sys.db.mt.rt = some true) (ms : List Mode) (hms : ∀ m ∈ ms, m ≠ Mode.forceReset) (sched : List Nat)
    (hall : ∀ i, i < ms.length → i ∈ sched) (hne : ms ≠ []) :
    (texec (tinit sys prog ms) sched).sys.idf = sys.idf + 1 ∧
    ∀ r ∈ (texec (tinit sys prog ms) sched).reqs, r = .done (some (sys.idf + 1)) := by
  rw [timeline_steps_expected] at hp
  cases hp
  have := (timeline_once_concurrent sys hrt ms hms sched).2.2 hall hne
  exact ⟨this.1, this.2.2⟩

/-- not vacuous, and why the table obligation matters — the check-then-act split (seeded C17-6: a View
    that reads the markers, the decision outside, then an Update that generates and stores
    unconditionally): two requests, both checks before either write ⇒ TWO fresh ids, the requests
    return different ids.  Run one after the other the same program behaves like the code. -/
theorem split_program_generates_twice :
    let sys : Sys := { db := { mt := { present := true, sid := some 1, rt := some true } } }
    let s := texec (tinit sys [.check, .act] [.default, .default]) [0, 1, 0, 1]
    s.sys.idf = 2 ∧ s.reqs = [.done (some 1), .done (some 2)] := by decide

example :
    let sys : Sys := { db := { mt := { present := true, sid := some 1, rt := some true } } }
    let s := texec (tinit sys [.check, .act] [.default, .default]) [0, 0, 1, 1]
    s.sys.idf = 1 ∧ s.reqs = [.done (some 1), .done (some 1)] := by decide

/-- the reading of the seeded change's table is that split program -/
example : readTlProgram [.tx .view [.read .resetTimeline, .read .timelineId], .decide [.resetTimeline, .timelineId],
    .decide [.timelineId], .tx .update [.idF, .read .timelineId, .write .timelineId, .write .resetTimeline]] = some [.check, .act] := by
  decide

/-- the hypotheses are satisfiable: four requesters, an interleaving with repeats and an out-of-range index -/
example :
    let sys : Sys := { idf := 3, db := { mt := { present := true, sid := some 1, rt := some true, tl := some 2 } } }
    let s := texec (tinit sys [.atomic] [.default, .initIfEmpty, .default, .initIfEmpty]) [2, 7, 0, 2, 3, 1]
    s.sys.idf = 4 ∧ s.reqs = List.replicate 4 (.done (some 4)) := by decide

/-! ## Concurrent clause: the lock protocol, for all interleavings -/

/-- **no mixed view.**  For every set of threads — any number of transactions whose programs are
    balanced with reads under a read hold (re-entrant ones included), any number of restores — and
    every interleaving (any list of scheduling choices): every read of every transaction sees the
    database generation that was open when the transaction took its outermost read lock, and never a
    closed handle.  Hence a transaction's whole extent lies before or after the swap. -/
theorem no_mixed_view (ts : List Thread) (hts : ∀ t ∈ ts, t.initial = true) (sched : List Nat) :
    anyMixed (exec (init ts) sched) = false :=
  not_mixed_of_Inv (Inv_exec (Inv_init hts) sched)

/-- the same, spelled out per read -/
theorem every_read_sees_pinned (ts : List Thread) (hts : ∀ t ∈ ts, t.initial = true) (sched : List Nat)
    (p : List TxAct) (d : Nat) (pin : Option Nat) (obs : List (Option Nat × Option Nat))
    (ht : Thread.tx p d pin obs ∈ (exec (init ts) sched).threads) :
    ∀ o ∈ obs, ∃ g, o.1 = some g ∧ o.2 = some g := by
  have hinv := (Inv_exec (Inv_init hts) sched).thr _ ht
  intro o ho
  obtain ⟨h1, h2⟩ := hinv.2.2.2 o ho
  cases h : o.1 with
  | none => rw [h] at h1; simp at h1
  | some g => exact ⟨g, rfl, by rw [h2, h]⟩

/-- the write lock really is exclusive in every reachable state: while a restore is between Close and
    Open (handle closed) or anywhere inside its critical section, nobody holds a read lock -/
theorem swap_excludes_readers (ts : List Thread) (hts : ∀ t ∈ ts, t.initial = true) (sched : List Nat) :
    ((exec (init ts) sched).g.held = true → (exec (init ts) sched).g.readers = 0) ∧
    ((exec (init ts) sched).g.isOpen = false → (exec (init ts) sched).g.readers = 0) := by
  have hinv := Inv_exec (Inv_init hts) sched
  generalize exec (init ts) sched = s at hinv
  refine ⟨hinv.excl, ?_⟩
  intro hclosed
  apply hinv.excl
  have hc := hinv.closed
  have hh := hinv.held
  have := sumBy_le inClosed_le_inHeld s.threads
  cases hg : s.g.held with
  | true => rfl
  | false =>
    simp [hg, hclosed] at hc hh
    omega

/-- **no deadlock without re-entrant read locking.**  If no transaction takes the read lock while it
    already holds it, then in every reachable state either every thread has finished or some thread
    can move: transactions and restores always complete under a fair scheduler. -/
theorem no_deadlock_flat (ts : List Thread) (hts : ∀ t ∈ ts, t.initialFlat = true) (sched : List Nat) :
    stuck (exec (init ts) sched) = false := by
  have hi := Inv_exec (Inv_init (fun t ht => initial_of_initialFlat (hts t ht))) sched
  have hf : AllFlat (init ts) := by
    intro t ht
    have := hts t ht
    cases t with
    | tx p d pin obs =>
      simp only [Thread.initialFlat, Bool.and_eq_true, beq_iff_eq] at this
      obtain ⟨⟨⟨rfl, _⟩, _⟩, hfl⟩ := this
      exact hfl
    | restore pc => trivial
  exact not_stuck_of_Inv hi (AllFlat_exec hf sched)

/-- **completion under a fair scheduler.**  Without re-entrant read locking, round-robin scheduling
    (every thread gets a turn in every pass) finishes every transaction and every restore within
    `work` passes, `work` = total number of steps the threads have to take.  (Each pass performs at
    least one step by `no_deadlock_flat`; each step is work done.) -/
theorem flat_population_completes (ts : List Thread) (hts : ∀ t ∈ ts, t.initialFlat = true) :
    allDone (exec (init ts) (roundRobin ts.length (work (init ts)))) = true := by
  have hi := Inv_init (fun t ht => initial_of_initialFlat (hts t ht))
  have hf : AllFlat (init ts) := by
    intro t ht
    have := hts t ht
    cases t with
    | tx p d pin obs =>
      simp only [Thread.initialFlat, Bool.and_eq_true, beq_iff_eq] at this
      obtain ⟨⟨⟨rfl, _⟩, _⟩, hfl⟩ := this
      exact hfl
    | restore pc => trivial
  exact rounds_complete hi hf (work (init ts)) (Nat.le_refl _)

/-! ## Obligations on the regenerated lock table (Generated/DbLocks.lean, from boltz/db.go now) -/

/-- RestoreFromReader / RestoreSnapshot have the shape the model's restore thread follows: persist
    outside the lock; Lock; Close, Rename, Rename, Open; go listener(); deferred Unlock. -/
theorem restore_under_write_lock : restoreModelled Generated.dbLockPrograms = true := by decide

/-- every transaction entry point reads as a balanced program with its bolt transaction / file copy
    under a read hold — the hypothesis of `no_mixed_view` holds of the code's programs. -/
theorem tx_entry_points_guarded : txProgsGuarded Generated.dbLockPrograms = true := by decide

/-- hence: any population of threads running the code's entry points and restores never sees a
    mixed view, under any interleaving -/
theorem code_no_mixed_view (names : List String) (nRestores : Nat) (sched : List Nat)
    (hn : ∀ n ∈ names, n ∈ txEntryPoints) :
    anyMixed (exec (init (names.filterMap (fun n => (txProg Generated.dbLockPrograms n).map mkTx) ++
        List.replicate nRestores (.restore .persist))) sched) = false := by
  apply no_mixed_view
  intro t ht
  rcases List.mem_append.mp ht with ht | ht
  · obtain ⟨n, hnm, hsome⟩ := List.mem_filterMap.mp ht
    have hg := tx_entry_points_guarded
    simp only [txProgsGuarded, List.all_eq_true] at hg
    have := hg n (hn n hnm)
    cases hp : txProg Generated.dbLockPrograms n with
    | none => rw [hp] at hsome; simp at hsome
    | some p =>
      rw [hp] at hsome this
      simp only [Option.map_some, Option.some.injEq] at hsome
      subst hsome
      simpa [mkTx, Thread.initial] using this
  · have := (List.mem_replicate.mp ht).2
    subst this
    rfl

/-! ## Methods called from inside a transaction body (regenerated: `dbInTxPrograms`, `dbInTxApis`) -/

/-- obligation on the regenerated tables: every method a transaction body calls — the ones taking the
    transaction as a parameter (SnapshotInTx, RootBucket, Update / Batch with the running context) and the
    ones the repository calls inside a transaction body (Migrate: GetDefaultSnapshotPath) — takes no read
    lock on its in-transaction path: `RLock; tx; <method>; RUnlock` is flat. -/
theorem in_tx_apis_take_no_read_lock : inTxApisFlat Generated.dbInTxApis Generated.dbInTxPrograms = true := by decide

/-- obligation on the regenerated table, for EVERY exported DbImpl method: a method that opens no bolt
    transaction of its own on its in-transaction path (a helper a transaction body may call: RootBucket,
    SnapshotInTx, GetDefaultSnapshotPath, nested Update / Batch, AddRestoreListener, AddTxCompleteListener,
    MarkAsSnapshot, and whatever is added later) takes no reload lock there — `Stats` excepted (`lockByDesign`). -/
theorem helpers_take_no_read_lock : helpersLockFree Generated.dbInTxPrograms = true := by decide

/-- hence: any population of transactions each calling one of those methods from inside its body, and
    any number of restores, under any interleaving, is never stuck -/
theorem code_in_tx_call_no_deadlock (names : List String) (nRestores : Nat) (sched : List Nat)
    (hn : ∀ n ∈ names, n ∈ Generated.dbInTxApis.map Prod.fst) :
    stuck (exec (init (names.filterMap (fun n => (inTxProg Generated.dbInTxPrograms n).map mkTx) ++
        List.replicate nRestores (.restore .persist))) sched) = false := by
  apply no_deadlock_flat
  intro t ht
  rcases List.mem_append.mp ht with ht | ht
  · obtain ⟨n, hnm, hsome⟩ := List.mem_filterMap.mp ht
    obtain ⟨a, ha, rfl⟩ := List.mem_map.mp (hn n hnm)
    have hall := in_tx_apis_take_no_read_lock
    simp only [inTxApisFlat, List.all_eq_true] at hall
    have := hall a ha
    cases hp : inTxProg Generated.dbInTxPrograms a.1 with
    | none => rw [hp] at hsome; simp at hsome
    | some p =>
      rw [hp] at hsome this
      simp only [Option.map_some, Option.some.injEq] at hsome
      subst hsome
      simpa [mkTx, Thread.initialFlat] using this
  · have := (List.mem_replicate.mp ht).2
    subst this
    rfl

/-- not vacuous: a method that takes the read lock itself (the seeded C17-15 reading of
    GetDefaultSnapshotPath: `rlock, runlock`) called from inside a transaction body, with a restore
    announcing its write lock between the transaction's RLock and the call: stuck -/
example : flat 0 (inTxCall [.rlock, .runlock]) = false := by decide
example : stuck (exec (init [mkTx (inTxCall [.rlock, .runlock]), .restore .persist]) [0, 0, 1, 1]) = true := by decide
example : (inTxProg Generated.dbInTxPrograms "GetDefaultSnapshotPath").map (flat 0) = some true := by decide

/-! ## Non-vacuity, and the finding -/

/-- the hypotheses are satisfiable by the interesting population: two readers, a snapshotter and
    two restores; and a real interleaving gets somewhere (both restores complete) -/
example : let ts := [mkTx [.rlock, .read, .read, .runlock], mkTx [.rlock, .read, .runlock],
                     mkTx [.rlock, .rlock, .read, .runlock, .runlock], .restore .persist, .restore .persist]
    (∀ t ∈ ts, t.initial = true) ∧ (exec (init ts) [0, 3, 3, 0, 0, 0, 3, 3, 3, 3, 3, 3, 1, 4, 4, 1, 1, 4, 4, 4, 4, 4, 4]).g.gen = 2 := by
  decide

/-- the theorem is not vacuous: WITHOUT the write lock (restore swapping files outside the lock) a
    mixed view is reachable — a reader sees generation 0, then the swapped-in generation 1 -/
example : anyMixed (execNoLock (init [mkTx [.rlock, .read, .read, .runlock], .restore .persist])
    [0, 0, 1, 1, 1, 1, 1, 0]) = true := by decide

/-- … and a closed handle is reachable too -/
example : anyMixed (execNoLock (init [mkTx [.rlock, .read, .runlock], .restore .persist])
    [0, 1, 1, 1, 1, 0]) = true := by decide

/-- COUNTER-EXAMPLE KEPT FOR THE RECORD — the protocol BEFORE /repo commit 1716f6e:
    `Snapshot` = `View` (RLock) around `SnapshotInTx`, which took the read lock AGAIN (and
    `RootBucket(tx)` did the same inside any transaction).  With a restore arriving between the two
    RLock calls the system is stuck: the snapshotter's second RLock waits behind the announced
    writer, the writer waits for the snapshotter's first hold.  The trace [0,0,1,1] below is that
    schedule (thread 0: RLock, begin bolt tx; thread 1: persist, announce Lock); the resulting
    state is reachable and has no enabled thread.  The program is balanced and guarded (`wf`), so
    `no_mixed_view` covered it — it was a liveness defect, which is why `no_deadlock_flat` needs
    flatness.  (program as regenerated from the old code: rlock, dbtx, rlock, copy, runlock, runlock) -/
def snapshotProgramBefore1716f6e : List TxAct := [.rlock, .read, .rlock, .read, .runlock, .runlock]

theorem old_protocol_deadlock_reachable :
    stuck (exec (init [mkTx snapshotProgramBefore1716f6e, .restore .persist]) [0, 0, 1, 1]) = true := by decide
example : flat 0 snapshotProgramBefore1716f6e = false := by decide
example : wf 0 snapshotProgramBefore1716f6e = true := by decide
/-- the same for a transaction calling the old RootBucket(tx) -/
example : stuck (exec (init [mkTx [.rlock, .read, .rlock, .runlock, .runlock], .restore .persist]) [0, 0, 1, 1]) = true := by decide

/-! ## The repaired protocol (regenerated table): no re-entrant read lock, hence progress -/

/-- obligation on the regenerated table: the two methods that are called with a transaction in hand
    (i.e. under that transaction's read hold) do not take the read lock themselves -/
theorem no_reentrant_read_lock :
    (takesReadLock Generated.dbLockPrograms "SnapshotInTx" || takesReadLock Generated.dbLockPrograms "RootBucket") = false := by
  decide

/-- obligation on the regenerated table: every transaction entry point — `Snapshot` included — takes
    the read lock exactly once around its bolt transaction -/
theorem all_entry_points_flat : ∀ n ∈ txEntryPoints, txProgFlat Generated.dbLockPrograms n = true := by decide

/-- **no deadlock for the code's protocol.**  Any population of threads running the code's
    transaction entry points (as regenerated) and any number of restores, under any interleaving,
    is never stuck: in every reachable state everybody has finished or somebody can move. -/
theorem code_no_deadlock (names : List String) (nRestores : Nat) (sched : List Nat)
    (hn : ∀ n ∈ names, n ∈ txEntryPoints) :
    stuck (exec (init (names.filterMap (fun n => (txProg Generated.dbLockPrograms n).map mkTx) ++
        List.replicate nRestores (.restore .persist))) sched) = false := by
  apply no_deadlock_flat
  intro t ht
  rcases List.mem_append.mp ht with ht | ht
  · obtain ⟨n, hnm, hsome⟩ := List.mem_filterMap.mp ht
    have := all_entry_points_flat n (hn n hnm)
    simp only [txProgFlat] at this
    cases hp : txProg Generated.dbLockPrograms n with
    | none => rw [hp] at hsome; simp at hsome
    | some p =>
      rw [hp] at hsome this
      simp only [Option.map_some, Option.some.injEq] at hsome
      subst hsome
      simpa [mkTx, Thread.initialFlat] using this
  · have := (List.mem_replicate.mp ht).2
    subst this
    rfl

/-- … and completes under round-robin scheduling -/
theorem code_population_completes (names : List String) (nRestores : Nat) (hn : ∀ n ∈ names, n ∈ txEntryPoints) :
    let ts := names.filterMap (fun n => (txProg Generated.dbLockPrograms n).map mkTx) ++
        List.replicate nRestores (.restore .persist)
    allDone (exec (init ts) (roundRobin ts.length (work (init ts)))) = true := by
  intro ts
  apply flat_population_completes
  intro t ht
  rcases List.mem_append.mp ht with ht | ht
  · obtain ⟨n, hnm, hsome⟩ := List.mem_filterMap.mp ht
    have := all_entry_points_flat n (hn n hnm)
    simp only [txProgFlat] at this
    cases hp : txProg Generated.dbLockPrograms n with
    | none => rw [hp] at hsome; simp at hsome
    | some p =>
      rw [hp] at hsome this
      simp only [Option.map_some, Option.some.injEq] at hsome
      subst hsome
      simpa [mkTx, Thread.initialFlat] using this
  · have := (List.mem_replicate.mp ht).2
    subst this
    rfl

/-- non-vacuity of `code_no_deadlock`: the population that used to deadlock (a snapshotter, a
    reader, two restores) now runs to completion under a concrete schedule -/
example :
    let ts := (["Snapshot", "View"].filterMap (fun n => (txProg Generated.dbLockPrograms n).map mkTx)) ++
              List.replicate 2 (.restore .persist)
    ts.length = 4 ∧
    allDone (exec (init ts) [0, 0, 2, 2, 0, 0, 2, 2, 2, 2, 2, 1, 3, 3, 1, 1, 3, 3, 3, 3, 3]) = true := by
  decide

/-! ## The path argument of Snapshot / SnapshotInTx (C17/Paths.lean)

The slot of the sequential model is "the file under the path the call returned".  Below the path is a
string, the argument a template with placeholders, the directory a map from paths to bolt files. -/

/-- **the file under the returned path is the marked copy, nothing else is touched** — for EVERY template
    (any placeholders, in any number, in either form, or none), every clock / db location, every
    directory content: the call returns the expansion, the file under the returned path is the copy
    with the two markers, every other file of the directory is as before. -/
theorem snapshot_path_file_marked (e : Env) (tmpl : Path) (id : Nat) (copy : Db) (fs : PFS) :
    (snapshotInTx e tmpl id copy fs).1 = expand e tmpl ∧
    lookupP (snapshotInTx e tmpl id copy fs).1 (snapshotInTx e tmpl id copy fs).2 = some (mark id copy) ∧
    ∀ q, q ≠ (snapshotInTx e tmpl id copy fs).1 →
      lookupP q (snapshotInTx e tmpl id copy fs).2 = lookupP q fs :=
  ⟨rfl, snapshotFiles_same _ _ _ _, fun q hq => snapshotFiles_other _ q _ _ _ hq⟩

/-- **exactly the uses of the path that agree are correct.**  For an arbitrary assignment of paths to
    the three uses (CopyFile, MarkAsSnapshot, returned value): the file under the returned path is
    the marked copy for every id / database / directory IFF the copy and the markers went to the
    returned path. -/
theorem path_use_correct_iff (u : PathUse) :
    (∀ id copy fs, lookupP u.returned (snapshotFiles u id copy fs).2 = some (mark id copy)) ↔
    (u.copyTo = u.returned ∧ u.markAt = u.returned) := by
  obtain ⟨c, m, r⟩ := u
  constructor
  · intro h
    have h0 := h 1 { content := [(0, 0)] } []
    simp only [snapshotFiles, markAsSnapshot, copyFile] at h0
    by_cases hm : m = r
    · subst hm
      rw [lookupP_storeP_same] at h0
      by_cases hc : c = m
      · exact ⟨hc, rfl⟩
      · have hc' : m ≠ c := fun hh => hc hh.symm
        simp [storeP, lookupP, hc', mark] at h0
    · have hm' : r ≠ m := fun hh => hm hh.symm
      rw [lookupP_storeP_other _ _ _ _ hm'] at h0
      by_cases hc : r = c
      · subst hc; simp [storeP, lookupP, mark] at h0
      · simp [storeP, lookupP, hc] at h0
  · intro ⟨h1, h2⟩ id copy fs
    simp only at h1 h2
    subst h1 h2
    exact snapshotFiles_same _ _ _ _

/-- a template without `D` and `T` (every placeholder contains one of them) is its own expansion:
    with a plain path the argument and the expansion are the same string -/
theorem expand_plain_path (e : Env) (p : Path) (hD : 'D' ∉ p) (hT : 'T' ∉ p) : expand e p = p :=
  expand_plain e p hD hT

/-- **the path level refines the slot level**, for whole histories (each operation with the clock at
    which it is made), under any injective naming of paths: same database, same counters, same files,
    same observations.  Every sequential theorem above therefore speaks about histories whose
    snapshots are taken through templates, with slot = name of the expansion. -/
theorem path_level_refines_slots (code : Path → Nat) (hinj : ∀ a b, code a = code b → a = b)
    (ps : PSys) (s : Sys) (h : Sim code ps s) (hist : List (Env × POp)) :
    Sim code (prun ps hist).1 (run s (hist.map fun eo => eo.2.abs code eo.1)).1 ∧
    (prun ps hist).2.map PObs.abs = (run s (hist.map fun eo => eo.2.abs code eo.1)).2 := by
  induction hist generalizing ps s with
  | nil => exact ⟨h, rfl⟩
  | cons eo os ih =>
    obtain ⟨e, o⟩ := eo
    obtain ⟨h1, h2⟩ := pstep_refines code hinj e ps s o h
    obtain ⟨i1, i2⟩ := ih _ _ h1
    exact ⟨i1, by simp only [prun, run, List.map_cons, h2, i2]⟩

/-- **restore ∘ snapshot through a template.**  Every start state and directory, every history `h1`,
    a snapshot with ANY template at ANY clock, every further history `h2` that does not write the
    file the call returned (other templates, the same template at another second, other files),
    a restore of the file under the RETURNED path through any reader: the database is the one at
    snapshot time with exactly the two markers, GetSnapshotId reports the returned id, and the next
    timeline request calls idF once and returns the fresh id, in every mode. -/
theorem path_restore_snapshot (ps0 : PSys) (h1 h2 : List (Env × POp)) (e eR : Env) (tmpl : Path) (inTx : Bool)
    (rd : Reader) (hk : KeepsPath (expand e tmpl) h2) :
    let pA := (prun ps0 h1).1
    let fin := (prun ps0 (h1 ++ [(e, .snapT tmpl inTx)] ++ h2 ++ [(eR, .restoreFrom (expand e tmpl) rd)])).1
    (pstep e pA (.snapT tmpl inTx)).2 = .snappedAt (expand e tmpl) pA.base.nextId pA.base.db ∧
    fin.base.db = mark pA.base.nextId pA.base.db ∧
    (step fin.base .gsid).2 = .sid (some pA.base.nextId) ∧
    ∀ m, (step fin.base (.gtl m true)).2 = .tl (some (fin.base.idf + 1)) 1 := by
  intro pA fin
  have key : fin.base.db = mark pA.base.nextId pA.base.db := by
    simp only [fin, prun_append, List.append_assoc]
    have hfile : lookupP (expand e tmpl) (prun (prun (prun ps0 h1).1 [(e, .snapT tmpl inTx)]).1 h2).1.fs
        = some (mark pA.base.nextId pA.base.db) := by
      rw [prun_keeps_file _ h2 _ hk]
      simp only [prun, pstep, snapshotInTx, pathUseCode]
      exact snapshotFiles_same _ _ _ _
    simp only [prun, pstep] at hfile ⊢
    simp [hfile]
  refine ⟨rfl, key, ?_, ?_⟩
  · simp only [step, key]; simp [mark]
  · intro m
    exact (timeline_once fin.base (by rw [key]; rfl) m).1

/-- non-vacuity + what the expansion does, decided: both forms of every placeholder, several at once,
    adjacent ones, the `__X__` form losing its underscores (it is replaced before the bare form), a
    bare placeholder between single underscores, lower case untouched, the text a replacement put
    in being seen by the later calls (a db directory called DATE) -/
def demoEnv : Env := { date := "20260930".toList, time := "155703".toList, dbDir := "/data".toList, dbFile := "ctrl.db".toList }
example : expand demoEnv "/backups/ctrl-DATE-TIME.db".toList = "/backups/ctrl-20260930-155703.db".toList := by decide
example : expand demoEnv "__DB_DIR__/__DB_FILE__-__DATE____TIME__".toList = "/data/ctrl.db-20260930155703".toList := by decide
example : expand demoEnv "DB_DIR/DB_FILE.DATETIME".toList = "/data/ctrl.db.20260930155703".toList := by decide
example : expand demoEnv "x_DATE_-date".toList = "x_20260930_-date".toList := by decide
example : expand demoEnv "DATE-DATE".toList = "20260930-20260930".toList := by decide
example : expand { demoEnv with dbDir := "/srv/DATE".toList } "__DB_DIR__/s".toList = "/srv/20260930/s".toList := by decide
example : expand demoEnv "/backups/plain.db".toList = "/backups/plain.db".toList := by decide

/-- the variant that keeps the expansion in a second variable and marks the ARGUMENT (seeded C17-18): with a
    template that has a placeholder the file under the returned path carries no marker at all, and a
    second file appears under the literal template; restoring the returned file reports no snapshot
    id and requests no timeline reset.  With a plain path the two variables are equal and nothing changes. -/
example :
    let u := pathUseSplit demoEnv "b-DATE".toList
    let r := snapshotFiles u 7 { content := [(0, 1)], mt := { present := true, tl := some 1, rt := some false } } []
    r.1 = "b-20260930".toList ∧
    (lookupP r.1 r.2).map (·.mt.sid) = some none ∧
    (lookupP r.1 r.2).map (·.mt.rt) = some (some false) ∧
    (lookupP "b-DATE".toList r.2).map (·.mt.sid) = some (some 7) ∧
    (lookupP "b-DATE".toList r.2).map (·.content) = some [] := by decide
example : pathUseSplit demoEnv "b-plain".toList = pathUseCode demoEnv "b-plain".toList := by decide
example : ¬ ((pathUseSplit demoEnv "b-DATE".toList).markAt = (pathUseSplit demoEnv "b-DATE".toList).returned) := by decide

/-- non-vacuity of `path_restore_snapshot`: a decided history — snapshot through a template, the same
    template a second later (another file), a stream into a third file, a write; restore of the first -/
example :
    let e1 := demoEnv
    let e2 := { demoEnv with time := "155704".toList }
    let hist : List (Env × POp) :=
      [(e1, .other (.tx [.put 0 1] true)), (e1, .other (.gtl .initIfEmpty true)),
       (e1, .snapT "s-DATE-TIME".toList false),
       (e2, .other (.tx [.put 0 2, .put 1 3] true)), (e2, .snapT "s-DATE-TIME".toList true), (e2, .streamTo "w".toList),
       (e2, .restoreFrom "s-20260930-155703".toList {}), (e2, .other .gsid), (e2, .other (.gtl .default true))]
    (prun {} hist).2.drop 6 =
      [.plain (.restored 0 { content := [(0, 1)], mt := { present := true, sid := some 1, rt := some true, tl := some 1 } }),
       .plain (.sid (some 1)), .plain (.tl (some 2) 1)] := by decide

/-! ### the path-level model and the code: table regenerated from SnapshotInTx by extract/dbpaths.go -/

/-- table obligation: SnapshotInTx rewrites ONE path variable by exactly the chain of ReplaceAll calls the model's
    `expand` is written after, and that variable after the last rewrite is what CopyFile receives, what
    MarkAsSnapshot receives and what is returned (`pathUseCode`) -/
theorem snapshot_path_program_expected :
    readPathProgram Generated.dbSnapshotPathOps = some codeReplacements := by decide

/-- hence the expansion read off the code is the model's, for every clock / location and every template -/
theorem code_expansion_is_model (e : Env) (p : Path) :
    (readPathProgram Generated.dbSnapshotPathOps).bind (fun r => expandTable e r p) = some (expand e p) := by
  rw [snapshot_path_program_expected]; rfl

/-- the table of the seeded variant (expansion kept in a second variable, the argument still marked) does not read -/
example : readPathProgram [.assign "target" 1 "self.resolveSnapshotPath(path)", .copy "target" 1, .mark "path" 0,
    .ret "target" 1] = none := by decide
/-- marking before the last rewrite does not read either -/
example : readPathProgram [.replace "path" 1 "DATE" "date", .copy "path" 1, .replace "path" 2 "TIME" "time",
    .mark "path" 2, .ret "path" 2] = none := by decide
example : readPathProgram [.copy "path" 0, .mark "path" 0, .ret "path" 0] = some [] := by decide

end StorageModel.Properties.C17
