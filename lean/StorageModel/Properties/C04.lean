import StorageModel.C04.Exact
import StorageModel.C04.SpecProofs
import StorageModel.C04.OldRoute
import StorageModel.C04.MarksProofs
import StorageModel.C04.TierProofs
import StorageModel.C04.GenProofs
import StorageModel.C04.GenInv
import StorageModel.C04.GenMono
/-
  C04 — Foreign keys: targets exist, back-references exact, delete restricts or cascades.

  "An entity can be created or updated to reference another entity only if that target exists (or the
  reference is null and the field is nullable), and after any committed history the target's
  back-reference set equals exactly the set of entities currently referencing it. Deleting a
  referenced entity is either refused with a reference-exists error (restrict) or deletes exactly the
  entities that reference it and nothing else (cascade) - for every possible id value, including ids
  containing quotes, backslashes or filter keywords."

  The model (`StorageModel/C04/Model.lean`) follows boltz/indexes.go and boltz/store_crud.go; it is tied
  to /repo by the correspondence harness (/verif/harness/c04.go).  All theorems quantify over every
  schema variant, every id (any byte string) and every history.

  Round 2: the model contains a plain CHILD STORE C of the referring store A (`Op.createC / updateC /
  deleteC`; updates through A of an entity with child data are handed to C).  A create through C over an
  already existing A entity runs `ProcessAfterUpdate` with `IsCreate = true` AND captured old values
  (remove the old back-reference, write the new one — also when both name the same target), a delete of
  an entity with child data runs A's `ProcessBeforeDelete` constraints twice.  Every theorem below holds
  for the enlarged operation set, at full strength (no hypothesis about child data).

  History (round 2): until commit 001d2d2 the second `ProcessBeforeDelete` round looked the boss up again
  through `getIndexBucket`; for an entity with child data on a reference cycle of length ≥ 2 the first
  round's cascade had already deleted it and `DeleteById` failed with not-found — found by this check
  (`h 0 cb:6b ca:72:~:72:6b ca:7a:~:72:6b ua:72:2:~:7a:~ cc:72:~:7a:6b:74 da:72`).  The repaired code skips a
  target that is gone; the model follows it, `cascade_exact` / `delete_outcomes` hold without the former
  hypothesis, and the once failing history is a `decide`-checked example below.

  History: until commit bda5470 `DeleteById` recursed through `fkDeleteCascadeConstraint` without a
  visited set, so a delete on a cascade-delete reference cycle (already a self reference) never returned
  (fatal stack overflow) — found by this check.  The repaired code remembers the entities whose cascade
  is in progress and steps over them; the model follows it, `cascade_terminates` is the explicit
  termination argument and `cascade_exact` holds for every state, cycles and self references included.
-/
namespace StorageModel.Properties.C04
open StorageModel StorageModel.C04

/-- **Invariant over all histories**: after any sequence of transactions (committed or rolled back),
    every back-reference set is exact in both directions: `k` is listed under target `t` iff `k`
    exists and its fk field currently holds `t` — the two sets of A's own fk indexes and the set of every
    mentor index DECLARED BY a child store (`mentorOf σ c` is the mentor value child store `c` holds for
    the entity if `c` declares the index, null otherwise). -/
theorem lookup_of_insert {V : Type} {m m' : Map V} {k : Bytes} {v : V} (h : m' = m.insert k v) :
    m'.lookup k = some v := by
  rw [h, Map.lookup_insert]; simp only [if_true]

theorem fk_inv_reachable (σ : Schema) (txs : List (List Op)) :
    let s := runHistory σ txs
    (∀ b k, k ∈ (s.things.lookup b).getD [] ↔ ∃ e, s.as.lookup k = some e ∧ evalVal e.owner = b ∧ b ≠ []) ∧
    (∀ a k, k ∈ (s.minions.lookup a).getD [] ↔ ∃ e, s.as.lookup k = some e ∧ evalVal e.boss = a ∧ a ≠ []) ∧
    (∀ c b k, k ∈ ((s.mentees c).lookup b).getD [] ↔
      ∃ e, s.as.lookup k = some e ∧ evalVal (mentorOf σ c e) = b ∧ b ≠ []) ∧
    FullInv σ s := by
  have h : FullInv σ (runHistory σ txs) := full_reachable σ txs
  refine ⟨?_, ?_, ?_, h⟩
  · intro b k; rw [h.1.things b k]; simp [none']
  · intro a k; rw [h.1.minions a k]; simp [none']
  · intro c b k; rw [h.2.men c b k]; simp [none']

/-- the same for every single operation (also inside a transaction) -/
theorem fk_inv_step (σ : Schema) (s s' : St) (op : Op) (hF : FullInv σ s) (h : apply σ s op = .ok s') : FullInv σ s' :=
  apply_full op hF h

/-- **Targets exist, null only where nullable** — in every reachable state, for every stored entity, for A's
    fks and for the mentor / guard fks the child stores declare. -/
theorem fk_target_exists (σ : Schema) (txs : List (List Op)) (k : Bytes) (e : EntA)
    (he : (runHistory σ txs).as.lookup k = some e) :
    let s := runHistory σ txs
    (evalVal e.owner ≠ [] → s.bs.contains (evalVal e.owner) = true) ∧
    (evalVal e.boss ≠ [] ∧ s.as.contains (evalVal e.boss) = true) ∧
    (evalVal e.dep ≠ [] → s.bs.contains (evalVal e.dep) = true) ∧
    (σ.depNullable = false → evalVal e.dep ≠ []) ∧
    (∀ c, (evalVal (mentorOf σ c e) ≠ [] → s.bs.contains (evalVal (mentorOf σ c e)) = true) ∧
          (evalVal (guardOf σ c e) ≠ [] → s.bs.contains (evalVal (guardOf σ c e)) = true)) := by
  have hF : FullInv σ (runHistory σ txs) := full_reachable σ txs
  have h := hF.1
  exact ⟨h.ownerT k e he, ⟨h.bossNN k e he, h.bossT k e he (fun hp => hp) (h.bossNN k e he)⟩, h.depT k e he,
    fun hn => h.depNN hn k e he, fun c => ⟨hF.2.menT c k e he, hF.2.guardT c k e he⟩⟩

/-- **A write needs its targets**: a Create / Update of an A entity — through A or through a child store —
    that succeeds leaves an entity whose every reference names an entity that exists (for `boss` possibly
    itself), and a null reference only where the field is nullable; this includes the mentor / guard
    references of the fks the child stores declare.  Contrapositive: a reference to a missing target, or a
    null in a non-nullable field, makes the write fail (and a failed operation leaves the state). -/
theorem fk_write_requires_target (σ : Schema) (s s' : St) (op : Op) (id : Bytes) (hF : FullInv σ s)
    (hop : (∃ e, op = .createA id e) ∨ (∃ e mo mb md, op = .updateA id e mo mb md) ∨
           (∃ c e x, op = .createC c id e x) ∨ (∃ c e x mo mb md mt mm mg, op = .updateC c id e x mo mb md mt mm mg))
    (h : apply σ s op = .ok s') :
    ∃ e', s'.as.lookup id = some e' ∧ s'.bs = s.bs ∧
      (evalVal e'.owner ≠ [] → s.bs.contains (evalVal e'.owner) = true) ∧
      (evalVal e'.boss ≠ [] ∧ s'.as.contains (evalVal e'.boss) = true) ∧
      (evalVal e'.dep ≠ [] → s.bs.contains (evalVal e'.dep) = true) ∧
      (σ.depNullable = false → evalVal e'.dep ≠ []) ∧
      (∀ c, (evalVal (mentorOf σ c e') ≠ [] → s.bs.contains (evalVal (mentorOf σ c e')) = true) ∧
            (evalVal (guardOf σ c e') ≠ [] → s.bs.contains (evalVal (guardOf σ c e')) = true)) := by
  have hF' : FullInv σ s' := apply_full op hF h
  have hI := hF.1
  have key : ∀ e', s'.as.lookup id = some e' → s'.bs = s.bs →
      ∃ e', s'.as.lookup id = some e' ∧ s'.bs = s.bs ∧
      (evalVal e'.owner ≠ [] → s.bs.contains (evalVal e'.owner) = true) ∧
      (evalVal e'.boss ≠ [] ∧ s'.as.contains (evalVal e'.boss) = true) ∧
      (evalVal e'.dep ≠ [] → s.bs.contains (evalVal e'.dep) = true) ∧
      (σ.depNullable = false → evalVal e'.dep ≠ []) ∧
      (∀ c, (evalVal (mentorOf σ c e') ≠ [] → s.bs.contains (evalVal (mentorOf σ c e')) = true) ∧
            (evalVal (guardOf σ c e') ≠ [] → s.bs.contains (evalVal (guardOf σ c e')) = true)) := by
    intro e' he hbs
    have hI' := hF'.1
    refine ⟨e', he, hbs, ?_, ⟨hI'.bossNN id e' he, hI'.bossT id e' he (fun hp => hp) (hI'.bossNN id e' he)⟩, ?_,
      fun hn => hI'.depNN hn id e' he, fun c => ⟨?_, ?_⟩⟩
    · intro hne; rw [← hbs]; exact hI'.ownerT id e' he hne
    · intro hne; rw [← hbs]; exact hI'.depT id e' he hne
    · intro hne; rw [← hbs]; exact hF'.2.menT c id e' he hne
    · intro hne; rw [← hbs]; exact hF'.2.guardT c id e' he hne
  rcases hop with ⟨e, rfl⟩ | ⟨e, mo, mb, md, rfl⟩ | ⟨c, e, x, rfl⟩ | ⟨c, e, x, mo, mb, md, mt, mm, mg, rfl⟩
  · obtain ⟨_, has, hbs, _⟩ := createA_inv hI h
    exact key _ (lookup_of_insert has) hbs
  · obtain ⟨_, hbs, cur, _, has, _⟩ := updateA_inv hI h
    exact key _ (lookup_of_insert has) hbs
  · obtain ⟨_, has, hbs, _, _⟩ := createC_inv hI h
    exact key _ (lookup_of_insert has) hbs
  · obtain ⟨_, hbs, _, cur, cx, _, _, has, _⟩ := updateC_inv hI h
    exact key _ (lookup_of_insert has) hbs

/-- **Null is rejected where the field is not nullable** (`boss` always, `dep` in the non-nullable
    variants): the write fails and the state is unchanged — through A and through either child store. -/
theorem null_rejected_when_not_nullable (σ : Schema) (s : St) (id : Bytes) (e : EntA) (hF : FullInv σ s)
    (hnull : evalVal e.boss = [] ∨ (σ.depNullable = false ∧ evalVal e.dep = [])) :
    (∃ err, step σ s (.createA id e) = (s, some err)) ∧
    (∃ err, step σ s (.updateA id e true true true) = (s, some err)) ∧
    (∀ c x, ∃ err, step σ s (.createC c id e x) = (s, some err)) ∧
    (∀ c x mt mm mg, ∃ err, step σ s (.updateC c id e x true true true mt mm mg) = (s, some err)) := by
  have hI := hF.1
  -- the written entity carries `e`'s boss and dep
  have bad : ∀ (op : Op) (s' : St) (e' : EntA), apply σ s op = .ok s' → s'.as.lookup id = some e' →
      e'.boss = e.boss → e'.dep = e.dep → Inv σ s' → False := by
    intro op s' e' _ he' hb hd hI'
    rcases hnull with hn | ⟨hn1, hn2⟩
    · exact hI'.bossNN id e' he' (show evalVal e'.boss = [] by rw [hb]; exact hn)
    · exact hI'.depNN hn1 id e' he' (show evalVal e'.dep = [] by rw [hd]; exact hn2)
  refine ⟨?_, ?_, ?_, ?_⟩
  · unfold step
    cases h : apply σ s (.createA id e) with
    | error err => exact ⟨err, rfl⟩
    | ok s' =>
      exfalso
      obtain ⟨hI', has, _⟩ := createA_inv hI h
      exact bad _ s' e.plain h (lookup_of_insert has) rfl rfl hI'
  · unfold step
    cases h : apply σ s (.updateA id e true true true) with
    | error err => exact ⟨err, rfl⟩
    | ok s' =>
      exfalso
      obtain ⟨hI', _, cur, _, has, _⟩ := updateA_inv hI h
      exact bad _ s' _ h (lookup_of_insert has) rfl rfl hI'
  · intro c x
    unfold step
    cases h : apply σ s (.createC c id e x) with
    | error err => exact ⟨err, rfl⟩
    | ok s' =>
      exfalso
      obtain ⟨hI', has, _⟩ := createC_inv hI h
      refine bad _ s' _ h (lookup_of_insert has) ?_ ?_ hI'
      · unfold createdEnt; cases s.as.lookup id <;> exact (setExt_fields _ c _).2.1
      · unfold createdEnt; cases s.as.lookup id <;> exact (setExt_fields _ c _).2.2.1
  · intro c x mt mm mg
    unfold step
    cases h : apply σ s (.updateC c id e x true true true mt mm mg) with
    | error err => exact ⟨err, rfl⟩
    | ok s' =>
      exfalso
      obtain ⟨hI', _, _, cur, cx, _, _, has, _⟩ := updateC_inv hI h
      refine bad _ s' _ h (lookup_of_insert has) ?_ ?_ hI'
      · exact (setExt_fields _ c _).2.1
      · exact (setExt_fields _ c _).2.2.1

/-- the error enum in the plain case: a fresh id, no owner, an empty `boss` — "null-not-allowed" -/
theorem null_boss_enum (σ : Schema) (s : St) (id : Bytes) (e : EntA) (hdf : σ.depFirst = false)
    (hid : id ≠ []) (hfresh : s.as.contains id = false) (ho : evalVal e.owner = []) (hb : evalVal e.boss = []) :
    step σ s (.createA id e) = (s, some .nullNotAllowed) := by
  have hf : ∀ f : EntA → FV, fieldOf { s with as := s.as.insert id e.plain } id f = evalVal (f e.plain) := by
    intro f; simp [fieldOf]
  have ho' : evalVal e.plain.owner = [] := ho
  have hb' : evalVal e.plain.boss = [] := hb
  simp [step, apply, createA, hid, hfresh, processAfterUpdateA, orderA, hdf, List.foldlM_cons, afterUpdateA,
    hf, ho', hb', bind, Except.bind]

/-- **Restrict refuses**: while an A entity refers to `b` through `owner` — or through `dep` in the
    restrict variant — deleting `b` returns the reference-exists error and changes nothing.
    (Excluded: the variant in which the dep *cascade* is registered before the restrict check; there
    the cascade runs first, see `restrict_never_orphans`.) -/
theorem restrict_refuses (σ : Schema) (s : St) (b : Bytes) (hI : Inv σ s) (hb : s.bs.contains b = true)
    (href : (∃ k e, s.as.lookup k = some e ∧ evalVal e.owner = b ∧ b ≠ []) ∨
            (σ.depCascade = false ∧ ∃ k e, s.as.lookup k = some e ∧ e.dep = some b))
    (hord : ¬ (σ.depFirst = true ∧ σ.depCascade = true)) :
    step σ s (.deleteB b) = (s, some .refExists) :=
  deleteB_refuses σ s b hI hb href hord

/-- in *every* variant a successful delete of `b` leaves no entity referring to `b` -/
theorem restrict_never_orphans (σ : Schema) (s s' : St) (b : Bytes) (hI : Inv σ s)
    (h : apply σ s (.deleteB b) = .ok s') (k : Bytes) (e : EntA) (he : s'.as.lookup k = some e) :
    (evalVal e.owner ≠ [] → evalVal e.owner ≠ b) ∧ (evalVal e.dep ≠ [] → evalVal e.dep ≠ b) :=
  deleteB_no_orphans σ s s' b hI h k e he

/-- **Restrict refuses for the fks the child stores declare**: while an entity refers to `b` through a mentor
    index or a guard constraint declared by C or C2, deleting `b` returns the reference-exists error and
    changes nothing (variants where `dep` restricts: no cascade runs before these checks). -/
theorem restrict_refuses_child (σ : Schema) (s : St) (b : Bytes) (hF : FullInv σ s) (hb : s.bs.contains b = true)
    (hnc : σ.depCascade = false)
    (href : ∃ c k e, s.as.lookup k = some e ∧ (mentorOf σ c e = some b ∨ guardOf σ c e = some b)) :
    step σ s (.deleteB b) = (s, some .refExists) :=
  deleteB_refuses_child σ s b hF.1 hF.2 hb hnc href

/-- … and in *every* variant a successful delete of `b` leaves no entity referring to `b` through them -/
theorem restrict_never_orphans_child (σ : Schema) (s s' : St) (b : Bytes) (hF : FullInv σ s)
    (h : apply σ s (.deleteB b) = .ok s') (k : Bytes) (e : EntA) (he : s'.as.lookup k = some e) (c : Child) :
    mentorOf σ c e ≠ some b ∧ guardOf σ c e ≠ some b := by
  have hF' := apply_full _ hF h
  obtain ⟨_, _, hbs⟩ := deleteB_inv hF.1 h
  obtain ⟨hb, _⟩ := deleteB_succ_ok hF.1 h
  have hbne : b ≠ [] := by
    intro hb0; subst hb0
    obtain ⟨v, hv⟩ := (Map.contains_iff _ _).1 hb
    rw [hF.1.nonEmptyB] at hv; cases hv
  have hgone : s'.bs.contains b = false := by
    cases hc : s'.bs.contains b with
    | false => rfl
    | true =>
      obtain ⟨v, hv⟩ := (Map.contains_iff _ _).1 hc
      rw [hbs] at hv; simp at hv
  constructor
  · intro hm
    have := hF'.2.menT c k e he (by simp [evalVal, hm, hbne])
    simp only [evalVal, hm, Option.getD_some] at this
    rw [hgone] at this; cases this
  · intro hg
    have := hF'.2.guardT c k e he (by simp [evalVal, hg, hbne])
    simp only [evalVal, hg, Option.getD_some] at this
    rw [hgone] at this; cases this

/-- **A delete clears every back-reference, whichever store declared the index** (the class of seeded change
    C04-8: the delete fans out over ALL child stores holding data for the entity): after a successful delete of
    A entity `id` — through A or a child store — `id` is listed in no back-reference set at all, so none of its
    former targets is kept from being deleted by it. -/
theorem delete_clears_all_backrefs (σ : Schema) (s s' : St) (id : Bytes) (op : Op)
    (hop : op = .deleteA id ∨ op = .deleteC id) (hF : FullInv σ s) (h : apply σ s op = .ok s') :
    (∀ b, id ∉ (s'.things.lookup b).getD []) ∧ (∀ a, id ∉ (s'.minions.lookup a).getD []) ∧
    (∀ c b, id ∉ ((s'.mentees c).lookup b).getD []) := by
  have hF' := apply_full _ hF h
  have hgone : s'.as.lookup id = none := by
    rcases hop with rfl | rfl
    · exact (deleteA_inv σ _ none' [] s id s' hF.1 (fun _ h => by cases h) h).2.2.1
    · exact (deleteA_inv σ _ none' [] s id s' hF.1 (fun _ h => by cases h) h).2.2.1
  refine ⟨fun b hm => ?_, fun a hm => ?_, fun c b hm => ?_⟩
  · obtain ⟨e, he, _⟩ := (hF'.1.things b id).1 hm; rw [hgone] at he; cases he
  · obtain ⟨e, he, _⟩ := (hF'.1.minions a id).1 hm; rw [hgone] at he; cases he
  · obtain ⟨e, he, _⟩ := (hF'.2.men c b id).1 hm; rw [hgone] at he; cases he

/-- **Termination of the cascading delete** — for every schema, state (invariant or not) and id, cycles
    and self references included: the recursion of `DeleteById` through the cascade constraint comes
    back.  Argument (`deleteA_terminates`): every nested call is about an entity outside the in-progress
    set and adds it, the set is duplicate-free and stays inside the key set of the table the outermost
    call started from, so the depth is bounded by the table size; the fuel `step` supplies (|A| + 1)
    is never exhausted. -/
theorem cascade_terminates (σ : Schema) (s : St) (id : Bytes) :
    apply σ s (.deleteA id) ≠ .error .diverge ∧ apply σ s (.deleteC id) ≠ .error .diverge :=
  ⟨deleteA_top_terminates σ s s id (Sub.refl s), deleteA_top_terminates σ s s id (Sub.refl s)⟩

/-- **Cascade on A is exact and total**, for every id and every state satisfying the invariant — reference
    cycles and self references included, with or without child-store data, through A or through the child
    store: `DeleteById` on an existing entity succeeds, and removes the target and exactly the entities that
    refer to it transitively through `boss`; every other entity keeps its stored values, table B is
    untouched.  (`hp`: no entity constraint of the caller is vetoing deletes during the operation — with one,
    see `protected_cascade_fails`.) -/
theorem cascade_exact (σ : Schema) (s : St) (id : Bytes) (op : Op) (hop : op = .deleteA id ∨ op = .deleteC id)
    (hI : Inv σ s) (hc : s.as.contains id = true) (hp : σ.protect = none) :
    ∃ s', apply σ s op = .ok s' ∧
      s'.bs = s.bs ∧
      (∀ k e, s'.as.lookup k = some e → s.as.lookup k = some e) ∧
      (∀ k, s'.as.lookup k = none ↔ (s.as.lookup k = none ∨ k = id ∨ Reach s.as id k)) := by
  obtain ⟨s', h⟩ := deleteA_succeeds (s0 := s) hI (Sub.refl s) hc hp
  rcases hop with rfl | rfl
  · exact ⟨s', h, deleteA_exact σ s s' id hI h⟩
  · exact ⟨s', h, deleteA_exact σ s s' id hI h⟩

/-- **Whenever a delete of an A entity succeeds it is exact** — no further hypothesis: the target and
    exactly its transitive referrers are gone, nothing else changed. -/
theorem cascade_exact_of_success (σ : Schema) (s s' : St) (id : Bytes) (op : Op)
    (hop : op = .deleteA id ∨ op = .deleteC id) (hI : Inv σ s) (h : apply σ s op = .ok s') :
    s'.bs = s.bs ∧
    (∀ k e, s'.as.lookup k = some e → s.as.lookup k = some e) ∧
    (∀ k, s'.as.lookup k = none ↔ (s.as.lookup k = none ∨ k = id ∨ Reach s.as id k)) := by
  rcases hop with rfl | rfl
  · exact deleteA_exact σ s s' id hI h
  · exact deleteA_exact σ s s' id hI h

/-- a delete of an A entity never fails with the reference-exists error, whatever the state: the only
    failures are not-found (missing id) and, outside invariant states only, a vanished entity bucket -/
theorem delete_A_errors (σ : Schema) (s : St) (id : Bytes) (e : Err) (h : apply σ s (.deleteA id) = .error e) :
    e = .notFound ∨ e = .other ∨ (e = .veto ∧ σ.protect ≠ none) :=  by
  rcases deleteA_error σ _ _ _ _ _ h with h1 | h1 | h1 | h1
  · exact Or.inl h1
  · exact Or.inr (Or.inl h1)
  · subst h1; exact absurd h (cascade_terminates σ s id).1
  · exact Or.inr (Or.inr h1)

/-- **A cascade that meets the protected entity fails as a whole**: while the caller's entity constraint refuses the
    delete of `v`, a delete of `id` whose cascade would have to remove `v` (`v = id` or `v` refers to `id`
    transitively) does not succeed — and a failed operation leaves the state (`step`) -/
theorem protected_cascade_fails (σ : Schema) (s : St) (id v : Bytes) (hI : Inv σ s)
    (hv : v = id ∨ Reach s.as id v) : ¬ ∃ s', apply σ s (.deleteAV id v) = .ok s' := by
  rintro ⟨s', h⟩
  have hn := not_protectedIn_of_ok (σ := σ.withProtect v) (hI.of_schema rfl) h
  have hm : v ∈ closure s.as [id] := by
    rw [mem_closure]
    rcases hv with rfl | hr
    · exact Or.inl (by simp)
    · exact Or.inr ⟨id, by simp, hr⟩
  simp [Schema.protectedIn, Schema.withProtect, hm] at hn

/-- **Cascade on B is exact**, for every id: a successful `DeleteById` on B removes `b` from B and from A
    exactly the entities that refer to `b` through `dep` together with their transitive `boss`
    referrers (none in the restrict variant, where a successful delete means there were none). -/
theorem cascade_exact_B (σ : Schema) (s s' : St) (b : Bytes) (hI : Inv σ s)
    (h : apply σ s (.deleteB b) = .ok s') :
    s'.bs = s.bs.erase b ∧
    (∀ k e, s'.as.lookup k = some e → s.as.lookup k = some e) ∧
    (∀ k, s'.as.lookup k = none ↔ (s.as.lookup k = none ∨ RemovedVia (·.dep) s.as b k)) :=
  deleteB_exact σ s s' b hI h

/-- **Restrict or cascade, nothing else** (the property's "either … or"): in every state that satisfies
    the invariant, deleting an existing B entity either succeeds (`cascade_exact_B` says what went) or is
    refused with the reference-exists error — and it is refused only if some entity refers to it through
    `owner`, through `dep` in the restrict variant, or through a mentor / guard fk declared by a child store.
    No other error, no divergence. -/
theorem delete_outcomes (σ : Schema) (s : St) (b : Bytes) (hF : FullInv σ s) (hc : s.bs.contains b = true)
    (hp : σ.protect = none) :
    (∃ s', apply σ s (.deleteB b) = .ok s') ∨
    (apply σ s (.deleteB b) = .error .refExists ∧
      ((∃ k e, s.as.lookup k = some e ∧ evalVal e.owner = b ∧ b ≠ []) ∨
       (σ.depCascade = false ∧ ∃ k e, s.as.lookup k = some e ∧ e.dep = some b) ∨
       (∃ c k e, s.as.lookup k = some e ∧ (mentorOf σ c e = some b ∨ guardOf σ c e = some b)))) := by
  rcases deleteB_progress hF.1 hc hp with h | h
  · exact Or.inl h
  · exact Or.inr ⟨h, deleteB_refExists_inv hF.1 hF.2 h⟩

/-- **A refusal always has a reason**: a reference-exists error from deleting `b` means some entity refers to
    `b` through `owner`, through `dep` in the restrict variant, or through a child-declared mentor / guard. -/
theorem refusal_has_reason (σ : Schema) (s : St) (b : Bytes) (hF : FullInv σ s)
    (h : apply σ s (.deleteB b) = .error .refExists) :
    (∃ k e, s.as.lookup k = some e ∧ evalVal e.owner = b ∧ b ≠ []) ∨
    (σ.depCascade = false ∧ ∃ k e, s.as.lookup k = some e ∧ e.dep = some b) ∨
    (∃ c k e, s.as.lookup k = some e ∧ (mentorOf σ c e = some b ∨ guardOf σ c e = some b)) :=
  deleteB_refExists_inv hF.1 hF.2 h

/-- **Promotion keeps the back-references** (the class of seeded change C04-4): after a successful create
    through a child store — over a fresh id or over an existing A entity (plain, or holding data of the sibling
    child store), with equal, changed or cleared reference values — the entity is listed under exactly the
    targets it now names, and nowhere else; for the mentor index the child store declares as well. -/
theorem child_create_backrefs_exact (σ : Schema) (s s' : St) (c : Child) (id : Bytes) (e : EntA) (x : Ext)
    (hF : FullInv σ s) (h : apply σ s (.createC c id e x) = .ok s') :
    (∀ b, id ∈ (s'.things.lookup b).getD [] ↔ (evalVal e.owner = b ∧ b ≠ [])) ∧
    (∀ a, id ∈ (s'.minions.lookup a).getD [] ↔ (evalVal e.boss = a ∧ a ≠ [])) ∧
    (∀ b, id ∈ ((s'.mentees c).lookup b).getD [] ↔ (σ.idx c = true ∧ evalVal x.m = b ∧ b ≠ [])) ∧
    (evalVal e.owner ≠ [] → ¬ (σ.depFirst = true ∧ σ.depCascade = true) →
      step σ s' (.deleteB (evalVal e.owner)) = (s', some .refExists)) := by
  have hF' := apply_full _ hF h
  have hI' := hF'.1
  obtain ⟨_, has, hbs, _, _⟩ := createC_inv hF.1 h
  have hlk : s'.as.lookup id = some (createdEnt s c id e x) := by
    rw [has, Map.lookup_insert]; simp only [if_true]
  have hfields : (createdEnt s c id e x).owner = e.owner ∧ (createdEnt s c id e x).boss = e.boss ∧
      (createdEnt s c id e x).extOf c = some x := by
    unfold createdEnt
    cases s.as.lookup id <;> exact ⟨(setExt_fields _ c _).1, (setExt_fields _ c _).2.1, (setExt_fields _ c _).2.2.2⟩
  refine ⟨?_, ?_, ?_, ?_⟩
  · intro b
    rw [hI'.things b id]
    constructor
    · rintro ⟨e', he', h1, h2, _⟩
      rw [hlk] at he'; cases he'
      have h1' : evalVal (createdEnt s c id e x).owner = b := h1
      rw [hfields.1] at h1'; exact ⟨h1', h2⟩
    · rintro ⟨h1, h2⟩
      exact ⟨_, hlk, (show evalVal (createdEnt s c id e x).owner = b by rw [hfields.1]; exact h1), h2, fun hp => hp⟩
  · intro a
    rw [hI'.minions a id]
    constructor
    · rintro ⟨e', he', h1, h2, _⟩
      rw [hlk] at he'; cases he'
      have h1' : evalVal (createdEnt s c id e x).boss = a := h1
      rw [hfields.2.1] at h1'; exact ⟨h1', h2⟩
    · rintro ⟨h1, h2⟩
      exact ⟨_, hlk, (show evalVal (createdEnt s c id e x).boss = a by rw [hfields.2.1]; exact h1), h2, fun hp => hp⟩
  · intro b
    rw [hF'.2.men c b id]
    have hm : mentorOf σ c (createdEnt s c id e x) = if σ.idx c then x.m else none := by
      unfold mentorOf; rw [hfields.2.2]
    constructor
    · rintro ⟨e', he', h1, h2, _⟩
      rw [hlk] at he'; cases he'
      rw [hm] at h1
      cases hidx : σ.idx c
      · simp [hidx, evalVal] at h1; exact absurd h1.symm (fun hh => h2 hh.symm)
      · simp only [hidx, if_true] at h1; exact ⟨rfl, h1, h2⟩
    · rintro ⟨hidx, h1, h2⟩
      exact ⟨_, hlk, by rw [hm]; simp only [hidx, if_true]; exact h1, h2, fun hp => hp⟩
  · intro hne hord
    have hne' : evalVal (createdEnt s c id e x).owner ≠ [] := by rw [hfields.1]; exact hne
    exact restrict_refuses σ s' (evalVal e.owner) hI'
      (by have := hI'.ownerT id _ hlk hne'
          have h' : s'.bs.contains (evalVal (createdEnt s c id e x).owner) = true := this
          rw [hfields.1] at h'; exact h')
      (Or.inl ⟨id, _, hlk, by rw [hfields.1], hne⟩) hord

/-- **`cascade_marks_balanced`** — the "cascading delete in progress" map lives in the `MutateContext`, outlives the
    operation and (with a reused context) the transaction, and is NOT rolled back with the database.  In the
    state-passing model of the code (`C04/Marks.lean`: entry added unless present, loop over the current map, entry
    removed on every exit iff this call added it) — after ANY operation, successful or failed (a vetoed or otherwise
    failing cascade returns out of the middle of the referrer loop), from any state and any map `m`: the map is `m`
    again.  In particular it is empty again whenever it was empty before. -/
theorem cascade_marks_balanced (σ : Schema) (m : Ctx) (s : St) (op : Op) : (applyM σ m s op).2 = m :=
  applyM_balanced σ m s op

/-- … **hence later cascades are exact**: whatever operation `op1` ran before on the same context — also one that
    failed part-way —, the next operation `op2` (in the same transaction, or in a later one when the caller reuses the
    context object) computes exactly what `apply` computes on a fresh context; all theorems above apply to it. -/
theorem later_cascades_exact (σ : Schema) (s1 s2 : St) (op1 op2 : Op) :
    (applyM σ (applyM σ {} s1 op1).2 s2 op2).1 = apply σ s2 op2 := by
  rw [cascade_marks_balanced]; exact applyM_apply σ {} s2 op2 rfl

/-- a whole history on ONE reused `MutateContext` — rolled-back transactions included — reaches the state of the same
    history with a fresh context per transaction, with an empty in-progress map at the end -/
theorem context_reuse_exact (σ : Schema) (reuse : Bool) (txs : List (List Op)) :
    runHistoryM σ reuse txs = (runHistory σ txs, {}) :=
  runHistoryM_eq σ reuse txs

/-- **The referrer lookup is exact for EVERY byte string id** (quotes, backslashes, keywords, anything):
    the cursor of `fkDeleteCascadeConstraint` yields exactly the entities whose stored fk value is `id`. -/
theorem referrer_lookup_exact (s : St) (f : EntA → FV) (id x : Bytes) :
    x ∈ referrers s f id ↔ ∃ e, s.as.lookup x = some e ∧ f e = some id := by
  rw [mem_referrers, isReferrer_iff]

/-- **The run-time oracle is this spec**: the executable spec (`C04/Spec.lean`, what the check compares
    the implementation with) computes its cascade set by bounded fixpoint iteration; that set is exactly
    the seeds plus everything referring to them transitively. -/
theorem spec_closure_exact (as : Map EntA) (seeds : List Bytes) (k : Bytes) :
    k ∈ closure as seeds ↔ k ∈ seeds ∨ ∃ x ∈ seeds, Reach as x k :=
  mem_closure as seeds k

/-- **Refinement on success**: from any state satisfying the invariant (every reachable state), whenever
    an operation of the model succeeds, the same operation of the spec — which knows only the entity
    tables — succeeds and yields the same tables. -/
theorem spec_agrees_on_success (σ : Schema) (s s' : St) (op : Op) (hF : FullInv σ s) (h : apply σ s op = .ok s') :
    ∃ ss', specApply σ (absSt s) op = .ok ss' ∧ (∀ k, ss'.as.lookup k = s'.as.lookup k) ∧
      (∀ k, ss'.bs.lookup k = s'.bs.lookup k) :=
  StorageModel.C04.spec_agrees_on_success op hF h

/-! ### non-vacuity and concrete behaviour -/

section Examples

def σ0 : Schema := { depCascade := true, depNullable := true, depFirst := false }

-- ids: k = "k", r = "r", x = `a"b`, y = `x" or id != "`, z = "z"
def idK : Bytes := [107]
def idR : Bytes := [114]
def idX : Bytes := [97, 34, 98]
def idY : Bytes := [120, 34, 32, 111, 114, 32, 105, 100, 32, 33, 61, 32, 34]
def idZ : Bytes := [122]

/-- B entity k; root r (self reference); x = `a"b` under r with dep k; y under x; z under r -/
def hist0 : List (List Op) :=
  [[.createB idK], [.createA idR { owner := none, boss := some idR, dep := none }], [.createA idX { owner := some idK, boss := some idR, dep := some idK }],
   [.createA idY { owner := none, boss := some idX, dep := none }], [.createA idZ { owner := none, boss := some idR, dep := none }]]

/-- the hypotheses of the theorems above are satisfiable by a non-trivial state -/
example : ((runHistory σ0 hist0).as.keys = [idZ, idY, idX, idR]) ∧
    (runHistory σ0 hist0).minions.lookup idR = some [idZ, idX, idR] ∧
    (runHistory σ0 hist0).things.lookup idK = some [idX] := by decide

/-- deleting `a"b` cascades to exactly its minion `x" or id != "` — r and z survive -/
example : (step σ0 (runHistory σ0 hist0) (.deleteA idX)).2 = none ∧
    (step σ0 (runHistory σ0 hist0) (.deleteA idX)).1.as.keys = [idZ, idR] := by decide

/-- restrict: k is referenced through owner -/
example : (step σ0 (runHistory σ0 hist0) (.deleteB idK)).2 = some .refExists := by decide

/-! #### reference cycles (the stack overflow fixed by bda5470) -/

/-- `A.Create(r, boss = r); A.DeleteById(r)`: succeeds and leaves nothing -/
def histSelf : List (List Op) := [[.createA idR { owner := none, boss := some idR, dep := none }]]

example : (step σ0 (runHistory σ0 histSelf) (.deleteA idR)).2 = none ∧
    (step σ0 (runHistory σ0 histSelf) (.deleteA idR)).1.as.keys = [] := by decide
example : Reach (runHistory σ0 histSelf).as idR idR := .direct (e := { owner := none, boss := some idR, dep := none }) (by decide) rfl

/-- a two-cycle made by re-parenting (r ← z, then r.boss := z) with a third entity k below z:
    deleting either member of the cycle removes all three -/
def histCycle : List (List Op) :=
  [[.createA idR { owner := none, boss := some idR, dep := none }], [.createA idZ { owner := none, boss := some idR, dep := none }],
   [.updateA idR { owner := none, boss := some idZ, dep := none } false true false], [.createA idK { owner := none, boss := some idZ, dep := none }]]

example : (step σ0 (runHistory σ0 histCycle) (.deleteA idR)).2 = none ∧
    (step σ0 (runHistory σ0 histCycle) (.deleteA idR)).1.as.keys = [] ∧
    (step σ0 (runHistory σ0 histCycle) (.deleteA idZ)).1.as.keys = [] ∧
    (step σ0 (runHistory σ0 histCycle) (.deleteA idK)).1.as.keys = [idR, idZ] := by decide

/-- … and a B delete that cascades into a self reference -/
example : (step σ0 (runHistory σ0 ([.createB idK] :: histSelf ++ [[.updateA idR { owner := none, boss := some idR, dep := some idK } false false true]]))
    (.deleteB idK)).2 = none := by decide

/-! #### the child store -/

def tagT : Ext := { tag := some [116] }
def tagN : Ext := { tag := none }

/-- seeded change C04-4 as a history: k; r (self reference); x with owner k, boss r; then x is "promoted"
    (create through the child store over the existing entity) with every reference unchanged -/
def histPromote : List (List Op) :=
  [[.createB idK], [.createA idR { owner := none, boss := some idR, dep := none }], [.createA idX { owner := some idK, boss := some idR, dep := none }],
   [.createC .c1 idX { owner := some idK, boss := some idR, dep := none } tagT]]

/-- … k still lists x, r still lists x, deleting k is still refused, deleting r still takes x — through
    either store -/
example : (runHistory σ0 histPromote).things.lookup idK = some [idX] ∧
    (runHistory σ0 histPromote).minions.lookup idR = some [idX, idR] ∧
    (step σ0 (runHistory σ0 histPromote) (.deleteB idK)).2 = some .refExists ∧
    (step σ0 (runHistory σ0 histPromote) (.deleteA idR)).1.as.keys = [] ∧
    (step σ0 (runHistory σ0 histPromote) (.deleteC idX)).2 = none ∧
    (step σ0 (runHistory σ0 histPromote) (.deleteC idX)).1.as.keys = [idR] := by decide

/-- promotion with changed references (owner cleared, boss r → z): the old targets forget x, the new boss
    lists it; update through the child store and through A (handed over) move it again -/
example :
    let s := runHistory σ0 (histPromote.take 3 ++ [[.createA idZ { owner := none, boss := some idR, dep := none }],
      [.createC .c1 idX { owner := none, boss := some idZ, dep := none } tagT]])
    s.things.lookup idK = some [] ∧ s.minions.lookup idR = some [idZ, idR] ∧ s.minions.lookup idZ = some [idX] ∧
    (step σ0 s (.deleteB idK)).2 = none ∧
    (step σ0 s (.updateC .c1 idX { owner := some idK, boss := some idR, dep := none } tagN true true false true false false)).1.minions.lookup idR
      = some [idX, idZ, idR] ∧
    (step σ0 s (.updateA idX { owner := some idK, boss := some idR, dep := none } true false false)).1.things.lookup idK = some [idX] ∧
    (step σ0 s (.updateC .c1 idZ { owner := none, boss := some idR, dep := none } tagN true true true true false false)).2 = some .notFound := by decide

/-- a delete of an entity with child data runs both `ProcessBeforeDelete` rounds and still removes exactly
    its transitive referrers (here: a self-referencing root with child data and a minion with child data) -/
example :
    let s := runHistory σ0 [[.createC .c1 idR { owner := none, boss := some idR, dep := none } tagT], [.createC .c1 idZ { owner := none, boss := some idR, dep := none } tagN],
      [.createA idK { owner := none, boss := some idZ, dep := none }], [.createA idX { owner := none, boss := some idX, dep := none }]]
    (step σ0 s (.deleteA idR)).2 = none ∧ (step σ0 s (.deleteA idR)).1.as.keys = [idX] ∧
    (step σ0 s (.deleteC idZ)).1.as.keys = [idX, idR] := by decide

/-- **The history that failed before 001d2d2 now cascades.**  r and z refer to each other (a two-cycle made
    by re-parenting), r has child-store data.  `DeleteById(r)` runs A's `ProcessBeforeDelete` constraints twice:
    the first round's cascade deletes z (it refers to r); the second round's `fkIndex.ProcessBeforeDelete` finds
    r's boss z gone and — since 001d2d2 — skips it (before: `getIndexBucket` → not-found, the delete failed).
    Through A, through the child store, and through a B delete that cascades into r: both entities go, exactly
    as the spec says, and as in the same history without child data. -/
def histExtCycle : List (List Op) :=
  [[.createB idK], [.createA idR { owner := none, boss := some idR, dep := some idK }], [.createA idZ { owner := none, boss := some idR, dep := none }],
   [.updateA idR { owner := none, boss := some idZ, dep := none } false true false], [.createC .c1 idR { owner := none, boss := some idZ, dep := some idK } tagT]]

example : (step σ0 (runHistory σ0 histExtCycle) (.deleteA idR)).2 = none ∧
    (step σ0 (runHistory σ0 histExtCycle) (.deleteA idR)).1.as.keys = [] ∧
    (step σ0 (runHistory σ0 histExtCycle) (.deleteC idR)).2 = none ∧
    (step σ0 (runHistory σ0 histExtCycle) (.deleteC idR)).1.as.keys = [] ∧
    (step σ0 (runHistory σ0 histExtCycle) (.deleteB idK)).2 = none ∧
    (step σ0 (runHistory σ0 histExtCycle) (.deleteB idK)).1.as.keys = [] ∧
    (step σ0 (runHistory σ0 histExtCycle) (.deleteA idZ)).1.as.keys = [] ∧
    (match specApply σ0 (absSt (runHistory σ0 histExtCycle)) (.deleteA idR) with
      | .ok ss => ss.as.keys | .error _ => [idR]) = [] ∧
    (step σ0 (runHistory σ0 (histExtCycle.take 4)) (.deleteA idR)).1.as.keys = [] := by decide

/-- outside invariant states the repaired step is visible directly: an entity whose `boss` value dangles
    (no such entity) can be deleted — the removal of the back-reference is skipped -/
example : (step σ0 { as := [(idX, { owner := none, boss := some idZ, dep := none })] } (.deleteA idX)).2 = none := by decide

/-! #### fks declared by the child stores; two sibling child stores -/

/-- both child stores declare the mentor index and the guard constraint, C2 is registered first; dep restricts -/
def σ1 : Schema := { depCascade := false, depNullable := true, depFirst := false,
                     idx1 := true, idx2 := true, fk1 := true, fk2 := true, c2First := true }

/-- k, y in B; root r; x is created through C (mentor y, guard y) and then through C2 over the same id
    (mentor y, guard k): x holds data in BOTH child stores (the history of seeded change C04-8) -/
def histSiblings : List (List Op) :=
  [[.createB idK], [.createB idY], [.createA idR { owner := none, boss := some idR, dep := some idK }],
   [.createC .c1 idX { owner := none, boss := some idR, dep := some idK } { tag := some [116], m := some idY, g := some idY }],
   [.createC .c2 idX { owner := none, boss := some idR, dep := some idK } { tag := none, m := some idY, g := some idK }]]

/-- y lists x in both mentees sets and cannot be deleted; deleting x — through A or either child store — runs
    the delete constraints of BOTH child stores, whatever their registration order: x leaves both sets and y
    can be deleted afterwards -/
example : (runHistory σ1 histSiblings).mentees1.lookup idY = some [idX] ∧
    (runHistory σ1 histSiblings).mentees2.lookup idY = some [idX] ∧
    (step σ1 (runHistory σ1 histSiblings) (.deleteB idY)).2 = some .refExists ∧
    (step σ1 (step σ1 (runHistory σ1 histSiblings) (.deleteA idX)).1 (.deleteB idY)).2 = none ∧
    (step σ1 (runHistory σ1 histSiblings) (.deleteC idX)).1.mentees1.lookup idY = some [] ∧
    (step σ1 (runHistory σ1 histSiblings) (.deleteC idX)).1.mentees2.lookup idY = some [] ∧
    (step { σ1 with c2First := false } (runHistory { σ1 with c2First := false } histSiblings) (.deleteA idX)).1.mentees2.lookup idY
      = some [] := by decide

/-- a missing mentor / guard target is refused (only where the child store declares the fk), a guard alone keeps
    its target from being deleted, moving the references through the child store releases it -/
example : (step σ1 (runHistory σ1 histSiblings)
      (.updateC .c1 idX { owner := none, boss := some idR, dep := none } { tag := none, m := some idZ } false false false false true false)).2
      = some .notFound ∧
    (step { σ1 with idx1 := false } (runHistory { σ1 with idx1 := false } histSiblings)
      (.updateC .c1 idX { owner := none, boss := some idR, dep := none } { tag := none, m := some idZ } false false false false true false)).2
      = none ∧
    (step σ1 (runHistory σ1 histSiblings)
      (.updateC .c2 idX { owner := none, boss := some idR, dep := none } { tag := none, g := some idZ } false false false false false true)).2
      = some .notFound ∧
    (let s := (step σ1 (step σ1 (runHistory σ1 histSiblings)
        (.updateC .c1 idX { owner := none, boss := some idR, dep := none } { tag := none } false false false false true false)).1
        (.updateC .c2 idX { owner := none, boss := some idR, dep := none } { tag := none, m := some idK } false false false false true false)).1
     (step σ1 s (.deleteB idY)).2 = some .refExists ∧               -- C's guard still names y
     (step σ1 (step σ1 s (.updateC .c1 idX { owner := none, boss := some idR, dep := none } { tag := none } false false false false false true)).1
        (.deleteB idY)).2 = none) := by decide

/-- non-vacuity of `FullInv` with child-declared fks in use: the state above satisfies it (it is reachable) -/
example : FullInv σ1 (runHistory σ1 histSiblings) := full_reachable σ1 histSiblings

/-! #### a cascade that fails part-way (seeded C04-11), on a reused context -/

/-- r ← z ← x ← y (boss chain below the self-referencing root r) -/
def histChain : List (List Op) :=
  [[.createA idR { owner := none, boss := some idR, dep := none }], [.createA idZ { owner := none, boss := some idR, dep := none }],
   [.createA idX { owner := none, boss := some idZ, dep := none }], [.createA idY { owner := none, boss := some idX, dep := none }]]

/-- deleting x while the caller's entity constraint protects its referrer y fails with the veto and (rollback) changes
    nothing; the in-progress map of the context is empty afterwards; the next delete on the SAME context — z, which
    x refers to — cascades through x and y as if nothing had happened -/
example : (step σ0 (runHistory σ0 histChain) (.deleteAV idX idY)).2 = some .veto ∧
    (applyM σ0 {} (runHistory σ0 histChain) (.deleteAV idX idY)).2 = {} ∧
    (applyM σ0 (applyM σ0 {} (runHistory σ0 histChain) (.deleteAV idX idY)).2 (runHistory σ0 histChain) (.deleteA idZ)).2 = {} ∧
    (runHistoryM σ0 true (histChain ++ [[.deleteAV idX idY], [.deleteA idZ]])).1.as.keys = [idR] ∧
    (runHistoryM σ0 true (histChain ++ [[.deleteAV idX idY], [.deleteA idZ]])).2 = {} := by decide

/-! #### why commit 7aca2fc was needed: the referrer lookup through `Sprintf` + `ast.Parse`

  `OldRoute.referrersViaFilter` is the lookup as it was before the fix.  Table: r (boss r), `a"b`
  (boss r), `x" or id != "` (boss `a"b`), z (boss r). -/

open OldRoute in
/-- id `a"b`: the text `boss = "a"b"` is no sentence — the delete failed with a parse error although
    exactly one entity refers to `a"b` (which the direct comparison finds) -/
example : referrersViaFilter (runHistory σ0 hist0).as symBoss idX = none ∧
    referrers (runHistory σ0 hist0) (·.boss) idX = [idY] := by decide

open OldRoute in
/-- id `x" or id != "`: the text `boss = "x" or id != ""` matches EVERY entity — the cascade deleted
    unrelated rows — although nothing refers to that id -/
example : referrersViaFilter (runHistory σ0 hist0).as symBoss idY = some [idZ, idY, idX, idR] ∧
    referrers (runHistory σ0 hist0) (·.boss) idY = [] := by decide

open OldRoute in
/-- id `a\` (trailing backslash): `boss = "a\"` has an unterminated literal — parse error;
    id `a\nb` (backslash, n): the literal denotes a-LF-b, so the true referrer is not found -/
example : referrersViaFilter [([109], { owner := none, boss := some [97, 92], dep := none })] symBoss [97, 92] = none ∧
    referrersViaFilter [([109], { owner := none, boss := some [97, 92, 110, 98], dep := none })] symBoss [97, 92, 110, 98] = some [] ∧
    referrers { as := [([109], { owner := none, boss := some [97, 92, 110, 98], dep := none })] } (·.boss) [97, 92, 110, 98] = [[109]] := by
  decide

open OldRoute in
/-- a filter-safe id: both routes agree -/
example : referrersViaFilter (runHistory σ0 hist0).as symBoss idR = some [idZ, idX, idR] ∧
    referrers (runHistory σ0 hist0) (·.boss) idR = [[97, 34, 98], idR, idZ] := by decide

end Examples

/-! ## Round 9 — a chain of three stores (owners <- items <- notes), an fk constraint on each link, every combination
    of restrict / cascade and nullable / not (`C04/Tier.lean`): a cascade that starts at an owner reaches items
    which the lower link may protect.  All statements: every schema, every state (no invariant needed for the
    delete statements), every id. -/
section Chain

/-- **restrict holds inside a cascade**: an item that a note refers to through a RESTRICT link is never removed
    by deleting its owner — whatever the upper link does (restrict: refused because of the item; cascade: the
    nested delete of the item is refused and with it the whole delete) the outcome is reference-exists.
    (The class of seeded C04-16.) -/
theorem restrict_inside_cascade_refuses (σ : TSchema) (s : TSt) (o i n : Bytes)
    (ho : s.t0.contains o = true) (hi : tIsRef s.t1 o i = true) (hn : tIsRef s.t2 i n = true)
    (hrestrict : σ.casc2 = false) :
    tDelete0 σ s o = .error .refExists := by
  have h := tDelete0_char σ s o
  cases hres : tDelete0 σ s o with
  | ok s' =>
    rw [hres] at h
    have := h.2.2.1 hrestrict i hi
    rw [(tReferred_iff _ _).2 ⟨n, hn⟩] at this; cases this
  | error e =>
    rw [hres] at h
    rcases h with ⟨_, hc⟩ | ⟨he, _⟩
    · rw [ho] at hc; cases hc
    · rw [he]

/-- non-vacuity: owner o, items i1 i2 under it, a note on i2; cascade over restrict -/
example : (match tDelete0 ⟨true, false, false, false⟩
    { t0 := [([111], ())], t1 := [([1], some [111]), ([2], some [111])], t2 := [([9], some [2])] } [111] with
    | .error .refExists => true
    | _ => false) = true := by decide

/-- **delete of an owner: refused or exactly the cascade.**  `DeleteById` on the top store either fails — not-found
    for a missing id, otherwise reference-exists, and then for a reason: the upper link restricts and an item
    refers to the owner, or it cascades and a note refers through a restrict link to an item of the removal set —
    or succeeds, and then: no restrict link had a referrer into the removal set, the owner, exactly the items
    referring to it and exactly the notes referring to those are gone, every other row is unchanged. -/
theorem chain_delete_refused_or_exact (σ : TSchema) (s : TSt) (id : Bytes) :
    match tDelete0 σ s id with
    | .ok s' => s.t0.contains id = true ∧ (σ.casc1 = false → tReferred s.t1 id = false) ∧
        (σ.casc2 = false → ∀ i, tIsRef s.t1 id i = true → tReferred s.t2 i = false) ∧
        (∀ y, s'.t0.lookup y = if y = id then none else s.t0.lookup y) ∧
        (∀ y, s'.t1.lookup y = if tIsRef s.t1 id y = true then none else s.t1.lookup y) ∧
        (∀ n, ((∃ i, tIsRef s.t1 id i = true ∧ tIsRef s.t2 i n = true) → s'.t2.lookup n = none) ∧
              ((¬ ∃ i, tIsRef s.t1 id i = true ∧ tIsRef s.t2 i n = true) → s'.t2.lookup n = s.t2.lookup n))
    | .error e => (e = .notFound ∧ s.t0.contains id = false) ∨
        (e = .refExists ∧ s.t0.contains id = true ∧
          ((σ.casc1 = false ∧ tReferred s.t1 id = true) ∨
           (σ.casc1 = true ∧ σ.casc2 = false ∧ ∃ i, tIsRef s.t1 id i = true ∧ tReferred s.t2 i = true))) :=
  tDelete0_char σ s id

/-- the same one level down: `DeleteById` on the middle store -/
theorem chain_delete_item_refused_or_exact (σ : TSchema) (s : TSt) (id : Bytes) :
    match tDelete1 σ s id with
    | .ok s' => s.t1.contains id = true ∧ (σ.casc2 = false → tReferred s.t2 id = false) ∧ s'.t0 = s.t0 ∧
        (∀ y, s'.t1.lookup y = if y = id then none else s.t1.lookup y) ∧
        (∀ y, s'.t2.lookup y = if tIsRef s.t2 id y = true then none else s.t2.lookup y)
    | .error e => (e = .notFound ∧ s.t1.contains id = false) ∨
        (e = .refExists ∧ s.t1.contains id = true ∧ σ.casc2 = false ∧ tReferred s.t2 id = true) :=
  tDelete1_char σ s id

/-- **targets exist along the chain**: after any history of transactions (failed ones rolled back) every stored
    reference of an item names an existing owner and every stored reference of a note names an existing item — or
    is null / empty on a nullable link; in particular no delete, refused or cascading, leaves a dangling reference -/
theorem chain_targets_exist (σ : TSchema) (txs : List (List TOp)) : TInv σ (tRunHistory σ txs) :=
  tInv_history σ txs

/-- per operation, from any state satisfying the invariant -/
theorem chain_targets_exist_step (σ : TSchema) (s s' : TSt) (op : TOp) (hi : TInv σ s)
    (h : tApply σ s op = .ok s') : TInv σ s' :=
  tInv_apply σ s s' op hi h

/-- non-vacuity of the hypothesis `TInv` -/
example : TInv ⟨true, false, false, false⟩ { t0 := [([111], ())], t1 := [([1], some [111])], t2 := [] } := by
  refine ⟨fun x v hx => ?_, fun x v hx => by simp [Map.lookup] at hx⟩
  simp only [Map.lookup] at hx
  split at hx
  · cases hx; exact ⟨fun _ => by decide, fun h => by simp [evalVal] at h⟩
  · cases hx

/-- **the run-time oracle says what the model does**: the executable specification of the owner delete used by
    the check (set comprehensions over the three tables: no loop, no nesting) agrees with the model of the code on
    every schema, state and id — same error, or states with the same rows -/
theorem chain_spec_agrees (σ : TSchema) (s : TSt) (id : Bytes) :
    TRes.Agree (tDelete0 σ s id) (specDelete0 σ s id) :=
  tDelete0_agrees_spec σ s id

end Chain

/-! ### Round 14 — the schema-parametric model (`C04/Gen.lean`): EVERY schema (any number of stores, any list of fk
    declarations: index / constraint, nullable / not, restrict / cascade, self references, cycles, several
    declarations between two stores, any registration order), every state, every in-progress map.
    Proved here: the context's map is balanced and a reused context changes nothing; a refused transaction changes
    nothing; restrict refuses (no cascade into the store); creates / updates keep `fk_target_exists`.  NOT proved for
    the generic model (kept as full statements; decided per run by the correspondence against the spec oracle
    `gSpecOutcomes`): back-reference exactness, the delete step of `fk_target_exists`, refused-or-exact for arbitrary schemas — they remain
    theorems for the two instance schemas (`fk_inv_reachable`, `cascade_exact`, `chain_delete_refused_or_exact`). -/
section Generic

/-- after ANY operation on ANY schema (successful, refused, failed part-way inside a nested cascade) the in-progress
    map of the MutateContext is what it was -/
theorem gen_cascade_marks_balanced (σ : GSchema) (m : GMarks) (s : GSt) (op : GOp) : (gApply σ m s op).2 = m :=
  gApply_marks σ m s op

/-- `DeleteById` at any nesting depth -/
theorem gen_delete_marks_balanced (σ : GSchema) (n : Nat) (m : GMarks) (s : GSt) (t : Nat) (id : Bytes) :
    (gDelete σ n m s t id).2 = m :=
  gDelete_marks σ n m s t id

/-- a whole history on ONE reused MutateContext reaches the state of the same history with a fresh context per
    transaction, and the map is empty at the end -/
theorem gen_context_reuse_exact (σ : GSchema) (h : List (List GOp)) (s : GSt) :
    gRunHistory σ true h s [] = gRunHistory σ false h s [] ∧ (gRunHistory σ true h s []).2 = [] :=
  ⟨gRunHistory_reuse σ h s, gRunHistory_marks_empty σ true h s⟩

/-- a refused transaction (restrict, missing target, null, a refusal inside a cascade) changes nothing -/
theorem gen_refused_changes_nothing (σ : GSchema) (m : GMarks) (s : GSt) (tx : List GOp) (e : Nat × Err)
    (h : (gRunTx σ m s tx).1.2 = some e) : (gRunTx σ m s tx).1.1 = s :=
  gRunTx_refused_unchanged σ m s tx e h

/-- FULL STATEMENT, not proved for arbitrary schemas: a delete is refused (reference-exists, nothing changes) or
    removes exactly the cascade closure; decided on every generated history by the correspondence
    (implementation = model = `gSpecApply`) -/
def gen_delete_refused_or_exact_fullStatement : Prop :=
  ∀ (σ : GSchema) (s : GSt) (t : Nat) (id : Bytes), s.live t id = true →
    match (gDelete σ (gFuel s) [] s t id).1 with
    | .error e => e = .refExists ∧ (gBlockers σ s (gClosure σ s t id) false = true ∨ gBlockers σ s (gClosure σ s t id) true = true)
    | .ok s' => ∀ t' x, s'.ent t' x = if (gClosure σ s t id).contains (t', x) then none else s.ent t' x

/-- restrict refuses — EVERY schema: no cascading declaration targets store `t`, a restrict declaration `i` does,
    and a referrer remains (`GBlocks`: listed in the back-reference set of the fk index, other than the entity
    itself; or a row referring to it through the fk constraint) ⇒ `DeleteById` = reference-exists, the map is
    untouched, and (`gen_refused_changes_nothing`) the transaction leaves the state as it was -/
theorem gen_restrict_refuses (σ : GSchema) (n : Nat) (m : GMarks) (s : GSt) (t : Nat) (id : Bytes)
    (i : Nat) (d : GDecl) (r : Bytes) (hlive : s.live t id = true)
    (hdecl : (i, d) ∈ gDecls σ) (ht : d.tgt = t) (hd : d.cascade = false)
    (hnone : ∀ p ∈ gDecls σ, p.2.tgt = t → p.2.cascade = false)
    (hb : GBlocks s i d id r) :
    gDelete σ (n + 1) m s t id = (.error .refExists, m) ∧
      (gRunTx σ m s [GOp.delete t id]).1 = (s, some (0, Err.refExists)) := by
  have h := gDelete_restrict_refuses σ (gFuel s - 1) m s t id i d r hlive hdecl ht hd hnone hb
  refine ⟨gDelete_restrict_refuses σ n m s t id i d r hlive hdecl ht hd hnone hb, ?_⟩
  have hf : gFuel s = (gFuel s - 1) + 1 := by simp [gFuel]
  simp only [gRunTx, gRunOps, gApply]
  rw [hf, h]

/-- a successful create leaves every reference of the new entity pointing at an existing entity (contrapositive: a
    missing target ⇒ the create fails) — every schema -/
theorem gen_write_requires_target (σ : GSchema) (s : GSt) (t : Nat) (id : Bytes) (row : GRow) (s' : GSt)
    (h : gCreate σ s t id row = .ok s') :
    ∀ p ∈ gDecls σ, p.2.src = t → evalVal (row p.1) ≠ [] → s'.live p.2.tgt (evalVal (row p.1)) = true :=
  gCreate_targets σ s t id row s' h

/-- `fk_target_exists` is preserved by every successful create / update / patch update, every schema, any checker -/
theorem gen_fk_target_exists_write (σ : GSchema) (m : GMarks) (s s' : GSt) (op : GOp)
    (hop : ∀ t id, op ≠ GOp.delete t id) (h : (gApply σ m s op).1 = .ok s') (hinv : GTargetInv σ s) :
    GTargetInv σ s' := by
  cases op with
  | create t id row => exact gCreate_targetInv σ s t id row s' h hinv
  | update t id sel row => exact gUpdate_targetInv σ s t id sel row s' h hinv
  | delete t id => exact absurd rfl (hop t id)

/-- FULL STATEMENT (the delete step is not proved for arbitrary schemas) -/
def gen_fk_target_exists_fullStatement : Prop :=
  ∀ (σ : GSchema) (reuse : Bool) (h : List (List GOp)), GTargetInv σ (gRunHistory σ reuse h GSt.empty []).1

/-- FULL STATEMENT: every back-reference set of every fk index is exactly the set of referrers, after any history -/
def gen_backref_inv_fullStatement : Prop :=
  ∀ (σ : GSchema) (reuse : Bool) (h : List (List GOp)) (i : Nat) (d : GDecl) (y r : Bytes),
    (i, d) ∈ gDecls σ → d.index = true →
    let s := (gRunHistory σ reuse h GSt.empty []).1
    s.live d.tgt y = true → (r ∈ s.back i y ↔ (s.live d.src r = true ∧ gIsRef s i d y r = true))

/-! instances: the chain of round 9 and the A/B stores of the first model as schemas -/

theorem schemaChain_restrict_refuses (n1 c2 n2 : Bool) (n : Nat) (m : GMarks) (s : GSt) (o item : Bytes)
    (hlive : s.live 0 o = true)
    (hb : gIsRef s 0 ⟨1, 0, false, n1, false⟩ o item = true ∧ (1, item) ∈ s.ids) :
    gDelete (schemaChain false n1 c2 n2) (n + 1) m s 0 o = (.error .refExists, m) := by
  refine gDelete_restrict_refuses _ n m s 0 o 0 ⟨1, 0, false, n1, false⟩ item hlive ?_ rfl rfl ?_ ?_
  · simp [gDecls, schemaChain, List.range_succ]
  · intro p hp
    simp [gDecls, schemaChain, List.range_succ] at hp
    rcases hp with rfl | rfl <;> simp
  · unfold GBlocks; simpa using hb

theorem schemaAB_restrict_refuses (depNullable : Bool) (n : Nat) (m : GMarks) (s : GSt) (b r : Bytes)
    (hlive : s.live 1 b = true) (hr : r ∈ s.back 0 b) (hne : r ≠ b) :
    gDelete (schemaAB false depNullable) (n + 1) m s 1 b = (.error .refExists, m) := by
  refine gDelete_restrict_refuses _ n m s 1 b 0 ⟨0, 1, true, true, false⟩ r hlive ?_ rfl rfl ?_ ?_
  · simp [gDecls, schemaAB, List.range_succ]
  · intro p hp
    simp [gDecls, schemaAB, List.range_succ] at hp
    rcases hp with rfl | rfl | rfl <;> simp
  · unfold GBlocks; simp [hr, hne]

theorem schemaAB_marks_balanced (c nl : Bool) (m : GMarks) (s : GSt) (op : GOp) :
    (gApply (schemaAB c nl) m s op).2 = m := gApply_marks _ m s op


/-- "… and nothing else", row level, EVERY schema: after a successful `DeleteById` (any cascade, any nesting depth, any
    map) every row of every store is exactly as it was or gone -/
theorem gen_delete_only_removes (σ : GSchema) (n : Nat) (m : GMarks) (s : GSt) (t : Nat) (id : Bytes) (s' : GSt) (m' : GMarks)
    (h : gDelete σ n m s t id = (.ok s', m')) : ∀ t' x, s'.ent t' x = s.ent t' x ∨ s'.ent t' x = none :=
  gDelete_onlyRemoves σ n m s t id s' m' h

/-- … and the deleted entity is gone -/
theorem gen_delete_removes_target (σ : GSchema) (n : Nat) (m : GMarks) (s : GSt) (t : Nat) (id : Bytes) (s' : GSt)
    (m' : GMarks) (h : gDelete σ n m s t id = (.ok s', m')) : s'.ent t id = none :=
  gDelete_removes_self σ n m s t id s' m' h


end Generic

end StorageModel.Properties.C04
