import StorageModel.C12.Clauses
import StorageModel.C12.Parens
import StorageModel.C12.Exact
import StorageModel.C12.Reader
import StorageModel.C12.Fix
import StorageModel.C12.LexProofs
import StorageModel.C12.Typed
import StorageModel.C12.Classes
import StorageModel.Generated.Grammar
/-
  C12 — Boolean connectives group as written: parentheses, precedence, case, spacing.

  "Parentheses group sub-expressions, chains of a single connective are associative, `not (P)`
  is the negation of P, and `and` binds tighter than `or` wherever the two are mixed without
  parentheses, independent of the order in which they appear.  Keywords and word operators are
  case-insensitive, and adding whitespace where whitespace is allowed or wrapping a
  sub-expression in redundant parentheses never changes a query's result."

  Quantifier: all boolean skeletons (all and/or/not/parenthesis arrangements) × all truth
  assignments; all case / whitespace / parenthesis re-spellings.

  Objects (StorageModel/C12/*.lean):
    `W α`       a skeleton as written; `W.render` is a bijection onto the well-formed token lists
                (`parse_render`, `parse_sound`, `readTokens_render`), so "∀ w : W α" is "for every
                boolean skeleton", with any number of atoms and any nesting;
    `code ts`   = `untypedL L G ts`: model of zitiql.Parse + ToBoltListener on a token list,
                instantiated with what /verif/extract reads from the source on every run:
                `G = Generated.boolExprParser` (the Precpred / boolExpr(k) numbers of the generated
                `boolExpr(_p int)`), `L = Generated.boolListener` (how ExitAndExpr / ExitOrExpr /
                ExitNotExpr / ExitGroup are written); `query L G` adds TypeTransformBool;
                `T.eval` is EvalBool;
    `W.readS`   the intended reading: `and` over `or`, parentheses are units, `not` loosest
                (`spec_is_dnf`: true iff some `or`-piece has all its `and`-units true).

  Every clause is proved for every skeleton (`and_over_or` is `code (render w) = some (readS w)`).
  The generated parser still hands each operator the whole rest of its level (`W.readM`); it is
  the listener of fix c2dd0be that restores the grouping.  The section at the end keeps the
  listener of the pinned tree and shows what was wrong with it (`pinned_listener_violates`,
  `pinned_listener_exact`, `pinned_listener_fails_exactly`).
-/
namespace StorageModel.Properties.C12
open StorageModel.C12 StorageModel.Generated

abbrev G : ParserNums := Generated.boolExprParser
abbrev L : ListenerShape := Generated.boolListener
abbrev TS : TransformShape := Generated.boolTransform

variable {α : Type}

/-- the model of zitiql.Parse + listener for the code that exists now -/
abbrev code (ts : List (Tok α)) : Option (U α) := untypedL L G ts

/-! ## obligations on regenerated data -/

/-- The numbers found in `boolExpr(_p int)` of zitiql_parser.go are the ones ANTLR derives from
    the alternatives of `boolExpr` in ZitiQl.g4 (so the .g4 file still describes the parser). -/
theorem parser_numbers_match_grammar : antlrNumbers Generated.boolExprAlts = some Generated.boolExprParser := by
  decide

/-- With these numbers no precedence predicate can ever fail: `boolExpr` is only entered at
    levels ≤ both operator precedences (each operator gets the rest of its level). -/
theorem parser_is_greedy : Greedy Generated.boolExprParser := by decide

/-- `ExitAndExpr` re-associates, `ExitGroup` marks, `ExitOrExpr` / `ExitNotExpr` are plain, and
    `.grouped` is mentioned exactly twice in package ast — the listener the model interprets. -/
theorem listener_is_repaired : Generated.boolListener = repairedShape := by decide

/-- AND OR NOT TRUE FALSE are spelled with the case-insensitive letter fragments; WS and the
    parentheses are the expected characters. -/
theorem keywords_are_expected :
    Generated.keywords = expectedKeywords ∧ Generated.wsChars = [' ', '\n', '\t', '\r'] ∧
      Generated.lparenChars = ['('] ∧ Generated.rparenChars = [')'] := by decide

/-- `BooleanLogicExprNode.TypeTransformBool`, `UntypedNotExprNode.TypeTransformBool`, `EvalBool` of
    `AndExprNode` / `OrExprNode` / `NotExprNode` and the `transformTypes` glue are written the way
    `transform` / `T.eval` follow them: one typed node per untyped node, no rewrite of the tree. -/
theorem transform_is_plain : Generated.boolTransform = plainTransform := by decide

theorem code_eq (ts : List (Tok α)) : code ts = untypedFixed G ts := by
  simp [code, untypedL, listener_is_repaired]

/-! ## the model on every token list -/

/-- **Every skeleton is accepted and read as intended** (this is `and_over_or` in tree form). -/
theorem parse_render (w : W α) : code w.render = some w.readS := by
  rw [code_eq]; exact fixed_listener_reads_intended G parser_is_greedy w

/-- Nothing else is accepted: an accepted token list is a skeleton, and its tree is the
    intended one. -/
theorem parse_sound (ts : List (Tok α)) (u : U α) (h : code ts = some u) :
    ∃ w : W α, ts = w.render ∧ u = w.readS := by
  have hp : ∃ evs, parseTokens G ts = some evs := by
    rw [code_eq] at h
    simp only [untypedFixed] at h
    split at h
    · simp at h
    · next evs hp => exact ⟨evs, hp⟩
  obtain ⟨evs, hp⟩ := hp
  obtain ⟨w, rfl⟩ := parseTokens_sound G ts evs hp
  refine ⟨w, rfl, ?_⟩
  rw [parse_render w] at h
  exact (Option.some.inj h).symm

/-- The listener's stack discipline fits the generated parser: after the walk of any accepted
    input the stack holds exactly one node (no operand is dropped, no underflow), although
    `AndExpr`/`OrExpr` contexts could syntactically have more than two operands. -/
theorem stack_discipline (ts : List (Tok α)) (evs : List (Ev α)) (h : parseTokens G ts = some evs) :
    ∃ u, runFixed evs [] = some [u] := by
  obtain ⟨w, rfl⟩ := parseTokens_sound G ts evs h
  rw [parseTokens_render G parser_is_greedy w] at h
  cases h
  exact ⟨w.fixM, runFixed_evM w []⟩

/-- The whole of `ast.Parse` on a skeleton is the spec: a type error iff some symbol is not
    boolean, otherwise a typed tree that evaluates like the intended reading. -/
theorem pipeline_reads (isBool : α → Bool) (w : W α) :
    query L G isBool w.render = specQuery isBool w.render ∧
    (w.allBool isBool = false → query L G isBool w.render = .typeError) ∧
    (w.allBool isBool = true → ∃ t, query L G isBool w.render = .ok t ∧ ∀ env, t.eval env = w.readS.eval env) := by
  have hc : untypedL L G w.render = some w.readS := parse_render w
  have hq_none : transform isBool w.readS = none → query L G isBool w.render = .typeError := by
    intro h; simp only [query, hc, h]
  have hq_some : ∀ t, transform isBool w.readS = some t → query L G isBool w.render = .ok t := by
    intro t h; simp only [query, hc, h]
  refine ⟨?_, ?_, ?_⟩
  · simp only [specQuery, readTokens_render']
    cases ht : transform isBool w.readS with
    | none => rw [hq_none ht]
    | some t => rw [hq_some t ht]
  · intro h
    exact hq_none ((transform_none_iff isBool _).2 (by rw [allBool_readS]; exact h))
  · intro h
    cases ht : transform isBool w.readS with
    | none =>
      have := (transform_none_iff isBool _).1 ht
      rw [allBool_readS, h] at this
      cases this
    | some t => exact ⟨t, hq_some t ht, fun env => transform_eval isBool env _ t ht⟩

/-! ## the typed tree (after `TypeTransformBool`) -/

/-- the model of the whole of `ast.Parse`, with the typing code found in the source -/
abbrev typed (isBool : α → Bool) (ts : List (Tok α)) : Option (Res α) := queryT TS L G isBool ts

theorem typed_eq (isBool : α → Bool) (ts : List (Tok α)) : typed isBool ts = some (query L G isBool ts) := by
  simp [typed, queryT, transform_is_plain]

/-- `ast.Parse` on a skeleton, with the typing code as it is: the spec's answer. -/
theorem typed_pipeline_reads (isBool : α → Bool) (w : W α) :
    typed isBool w.render = some (specQuery isBool w.render) := by
  rw [typed_eq, (pipeline_reads isBool w).1]

theorem query_ok_iff (isBool : α → Bool) (w : W α) (t : T α) :
    query L G isBool w.render = .ok t ↔ transform isBool w.readS = some t := by
  have hc : untypedL L G w.render = some w.readS := parse_render w
  simp only [query, hc]
  cases transform isBool w.readS <;> simp

/-- **The typed tree is a bracketing of the written text**: read in order (left operand,
    connective, right operand; `not` before its operand) it is the written token list without the
    parentheses.  However large the skeleton and however its parts are related (equal operands,
    the same atoms grouped differently, mirrored operands): no atom, connective or `not` is
    dropped, duplicated, replaced or moved by the listener or by typing — only grouped, and
    (`pipeline_reads`) grouped as intended. -/
theorem typed_tree_is_a_bracketing (isBool : α → Bool) (w : W α) (t : T α)
    (h : typed isBool w.render = some (.ok t)) :
    t.inorder = w.render.filter (fun x => !x.isParen) := by
  rw [typed_eq] at h
  have ht := (query_ok_iff isBool w t).1 (Option.some.inj h)
  rw [transform_inorder isBool _ t ht, readS_inorder, flat_eq_filter]

/-- non-vacuity: `(p and (q or r)) or ((p and q) or r)` is accepted and typed -/
example : ∃ t, typed (fun (_ : Nat) => true)
    (W.grpOp (.atomOp (.sym 0) .and (.grp (.atomOp (.sym 1) .or (.atom (.sym 2))))) .or
      (.grp (.grpOp (.atomOp (.sym 0) .and (.atom (.sym 1))) .or (.atom (.sym 2))))).render = some (.ok t) :=
  ⟨_, by rw [typed_eq, (pipeline_reads _ _).1]; rfl⟩

/-- **Both operands of a connective are kept, whatever they look like**: the typed tree of
    `(g) op (w)` is `op (typed g) (typed w)`, of `not ((g) op (w))` its negation, and its value is
    Go's `&&` / `||` of the two values — in particular when `g` and `w` are the same atoms and
    connectives grouped differently (their `String()` is then equal, `show_forgets_grouping`),
    or are equal. -/
theorem regrouped_operands_both_kept (isBool : α → Bool) (g w : W α) (o : Op) (tg tw : T α)
    (hg : query L G isBool g.render = .ok tg) (hw : query L G isBool w.render = .ok tw) :
    query L G isBool (W.grpOp g o (.grp w)).render = .ok (T.bin o tg tw) ∧
    query L G isBool (W.not (.grp (.grpOp g o (.grp w)))).render = .ok (.not (T.bin o tg tw)) ∧
    ∀ env, (T.bin o tg tw).eval env = o.apply (tg.eval env) (tw.eval env) := by
  have hg' := (query_ok_iff isBool g tg).1 hg
  have hw' := (query_ok_iff isBool w tw).1 hw
  have hr : (W.grpOp g o (.grp w)).readS = .bin o g.readS w.readS := by
    cases o with
    | or => rfl
    | and => exact readS_grpOp_and_noOr g (.grp w) rfl
  refine ⟨?_, ?_, fun env => T.bin_eval o tg tw env⟩
  · rw [query_ok_iff, hr, transform_bin, hg', hw']; rfl
  · rw [query_ok_iff]
    show transform isBool (.not (W.grpOp g o (.grp w)).readS) = _
    rw [transform_not, hr, transform_bin, hg', hw']; rfl

/-- non-vacuity, and the input a String()-based "X or X is X" simplification gets wrong: the
    operands `p and (q or r)` and `(p and q) or r` are the same text up to parentheses, the query
    `(p and (q or r)) or ((p and q) or r)` is true for p = false, r = true; its left operand alone is
    false. -/
example :
    (W.atomOp (Atom.sym 0) .and (.grp (.atomOp (.sym 1) .or (.atom (.sym 2))))).flat =
      (W.grpOp (.atomOp (Atom.sym 0) .and (.atom (.sym 1))) .or (.atom (.sym 2))).flat ∧
    (W.grpOp (.atomOp (Atom.sym 0) .and (.grp (.atomOp (.sym 1) .or (.atom (.sym 2))))) .or
      (.grp (.grpOp (.atomOp (.sym 0) .and (.atom (.sym 1))) .or (.atom (.sym 2))))).readS.eval (fun i => i == 2) = true ∧
    (W.atomOp (Atom.sym 0) .and (.grp (.atomOp (.sym 1) .or (.atom (.sym 2))))).readS.eval (fun i => i == 2) = false := by
  decide

/-- `not` of a typed operand is one `NotExprNode` around it (two `not`s stay two), written with or
    without parentheses, and it negates WHATEVER the operand evaluates to: `env` is an arbitrary
    valuation — one Bool per atom, i.e. per atom per row.  Atoms are opaque here (a boolean symbol, a
    comparison, in / between / contains, a set function); a row on which an atom's field is NULL or
    its set is empty is just another valuation (the atom is then false, or true for `!=` / `not
    contains`), so the statement covers those rows: no assumption that an atom and some
    "complementary" atom have opposite values is made or needed. -/
theorem typed_not_negates (isBool : α → Bool) (w : W α) (t : T α)
    (h : query L G isBool w.render = .ok t) :
    query L G isBool (W.not w).render = .ok (.not t) ∧
    query L G isBool (W.not (.grp w)).render = .ok (.not t) ∧
    query L G isBool (W.not (.grp (.not (.grp w)))).render = .ok (.not (.not t)) ∧
    (∀ env, (T.not t).eval env = !(t.eval env)) ∧
    ∀ env, (T.not (.not t)).eval env = t.eval env := by
  have h' := (query_ok_iff isBool w t).1 h
  refine ⟨?_, ?_, ?_, fun env => rfl, fun env => by simp [T.eval]⟩
  · rw [query_ok_iff]
    show transform isBool (.not w.readS) = _
    rw [transform_not, h']; rfl
  · rw [query_ok_iff]
    show transform isBool (.not w.readS) = _
    rw [transform_not, h']; rfl
  · rw [query_ok_iff]
    show transform isBool (.not (.not w.readS)) = _
    rw [transform_not, transform_not, h']; rfl

/-- non-vacuity: a single atom under `not`, with a valuation that makes the atom false (the
    situation of a comparison over a NULL field): the negation is true. -/
example : query L G (fun _ => true) (W.not (.grp (.atom (Atom.sym 0)))).render = .ok (.not (.atom (.sym 0))) ∧
    (T.not (.atom (Atom.sym 0))).eval (fun _ => false) = true := by
  constructor
  · exact ((typed_not_negates (fun _ => true) (.atom (Atom.sym 0)) (.atom (.sym 0))
      (by rw [query_ok_iff]; rfl)).2.1)
  · rfl

/-! ## round 8: the typed class of the operand where `not` / `and` / `or` meet it

  After its own typing an atom is a node of some Go struct (`BinaryInt64ExprNode`, `BinaryFloat64ExprNode`,
  `InStringArrayExprNode`, `BoolSymbolNode`, `StringSymbolNode`, …).  Which structs implement `BoolNode` and
  what their `GetType()` reports is regenerated from ast/*.go (`Generated.C10.classTable`).  The pinned
  bodies of `UntypedNotExprNode.TypeTransformBool` / `BooleanLogicExprNode.TypeTransformBool` /
  `untypedQueryNode.TypeTransformBool` decide by the interface assertion `.(BoolNode)`; `transformC`
  (StorageModel/C12/Classes.lean) follows them with the class of every atom as a parameter. -/

abbrev CT : ClassTable := Generated.C10.classTable

/-- the model of `ast.Parse` on a skeleton whose atoms are typed as `cls` says -/
abbrev typedC (cls : α → String) (ts : List (Tok α)) : Res α := queryC .byInterface CT L G cls ts

/-- the structs a typed operand of `not` / `and` / `or` can be: what typing makes of a primary
    alternative of `boolExpr` (a bool symbol, BOOL, a comparison typed by its operands — bool, datetime,
    float64 incl. int-against-decimal-literal, int64, string —, `= null`, between, in, the set functions,
    isEmpty) and of `not` / `and` / `or` themselves (`x not in …` / `x not between …` are `NotExprNode`s) -/
def boolOperandClasses : List String := [
  "BoolSymbolNode", "AnyTypeSymbolNode", "BoolConstNode",
  "BinaryBoolExprNode", "BinaryDatetimeExprNode", "BinaryFloat64ExprNode", "BinaryInt64ExprNode",
  "BinaryStringExprNode", "IsNilExprNode",
  "Int64BetweenExprNode", "Float64BetweenExprNode", "DatetimeBetweenExprNode",
  "InStringArrayExprNode", "InInt64ArrayExprNode", "InFloat64ArrayExprNode", "InDatetimeArrayExprNode",
  "AllOfSetExprNode", "AnyOfSetExprNode", "IsEmptySetExprNode",
  "NotExprNode", "AndExprNode", "OrExprNode"]

/-- `BoolNode` structs that never survive typing (each `TypeTransformBool` replaces itself) or are the query itself -/
def transitoryBoolClasses : List String :=
  ["BetweenExprNode", "BinaryExprNode", "BooleanLogicExprNode", "InArrayExprNode", "UntypedNotExprNode",
   "queryNode", "untypedQueryNode"]

/-- (regenerated data) every listed operand struct implements `BoolNode` in the code as it is … -/
theorem operand_classes_are_bool_nodes : ∀ c ∈ boolOperandClasses, CT.isBoolNode c = true := by decide

/-- … and the list is complete: every struct of package ast that implements `BoolNode` is listed (or transitory). -/
theorem operand_classes_complete :
    ∀ row ∈ CT, row.2.1.contains "BoolNode" = true → row.1 ∈ boolOperandClasses ∨ row.1 ∈ transitoryBoolClasses := by
  decide

theorem connective_classes_are_bool_nodes : ConnectivesAreBoolNodes CT := by
  unfold ConnectivesAreBoolNodes; decide

/-- (regenerated data) the declared type is a different fact from `BoolNode` membership: the typed float
    comparison is a `BoolNode` whose `GetType()` reports `NodeTypeFloat64`; every other operand struct
    reports bool / any. -/
theorem declared_type_is_not_the_criterion :
    CT.isBoolNode "BinaryFloat64ExprNode" = true ∧ CT.getType "BinaryFloat64ExprNode" = "NodeTypeFloat64" ∧
    ∀ c ∈ boolOperandClasses, c ≠ "BinaryFloat64ExprNode" →
      CT.getType c = "NodeTypeBool" ∨ CT.getType c = "NodeTypeAnyType" := by decide

theorem typedC_eq (cls : α → String) (ts : List (Tok α)) :
    typedC cls ts = query L G (fun a => CT.isBoolNode (cls a)) ts :=
  queryC_eq_query CT L G cls connective_classes_are_bool_nodes ts

theorem allBool_true (w : W α) : w.allBool (fun _ => true) = true := by
  induction w with
  | atom a => cases a <;> rfl
  | grp g ih => simpa [W.allBool] using ih
  | not w ih => simpa [W.allBool] using ih
  | atomOp a o w ih => cases a <;> simp [W.allBool, ih]
  | grpOp g o w ihg ih => simp [W.allBool, ihg, ih]

theorem isBool_of_classes (cls : α → String) (hc : ∀ a, cls a ∈ boolOperandClasses) :
    (fun a => CT.isBoolNode (cls a)) = fun _ => true :=
  funext fun a => operand_classes_are_bool_nodes _ (hc a)

/-- whatever boolean operand structs the atoms are typed as, the skeleton is accepted and evaluates
    like the intended reading -/
theorem typedC_reads (cls : α → String) (hc : ∀ a, cls a ∈ boolOperandClasses) (w : W α) :
    ∃ t, typedC cls w.render = .ok t ∧ ∀ env, t.eval env = w.readS.eval env := by
  rw [typedC_eq, isBool_of_classes cls hc]
  exact (pipeline_reads (fun _ => true) w).2.2 (allBool_true w)

/-- one node, ANY struct of the table (boolean or not): an operand is accepted under `not`, and two
    operands under `and` / `or`, iff their structs implement `BoolNode` — `GetType()` is not consulted. -/
theorem operand_accepted_iff_bool_node (cls : α → String) (a b : α) (o : Op) :
    transformC .byInterface CT cls (.not (.atom (.sym a))) =
      (if CT.isBoolNode (cls a) then some (.not (.atom (.sym a))) else none) ∧
    transformC .byInterface CT cls (.bin o (.atom (.sym a)) (.atom (.sym b))) =
      (if CT.isBoolNode (cls a) && CT.isBoolNode (cls b) then some (T.bin o (.atom (.sym a)) (.atom (.sym b)))
       else none) :=
  ⟨not_operand_accepted_iff_bool_node CT cls a, bin_operands_accepted_iff_bool_nodes CT cls o a b⟩

/-- **`not (P)` negates P for every typed class of P**: let the atoms of a skeleton `w` be typed as ANY
    of the boolean operand structs (`cls` arbitrary — float comparisons, promoted int-vs-float
    comparisons, datetime / string / bool comparisons, in / between, set functions, isEmpty, a bool
    symbol …; `w` itself may be an atom, a parenthesised and / or, a `not`).  Then `w` is accepted, `not w`,
    `not (w)` are accepted and typed as ONE `NotExprNode` around the typed `w`, `not (not (w))` as two, and
    they evaluate to the negation (resp. the value) of the intended reading of `w` under an arbitrary
    valuation (one Bool per atom per row, so NULL rows are covered). -/
theorem typed_not_negates_any_operand_class (cls : α → String) (hc : ∀ a, cls a ∈ boolOperandClasses)
    (w : W α) :
    ∃ t, typedC cls w.render = .ok t ∧
      typedC cls (W.not w).render = .ok (.not t) ∧
      typedC cls (W.not (.grp w)).render = .ok (.not t) ∧
      typedC cls (W.not (.grp (.not (.grp w)))).render = .ok (.not (.not t)) ∧
      (∀ env, t.eval env = w.readS.eval env) ∧
      (∀ env, (T.not t).eval env = !(w.readS.eval env)) ∧
      ∀ env, (T.not (.not t)).eval env = w.readS.eval env := by
  obtain ⟨t, ht, hv⟩ := typedC_reads cls hc w
  have ht' := ht
  rw [typedC_eq] at ht'
  obtain ⟨h1, h2, h3, h4, h5⟩ := typed_not_negates _ w t ht'
  refine ⟨t, ht, ?_, ?_, ?_, hv, ?_, ?_⟩
  · rw [typedC_eq]; exact h1
  · rw [typedC_eq]; exact h2
  · rw [typedC_eq]; exact h3
  · intro env; rw [h4, hv]
  · intro env; rw [h5, hv]

/-- non-vacuity: every atom a typed float comparison -/
example : ∃ t, typedC (fun (_ : Nat) => "BinaryFloat64ExprNode") (W.not (.grp (.atom (Atom.sym 0)))).render = .ok (.not t) := by
  obtain ⟨t, _, _, h, _⟩ := typed_not_negates_any_operand_class (fun (_ : Nat) => "BinaryFloat64ExprNode")
    (fun _ => by decide) (.atom (Atom.sym 0))
  exact ⟨t, h⟩

/-- **`and` / `or` accept every boolean operand struct**: `(g) op (w)` is typed as `op (typed g) (typed w)`
    and evaluates to the conjunction / disjunction of the intended readings, `not ((g) op (w))` to one
    `NotExprNode` around it — for all skeletons `g`, `w` over atoms of arbitrary boolean operand structs. -/
theorem connectives_accept_every_bool_operand_class (cls : α → String)
    (hc : ∀ a, cls a ∈ boolOperandClasses) (g w : W α) (o : Op) :
    ∃ tg tw, typedC cls g.render = .ok tg ∧ typedC cls w.render = .ok tw ∧
      typedC cls (W.grpOp g o (.grp w)).render = .ok (T.bin o tg tw) ∧
      typedC cls (W.not (.grp (.grpOp g o (.grp w)))).render = .ok (.not (T.bin o tg tw)) ∧
      ∀ env, (T.bin o tg tw).eval env = o.apply (g.readS.eval env) (w.readS.eval env) := by
  obtain ⟨tg, hg, hvg⟩ := typedC_reads cls hc g
  obtain ⟨tw, hw, hvw⟩ := typedC_reads cls hc w
  have hg' := hg
  have hw' := hw
  rw [typedC_eq] at hg' hw'
  obtain ⟨h1, h2, h3⟩ := regrouped_operands_both_kept _ g w o tg tw hg' hw'
  refine ⟨tg, tw, hg, hw, ?_, ?_, ?_⟩
  · rw [typedC_eq]; exact h1
  · rw [typedC_eq]; exact h2
  · intro env; rw [h3, hvg, hvw]

/-- What a check of the DECLARED type in front of the interface assertion does (the other way "operand
    must be boolean" can be written in `UntypedNotExprNode.TypeTransformBool`; not the code): an operand
    typed as a float comparison is still accepted on its own and under `and` / `or`, but `not (P)` is a
    type error — the property's clause "`not (P)` is the negation of P" fails for exactly this struct
    (`declared_type_is_not_the_criterion`). -/
theorem declared_type_check_rejects_a_bool_node (cls : α → String) (a b : α)
    (ha : cls a = "BinaryFloat64ExprNode") (hb : CT.isBoolNode (cls b) = true) :
    typeQuery .byDeclaredType CT cls (.atom (.sym a)) = some (.atom (.sym a)) ∧
    typeQuery .byDeclaredType CT cls (.bin .and (.atom (.sym a)) (.atom (.sym b))) =
      some (.and (.atom (.sym a)) (.atom (.sym b))) ∧
    typeQuery .byDeclaredType CT cls (.not (.atom (.sym a))) = none ∧
    typeQuery .byInterface CT cls (.not (.atom (.sym a))) = some (.not (.atom (.sym a))) := by
  obtain ⟨h1, h2, _⟩ := declared_type_is_not_the_criterion
  obtain ⟨_, hn, hand, _⟩ := connective_classes_are_bool_nodes
  refine ⟨?_, ?_, ?_, ?_⟩ <;>
    simp [typeQuery, transformC, T.cls, T.bin, OperandCheck.accepts, ha, hb, h1, h2, hn, hand]

/-! ## clause 4 (headline): `and` binds tighter than `or`, independent of the order -/

/-- For every skeleton and every truth assignment the code's answer is the intended one:
    `or` splits the level, `and` joins inside the pieces, wherever they occur. -/
theorem and_over_or (w : W α) (env : α → Bool) :
    (code w.render).map (U.eval env) = some (w.readS.eval env) ∧
    (code w.render).map (U.eval env) = some (w.pieces.any (fun p => p.all (Unit'.val env))) := by
  rw [parse_render]
  exact ⟨rfl, by rw [Option.map_some, readS_eval_pieces]⟩

/-- Both orders, spelled out for arbitrary units `p q r` (atoms or parenthesised skeletons):
    `p and q or r` and `r or p and q` are `(p ∧ q) ∨ r`. -/
theorem and_over_or_both_orders (p q r : UnitW α) (env : α → Bool) :
    (code (p.cons .and (q.cons .or r.toW)).render).map (U.eval env) =
      some ((p.valS env && q.valS env) || r.valS env) ∧
    (code (r.cons .or (p.cons .and q.toW)).render).map (U.eval env) =
      some (r.valS env || (p.valS env && q.valS env)) := by
  rw [parse_render, parse_render]
  constructor
  · cases p <;> cases q <;> cases r <;> rfl
  · cases p <;> cases q <;> cases r <;> rfl

/-! ## clause 1: parentheses group sub-expressions -/

/-- A parenthesised sub-expression is read on its own and used as ONE operand: as the whole
    query; as right operand of any operator; as left operand of `or`; as left operand of `and`
    (it joins the first `and`-group of what follows — with a pure `and`-chain: the whole). -/
theorem paren_groups (g w : W α) (a : Atom α) (o : Op) :
    code (.lp :: (g.render ++ [.rp])) = code g.render ∧
    code (.atom a :: .op o :: .lp :: (w.render ++ [.rp])) = (code w.render).map (U.bin o (.atom a)) ∧
    code (.lp :: (g.render ++ .rp :: .op .or :: w.render)) =
      (code g.render).bind (fun l => (code w.render).map (U.bin .or l)) ∧
    (w.hasTopOr = false → code (.lp :: (g.render ++ .rp :: .op .and :: w.render)) =
      (code g.render).bind (fun l => (code w.render).map (U.bin .and l))) := by
  refine ⟨?_, ?_, ?_, ?_⟩
  · exact (parse_render (.grp g)).trans (parse_render g).symm
  · rw [parse_render w]
    have := parse_render (.atomOp a o (.grp w))
    cases o with
    | or => simpa [W.render] using this
    | and => rw [readS_atomOp_and_noOr a (.grp w) rfl] at this; simpa [W.render] using this
  · rw [parse_render g, parse_render w]; exact parse_render (.grpOp g .or w)
  · intro h
    rw [parse_render g, parse_render w]
    have := parse_render (.grpOp g .and w)
    rw [readS_grpOp_and_noOr g w h] at this
    exact this

/-- … and in general its content only matters through its value. -/
theorem paren_content_only_by_value (g g' w : W α) (o : Op) (env : α → Bool)
    (h : g.readS.eval env = g'.readS.eval env) :
    (code (W.grpOp g o w).render).map (U.eval env) = (code (W.grpOp g' o w).render).map (U.eval env) := by
  rw [parse_render, parse_render]
  have hs : sem env (.grpOp g o w) = sem env (.grpOp g' o w) := by
    cases o <;> simp [val, h]
  have h1 := val_eq env (.grpOp g o w)
  have h2 := val_eq env (.grpOp g' o w)
  rw [hs] at h1
  simp only [val] at h1 h2
  simp [h1, h2]

/-! ## clause 2: chains of a single connective are associative -/

/-- Every bracketing of `u₁ op u₂ op … op uₙ` (units: atoms or arbitrary parenthesised
    skeletons) evaluates like the flat chain: to the conjunction / disjunction of the units. -/
theorem chain_assoc (o : Op) (t : BT α) (u : UnitW α) (us : List (UnitW α)) (h : t.leaves = u :: us)
    (env : α → Bool) :
    (code (t.toW o).render).map (U.eval env) = some (foldOp o ((u :: us).map (UnitW.valS env))) ∧
    (code (chain o u us).render).map (U.eval env) = some (foldOp o ((u :: us).map (UnitW.valS env))) := by
  rw [parse_render, parse_render]
  simp only [Option.map_some, bracket_evalS, chain_evalS, h]
  exact ⟨trivial, trivial⟩

/-! ## clause 3: `not (P)` is the negation of P -/

theorem not_paren_negates (w : W α) (env : α → Bool) :
    code (.not :: .lp :: (w.render ++ [.rp])) = (code w.render).map U.not ∧
    (code (.not :: .lp :: (w.render ++ [.rp]))).map (U.eval env) =
      (code w.render).map (fun u => !(u.eval env)) := by
  have h1 : code (.not :: .lp :: (w.render ++ [.rp])) = some (.not w.readS) :=
    parse_render (.not (.grp w))
  rw [h1, parse_render w]
  exact ⟨rfl, rfl⟩

/-! ## clause 5: redundant parentheses -/

/-- One more pair of parentheses around ANY sub-expression of the intended reading — the whole
    query, a parenthesised level, the operand of `not`, an operand of `or`, a unit, a run of units
    inside an `and`-group, a run of whole `and`-groups; at any depth (`Paren`, complete list in
    StorageModel/C12/Parens.lean) — never changes the result. -/
theorem redundant_parens {b : Bool} {w w' : W α} (h : Paren b w w') (env : α → Bool) :
    (code w'.render).map (U.eval env) = (code w.render).map (U.eval env) := by
  rw [parse_render, parse_render]
  have := (h.sem_eq env).1
  simp only [val] at this
  simp [this]

/-- For the pairs that do not regroup a chain the tree itself is unchanged. -/
theorem redundant_parens_same_tree {b : Bool} {w w' : W α} (h : RP b w w') :
    code w'.render = code w.render := by
  rw [parse_render, parse_render, h.readGo_eq.1]

/-- non-vacuity: `a and b or c` ↦ `(a and b) or c`;  `a or b and c` ↦ `a or (b and c)`;
    `x and a and b or c` ↦ `x and (a and b) or c` -/
example : Paren true (W.atomOp (.sym 0) .and (.atomOp (.sym 1) .or (.atom (.sym 2))))
    (W.grpOp (.atomOp (.sym 0) .and (.atom (.sym 1))) .or (.atom (.sym 2))) :=
  .runOr (.atomOp (.sym 0) .and (.atom (.sym 1))) (.atom (.sym 2)) rfl
example : Paren true (W.atomOp (.sym 0) .or (.atomOp (.sym 1) .and (.atom (.sym 2))))
    (W.atomOp (.sym 0) .or (.grp (.atomOp (.sym 1) .and (.atom (.sym 2))))) :=
  .atomOrTail _ _ _ _ (.whole _)
example : Paren true (W.atomOp (.sym 9) .and (.atomOp (.sym 0) .and (.atomOp (.sym 1) .or (.atom (.sym 2)))))
    (W.atomOp (.sym 9) .and (.grpOp (.atomOp (.sym 0) .and (.atom (.sym 1))) .or (.atom (.sym 2)))) :=
  .atomAndTail _ _ _ _ (.runOrIn false (.atomOp (.sym 0) .and (.atom (.sym 1))) (.atom (.sym 2)) rfl rfl)

/-! ## clause 6: keyword case and whitespace (lexer level) -/

/-- However the keywords are cased (any mask of upper-case letters) and however much whitespace
    (blank, tab, CR, LF) is put wherever the grammar allows it — at least one where it demands
    `WS+` — the lexer + whitespace rules yield the same token skeleton.  `Generated.keywords`
    is the table regenerated from ZitiQl.g4. -/
theorem respell_invariant (ts : List (Tok (List Char) × Spell)) (trail : List Char)
    (h : SpellOk none ts trail) :
    lexSkeleton Generated.keywords (renderChars ts trail) = some (ts.map (·.1)) := by
  rw [keywords_are_expected.1]
  exact lexSkeleton_render ts trail h

/-- Hence two spellings of the same skeleton are the same query. -/
theorem respelled_query_same_result (ts ts' : List (Tok (List Char) × Spell)) (trail trail' : List Char)
    (h : SpellOk none ts trail) (h' : SpellOk none ts' trail') (hsame : ts.map (·.1) = ts'.map (·.1))
    (isBool : List Char → Bool) :
    (lexSkeleton Generated.keywords (renderChars ts trail)).map (query L G isBool) =
      (lexSkeleton Generated.keywords (renderChars ts' trail')).map (query L G isBool) := by
  rw [respell_invariant ts trail h, respell_invariant ts' trail' h', hsame]

/-- non-vacuity: `( pa AnD\tNOT  pb )\n` is an admitted spelling of `( pa and not pb )` -/
example : SpellOk none
    [(.lp, ⟨[], []⟩), (.atom (.sym ['p', 'a']), ⟨[' '], []⟩), (.op .and, ⟨[' '], [true, false, true]⟩),
     (.not, ⟨['\t'], [true, true, true]⟩), (.atom (.sym ['p', 'b']), ⟨[' ', ' '], []⟩), (.rp, ⟨[' '], []⟩)]
    ['\n'] := by
  simp only [SpellOk, TokOk, AtomWord]
  decide

/-! ## the spec itself, and the executable reader of the driver -/

/-- The intended reading without trees: a skeleton is true iff one of its `or`-separated pieces
    has all of its `and`-joined units true (units: atoms, parenthesised skeletons, a trailing
    `not <rest>`). -/
theorem spec_is_dnf (w : W α) (env : α → Bool) :
    w.readS.eval env = w.pieces.any (fun p => p.all (Unit'.val env)) :=
  readS_eval_pieces env w

/-- the reader used by the driver's spec mode inverts `render` … -/
theorem readTokens_render (w : W α) : readTokens w.render = some w := readTokens_render' w

/-- … and the code accepts exactly the token lists that are skeletons. -/
theorem accept_agree (ts : List (Tok α)) : (code ts).isSome = (readTokens ts).isSome := by
  cases hc : code ts with
  | some u =>
    obtain ⟨w, rfl, _⟩ := parse_sound ts u hc
    simp [readTokens_render']
  | none =>
    cases hr : readTokens ts with
    | none => rfl
    | some w =>
      have := readTokens_sound ts w hr
      subst this
      rw [parse_render w] at hc
      simp at hc

/-! ## what the numbers mean (illustrations on the model, not property theorems) -/

/-- the numbers ANTLR would generate for the ordinary binary form `boolExpr WS+ AND WS+ boolExpr` -/
def binaryFormNums : ParserNums :=
  { andPrec := 6, andRight := 7, andLoop := false, orPrec := 5, orRight := 6, orLoop := false,
    notLevel := 1, groupLevel := 0, startLevel := 0 }

/-- with them already the plain listener groups `a and b or c` as intended (chains nest left) -/
example : untyped binaryFormNums [.atom (.sym 0), .op .and, .atom (.sym 1), .op .or, .atom (.sym 2)] =
    some (.bin .or (.bin .and (.atom (.sym 0)) (.atom (.sym 1))) (.atom (.sym 2))) := by decide
example : untyped binaryFormNums [.atom (.sym 0), .op .or, .atom (.sym 1), .op .and, .atom (.sym 2)] =
    some (.bin .or (.atom (.sym 0)) (.bin .and (.atom (.sym 1)) (.atom (.sym 2)))) := by decide

/-- Keeping the suffix-loop form and only raising the operand levels would NOT do: an `AndExpr`
    context would then have three operands for `a and b and c`, `ExitAndExpr` pops two, and the
    first operand is silently lost (the stack discipline theorem depends on `parser_is_greedy`). -/
example : untyped { binaryFormNums with andLoop := true, orLoop := true }
    [.atom (.sym 0), .op .and, .atom (.sym 1), .op .and, .atom (.sym 2)] =
    some (.bin .and (.atom (.sym 1)) (.atom (.sym 2))) := by decide

/-! ## the listener of the pinned tree (before fix c2dd0be) — why the fix was needed -/

/-- the model with the old listener -/
abbrev pinned (ts : List (Tok α)) : Option (U α) := untypedL pinnedShape G ts

theorem pinned_eq (ts : List (Tok α)) : pinned ts = untyped G ts := by
  simp [pinned, untypedL, pinnedShape, repairedShape]

/-- `P and Q or R` with P false and R true: the pinned tree answered false, the intended answer
    (and the answer of the current code) is true. -/
theorem pinned_listener_violates :
    (pinned [Tok.atom (Atom.sym 0), .op .and, .atom (.sym 1), .op .or, .atom (.sym 2)]).map
        (U.eval (fun i => i == 2)) = some false ∧
    (code [Tok.atom (Atom.sym 0), .op .and, .atom (.sym 1), .op .or, .atom (.sym 2)]).map
        (U.eval (fun i => i == 2)) = some true := by
  constructor
  · rw [pinned_eq]; decide
  · rw [code_eq]; decide

/-- Exactly which skeletons were affected: the pinned listener built the tree `readM` (each
    operator takes the rest of its level), which is the intended tree iff no `and` had an
    unparenthesised `or` to its right on the same level (`W.ordered`) … -/
theorem pinned_listener_exact (w : W α) :
    (pinned w.render = some w.readM) ∧ (pinned w.render = some w.readS ↔ w.ordered = true) := by
  rw [pinned_eq, untyped_render G parser_is_greedy w]
  refine ⟨rfl, ?_, ?_⟩
  · intro h; exact ordered_of_readM_eq_readS w (Option.some.inj h)
  · intro h; rw [readM_eq_readS_of_ordered w h]

/-- … and over pairwise distinct symbols: some truth assignment got a wrong answer iff the
    skeleton is not `ordered`. -/
theorem pinned_listener_fails_exactly [DecidableEq α] (w : W α) (hd : w.Distinct) :
    (∃ env : α → Bool, (pinned w.render).map (U.eval env) ≠ some (w.readS.eval env)) ↔
      w.ordered = false := by
  rw [pinned_eq, untyped_render G parser_is_greedy w]
  constructor
  · rintro ⟨env, h⟩
    cases ho : w.ordered with
    | false => rfl
    | true =>
      rw [readM_eq_readS_of_ordered w ho] at h
      exact absurd rfl h
  · intro hn
    obtain ⟨env, h⟩ := not_ordered_differs w hd hn
    exact ⟨env, by simpa using h⟩

end StorageModel.Properties.C12

#print axioms StorageModel.Properties.C12.parse_render
#print axioms StorageModel.Properties.C12.and_over_or
#print axioms StorageModel.Properties.C12.redundant_parens
#print axioms StorageModel.Properties.C12.respell_invariant
