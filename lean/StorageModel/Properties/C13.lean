import StorageModel.Codec.CompoundKey
import StorageModel.Codec.Fields
import StorageModel.Codec.ListKeys
import StorageModel.Codec.ContextLemmas
/-
  C13 — Stored values and compound keys round-trip.

  "Every value of a supported type - string including the empty string, int32, int64, float64,
  bool, time, null, string lists, nested maps and lists - written to a bucket is read back equal
  (integers may widen to int64, times compare equal as instants, string lists come back as sorted
  duplicate-free sets); null stays distinguishable from the empty string; and a write restricted
  by a field checker touches only the fields the checker selects.  Encoding a list of strings as a
  compound key and decoding it returns the same list, and distinct lists never share an encoding."

  The theorems are about the executable model of boltz/encode.go, boltz/typed_bucket.go and the
  PersistContext setters of boltz/base.go in `StorageModel/Codec/*` (compared with the real code on
  every run by `bin/check C13`).  Hypotheses of the form `(… tb …).err = none` say "the write was
  not refused" (bbolt refuses empty / oversized keys and value-vs-bucket conflicts); `put_succeeds`
  and the `example`s show they are satisfiable.  Float bit patterns are opaque payloads: that
  `math.Float64frombits ∘ Float64bits` is the identity is Go's, not proved here.  Times carry their
  representation and go through a transcription of Go 1.23's `MarshalBinary` / `UnmarshalBinary`
  (compared with the real functions by the harness).
-/
namespace StorageModel.Properties.C13
open StorageModel StorageModel.Codec

/-! ## compound keys (boltz/encode.go) -/

/-- LEB128 as `encoding/binary` does it: every uint64 is read back, with the number of bytes
    consumed, whatever follows. -/
theorem uvarint_roundtrip (y : Nat) (rest : Bytes) (hy : y < 2 ^ 64) :
    uvarint (putUvarint y ++ rest) = (y, ((putUvarint y).length : Int)) :=
  uvarint_put y rest hy

/-- **round trip**: a list whose elements respect `MaxLinkedSetKeySize` is encoded, and decoding the
    encoding returns the same list — for every list of byte strings. -/
theorem compound_roundtrip (xs : List Bytes) (h : AllWithin xs) :
    ∃ e, encodeStringSlice xs = .ok e ∧ decodeStringSlice e = .ok xs := by
  refine ⟨encodeSpec xs, ?_, ?_⟩
  · simpa [encodeStringSlice] using encodeFrom_ok xs h []
  · simpa [decodeStringSlice] using decodeLoop_encoded xs h _ [] (Nat.le_refl _)

/-- **rejection over the limit**: one element longer than 4096 bytes and the list is refused. -/
theorem compound_rejects (xs : List Bytes) (h : ∃ x ∈ xs, x.length > maxLinkedSetKeySize) :
    encodeStringSlice xs = .error .encodeTooLong :=
  encodeFrom_err xs h []

/-- **injectivity**: distinct lists never share an encoding. -/
theorem compound_injective (xs ys : List Bytes) (e : Bytes)
    (hx : encodeStringSlice xs = .ok e) (hy : encodeStringSlice ys = .ok e) : xs = ys := by
  have within : ∀ zs : List Bytes, encodeStringSlice zs = .ok e → AllWithin zs := by
    intro zs hz x hxm
    apply Classical.byContradiction
    intro hgt
    have := compound_rejects zs ⟨x, hxm, by omega⟩
    rw [this] at hz; cases hz
  obtain ⟨e1, h1, d1⟩ := compound_roundtrip xs (within xs hx)
  obtain ⟨e2, h2, d2⟩ := compound_roundtrip ys (within ys hy)
  rw [hx] at h1; rw [hy] at h2
  injection h1 with h1; injection h2 with h2
  subst h1; subst h2
  rw [d1] at d2
  injection d2

/-- the decoder refuses a component that claims more than the limit … -/
theorem decodeNext_rejects_over_limit (v rest : Bytes) (hv : v.length > maxLinkedSetKeySize) (hl : v.length < 2 ^ 64) :
    decodeNext (putUvarint v.length ++ v ++ rest) = .error .decodeTooLong := by
  have hu := uvarint_put v.length (v ++ rest) hl
  have hpos := putUvarint_length_pos v.length
  simp only [decodeNext, List.append_assoc, hu]
  have h1 : ¬ (((putUvarint v.length).length : Int) < 1) := by omega
  simp [h1, hv]

/-- … and accepts one of exactly the limit (the comparison is `>`, not `>=`). -/
theorem decodeNext_accepts_limit (v rest : Bytes) (hv : v.length = maxLinkedSetKeySize) :
    decodeNext (putUvarint v.length ++ v ++ rest) = .ok (v, rest) :=
  decodeNext_encoded v rest (by omega)

example : AllWithin [[], [1, 2], List.replicate 4096 7] := by
  intro x hx
  simp only [List.mem_cons, List.mem_nil_iff, or_false] at hx
  rcases hx with rfl | rfl | rfl
  · decide
  · decide
  · rw [List.length_replicate]; decide

/-! ## scalar values (boltz/typed_bucket.go Set*/Get*) -/

/-- a string — the empty one included — is read back as itself, never as null. -/
theorem string_roundtrip (tb : TB) (name s : Bytes) (chk : Checker)
    (hp : proceedWithSet tb name chk = true) (hok : (setString tb name s chk).err = none) :
    getString (setString tb name s chk).es name = .str s := by
  simp only [setString, hp, if_true, setTyped_some typeString_ne_nil] at hok ⊢
  rw [put_es hok]
  simp only [getString, getTyped_ins_self, fieldToString, if_true]
  cases s <;> simp [bytesToString, obytes]

theorem stringP_roundtrip (tb : TB) (name : Bytes) (s : Option Bytes) (chk : Checker)
    (hp : proceedWithSet tb name chk = true) (hok : (setStringP tb name s chk).err = none) :
    getString (setStringP tb name s chk).es name = (match s with | none => .nil | some v => .str v) := by
  cases s with
  | none =>
    simp only [setStringP, hp, if_true, setNil_eq (proceed_err hp)] at hok ⊢
    rw [put_es hok]
    have : getTyped (ins tb.es name (.val [typeNil])) name = (typeNil, none) := by
      simp [getTyped, bget_ins_self, getTypeAndValue]
    simp only [getString, this]
    rfl
  | some v =>
    simp only [setStringP, hp, if_true, setTyped_some typeString_ne_nil] at hok ⊢
    rw [put_es hok]
    simp only [getString, getTyped_ins_self, fieldToString, if_true]
    cases v <;> simp [bytesToString, obytes]

/-- **null stays distinguishable from the empty string**: after writing null every getter answers
    nil, after writing "" `GetString` answers the (non-nil) empty string. -/
theorem nil_distinct (tb : TB) (name : Bytes) (chk : Checker) (hp : proceedWithSet tb name chk = true)
    (hok1 : (setStringP tb name none chk).err = none) (hok2 : (setString tb name [] chk).err = none) :
    getString (setStringP tb name none chk).es name = .nil ∧
    getString (setString tb name [] chk).es name = .str [] ∧
    StrRead.nil ≠ StrRead.str [] :=
  ⟨stringP_roundtrip tb name none chk hp hok1, string_roundtrip tb name [] chk hp hok2, by simp⟩

theorem int32_roundtrip (tb : TB) (name : Bytes) (i : Int) (chk : Checker) (hi : InInt32 i)
    (hp : proceedWithSet tb name chk = true) (hok : (setInt32 tb name i chk).err = none) :
    getInt32 (setInt32 tb name i chk).es name = some i := by
  simp only [setInt32, hp, if_true] at hok ⊢
  rw [put_es hok]
  exact getInt32_stored tb.es name i hi

/-- an int32 read through the int64 getter widens to the same number. -/
theorem int32_widens (tb : TB) (name : Bytes) (i : Int) (chk : Checker) (hi : InInt32 i)
    (hp : proceedWithSet tb name chk = true) (hok : (setInt32 tb name i chk).err = none) :
    getInt64 (setInt32 tb name i chk).es name = some i := by
  simp only [setInt32, hp, if_true] at hok ⊢
  rw [put_es hok]
  unfold getInt64
  rw [show int32ToBytes i = typeInt32 :: encInt32 i from rfl, getTyped_ins_self]
  simp [fieldToInt64, encInt32_ne_nil, bytesToInt32_enc i hi]

theorem int64_roundtrip (tb : TB) (name : Bytes) (i : Int) (chk : Checker) (hi : InInt64 i)
    (hp : proceedWithSet tb name chk = true) (hok : (setInt64 tb name i chk).err = none) :
    getInt64 (setInt64 tb name i chk).es name = some i := by
  simp only [setInt64, hp, if_true] at hok ⊢
  rw [put_es hok]
  unfold getInt64
  rw [getTyped_ins_self]
  have e : typeInt64 ≠ typeInt32 := by decide
  simp [fieldToInt64, e, encInt64_ne_nil, bytesToInt64_enc i hi]

/-- the 64 bits of a float (±0, ±Inf, NaN payloads, denormals alike) come back unchanged. -/
theorem float64_roundtrip (tb : TB) (name : Bytes) (bits : Nat) (chk : Checker) (hb : bits < 2 ^ 64)
    (hp : proceedWithSet tb name chk = true) (hok : (setFloat64 tb name bits chk).err = none) :
    getFloat64 (setFloat64 tb name bits chk).es name = some (.bits bits) := by
  simp only [setFloat64, hp, if_true] at hok ⊢
  rw [put_es hok]
  unfold getFloat64
  rw [getTyped_ins_self]
  have e1 : ¬ (typeFloat64 = typeInt32 ∨ typeFloat64 = typeInt64) := by decide
  simp [fieldToFloat64, e1, le8_ne_nil, bytesToFloat64_le bits hb]

theorem bool_roundtrip (tb : TB) (name : Bytes) (b : Bool) (chk : Checker)
    (hp : proceedWithSet tb name chk = true) (hok : (setBool tb name b chk).err = none) :
    getBool (setBool tb name b chk).es name = some b := by
  simp only [setBool, hp, if_true] at hok ⊢
  rw [put_es hok]
  unfold getBool
  rw [getTyped_ins_self]
  cases b <;> simp [fieldToBool, bytesToBool]

/-! ### times

A `time.Time` is modelled with its representation (`GoTime`: `sec()`, `nsec()`, the location as "UTC
or a zone with this offset", a monotonic reading or not); `MarshalBinary` / `UnmarshalBinary` follow
Go 1.23 (`Codec/TypedValue.lean`), `SetTime` / `SetTimeP` normalise with `UTC()` first. -/

theorem setTime_eq (tb : TB) (name : Bytes) (t : GoTime) (chk : Checker) (hp : proceedWithSet tb name chk = true) :
    setTime tb name t chk = tb.apply (bput tb.es name (typeTime :: timeFields 1 t (-1))) := by
  simp only [setTime, hp, if_true, timePayload_eq, setTyped_some typeTime_ne_nil]

/-- **a time is read back as the instant that was written**: whatever the representation handed to
    `SetTime` (any zone offset - not a whole number of minutes, one minute west of UTC, beyond
    ±18 h -, `Local`, a monotonic reading, the zero `Time`, any year), `GetTime` returns the same
    `sec()` / `nsec()` in UTC. -/
theorem time_roundtrip (tb : TB) (name : Bytes) (t : GoTime) (chk : Checker) (ht : t.valid)
    (hp : proceedWithSet tb name chk = true) (hok : (setTime tb name t chk).err = none) :
    getTime (setTime tb name t chk).es name = some t.utc := by
  rw [setTime_eq tb name t chk hp] at hok ⊢
  rw [put_es hok]
  unfold getTime
  rw [getTyped_ins_self]
  simp [fieldToDatetime, bytesToDatetime, timeFields_ne_nil, unmarshal_utc_bytes t ht]

/-- the same through `SetTimeP`; a nil pointer is read back as nil. -/
theorem timeP_roundtrip (tb : TB) (name : Bytes) (t : Option GoTime) (chk : Checker) (ht : ∀ v, t = some v → v.valid)
    (hp : proceedWithSet tb name chk = true) (hok : (setTimeP tb name t chk).err = none) :
    getTime (setTimeP tb name t chk).es name = t.map GoTime.utc := by
  cases t with
  | some v =>
    have e : setTimeP tb name (some v) chk = setTime tb name v chk := by
      simp only [setTimeP, setTime]
    rw [e] at hok ⊢
    exact time_roundtrip tb name v chk (ht v rfl) hp hok
  | none =>
    have he : tb.err = none := by
      have := hp
      simp only [proceedWithSet, Bool.and_eq_true, Option.isNone_iff_eq_none] at this
      exact this.1
    simp only [setTimeP, hp, if_true, setNil_eq he] at hok ⊢
    rw [put_es hok]
    unfold getTime
    rw [getTyped_ins_self]
    simp [fieldToDatetime, bytesToDatetime]

/-- **the representation is irrelevant**: two `time.Time` values that are the same instant - in
    whatever zones, with or without monotonic reading - leave exactly the same bucket (same stored
    bytes) and the same error holder behind, through `SetTime` and through `SetTimeP`; and when the
    write is accepted both are read back as that instant. -/
theorem time_roundtrip_representation_irrelevant (tb : TB) (name : Bytes) (t u : GoTime) (chk : Checker)
    (h : t.sameInstant u) :
    setTime tb name t chk = setTime tb name u chk ∧
    setTimeP tb name (some t) chk = setTimeP tb name (some u) chk ∧
    (t.valid → proceedWithSet tb name chk = true → (setTime tb name t chk).err = none →
      ∃ r, getTime (setTime tb name u chk).es name = some r ∧ r.sameInstant t ∧ r.sameInstant u ∧
        r.loc = .utc ∧ r.mono = false) := by
  have hpay := timePayload_instant t u h
  refine ⟨by simp only [setTime, hpay], by simp only [setTimeP, hpay], ?_⟩
  intro ht hp hok
  have e : setTime tb name u chk = setTime tb name t chk := by simp only [setTime, hpay]
  rw [e, time_roundtrip tb name t chk ht hp hok]
  exact ⟨t.utc, rfl, ⟨rfl, rfl⟩, ⟨h.1, h.2⟩, rfl, rfl⟩

/-- **the write never fails on the zone**: because of the `UTC()` normalisation `SetTime` /
    `SetTimeP` never put `MarshalBinary`'s error into the holder, and on a writable key of a bucket
    without error the write is accepted - for EVERY time, although `MarshalBinary` itself refuses
    the zones of `marshal_refuses_iff` (see `marshal_refuses_minute_west`). -/
theorem time_write_never_fails_on_zone (tb : TB) (name : Bytes) (t : GoTime) (chk : Checker) :
    ((setTime tb name t chk).err = some .timeMarshal → tb.err = some .timeMarshal) ∧
    ((setTimeP tb name (some t) chk).err = some .timeMarshal → tb.err = some .timeMarshal) ∧
    (Writable tb.es name → tb.err = none →
      (setTime tb name t chk).err = none ∧ (setTimeP tb name (some t) chk).err = none) := by
  have e : setTimeP tb name (some t) chk = setTime tb name t chk := by simp only [setTimeP, setTime]
  have key : (setTime tb name t chk).err = some .timeMarshal → tb.err = some .timeMarshal := by
    intro h
    by_cases hp : proceedWithSet tb name chk = true
    · rw [setTime_eq tb name t chk hp] at h
      cases hb : bput tb.es name (typeTime :: timeFields 1 t (-1)) with
      | ok es' => rw [hb] at h; simpa [TB.apply] using h
      | error er =>
        rw [hb] at h
        have : er = .timeMarshal := by simpa [TB.apply] using h
        subst this
        unfold bput at hb
        split at hb
        · cases hb
        · split at hb
          · cases hb
          · split at hb <;> cases hb
    · simpa [setTime, hp] using h
  refine ⟨key, by rw [e]; exact key, ?_⟩
  intro hw he
  rw [e]
  have : (setTime tb name t chk).err = none := by
    by_cases hp : proceedWithSet tb name chk = true
    · rw [setTime_eq tb name t chk hp, bput_of_writable _ hw]; exact he
    · simpa [setTime, hp] using he
  exact ⟨this, this⟩

/-- non-vacuity, and the situation of a write that skips the normalisation: 2021-03-04 05:06:07.000891011
    in a zone 90 s west of UTC, with a monotonic reading - `MarshalBinary` on the value as given refuses
    it; `SetTime` stores it, `GetTime` returns the instant in UTC; the same instant given in UTC leaves
    the same bucket. -/
example : marshalBinary { sec := 63750431167, nsec := 891011, loc := .zone (-90), mono := true } = .error .zoneOffset := by
  rfl
example :
    let t : GoTime := { sec := 63750431167, nsec := 891011, loc := .zone (-90), mono := true }
    t.valid ∧ (setTime { es := [] } [116] t none).err = none ∧
      getTime (setTime { es := [] } [116] t none).es [116] = some { sec := 63750431167, nsec := 891011 } ∧
      (setTime { es := [] } [116] t none).es = (setTime { es := [] } [116] { sec := 63750431167, nsec := 891011 } none).es := by
  refine ⟨by decide, rfl, ?_, rfl⟩
  rfl

/-- what the normalisation protects from: `MarshalBinary` on the time as given refuses every zone
    one minute west of UTC (-119 s … -60 s), at every instant. -/
theorem marshal_refuses_minute_west (t : GoTime) (off : Int) (hl : t.loc = .zone off)
    (h1 : -119 ≤ off) (h2 : off ≤ -60) : marshalBinary t = .error .zoneOffset :=
  (marshal_refuses_iff t).mpr ⟨off, hl, Or.inl ⟨h1, h2⟩⟩

/-- … and exactly which representations it refuses: a non-UTC location whose offset is -119 s … -60 s
    or does not fit an int16 of minutes; never a UTC value. -/
theorem marshal_refuses_exactly (t : GoTime) :
    marshalBinary t = .error .zoneOffset ↔
      ∃ off, t.loc = .zone off ∧ ((-119 ≤ off ∧ off ≤ -60) ∨ off ≤ -1966140 ∨ 1966080 ≤ off) :=
  marshal_refuses_iff t

/-- Go's own round trip, for every representation `MarshalBinary` accepts: the bytes are read back
    as the same instant (so storing the time as given would preserve instants wherever it does
    not refuse). -/
theorem marshal_unmarshal_same_instant (t : GoTime) (p : Bytes) (ht : t.valid) (h : marshalBinary t = .ok p) :
    ∃ u, unmarshalBinary p = .ok u ∧ u.sameInstant t :=
  unmarshal_marshal_instant t p ht h

/-- **inside maps and lists, at any depth**: `setMarshaled` / `PutMap` / `PutList` leave the same
    tree or the same refusal for two values that differ only in how their times are represented,
    and what is expected back is the same. -/
theorem value_time_representation_irrelevant (v w : Value) (h : utcRep v = utcRep w) (es : Bkt) (name : Bytes) (a : Bool) :
    setMarshaled es name v a = setMarshaled es name w a ∧ normalize v = normalize w := by
  constructor
  · rw [← setMarshaled_utcRep v, ← setMarshaled_utcRep w, h]
  · rw [← normalize_utcRep v, ← normalize_utcRep w, h]

theorem container_time_representation_irrelevant (tb : TB) (name : Bytes) (chk : Checker) (a : Bool)
    (kvs kws : List (Bytes × Value)) (xs ys : List Value)
    (hm : utcKvs kvs = utcKvs kws) (hl : utcXs xs = utcXs ys) :
    putMap tb name kvs chk a = putMap tb name kws chk a ∧ putList tb name xs chk = putList tb name ys chk := by
  constructor
  · simp only [putMap, putMapRaw]
    rw [← putEntries_utcRep kvs, ← putEntries_utcRep kws, hm]
  · have h1 : xs.length = ys.length := by rw [← utcXs_length xs, ← utcXs_length ys, hl]
    simp only [putList, putListRaw]
    rw [← putElems_utcRep xs, ← putElems_utcRep ys, hl, h1]

/-- a time inside a list inside a map, in any zone, is accepted on a fresh key and read back as its
    instant in UTC (instance of `put_succeeds` / `value_roundtrip` below, stated here for times). -/
theorem time_in_containers_roundtrip (t : GoTime) (ht : t.valid) (es : Bkt) (name k : Bytes)
    (h1 : name ≠ []) (h2 : name.length ≤ maxKeySize) (h3 : look es name = none)
    (hk1 : k ≠ []) (hk2 : k.length ≤ maxKeySize) (hk3 : k ≠ listSizeKey) :
    ∃ es', setMarshaled es name (.map [(k, .list [.time t])]) true = .ok es' ∧
      getMarshaled es' name = .ok (.map [(k, .list [.time t.utc])]) := by
  have hw : wellKeyed (.map [(k, .list [.time t])]) = true := by
    simp [wellKeyed, wellKeyedKvs, wellKeyedXs, hk1, hk2]
  obtain ⟨es', he⟩ := setMarshaled_ok _ es name hw h1 h2 h3
  have hs : supported (.map [(k, .list [.time t])]) = true := by
    simp [supported, supportedKvs, supportedXs, hk3, ht]
  obtain ⟨n, hn, hr⟩ := setMarshaled_spec _ es name true es' he hs
  refine ⟨es', he, ?_⟩
  simp [getMarshaled, hn, look_ins_self, hr, normalize, normKvs, normXs, ins]

/-- the success hypotheses above are satisfiable on every bucket: a plain value is accepted under
    any non-empty key of at most `MaxKeySize` bytes that does not name a child bucket. -/
theorem scalar_write_succeeds (tb : TB) (name v : Bytes) (hw : Writable tb.es name) (he : tb.err = none) :
    (tb.apply (bput tb.es name v)).err = none := by
  rw [bput_of_writable v hw]; exact he

/-! ## string lists -/

/-- `sortDedup xs` is *the* sorted duplicate-free list of the members of `xs`. -/
theorem strlist_sorted_dupfree (xs : List Bytes) :
    (sortDedup xs).Pairwise (· < ·) ∧ (sortDedup xs).Nodup ∧ ∀ y, y ∈ sortDedup xs ↔ y ∈ xs := by
  refine ⟨sortDedup_sorted xs, ?_, mem_sortDedup xs⟩
  exact (sortDedup_sorted xs).imp (fun h e => by subst e; exact List.lt_irrefl _ h)

/-- a string list comes back as the sorted duplicate-free set of its members. -/
theorem strlist_roundtrip (tb : TB) (name : Bytes) (xs : List Bytes) (chk : Checker)
    (hp : proceedWithSet tb name chk = true) (hok : (setStringList tb name xs chk).err = none) :
    getStringList (setStringList tb name xs chk).es name = some (sortDedup xs) := by
  simp only [setStringList, hp, if_true] at hok ⊢
  obtain ⟨es', h1, h2, _⟩ := apply_err_none hok
  obtain ⟨child, hc, hes⟩ := setStringListRaw_shape h1
  rw [h2, hes]
  simp only [getStringList, bbucket_ins_self, Option.map_some]
  obtain ⟨hs, ht, hm⟩ := setListEntries_spec xs [] child hc sorted_nil (fun k hk => by simp [keys] at hk)
  congr 1
  rw [readStringList_eq]
  apply sorted_ext _ _ (pairwise_untag _ hs ht) (sortDedup_sorted xs)
  intro y
  rw [mem_untag _ ht, hm y, mem_sortDedup]
  simp [keys]

/-- a string list whose elements (with their type byte) fit a bbolt key is accepted under any
    non-empty name that does not hold a plain value. -/
theorem strlist_write_succeeds (tb : TB) (name : Bytes) (xs : List Bytes) (chk : Checker)
    (hlen : ∀ x ∈ xs, x.length < maxKeySize) (hw : BucketWritable tb.es name) (he : tb.err = none) :
    (setStringList tb name xs chk).err = none := by
  unfold setStringList
  split
  · obtain ⟨child, hc⟩ := setListEntries_ok xs [] hlen (fun k c => by simp)
    simp [setStringListRaw, emptyBucket_of_writable hw, hc, TB.apply, he]
  · exact he

/-! ## nested maps and lists -/

/-- **nested round trip**: whatever supported value — scalars, maps and lists nested to any depth,
    nulls and empty containers inside — `setMarshaled` accepts under a key, `getMarshaled` reads
    back as `normalize v` (Go `int` widened to int64, map entries in key order). -/
theorem value_roundtrip (v : Value) (es es' : Bkt) (name : Bytes) (a : Bool)
    (h : setMarshaled es name v a = .ok es') (hs : supported v = true) :
    getMarshaled es' name = .ok (normalize v) := by
  obtain ⟨n, hn, hr⟩ := setMarshaled_spec v es name a es' h hs
  simp [getMarshaled, hn, look_ins_self, hr]

/-- `PutMap` then `GetMap`, under any checker that selects the field, nested or flat. -/
theorem map_roundtrip (tb : TB) (name : Bytes) (kvs : List (Bytes × Value)) (chk : Checker) (a : Bool)
    (hs : supportedKvs kvs = true)
    (hp : proceedWithSet tb name chk = true) (hok : (putMap tb name kvs chk a).err = none) :
    getMap (putMap tb name kvs chk a).es name = .ok (normalize (.map kvs)) := by
  simp only [putMap, hp, if_true] at hok ⊢
  obtain ⟨es', h1, h2, _⟩ := apply_err_none hok
  obtain ⟨child, hc, hes⟩ := putMapRaw_shape h1
  rw [h2, hes]
  have hspec := putEntries_spec kvs [] [] a child hc hs rfl rfl
  simp [getMap, bbucket_ins_self, hspec.1, mapFrom, seqKvs_okify, Res.map, normalize]

/-- `PutList` then `GetList`. -/
theorem list_roundtrip (tb : TB) (name : Bytes) (xs : List Value) (chk : Checker)
    (hs : supported (.list xs) = true)
    (hp : proceedWithSet tb name chk = true) (hok : (putList tb name xs chk).err = none) :
    getList (putList tb name xs chk).es name = .ok (some (normalize (.list xs))) := by
  simp only [putList, hp, if_true] at hok ⊢
  obtain ⟨es', h1, h2, _⟩ := apply_err_none hok
  rw [h2]
  rw [← setMarshaled_list] at h1
  obtain ⟨n, hn, hr⟩ := setMarshaled_spec (.list xs) tb.es name true es' h1 hs
  obtain ⟨child, child', _, _, hes⟩ := putListRaw_shape (by rw [← setMarshaled_list]; exact h1)
  have hnode : n = .sub child' := by
    have := congrArg (fun l => look l name) (hn.symm.trans hes)
    simpa [look_ins_self] using this
  subst hnode
  rw [hn]
  simp only [getList, bbucket_ins_self]
  simp only [readNode] at hr
  cases hl : listSize child' with
  | none =>
    rw [hl] at hr
    simp [mapFrom, normalize] at hr
    cases hq : seqKvs (readEs child') <;> simp [hq, Res.map] at hr
  | some sz =>
    rw [hl] at hr
    simp [hr, Res.map]


/-! ### the list keys: little-endian indexes in a byte-ordered bucket

`list_roundtrip` holds for every length because `GetList` looks every index up.  The keys are
`Int32ToBytes(idx)` = tag 02 + the little-endian index, so a cursor walk of the list bucket
delivers the elements in index order only up to 255. -/

/-- below 256 the byte order of the element keys is the index order … -/
theorem list_key_order_below_256 (i j : Nat) (hij : i < j) (hj : j < 256) : idxKey i < idxKey j :=
  idxKey_lt_of_lt_256 i j hij hj

/-- … and not beyond: the key of element 256 sorts before the key of every other element except
    element 0 (in particular before element 1). -/
theorem list_key_order_breaks_at_256 (i : Nat) (h0 : i ≠ 0) (h256 : i ≠ 256) (hi : i < 65536) :
    idxKey 256 < idxKey i :=
  idxKey_256_lt i h0 h256 hi

/-- Reading a list by ONE CURSOR PASS in key order (instead of one lookup per index) does not round
    trip: for every supported list of 257 … 65536 elements that `PutList` accepts, the cursor
    reading is the list only if elements 1 and 256 coincide — the second entry of the bucket is
    element 256. -/
theorem cursor_walk_breaks_roundtrip (es es' : Bkt) (name : Bytes) (xs : List Value)
    (h256 : 256 < xs.length) (hle : xs.length ≤ 65536) (hs : supported (.list xs) = true)
    (h : putListRaw es name xs = .ok es') :
    ∃ child, bbucket es' name = some child ∧
      (getListByCursor child = .ok (normalize (.list xs)) →
        (normXs xs).getD 1 .nil = (normXs xs).getD 256 .nil) := by
  obtain ⟨child, child', hc, hb, hes⟩ := putListRaw_shape h
  have hk : supportedXs xs = true := by
    have : decide (xs.length < 2 ^ 31) = true ∧ supportedXs xs = true := by simpa [supported] using hs
    exact this.2
  obtain ⟨n0, n256, rest, hshape, hr⟩ := list_bucket_head xs child child' h256 hle hk hc hb
  refine ⟨child', by rw [hes, bbucket_ins_self], ?_⟩
  intro hcur
  have hw : cursorWalk child' = readNode n0 :: .ok ((normXs xs).getD 256 .nil) ::
      ((readEs rest).filter fun e => e.1 ≠ listSizeKey).map (·.2) := by
    have h0 : idxKey 0 ≠ listSizeKey := idxKey_ne_listSizeKey 0
    have h1 : idxKey 256 ≠ listSizeKey := idxKey_ne_listSizeKey 256
    simp [cursorWalk, hshape, readEs, h0, h1, hr]
  unfold getListByCursor at hcur
  rw [hw] at hcur
  cases hq : seqAll (readNode n0 :: .ok ((normXs xs).getD 256 .nil) ::
      ((readEs rest).filter fun e => e.1 ≠ listSizeKey).map (·.2)) with
  | panic => rw [hq] at hcur; simp [Res.map] at hcur
  | ok l =>
    rw [hq] at hcur
    have hl : l = normXs xs := by simpa [Res.map, normalize] using hcur
    have := seqAll_second hq
    rw [hl] at this
    exact this

/-- non-vacuity: the list 0, 1, …, 256 is supported and its elements 1 and 256 differ, so the
    cursor reading of the bucket `PutList` leaves for it is not the list. -/
example : ∃ xs : List Value, 256 < xs.length ∧ xs.length ≤ 65536 ∧ supported (.list xs) = true ∧
    (normXs xs).getD 1 .nil ≠ (normXs xs).getD 256 .nil := by
  refine ⟨(List.range 257).map fun i : Nat => Value.i64 (i : Int), by simp, by simp, by set_option maxRecDepth 20000 in decide, ?_⟩
  have h1 : (normXs ((List.range 257).map fun i : Nat => Value.i64 (i : Int))).getD 1 .nil = .i64 1 := by rfl
  have h2 : (normXs ((List.range 257).map fun i : Nat => Value.i64 (i : Int))).getD 256 .nil = .i64 256 := by rfl
  rw [h1, h2]
  intro h
  injection h with h
  exact absurd h (by decide)

/-- every well-keyed value is accepted under a fresh key of valid size: the success hypotheses of
    the theorems above are satisfiable for all of them. -/
theorem put_succeeds (v : Value) (es : Bkt) (name : Bytes) (hw : wellKeyed v = true)
    (h1 : name ≠ []) (h2 : name.length ≤ maxKeySize) (h3 : look es name = none) :
    ∃ es', setMarshaled es name v true = .ok es' :=
  setMarshaled_ok v es name hw h1 h2 h3

/-- `normalize` changes nothing a Go map can observe: with distinct keys every key still maps to
    (the normalisation of) its value … -/
theorem normalize_lookup (kvs : List (Bytes × Value)) (hn : (kvs.map Prod.fst).Nodup) (k : Bytes) :
    look (normKvs kvs []) k = (look kvs k).map normalize := by
  rw [normKvs_look kvs [] hn k]
  cases look kvs k <;> rfl

/-- … and the entries are in strictly increasing key order. -/
theorem normalize_sorted (kvs : List (Bytes × Value)) : Sorted (normKvs kvs []) :=
  normKvs_sorted kvs [] sorted_nil

/-- The hypothesis `supported` is needed: a nested map that uses the reserved list-size key with an
    int32 value is accepted and read back as a list. -/
theorem reserved_key_breaks_roundtrip :
    ∃ es', setMarshaled [] [109] (.map [([105], .map [(listSizeKey, .i32 1)])]) true = .ok es' ∧
      getMarshaled es' [109] = .ok (.map [([105], .list [.nil])]) := by
  refine ⟨_, rfl, ?_⟩
  rfl

/-! ## field checkers (ProceedWithSet, PersistContext setters) -/

/-- a write whose field the checker does not select changes nothing at all. -/
theorem checker_unselected_noop (tb : TB) (name : Bytes) (op : FieldOp) (f : Bytes → Bool)
    (hf : f name = false) (hc : op.checked = true) : applyOp tb name op (some f) = tb :=
  applyOp_unselected tb name op f hf hc

/-- any field operation leaves every other key of the bucket (value or whole sub-tree) as it was. -/
theorem write_touches_only_its_key (tb : TB) (name : Bytes) (op : FieldOp) (chk : Checker) (j : Bytes)
    (hj : j ≠ name) : look (applyOp tb name op chk).es j = look tb.es j :=
  applyOp_frame tb name op chk j hj

/-- **an entity write restricted by a field checker touches only the fields the checker
    selects**: whatever the sequence of field operations, a key the checker does not select holds
    after the write exactly what it held before (absent stays absent). -/
theorem persist_touches_only_selected (ops : List (Bytes × FieldOp)) (tb : TB) (f : Bytes → Bool) (j : Bytes)
    (hf : f j = false) (hc : ∀ p ∈ ops, p.1 = j → p.2.checked = true) :
    look (persist tb ops (some f)).es j = look tb.es j :=
  persist_unselected ops tb f j hf hc

/-- what a field holds after an entity write is what its last operation left (so the per-type
    round trips above apply to it). -/
theorem persist_selected_reads_back (pre post : List (Bytes × FieldOp)) (name : Bytes) (op : FieldOp)
    (tb : TB) (chk : Checker) (hpost : ∀ p ∈ post, p.1 ≠ name) :
    look (persist tb (pre ++ (name, op) :: post) chk).es name =
      look (applyOp (persist tb pre chk) name op chk).es name := by
  rw [persist_append]
  simp only [persist]
  exact persist_frame post _ chk name hpost

/-- `MappedFieldChecker` (PersistContext.WithFieldOverrides): a field is selected iff the checker
    selects the name it is mapped to (itself when unmapped). -/
theorem mapped_checker_selects (f : Bytes → Bool) (m : List (Bytes × Bytes)) (field : Bytes) :
    mappedChecker f m field = f ((look m field).getD field) := by
  unfold mappedChecker
  cases look m field <;> rfl


/-! ## overwrites: the round trips do not depend on what the field held

Every round-trip theorem above is stated for an ARBITRARY bucket state `tb` / `es`; instantiated at
the state any history of earlier field operations leaves (`persist tb ops c`, in particular an earlier
write of a related value to the very same field), they say that the LAST accepted write alone
decides what is read back: no stale member of an earlier string list, list or map survives, whatever
the relation between the old and the new value (same length, duplicates, permutation, subset, …). -/

theorem strlist_overwrite_roundtrip (tb : TB) (hist : List (Bytes × FieldOp)) (c1 c2 : Checker) (name : Bytes)
    (ys : List Bytes) (hp : proceedWithSet (persist tb hist c1) name c2 = true)
    (hok : (setStringList (persist tb hist c1) name ys c2).err = none) :
    getStringList (setStringList (persist tb hist c1) name ys c2).es name = some (sortDedup ys) :=
  strlist_roundtrip (persist tb hist c1) name ys c2 hp hok

/-- in particular for two `SetStringList` in a row on one field, e.g. `[a, b]` then `[a, a]`. -/
theorem strlist_twice (tb : TB) (c1 c2 : Checker) (name : Bytes) (xs ys : List Bytes)
    (hp : proceedWithSet (setStringList tb name xs c1) name c2 = true)
    (hok : (setStringList (setStringList tb name xs c1) name ys c2).err = none) :
    getStringList (setStringList (setStringList tb name xs c1) name ys c2).es name = some (sortDedup ys) :=
  strlist_roundtrip (setStringList tb name xs c1) name ys c2 hp hok

theorem list_overwrite_roundtrip (tb : TB) (hist : List (Bytes × FieldOp)) (c1 c2 : Checker) (name : Bytes)
    (ys : List Value) (hs : supported (.list ys) = true)
    (hp : proceedWithSet (persist tb hist c1) name c2 = true)
    (hok : (putList (persist tb hist c1) name ys c2).err = none) :
    getList (putList (persist tb hist c1) name ys c2).es name = .ok (some (normalize (.list ys))) :=
  list_roundtrip (persist tb hist c1) name ys c2 hs hp hok

theorem map_overwrite_roundtrip (tb : TB) (hist : List (Bytes × FieldOp)) (c1 c2 : Checker) (name : Bytes)
    (kvs : List (Bytes × Value)) (a : Bool) (hs : supportedKvs kvs = true)
    (hp : proceedWithSet (persist tb hist c1) name c2 = true)
    (hok : (putMap (persist tb hist c1) name kvs c2 a).err = none) :
    getMap (putMap (persist tb hist c1) name kvs c2 a).es name = .ok (normalize (.map kvs)) :=
  map_roundtrip (persist tb hist c1) name kvs c2 a hs hp hok

theorem string_overwrite_roundtrip (tb : TB) (hist : List (Bytes × FieldOp)) (c1 c2 : Checker) (name s : Bytes)
    (hp : proceedWithSet (persist tb hist c1) name c2 = true)
    (hok : (setString (persist tb hist c1) name s c2).err = none) :
    getString (setString (persist tb hist c1) name s c2).es name = .str s :=
  string_roundtrip (persist tb hist c1) name s c2 hp hok

/-- … and a second write the checker does not select leaves the field reading what the first
    write left. -/
theorem unselected_overwrite_keeps (tb : TB) (name : Bytes) (op1 op2 : FieldOp) (c1 : Checker) (f : Bytes → Bool)
    (hf : f name = false) (hc : op2.checked = true) :
    applyOp (applyOp tb name op1 c1) name op2 (some f) = applyOp tb name op1 c1 :=
  applyOp_unselected _ name op2 f hf hc

/-- non-vacuity of the success hypotheses: `[a, b]` then `[a, a]` on a fresh field reads `[a]`. -/
example :
    let tb : TB := { es := [] }
    (setStringList (setStringList tb [102] [[97], [98]] none) [102] [[97], [97]] none).err = none ∧
    getStringList (setStringList (setStringList tb [102] [[97], [98]] none) [102] [[97], [97]] none).es [102] = some [[97]] := by
  decide

/-! ## field checkers across context derivation (GetParentContext, WithFieldOverrides, GetOrCreatePath)

`ctxApply tb ctx name op` is one field operation through a context whose bucket lies at `ctx.path`
below the root store's entity bucket `tb.es`; `tb.err` is the error holder the family shares. -/

/-- `GetParentContext` hands the parent store's strategy the SAME checker (and `IsCreate`), on the
    parent store's entity bucket. -/
theorem parent_context_inherits (ctx q : PCtx) (root : Bkt) (h : ctx.getParentContext root = .ok q) :
    q.chk = ctx.chk ∧ q.isCreate = ctx.isCreate ∧ ctx.parentPath = some q.path := by
  unfold PCtx.getParentContext at h
  split at h
  · cases h
  · next pp hpp =>
    split at h
    · cases h
    · injection h with h
      subst h
      exact ⟨rfl, rfl, hpp⟩

/-- **checker_restricts, through the derived context**: a write of the parent part of an entity
    through `ctx.GetParentContext()` whose field the context's checker does not select changes
    nothing — neither the tree nor the error holder. -/
theorem checker_restricts_parent_context (tb : TB) (ctx q : PCtx) (name : Bytes) (op : FieldOp) (f : Bytes → Bool)
    (hq : ctx.getParentContext tb.es = .ok q) (hc : ctx.chk = some f) (hf : f name = false)
    (hck : op.checked = true) : ctxApply tb q name op = tb :=
  ctxApply_skips tb q name op ⟨f, by rw [(parent_context_inherits ctx q tb.es hq).1, hc], hf, hck⟩

/-- the same for ANY context of the family, whatever its checker is by then (inherited, or mapped by
    `WithFieldOverrides` on the context or on the one it was derived from): an operation the
    context's checker does not let through changes nothing. -/
theorem checker_restricts_any_context (tb : TB) (ctx : PCtx) (name : Bytes) (op : FieldOp)
    (h : Skips ctx.chk name op) : ctxApply tb ctx name op = tb :=
  ctxApply_skips tb ctx name op h

/-- a write through any context touches only its own entry: every node of the tree that is not
    the entry `ctx.path ++ [name]`, not one of the buckets that contain it, and not inside it,
    is left as it was. -/
theorem derived_write_touches_only_its_entry (tb : TB) (ctx : PCtx) (name : Bytes) (op : FieldOp) (t : List Bytes)
    (ha : Apart (ctx.path ++ [name]) t) : nodeAt (ctxApply tb ctx name op).es t = nodeAt tb.es t :=
  ctxApply_frame tb ctx name op t ha

/-- the error holder is shared by the family: after an error raised through any of its contexts,
    a write through any other one (the parent context after the child's, or the other way round)
    does nothing. -/
theorem shared_error_stops_family (tb : TB) (ctx : PCtx) (name : Bytes) (op : FieldOp) (e : BErr)
    (h : tb.err = some e) : ctxApply tb ctx name op = tb :=
  ctxApply_err tb ctx name op e h

/-- `WithFieldOverrides` on a context: the mapped checker, nothing for a nil checker. -/
theorem overrides_on_context (ctx : PCtx) (m : List (Bytes × Bytes)) :
    (ctx.withOverrides m).chk = (match ctx.chk with
      | none => none
      | some f => some (mappedChecker f m)) ∧ (ctx.withOverrides m).path = ctx.path := by
  cases h : ctx.chk <;> simp [PCtx.withOverrides, withFieldOverrides, h]

/-! ### composition of override tables

Every `WithFieldOverrides` call stacks another `MappedFieldChecker` on the checker of that moment,
so after the tables `m₁, m₂, …, mₖ` (in call order) a storage field is checked under the name
`m₁(m₂(… mₖ(field)))`: the LATEST table renames first.  (A child store maps its names, hands the
context on, the parent store maps its own: `[{a→b}, {c→a}]` checks `c` under `b`.) -/

/-- one table as a renaming: the override if there is one, else the name itself -/
def rename (m : List (Bytes × Bytes)) (x : Bytes) : Bytes := (look m x).getD x

/-- the name a storage field is checked under after the tables `ms` were applied in order -/
def effectiveName (ms : List (List (Bytes × Bytes))) (field : Bytes) : Bytes := ms.foldr rename field

/-- **overrides compose**: after any sequence of `WithFieldOverrides` calls the checker selects a
    field iff the original checker selects its effective name — the composition of the tables. -/
theorem overrides_compose (ms : List (List (Bytes × Bytes))) (f : Bytes → Bool) :
    ∃ g, ms.foldl withFieldOverrides (some f) = some g ∧ ∀ field, g field = f (effectiveName ms field) := by
  induction ms generalizing f with
  | nil => exact ⟨f, rfl, fun _ => rfl⟩
  | cons m r ih =>
    obtain ⟨g, hg, hsel⟩ := ih (mappedChecker f m)
    refine ⟨g, by simpa [List.foldl, withFieldOverrides] using hg, ?_⟩
    intro field
    rw [hsel field, mapped_checker_selects]
    rfl

/-- a nil checker stays nil whatever is applied ("write every field") -/
theorem overrides_keep_nil (ms : List (List (Bytes × Bytes))) : ms.foldl withFieldOverrides none = none := by
  induction ms with
  | nil => rfl
  | cons m r ih => simpa [List.foldl, withFieldOverrides] using ih

/-- the same on a context (a block's tables, `applyOvr`): bucket and parent untouched -/
theorem overrides_compose_on_context (ms : List (List (Bytes × Bytes))) (ctx : PCtx) :
    (applyOvr ctx ms).chk = ms.foldl withFieldOverrides ctx.chk ∧ (applyOvr ctx ms).path = ctx.path ∧
      (applyOvr ctx ms).parentPath = ctx.parentPath := by
  induction ms generalizing ctx with
  | nil => exact ⟨rfl, rfl, rfl⟩
  | cons m r ih =>
    obtain ⟨h1, h2, h3⟩ := ih (ctx.withOverrides m)
    exact ⟨by simpa [applyOvr, PCtx.withOverrides, List.foldl] using h1, by simpa [applyOvr, PCtx.withOverrides] using h2,
      by simpa [applyOvr, PCtx.withOverrides] using h3⟩

/-- … and a parent context derived afterwards inherits the composed checker. -/
theorem parent_inherits_composed (ms : List (List (Bytes × Bytes))) (ctx q : PCtx) (root : Bkt)
    (h : (applyOvr ctx ms).getParentContext root = .ok q) : q.chk = ms.foldl withFieldOverrides ctx.chk := by
  rw [(parent_context_inherits _ q root h).1, (overrides_compose_on_context ms ctx).1]

/-- composing is NOT merging the tables into one: with `{a→b}` then `{c→a}` and a checker that
    selects only `b`, field `c` is selected (`c→a→b`); one merged table `{a→b, c→a}` would check `c`
    under `a` and refuse it (and with a checker selecting only `a` it would wrongly let `c` through). -/
theorem overrides_merge_differs :
    let a : Bytes := [97]; let b : Bytes := [98]; let c : Bytes := [99]
    effectiveName [[(a, b)], [(c, a)]] c = b ∧ effectiveName [[(a, b), (c, a)]] c = a ∧
    (mappedChecker (mappedChecker (fun k => k == b) [(a, b)]) [(c, a)]) c = true ∧
    (mappedChecker (fun k => k == b) [(a, b), (c, a)]) c = false := by
  decide

/-- non-vacuity: identity and cyclic tables -/
example : effectiveName [[([97], [98]), ([98], [97])], [([97], [98]), ([98], [97])]] [97] = [97] ∧
    effectiveName [[([97], [97])], [([98], [97])]] [98] = [97] := by decide

/-- `GetOrCreatePath` touches only the buckets on the path. -/
theorem getOrCreatePath_touches_only_path (np : List Bytes) (es : Bkt) (t : List Bytes) (h : ¬ t <+: np) :
    nodeAt (getOrCreatePath es np).1 t = nodeAt es t :=
  getOrCreatePath_frame np es t h

/-- a nested bucket has its own error holder: what happens in it never reaches the family's. -/
theorem nested_bucket_own_holder (tb : TB) (ctx : PCtx) (np : List Bytes) (ops : List (Bytes × FieldOp)) :
    (nestedPersist tb ctx np ops).1.err = tb.err :=
  nestedPersist_err tb ctx np ops

/-- **an entity write through derived contexts touches only what the checker selects**: whatever
    the sequence of blocks — through the context itself, through `GetParentContext()`, into buckets
    obtained with `GetOrCreatePath` below either — a node `t` of the tree is left exactly as it was,
    provided every operation either is not let through by the checker or concerns an entry apart
    from `t`, and no nested bucket is created on (or above) `t`. -/
theorem derived_writes_touch_only_selected (gs : List Group) (st : RunState) (t : List Bytes)
    (hovr : ∀ g ∈ gs, g.ovr = [])
    (hcreate : ∀ g ∈ gs, g.np ≠ [] → ¬ t <+: g.bucket st.ctx.path st.ctx.parentPath)
    (h : ∀ g ∈ gs, ∀ p ∈ g.ops, Skips st.ctx.chk p.1 p.2 ∨ Apart (g.bucket st.ctx.path st.ctx.parentPath ++ [p.1]) t) :
    nodeAt (runGroups st gs).tb.es t = nodeAt st.tb.es t :=
  runGroups_frame gs st t hovr hcreate h

/-- the case of a child store whose strategy persists the embedded parent entity through
    `GetParentContext()` (parent part in the root bucket, child part in the child bucket `cp`):
    under the checker `f`, a PARENT field `j` that `f` does not select keeps its value (or stays
    absent), whatever the strategy writes through either context. -/
theorem child_store_write_keeps_unselected_parent_field (gs : List Group) (st : RunState) (f : Bytes → Bool)
    (cp : List Bytes) (c0 : Bytes) (cr : List Bytes) (j : Bytes)
    (hcp : st.ctx.path = cp) (hcp0 : cp = c0 :: cr) (hpp : st.ctx.parentPath = some []) (hchk : st.ctx.chk = some f)
    (hplain : ∀ g ∈ gs, g.ovr = [] ∧ g.np = [])
    (hf : f j = false) (hj : j ≠ c0)
    (hck : ∀ g ∈ gs, ∀ p ∈ g.ops, p.1 = j → p.2.checked = true) :
    look (runGroups st gs).tb.es j = look st.tb.es j := by
  have := derived_writes_touch_only_selected gs st [j] (fun g hg => (hplain g hg).1)
    (fun g hg hnp => absurd (hplain g hg).2 hnp) ?_
  · simpa [nodeAt_single] using this
  · intro g hg p hp
    by_cases hn : p.1 = j
    · exact Or.inl ⟨f, hchk, by rw [hn]; exact hf, hck g hg p hp hn⟩
    · refine Or.inr ?_
      have hnp := (hplain g hg).2
      cases hpar : g.parent with
      | true =>
        have hb : g.bucket st.ctx.path st.ctx.parentPath = [] := by simp [Group.bucket, hpar, hpp, hnp]
        rw [hb]
        constructor
        · intro hpre
          rw [List.nil_append, List.cons_prefix_cons] at hpre
          exact hn hpre.1.symm
        · intro hpre
          rw [List.nil_append, List.cons_prefix_cons] at hpre
          exact hn hpre.1
      | false =>
        have hb : g.bucket st.ctx.path st.ctx.parentPath = c0 :: cr := by simp [Group.bucket, hpar, hcp, hcp0, hnp]
        rw [hb]
        constructor
        · intro hpre
          rw [List.cons_append, List.cons_prefix_cons] at hpre
          exact hj hpre.1
        · intro hpre
          have := hpre.length_le
          simp at this

/-- … and a CHILD field `j` that `f` does not select keeps its value, provided the parent part has
    no field named like the child bucket. -/
theorem child_store_write_keeps_unselected_child_field (gs : List Group) (st : RunState) (f : Bytes → Bool)
    (c0 : Bytes) (cr : List Bytes) (j : Bytes)
    (hcp : st.ctx.path = c0 :: cr) (hpp : st.ctx.parentPath = some []) (hchk : st.ctx.chk = some f)
    (hplain : ∀ g ∈ gs, g.ovr = [] ∧ g.np = [])
    (hf : f j = false)
    (hname : ∀ g ∈ gs, g.parent = true → ∀ p ∈ g.ops, p.1 ≠ c0)
    (hck : ∀ g ∈ gs, ∀ p ∈ g.ops, p.1 = j → p.2.checked = true) :
    nodeAt (runGroups st gs).tb.es (c0 :: cr ++ [j]) = nodeAt st.tb.es (c0 :: cr ++ [j]) := by
  apply derived_writes_touch_only_selected gs st _ (fun g hg => (hplain g hg).1)
    (fun g hg hnp => absurd (hplain g hg).2 hnp)
  intro g hg p hp
  by_cases hn : p.1 = j
  · exact Or.inl ⟨f, hchk, by rw [hn]; exact hf, hck g hg p hp hn⟩
  · refine Or.inr ?_
    have hnp := (hplain g hg).2
    cases hpar : g.parent with
    | true =>
      have hb : g.bucket st.ctx.path st.ctx.parentPath = [] := by simp [Group.bucket, hpar, hpp, hnp]
      rw [hb]
      constructor
      · intro hpre
        have := hpre.length_le
        simp at this
      · intro hpre
        rw [List.nil_append, List.cons_append, List.cons_prefix_cons] at hpre
        exact hname g hg hpar p hp hpre.1
    | false =>
      have hb : g.bucket st.ctx.path st.ctx.parentPath = c0 :: cr := by simp [Group.bucket, hpar, hcp, hnp]
      rw [hb]
      constructor
      · intro hpre
        have h1 := (List.prefix_append_right_inj (c0 :: cr)).mp hpre
        rw [List.cons_prefix_cons] at h1
        exact hn h1.1.symm
      · intro hpre
        have h1 := (List.prefix_append_right_inj (c0 :: cr)).mp hpre
        rw [List.cons_prefix_cons] at h1
        exact hn h1.1

/-! non-vacuity: a child store at `ext`, the checker selects only the child field `t`; the parent
    part (`n` = "b") written through `GetParentContext()` is refused by the checker, the child field
    is written. -/
example :
    let root : Bkt := [([101], .sub [([116], .val [1, 0])]), ([110], .val [5, 97])]
    let st : RunState := { tb := { es := root }, ctx := { path := [[101]], parentPath := some [], chk := some (fun k => k == [116]) } }
    let gs : List Group := [{ parent := true, ovr := [], np := [], ops := [([110], .str [98])] },
                            { parent := false, ovr := [], np := [], ops := [([116], .bool true)] }]
    (runGroups st gs).tb.err = none ∧ bget (runGroups st gs).tb.es [110] = some [5, 97] ∧
      (subAt (runGroups st gs).tb.es [[101]]).map (fun b => bget b [116]) = some (some [1, 1]) := by
  decide

/-! non-vacuity: a concrete entity write under a checker that selects one of two fields -/
example :
    let tb : TB := { es := [([97], .val [5, 120]), ([98], .val [2, 1, 0, 0, 0])] }
    let chk : Checker := some (fun k => k == [98])
    let tb' := persist tb [([97], .str [121]), ([98], .i32 7)] chk
    tb'.err = none ∧ getString tb'.es [97] = .str [120] ∧ getInt64 tb'.es [98] = some 7 := by
  decide

example : wellKeyed (.map [([1], .list [.nil, .map []]), ([2], .str [])]) = true := by decide
example : supported (.map [([1], .list [.nil, .i32 (-2147483648), .f64 (2 ^ 64 - 1)]), ([2], .time { sec := 0, nsec := 0, loc := .zone (-90), mono := true })]) = true := by decide

end StorageModel.Properties.C13

#print axioms StorageModel.Properties.C13.compound_roundtrip
#print axioms StorageModel.Properties.C13.compound_injective
#print axioms StorageModel.Properties.C13.value_roundtrip
#print axioms StorageModel.Properties.C13.strlist_roundtrip
#print axioms StorageModel.Properties.C13.persist_touches_only_selected
#print axioms StorageModel.Properties.C13.cursor_walk_breaks_roundtrip
#print axioms StorageModel.Properties.C13.derived_writes_touch_only_selected
#print axioms StorageModel.Properties.C13.child_store_write_keeps_unselected_parent_field
