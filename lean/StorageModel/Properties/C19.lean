import StorageModel.Query.BoltProofs
import StorageModel.Generated.PagingFacts
/-
  C19 — In-memory object store answers queries like the bolt-backed store.

  "Querying an in-memory object store with a filter, sort, skip and limit returns exactly the
  objects, order and total count that the same query returns from a bolt-backed store holding the
  same field values - including null handling (`= null`, `!= null`), the default id ordering and
  every paging boundary (skip without limit, negative skip, limit none, limit 0, skip past the
  end)."

  Model: Query/Objectz.lean (ObjectCursor.Eval*/IsNil with typed nil pointers inside the interface,
  newRowComparator, memSortingScanner.Scan = the bounded-tree scheme of Query/Paging.lean run with
  objectz's own paging arithmetic `Generated.objectzPaging`).  Spec: `page` / `total` of the rows
  that satisfy the filter (Query/Spec.lean, Query/Filter.lean `sat`).  `objectz_eq_bolt` combines
  `objectz_exact` with C02's `query_ids_exact`-style lemmas for the bolt store.

  Filters: the fragment of Query/Filter.lean over non-set symbols (`FilterTyped`); the whole filter
  language is C01's subject.
-/
namespace StorageModel.Properties.C19
open StorageModel StorageModel.Query

/-- Obligation on regenerated data: objectz's `setPaging`, `maxResults` and eviction test have the
    expected shape (objectz/object_store.go). -/
theorem objectz_paging_facts_expected : Generated.objectzPaging = expectedPaging := by decide

theorem boltz_paging_facts_expected : Generated.boltzPaging = expectedPaging := by decide

/-- every object is well typed for the store's symbols (a symbol function of type T returns a *T) -/
def WellTypedObjs (st : ObjStore) (objs : List Row) : Prop :=
  ∀ r ∈ objs, ∀ n, (∃ t, st.symbols.lookup n = some t) → WellTypedAt st.symbols r n

theorem filterTyped_symbol {symbols : List (String × SymType)} {f : Filter} (h : FilterTyped symbols f) {n : String}
    (hn : f.symbol = some n) : ∃ t, symbols.lookup n = some t := by
  cases f with
  | tt => simp [Filter.symbol] at hn
  | cmpBool m _ _ | cmpInt m _ _ | cmpFloat m _ _ | cmpStr m _ _ | cmpTime m _ _ =>
    change some m = some n at hn; cases hn; exact ⟨_, h⟩
  | isNull m | notNull m =>
    change some m = some n at hn; cases hn
    obtain ⟨t, ht, _⟩ := h; exact ⟨t, ht⟩

/-- **null handling**: on well-typed objects the object cursor decides every filter of the fragment
    — `= null` and `!= null` included — exactly as the specification does. -/
theorem objectz_filter_exact (st : ObjStore) (objs : List Row) (f : Filter) (hf : FilterTyped st.symbols f)
    (hw : WellTypedObjs st objs) : ∀ r ∈ objs, evalFilter (objSymbols st r) f = sat r f := by
  intro r hr
  rw [obj_eval_eq_bolt st r f hf (fun n hn => hw r hr n (filterTyped_symbol hf hn)), bolt_eval_sat]

theorem objStore_hasId {st : ObjStore} (h : st.symbols.lookup "id" = some .string) : HasIdSymbol st.schema := by
  unfold HasIdSymbol ObjStore.schema
  generalize st.symbols = l at h
  induction l with
  | nil => simp at h
  | cons p l ih =>
    obtain ⟨n, t⟩ := p
    simp only [List.map_cons, List.lookup] at h ⊢
    by_cases hb : ("id" == n) = true
    · rw [hb] at h ⊢; cases h; rfl
    · have hb' : ("id" == n) = false := by simpa using hb
      rw [hb'] at h ⊢; exact ih h

/-- **objectz_exact.**  `QueryEntitiesC` returns the page of the objects that satisfy the filter,
    in the requested order (nulls first ascending, ties by id), and their total number — for every
    collection with distinct ids, in whatever order the iterator yields it, and every skip / limit. -/
theorem objectz_exact (st : ObjStore) (objs : List Row) (q : Query) (c : Cmp Row)
    (ho : st.objs = some objs) (hd : DistinctIds objs) (hid : st.symbols.lookup "id" = some .string)
    (hc : newRowComparator st.schema q.sort = .ok c) (hnan : ∀ r ∈ objs, NoNaNKeys q.sort r)
    (hf : FilterTyped st.symbols q.filter) (hw : WellTypedObjs st objs)
    (hq : q.paging.InRange) (hlen : (objs.length : Int) ≤ maxI64) :
    objQuery Generated.objectzPaging st q =
      .ok (page c q.paging.skip q.paging.limit (objs.filter fun r => sat r q.filter),
           total (objs.filter fun r => sat r q.filter)) := by
  rw [objectz_paging_facts_expected]
  have hstrict := newRowComparator_strict (objStore_hasId hid) hc hnan hd
  have hm : matching (st.env q.filter) objs = objs.filter fun r => sat r q.filter := by
    simp only [matching, ObjStore.env]
    apply List.filter_congr
    intro r hr
    simp only [ScanEnv.admits, Bool.not_false, Bool.true_and]
    exact objectz_filter_exact st objs q.filter hf hw r hr
  have hmlen : ((matching (st.env q.filter) objs).length : Int) ≤ maxI64 := by
    have : (matching (st.env q.filter) objs).length ≤ objs.length := List.length_filter_le ..
    omega
  simp only [objQuery, hc, ho]
  rw [sortScan_spec hstrict _ _ _ hq (fun a ha => ha) hd.nodup hmlen, hm]

/-- the comparator depends on the schema only through the sort symbols (and `id`) -/
theorem resolveSort_congr {s1 s2 : Schema} {fs : List SortField}
    (h : ∀ f ∈ fs, s1.lookup f.name = s2.lookup f.name) : resolveSort s1 fs = resolveSort s2 fs := by
  induction fs with
  | nil => rfl
  | cons f rest ih =>
    simp only [resolveSort, h f (List.mem_cons_self ..), ih fun g hg => h g (List.mem_cons_of_mem _ hg)]

/-- page and total of a collection do not depend on the order the collection is presented in -/
theorem page_perm {P : Row → Prop} {c : Cmp Row} (hc : StrictTotalOn P c) {xs ys : List Row} (h : xs.Perm ys)
    (hP : ∀ a ∈ ys, P a) (hnd : ys.Nodup) (skip limit : Option Int) :
    page c skip limit xs = page c skip limit ys ∧ total xs = total ys := by
  have hs : sort c xs = sort c ys := by
    refine sort_unique hc hP hnd ((sort_perm c xs).trans h) (sort_sorted hc (fun a ha => hP a (h.subset ha)) (h.symm.nodup hnd))
  simp only [page, hs, total, h.length_eq, and_self]

/-- **objectz_eq_bolt.**  An object store and a bolt store that hold the same rows (the object
    store in any iteration order) and declare the sort symbols alike answer every query of the
    fragment identically: same objects, same order, same count — whichever scanner the bolt store
    uses. -/
theorem objectz_eq_bolt (ost : ObjStore) (bst : BoltStore) (objs rows : List Row) (q : Query) (c : Cmp Row)
    (ho : ost.objs = some objs) (hb : bst.bucket = some rows) (hperm : objs.Perm rows)
    (hroot : ∀ r, bst.childSkip r = false)
    (hord : BucketOrdered rows) (hid : ost.symbols.lookup "id" = some .string)
    (hschema : ∀ f ∈ q.sort ++ [⟨"id", true⟩], bst.schema.lookup f.name = ost.schema.lookup f.name)
    (hc : newRowComparator ost.schema q.sort = .ok c) (hnan : ∀ r ∈ rows, NoNaNKeys q.sort r)
    (hf : FilterTyped ost.symbols q.filter) (hw : WellTypedObjs ost objs)
    (hq : q.paging.InRange) (hlen : (rows.length : Int) ≤ maxI64) :
    objQuery Generated.objectzPaging ost q =
      (match queryIdsC Generated.boltzPaging bst q with
       | .ok r => .ok r
       | .error e => .err e) := by
  have hd : DistinctIds objs := by
    have := hord.distinct
    unfold DistinctIds at *
    exact hperm.symm.pairwise this (fun h => Ne.symm h)
  have hcb : newRowComparator bst.schema q.sort = .ok c := by
    rw [← hc]; unfold newRowComparator; rw [resolveSort_congr hschema]
  have hidb : HasIdSymbol bst.schema := by
    have := objStore_hasId hid
    unfold HasIdSymbol at *
    rw [hschema ⟨"id", true⟩ (by simp)]; exact this
  rw [objectz_exact ost objs q c ho hd hid hc (fun r hr => hnan r (hperm.subset hr)) hf hw hq
    (by rw [hperm.length_eq]; exact hlen)]
  -- the bolt side, by the C02 lemmas
  have hstrict := newRowComparator_strict hidb hcb hnan hord.distinct
  have hbolt : queryIdsC Generated.boltzPaging bst q =
      .ok (page c q.paging.skip q.paging.limit (rows.filter fun r => sat r q.filter),
           total (rows.filter fun r => sat r q.filter)) := by
    rw [boltz_paging_facts_expected]
    have hm : matching (bst.env q.filter) rows = rows.filter fun r => sat r q.filter := by
      simp only [matching, BoltStore.env, bolt_eval_sat]
      apply List.filter_congr
      intro r _
      simp only [ScanEnv.admits, hroot, Bool.not_false, Bool.true_and]
    have hmlen : ∀ l : List Row, l.Perm rows → ((matching (bst.env q.filter) l).length : Int) ≤ maxI64 := by
      intro l hl
      have : (matching (bst.env q.filter) l).length ≤ l.length := List.length_filter_le ..
      rw [hl.length_eq] at this; omega
    simp only [queryIdsC, hb, scanCursor]
    cases hs : newScanner q.sort with
    | sorting =>
      simp only [hcb, bucketCursor, if_true]
      rw [sortScan_spec hstrict _ _ _ hq (fun a ha => ha) hord.distinct.nodup (hmlen rows (.refl _)), hm]
    | index fwd =>
      simp only
      rw [idxScan_spec _ _ _ hq (hmlen _ (bucketCursor_perm rows fwd))]
      have hp := matching_perm (bst.env q.filter) (bucketCursor_perm rows fwd)
      have hsorted := index_cursor_sorted hidb hs hcb hord (bst.env q.filter)
      have hPm : ∀ a ∈ matching (bst.env q.filter) rows, a ∈ rows := fun a ha => (List.mem_filter.1 ha).1
      have hnd : (matching (bst.env q.filter) rows).Nodup := hord.distinct.nodup.sublist List.filter_sublist
      have heq := sort_unique hstrict hPm hnd hp hsorted
      rw [← hm, page_eq_target c q.paging _ (hmlen rows (.refl _)), ← heq]
      simp only [total, hp.length_eq]
  rw [hbolt]
  have hfp : (objs.filter fun r => sat r q.filter).Perm (rows.filter fun r => sat r q.filter) := hperm.filter _
  have := page_perm hstrict hfp (fun a ha => (List.mem_filter.1 ha).1)
    (hord.distinct.nodup.sublist List.filter_sublist) q.paging.skip q.paging.limit
  simp only [this.1, this.2]

/-- the iteration order of the object store (e.g. Go map order in `IterateMap`) is irrelevant -/
theorem objectz_order_independent (st : ObjStore) (objs objs' : List Row) (q : Query) (c : Cmp Row)
    (hperm : objs'.Perm objs) (hd : DistinctIds objs) (hid : st.symbols.lookup "id" = some .string)
    (hc : newRowComparator st.schema q.sort = .ok c) (hnan : ∀ r ∈ objs, NoNaNKeys q.sort r)
    (hf : FilterTyped st.symbols q.filter) (hw : WellTypedObjs st objs)
    (hq : q.paging.InRange) (hlen : (objs.length : Int) ≤ maxI64) :
    objQuery Generated.objectzPaging { st with objs := some objs' } q =
      objQuery Generated.objectzPaging { st with objs := some objs } q := by
  have hd' : DistinctIds objs' := by
    unfold DistinctIds at *
    exact hperm.symm.pairwise hd (fun h => Ne.symm h)
  have hw' : WellTypedObjs { st with objs := some objs' } objs' := fun r hr => hw r (hperm.subset hr)
  rw [objectz_exact { st with objs := some objs' } objs' q c rfl hd' hid hc (fun r hr => hnan r (hperm.subset hr)) hf hw' hq
      (by rw [hperm.length_eq]; exact hlen),
    objectz_exact { st with objs := some objs } objs q c rfl hd hid hc hnan hf hw hq hlen]
  have hstrict := newRowComparator_strict (objStore_hasId hid) hc hnan hd
  have hfp : (objs'.filter fun r => sat r q.filter).Perm (objs.filter fun r => sat r q.filter) := hperm.filter _
  have := page_perm hstrict hfp (fun a ha => (List.mem_filter.1 ha).1)
    (hd.nodup.sublist List.filter_sublist) q.paging.skip q.paging.limit
  simp only [this.1, this.2]

/-! ### non-vacuity, and the `IsNil` of the pinned tree -/

def exSymbols : List (String × SymType) := [("id", .string), ("s", .string), ("i", .int64)]
def exObjs : List Row :=
  [⟨[99], [("s", .string [120]), ("i", .int64 5)]⟩,
   ⟨[97], [("s", .nil), ("i", .nil)]⟩,
   ⟨[98], [("s", .string []), ("i", .int32 5)]⟩]
def exStore : ObjStore := ⟨exSymbols, some exObjs⟩

def ids : ObjOutcome (List Row × Int) → Option (List Bytes × Int)
  | .ok r => some (r.1.map (·.id), r.2)
  | _ => none

/-- `s = null sort by i desc`: only the object whose `s` function returns a nil *string matches -/
example : ids (objQuery expectedPaging exStore ⟨.isNull "s", [⟨"i", false⟩], ⟨none, none⟩⟩) = some ([[97]], 1) := by decide
/-- `s != null skip 1`: "" is not null; default order is id ascending -/
example : ids (objQuery expectedPaging exStore ⟨.notNull "s", [], ⟨some 1, none⟩⟩) = some ([[99]], 2) := by decide

example : DistinctIds exObjs ∧ WellTypedObjs exStore exObjs ∧ FilterTyped exSymbols (.isNull "s") := by
  refine ⟨by unfold DistinctIds; decide, ?_, ⟨.string, by decide, by decide⟩⟩
  intro r hr n hn
  simp only [exObjs, List.mem_cons, List.mem_nil_iff, or_false] at hr
  obtain ⟨t, ht⟩ := hn
  simp only [exStore, exSymbols, List.lookup] at ht
  unfold WellTypedAt
  simp only [exStore, exSymbols, List.lookup]
  split at ht
  · next heq =>
    have hn := eq_of_beq heq; subst hn; cases ht
    rcases hr with rfl | rfl | rfl <;> simp [evalSym]
  · split at ht
    · next heq =>
      have hn := eq_of_beq heq; subst hn; cases ht
      rcases hr with rfl | rfl | rfl <;> simp [evalSym, Row.get, List.lookup]
    · split at ht
      · next heq =>
        have hn := eq_of_beq heq; subst hn; cases ht
        rcases hr with rfl | rfl | rfl <;> simp [evalSym, Row.get, List.lookup]
      · cases ht

/-- the `IsNil` before 83c62e4 compared the interface itself with nil: a nil *string inside the
    interface was "not nil", so `= null` matched nothing -/
theorem pinned_isnil_violates :
    ifaceIsNilPinned (.stringPtr none) = false ∧ ifaceIsNil (.stringPtr none) = true := by decide

end StorageModel.Properties.C19

#print axioms StorageModel.Properties.C19.objectz_paging_facts_expected
#print axioms StorageModel.Properties.C19.objectz_filter_exact
#print axioms StorageModel.Properties.C19.objectz_exact
#print axioms StorageModel.Properties.C19.objectz_eq_bolt
#print axioms StorageModel.Properties.C19.objectz_order_independent
#print axioms StorageModel.Properties.C19.pinned_isnil_violates
