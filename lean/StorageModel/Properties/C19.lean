import StorageModel.Query.BoltProofs
import StorageModel.Query.Resolve
import StorageModel.Query.TreeQueries
import StorageModel.Query.ObjectzTime
import StorageModel.Query.ObjectzHistory
import StorageModel.Generated.PagingFacts
import StorageModel.Generated.ObjectzStore
/-
  C19 — In-memory object store answers queries like the bolt-backed store.

  "Querying an in-memory object store with a filter, sort, skip and limit returns exactly the
  objects, order and total count that the same query returns from a bolt-backed store holding the
  same field values - including null handling (`= null`, `!= null`), the default id ordering and
  every paging boundary (skip without limit, negative skip, limit none, limit 0, skip past the
  end)."

  Model: Query/Objectz.lean (ObjectCursor.Eval*/IsNil with typed nil pointers inside the interface,
  newRowComparator, memSortingScanner.Scan = the bounded-tree scheme of Query/Paging.lean run with
  objectz's own paging arithmetic `Generated.objectzPaging`).  Spec: `page` / `total` of the rows
  that satisfy the filter (Query/Spec.lean, Query/Filter.lean `sat`).  `objectz_eq_bolt` combines
  `objectz_exact` with C02's `query_ids_exact`-style lemmas for the bolt store.

  Values: no exclusion — NaN float keys included (the float64 comparators order NaN first since 1532996).

  Filters: the fragment of Query/Filter.lean over non-set symbols (`FilterTyped`); the whole filter
  language is C01's subject.
-/
namespace StorageModel.Properties.C19
open StorageModel StorageModel.Query

/-- Obligation on regenerated data: objectz's `setPaging`, `maxResults` and eviction test have the
    expected shape (objectz/object_store.go). -/
theorem objectz_paging_facts_expected : Generated.objectzPaging = expectedPaging := by decide

theorem boltz_paging_facts_expected : Generated.boltzPaging = expectedPaging := by decide

/-- every object is well typed for the store's symbols (a symbol function of type T returns a *T) -/
def WellTypedObjs (st : ObjStore) (objs : List Row) : Prop :=
  ∀ r ∈ objs, ∀ n, (∃ t, st.symbols.lookup n = some t) → WellTypedAt st.symbols r n

theorem filterTyped_symbol {symbols : List (String × SymType)} {f : Filter} (h : FilterTyped symbols f) {n : String}
    (hn : n ∈ f.symbols) : ∃ t, symbols.lookup n = some t := by
  induction f with
  | tt => simp [Filter.symbols] at hn
  | cmpBool m _ _ | cmpInt m _ _ | cmpFloat m _ _ | cmpStr m _ _ | cmpTime m _ _ =>
    simp only [Filter.symbols, List.mem_singleton] at hn; subst hn; exact ⟨_, h⟩
  | isNull m | notNull m =>
    simp only [Filter.symbols, List.mem_singleton] at hn; subst hn
    obtain ⟨t, ht, _⟩ := h; exact ⟨t, ht⟩
  | and a b iha ihb | or a b iha ihb =>
    simp only [Filter.symbols, List.mem_append] at hn
    rcases hn with hn | hn
    · exact iha h.1 hn
    · exact ihb h.2 hn
  | not a iha => exact iha h hn

/-- **null handling**: on well-typed objects the object cursor decides every filter of the fragment
    — `= null` and `!= null` included, under any nesting of `and` / `or` / `not` — exactly as the
    specification does. -/
theorem objectz_filter_exact (st : ObjStore) (objs : List Row) (f : Filter) (hf : FilterTyped st.symbols f)
    (hw : WellTypedObjs st objs) : ∀ r ∈ objs, evalFilter (objSymbols st r) f = sat r f := by
  intro r hr
  rw [obj_eval_eq_bolt st r f hf (fun n hn => hw r hr n (filterTyped_symbol hf hn)), bolt_eval_sat]

theorem objStore_hasId {st : ObjStore} (h : st.symbols.lookup "id" = some .string) : HasIdSymbol st.schema := by
  unfold HasIdSymbol ObjStore.schema
  generalize st.symbols = l at h
  induction l with
  | nil => simp at h
  | cons p l ih =>
    obtain ⟨n, t⟩ := p
    simp only [List.map_cons, List.lookup] at h ⊢
    by_cases hb : ("id" == n) = true
    · rw [hb] at h ⊢; cases h; rfl
    · have hb' : ("id" == n) = false := by simpa using hb
      rw [hb'] at h ⊢; exact ih h

/-- `QueryEntitiesC` for any filter node whose evaluation on the object cursor is `spec`: the page of
    the objects satisfying it, in the requested order, and their number -/
theorem objectz_exact_pred (st : ObjStore) (objs : List Row) (ev : Symbols → Bool) (spec : Row → Bool)
    (sort : List SortField) (paging : Paging) (c : Cmp Row)
    (ho : st.objs = some objs) (hd : DistinctIds objs) (hid : st.symbols.lookup "id" = some .string)
    (hc : newRowComparator st.schema sort = .ok c)
    (hev : ∀ r ∈ objs, ev (objSymbols st r) = spec r)
    (hq : paging.InRange) (hlen : (objs.length : Int) ≤ maxI64) :
    objQueryP Generated.objectzPaging st ev sort paging =
      .ok (page c paging.skip paging.limit (objs.filter spec), total (objs.filter spec)) := by
  rw [objectz_paging_facts_expected]
  have hstrict := newRowComparator_strict (objStore_hasId hid) hc hd
  have hm : matching ({ pred := fun r => ev (objSymbols st r) } : ScanEnv Row) objs = objs.filter spec := by
    simp only [matching]
    apply List.filter_congr
    intro r hr
    simp only [ScanEnv.admits, Bool.not_false, Bool.true_and]
    exact hev r hr
  have hmlen : ((matching ({ pred := fun r => ev (objSymbols st r) } : ScanEnv Row) objs).length : Int) ≤ maxI64 := by
    have : (matching ({ pred := fun r => ev (objSymbols st r) } : ScanEnv Row) objs).length ≤ objs.length :=
      List.length_filter_le ..
    omega
  simp only [objQueryP, hc, ho]
  rw [sortScan_spec hstrict _ _ _ hq (fun a ha => ha) hd.nodup hmlen, hm]

/-- **objectz_exact.**  `QueryEntitiesC` returns the page of the objects that satisfy the filter,
    in the requested order (nulls first ascending, ties by id), and their total number — for every
    collection with distinct ids, in whatever order the iterator yields it, and every skip / limit. -/
theorem objectz_exact (st : ObjStore) (objs : List Row) (q : Query) (c : Cmp Row)
    (ho : st.objs = some objs) (hd : DistinctIds objs) (hid : st.symbols.lookup "id" = some .string)
    (hc : newRowComparator st.schema q.sort = .ok c)
    (hf : FilterTyped st.symbols q.filter) (hw : WellTypedObjs st objs)
    (hq : q.paging.InRange) (hlen : (objs.length : Int) ≤ maxI64) :
    objQuery Generated.objectzPaging st q =
      .ok (page c q.paging.skip q.paging.limit (objs.filter fun r => sat r q.filter),
           total (objs.filter fun r => sat r q.filter)) := by
  rw [objQuery_eq_P]
  exact objectz_exact_pred st objs _ (fun r => sat r q.filter) q.sort q.paging c ho hd hid hc
    (objectz_filter_exact st objs q.filter hf hw) hq hlen

/-- the comparator depends on the schema only through the sort symbols (and `id`) -/
theorem resolveSort_congr {s1 s2 : Schema} {fs : List SortField}
    (h : ∀ f ∈ fs, s1.lookup f.name = s2.lookup f.name) : resolveSort s1 fs = resolveSort s2 fs := by
  induction fs with
  | nil => rfl
  | cons f rest ih =>
    simp only [resolveSort, h f (List.mem_cons_self ..), ih fun g hg => h g (List.mem_cons_of_mem _ hg)]

/-- page and total of a collection do not depend on the order the collection is presented in -/
theorem page_perm {P : Row → Prop} {c : Cmp Row} (hc : StrictTotalOn P c) {xs ys : List Row} (h : xs.Perm ys)
    (hP : ∀ a ∈ ys, P a) (hnd : ys.Nodup) (skip limit : Option Int) :
    page c skip limit xs = page c skip limit ys ∧ total xs = total ys := by
  have hs : sort c xs = sort c ys := by
    refine sort_unique hc hP hnd ((sort_perm c xs).trans h) (sort_sorted hc (fun a ha => hP a (h.subset ha)) (h.symm.nodup hnd))
  simp only [page, hs, total, h.length_eq, and_self]

/-- the bolt store (root store, either scanner) for any filter node whose evaluation on the row
    cursor is `spec` -/
theorem bolt_exact_pred (bst : BoltStore) (rows : List Row) (ev : Symbols → Bool) (spec : Row → Bool)
    (sort : List SortField) (paging : Paging) (c : Cmp Row)
    (hb : bst.bucket = some rows) (hroot : ∀ r, bst.childSkip r = false) (hord : BucketOrdered rows)
    (hidb : HasIdSymbol bst.schema) (hcb : newRowComparator bst.schema sort = .ok c)
    (hev : ∀ r ∈ rows, ev (boltSymbols r) = spec r)
    (hq : paging.InRange) (hlen : (rows.length : Int) ≤ maxI64) :
    queryIdsCP Generated.boltzPaging bst ev sort paging =
      .ok (page c paging.skip paging.limit (rows.filter spec), total (rows.filter spec)) := by
  have hstrict := newRowComparator_strict hidb hcb hord.distinct
  rw [boltz_paging_facts_expected]
  have hmg : ∀ l : List Row, (∀ r ∈ l, r ∈ rows) → matching (bst.envP ev) l = l.filter spec := by
    intro l hl
    simp only [matching, BoltStore.envP]
    apply List.filter_congr
    intro r hr
    simp only [ScanEnv.admits, hroot, Bool.not_false, Bool.true_and]
    exact hev r (hl r hr)
  have hm := hmg rows (fun r hr => hr)
  have hmlen : ∀ l : List Row, l.Perm rows → ((matching (bst.envP ev) l).length : Int) ≤ maxI64 := by
    intro l hl
    have : (matching (bst.envP ev) l).length ≤ l.length := List.length_filter_le ..
    rw [hl.length_eq] at this; omega
  simp only [queryIdsCP, hb, scanCursorP]
  cases hs : newScanner sort with
  | sorting =>
    simp only [hcb, bucketCursor, if_true]
    rw [sortScan_spec hstrict _ _ _ hq (fun a ha => ha) hord.distinct.nodup (hmlen rows (.refl _)), hm]
  | index fwd =>
    simp only
    rw [idxScan_spec _ _ _ hq (hmlen _ (bucketCursor_perm rows fwd))]
    have hp := matching_perm (bst.envP ev) (bucketCursor_perm rows fwd)
    have hsorted := index_cursor_sorted hidb hs hcb hord (bst.envP ev)
    have hPm : ∀ a ∈ matching (bst.envP ev) rows, a ∈ rows := fun a ha => (List.mem_filter.1 ha).1
    have hnd : (matching (bst.envP ev) rows).Nodup := hord.distinct.nodup.sublist List.filter_sublist
    have heq := sort_unique hstrict hPm hnd hp hsorted
    rw [← hm, page_eq_target c paging _ (hmlen rows (.refl _)), ← heq]
    simp only [total, hp.length_eq]

/-- **objectz_eq_bolt, for the whole class of filters over non-set symbols.**  Let `ev` be the
    evaluation of any filter node whose value depends on the `ast.Symbols` only through the typed
    views of the symbols in `N` (`TypedLocal`: every node built from typed symbol nodes, constants,
    comparisons, `in`, `between`, `contains`, …, `and` / `or` / `not` — everything except set
    functions, which open set cursors).  Then an object store and a bolt store holding the same rows
    (the object store in any iteration order), declaring the symbols of `N` and of the sort list
    alike, with the objects well typed at `N`, answer identically: same objects, same order, same
    count — whichever scanner the bolt store uses. -/
theorem objectz_eq_bolt_any_filter (ost : ObjStore) (bst : BoltStore) (objs rows : List Row)
    (ev : Symbols → Bool) (N : List String) (sort : List SortField) (paging : Paging) (c : Cmp Row)
    (ho : ost.objs = some objs) (hb : bst.bucket = some rows) (hperm : objs.Perm rows)
    (hroot : ∀ r, bst.childSkip r = false)
    (hord : BucketOrdered rows) (hid : ost.symbols.lookup "id" = some .string)
    (hschema : ∀ f ∈ sort ++ [⟨"id", true⟩], bst.schema.lookup f.name = ost.schema.lookup f.name)
    (hc : newRowComparator ost.schema sort = .ok c)
    (hloc : TypedLocal ost.symbols N ev) (hw : ∀ r ∈ objs, ∀ n ∈ N, WellTypedAt ost.symbols r n)
    (hq : paging.InRange) (hlen : (rows.length : Int) ≤ maxI64) :
    objQueryP Generated.objectzPaging ost ev sort paging =
      (match queryIdsCP Generated.boltzPaging bst ev sort paging with
       | .ok r => .ok r
       | .error e => .err e) := by
  have hd : DistinctIds objs := by
    have := hord.distinct
    unfold DistinctIds at *
    exact hperm.symm.pairwise this (fun h => Ne.symm h)
  have hcb : newRowComparator bst.schema sort = .ok c := by
    rw [← hc]; unfold newRowComparator; rw [resolveSort_congr hschema]
  have hidb : HasIdSymbol bst.schema := by
    have := objStore_hasId hid
    unfold HasIdSymbol at *
    rw [hschema ⟨"id", true⟩ (by simp)]; exact this
  -- both stores decide the filter as the bolt row cursor does
  have hev : ∀ r ∈ objs, ev (objSymbols ost r) = ev (boltSymbols r) := by
    intro r hr
    exact hloc _ _ (fun n hn => typedView_obj_eq_bolt ost r n (hw r hr n hn))
  rw [objectz_exact_pred ost objs ev (fun r => ev (boltSymbols r)) sort paging c ho hd hid hc
    hev hq (by rw [hperm.length_eq]; exact hlen)]
  rw [bolt_exact_pred bst rows ev (fun r => ev (boltSymbols r)) sort paging c hb hroot hord hidb hcb
    (fun _ _ => rfl) hq hlen]
  have hstrict := newRowComparator_strict hidb hcb hord.distinct
  have hfp : (objs.filter fun r => ev (boltSymbols r)).Perm (rows.filter fun r => ev (boltSymbols r)) := hperm.filter _
  have := page_perm hstrict hfp (fun a ha => (List.mem_filter.1 ha).1)
    (hord.distinct.nodup.sublist List.filter_sublist) paging.skip paging.limit
  simp only [this.1, this.2]

/-- **objectz_eq_bolt** for the fragment of Query/Filter.lean (comparisons, `= null`, `!= null`, any
    nesting of `and` / `or` / `not`): an instance of `objectz_eq_bolt_any_filter`. -/
theorem objectz_eq_bolt (ost : ObjStore) (bst : BoltStore) (objs rows : List Row) (q : Query) (c : Cmp Row)
    (ho : ost.objs = some objs) (hb : bst.bucket = some rows) (hperm : objs.Perm rows)
    (hroot : ∀ r, bst.childSkip r = false)
    (hord : BucketOrdered rows) (hid : ost.symbols.lookup "id" = some .string)
    (hschema : ∀ f ∈ q.sort ++ [⟨"id", true⟩], bst.schema.lookup f.name = ost.schema.lookup f.name)
    (hc : newRowComparator ost.schema q.sort = .ok c)
    (hf : FilterTyped ost.symbols q.filter) (hw : WellTypedObjs ost objs)
    (hq : q.paging.InRange) (hlen : (rows.length : Int) ≤ maxI64) :
    objQuery Generated.objectzPaging ost q =
      (match queryIdsC Generated.boltzPaging bst q with
       | .ok r => .ok r
       | .error e => .err e) := by
  rw [objQuery_eq_P, queryIdsC_eq_P]
  exact objectz_eq_bolt_any_filter ost bst objs rows _ q.filter.symbols q.sort q.paging c ho hb hperm hroot hord hid
    hschema hc (evalFilter_typedLocal ost.symbols q.filter hf)
    (fun r hr n hn => hw r hr n (filterTyped_symbol hf hn)) hq hlen

/-- the iteration order of the object store (e.g. Go map order in `IterateMap`) is irrelevant -/
theorem objectz_order_independent (st : ObjStore) (objs objs' : List Row) (q : Query) (c : Cmp Row)
    (hperm : objs'.Perm objs) (hd : DistinctIds objs) (hid : st.symbols.lookup "id" = some .string)
    (hc : newRowComparator st.schema q.sort = .ok c)
    (hf : FilterTyped st.symbols q.filter) (hw : WellTypedObjs st objs)
    (hq : q.paging.InRange) (hlen : (objs.length : Int) ≤ maxI64) :
    objQuery Generated.objectzPaging { st with objs := some objs' } q =
      objQuery Generated.objectzPaging { st with objs := some objs } q := by
  have hd' : DistinctIds objs' := by
    unfold DistinctIds at *
    exact hperm.symm.pairwise hd (fun h => Ne.symm h)
  have hw' : WellTypedObjs { st with objs := some objs' } objs' := fun r hr => hw r (hperm.subset hr)
  rw [objectz_exact { st with objs := some objs' } objs' q c rfl hd' hid hc hf hw' hq
      (by rw [hperm.length_eq]; exact hlen),
    objectz_exact { st with objs := some objs } objs q c rfl hd hid hc hf hw hq hlen]
  have hstrict := newRowComparator_strict (objStore_hasId hid) hc hd
  have hfp : (objs'.filter fun r => sat r q.filter).Perm (objs.filter fun r => sat r q.filter) := hperm.filter _
  have := page_perm hstrict hfp (fun a ha => (List.mem_filter.1 ha).1)
    (hd.nodup.sublist List.filter_sublist) q.paging.skip q.paging.limit
  simp only [this.1, this.2]

/-- **an object store must declare `id`**: `newRowComparator` appends `id asc` to every sort list, so
    without an `id` symbol every query — whatever its filter, sort, skip, limit — fails with "no such
    sort field" once the requested sort fields resolved (a bolt store always has its id symbol). -/
theorem objectz_needs_id (pf : PagingFacts) (st : ObjStore) (q : Query) (hid : st.symbols.lookup "id" = none)
    (hs : ∀ f ∈ q.sort, fieldErr st.schema f = none) :
    objQuery pf st q = .err .noSuchField := by
  have hl : st.schema.lookup "id" = none := by
    unfold ObjStore.schema
    generalize st.symbols = l at hid
    induction l with
    | nil => rfl
    | cons p l ih =>
      obtain ⟨n, t⟩ := p
      simp only [List.map_cons, List.lookup] at hid ⊢
      by_cases hb : ("id" == n) = true
      · rw [hb] at hid; cases hid
      · have hb' : ("id" == n) = false := by simpa using hb
        rw [hb'] at hid ⊢; exact ih hid
  have he : newRowComparator st.schema q.sort = .error .noSuchField := by
    rw [newRowComparator_error_iff]
    exact ⟨q.sort, ⟨"id", true⟩, [], rfl, hs, by simp [fieldErr, hl]⟩
  simp only [objQuery, he]

/-! ### non-vacuity, and the `IsNil` of the pinned tree -/

def exSymbols : List (String × SymType) := [("id", .string), ("s", .string), ("i", .int64)]
def exObjs : List Row :=
  [⟨[99], [("s", .string [120]), ("i", .int64 5)]⟩,
   ⟨[97], [("s", .nil), ("i", .nil)]⟩,
   ⟨[98], [("s", .string []), ("i", .int32 5)]⟩]
def exStore : ObjStore := ⟨exSymbols, some exObjs⟩

def ids : ObjOutcome (List Row × Int) → Option (List Bytes × Int)
  | .ok r => some (r.1.map (·.id), r.2)
  | _ => none

/-- `s = null sort by i desc`: only the object whose `s` function returns a nil *string matches -/
example : ids (objQuery expectedPaging exStore ⟨.isNull "s", [⟨"i", false⟩], ⟨none, none⟩⟩) = some ([[97]], 1) := by decide
/-- `s != null skip 1`: "" is not null; default order is id ascending -/
example : ids (objQuery expectedPaging exStore ⟨.notNull "s", [], ⟨some 1, none⟩⟩) = some ([[99]], 2) := by decide

example : DistinctIds exObjs ∧ WellTypedObjs exStore exObjs ∧ FilterTyped exSymbols (.isNull "s") := by
  refine ⟨by unfold DistinctIds; decide, ?_, ⟨.string, by decide, by decide⟩⟩
  intro r hr n hn
  simp only [exObjs, List.mem_cons, List.mem_nil_iff, or_false] at hr
  obtain ⟨t, ht⟩ := hn
  simp only [exStore, exSymbols, List.lookup] at ht
  unfold WellTypedAt
  simp only [exStore, exSymbols, List.lookup]
  split at ht
  · next heq =>
    have hn := eq_of_beq heq; subst hn; cases ht
    rcases hr with rfl | rfl | rfl <;> simp [evalSym]
  · split at ht
    · next heq =>
      have hn := eq_of_beq heq; subst hn; cases ht
      rcases hr with rfl | rfl | rfl <;> simp [evalSym, Row.get, List.lookup]
    · split at ht
      · next heq =>
        have hn := eq_of_beq heq; subst hn; cases ht
        rcases hr with rfl | rfl | rfl <;> simp [evalSym, Row.get, List.lookup]
      · cases ht

/-- the `IsNil` before 83c62e4 compared the interface itself with nil: a nil *string inside the
    interface was "not nil", so `= null` matched nothing -/
theorem pinned_isnil_violates :
    ifaceIsNilPinned (.stringPtr none) = false ∧ ifaceIsNil (.stringPtr none) = true := by decide

/-- an object store whose iterator function returns nil holds nothing: every query whose sort list
    resolves is answered with no objects and count 0 (the nil test precedes the first use of the
    iterator since bbcb51c) -/
theorem objectz_nil_iterator_empty (pf : PagingFacts) (st : ObjStore) (q : Query) (c : Cmp Row)
    (ho : st.objs = none) (hc : newRowComparator st.schema q.sort = .ok c) :
    objQuery pf st q = .ok ([], 0) := by
  simp only [objQuery, hc, ho]

/-- **set functions are outside the class, and both stores say so**: a set function (`anyOf`, `allOf`,
    `count`, `isEmpty`) applied to a non-set or unknown symbol is rejected by `ast.Parse` against the
    bolt store and against the object store (whose `IsSet` answers `(false, true)` for every name) -/
theorem set_function_on_non_set_rejected (schema : Schema) (name : String)
    (h : ∀ info, schema.lookup name = some info → info.isSet = false) :
    setFunctionAccepted (boltIsSet schema name) = false ∧ setFunctionAccepted (objIsSet name) = false :=
  set_function_rejected schema name h

/-! ### a NaN sort key (repaired in 1532996)

Before 1532996 `*s1 < *s2` and `*s1 > *s2` being both false made the float64 comparator tie NaN with
every number; the row comparator was then not transitive (2.0 < NaN < 1.0 < 2.0 through the id
tie-break) and the llrb tree — `Query/Llrb.lean`, the port of the code's tree — gave a result that
depended on the insertion order: the bolt store inserts in id order, the object store in its
iterator's order.  Now NaN sorts before every number in both comparators, `objectz_eq_bolt*` carry no
exclusion, and the examples below keep the old behaviour on record. -/

theorem objectz_float_comparator_facts_expected : Generated.objectzFloatCmp = expectedFloatCmp := by decide
theorem boltz_float_comparator_facts_expected : Generated.boltzFloatCmp = expectedFloatCmp := by decide

def nanSyms : List (String × SymType) := [("id", .string), ("f", .float64)]
/-- a: 2.0, b: NaN, c: 1.0 -/
def nanRows : List Row :=
  [⟨[97], [("f", .float64 0x4000000000000000 [])]⟩, ⟨[98], [("f", .float64 0x7ff8000000000001 [])]⟩,
   ⟨[99], [("f", .float64 0x3ff0000000000000 [])]⟩]
def nanBolt : BoltStore := { schema := nanSyms.map fun (n, t) => (n, ⟨t, false⟩), bucket := some nanRows }
def nanQuery (limit : Option Int) : Query := ⟨.tt, [⟨"f", true⟩], ⟨none, limit⟩⟩

def boltIds : Except SortErr (List Row × Int) → Option (List Bytes × Int)
  | .ok r => some (r.1.map (·.id), r.2)
  | .error _ => none

/-- `sort by f` with the comparator of the code as it is: NaN first, whatever the order of arrival, in
    the list model of the theorems and in the llrb port alike -/
example :
    boltIds (queryIdsC expectedPaging nanBolt (nanQuery none)) = some ([[98], [99], [97]], 3) ∧
    boltIds (queryIdsCT expectedPaging nanBolt (nanQuery none)) = some ([[98], [99], [97]], 3) ∧
    ids (objQueryT expectedPaging ⟨nanSyms, some nanRows.reverse⟩ (nanQuery none)) = some ([[98], [99], [97]], 3) ∧
    ids (objQuery expectedPaging ⟨nanSyms, some nanRows.reverse⟩ (nanQuery (some 2))) = some ([[98], [99]], 3) ∧
    boltIds (queryIdsC expectedPaging nanBolt (nanQuery (some 2))) = some ([[98], [99]], 3) := by decide

/-- the row comparator `sort by f` had BEFORE 1532996: float comparison without the NaN branch, then id -/
def preFixCmp : Cmp Row :=
  chain [fun a b => nullsFirst (cmpFloatValWith false) (fieldToFloat64 (evalSym "f" a)) (fieldToFloat64 (evalSym "f" b)),
         symCmp .string "id" true]

def scanIds (r : List Row × Int) : List Bytes × Int := (r.1.map (·.id), r.2)

/-- **the former counter-example** (`nan-sort-key`, on the llrb port run with the pre-fix comparator): the
    same three rows reach the result tree in id order (bolt) or in reverse (an object store iterating
    c, b, a) — different order, and with `limit 2` different objects -/
example :
    scanIds (sortScanT expectedPaging preFixCmp { pred := fun _ => true } ⟨none, none⟩ (some nanRows)) = ([[97], [98], [99]], 3) ∧
    scanIds (sortScanT expectedPaging preFixCmp { pred := fun _ => true } ⟨none, none⟩ (some nanRows.reverse)) = ([[98], [99], [97]], 3) ∧
    scanIds (sortScanT expectedPaging preFixCmp { pred := fun _ => true } ⟨none, some 2⟩ (some nanRows)) = ([[97], [98]], 3) ∧
    scanIds (sortScanT expectedPaging preFixCmp { pred := fun _ => true } ⟨none, some 2⟩ (some nanRows.reverse)) = ([[98], [99]], 3) := by
  decide

/-! ### datetime fields are `time.Time` values (round 9)

An object's datetime symbol returns a `*time.Time`: the instant plus a `*Location` and possibly a monotonic clock
reading (`Query/ObjectzTime.lean`).  The bolt store keeps the instant.  The theorems above speak about objects given
by their field values; the two below extend them to objects holding arbitrary representations of those instants. -/

/-- **the representation of a datetime value is invisible to a query**: over objects whose datetime fields are
    `time.Time` values in any location, with or without monotonic reading, `QueryEntitiesC` returns exactly (objects,
    order, count, error) what it returns over the bare field values — every filter node, sort list, skip, limit,
    iteration order.  `MonoConsistent`: two monotonic readings order like their instants. -/
theorem objectz_time_representation_irrelevant (symbols : List (String × SymType)) (objs : List TObj)
    (ev : Symbols → Bool) (sort : List SortField) (paging : Paging) (hm : MonoConsistent objs) :
    (objQueryTP Generated.objectzPaging symbols (some objs) ev sort paging).mapRows (·.row) =
      objQueryP Generated.objectzPaging ⟨symbols, some (objs.map (·.row))⟩ ev sort paging :=
  objQueryTP_map_row _ symbols objs ev sort paging hm

/-- **objectz_eq_bolt over `time.Time`-holding objects**: `objectz_eq_bolt_any_filter` with the object store holding, for
    every datetime field, any `time.Time` value denoting the instant the bolt store holds. -/
theorem objectz_eq_bolt_time_values (symbols : List (String × SymType)) (bst : BoltStore) (objs : List TObj) (rows : List Row)
    (ev : Symbols → Bool) (N : List String) (sort : List SortField) (paging : Paging) (c : Cmp Row)
    (hm : MonoConsistent objs)
    (hb : bst.bucket = some rows) (hperm : (objs.map (·.row)).Perm rows)
    (hroot : ∀ r, bst.childSkip r = false)
    (hord : BucketOrdered rows) (hid : symbols.lookup "id" = some .string)
    (hschema : ∀ f ∈ sort ++ [⟨"id", true⟩], bst.schema.lookup f.name = (ObjStore.schema ⟨symbols, none⟩).lookup f.name)
    (hc : newRowComparator (ObjStore.schema ⟨symbols, none⟩) sort = .ok c)
    (hloc : TypedLocal symbols N ev) (hw : ∀ o ∈ objs, ∀ n ∈ N, WellTypedAt symbols o.row n)
    (hq : paging.InRange) (hlen : (rows.length : Int) ≤ maxI64) :
    (objQueryTP Generated.objectzPaging symbols (some objs) ev sort paging).mapRows (·.row) =
      (match queryIdsCP Generated.boltzPaging bst ev sort paging with
       | .ok r => .ok r
       | .error e => .err e) := by
  rw [objectz_time_representation_irrelevant symbols objs ev sort paging hm]
  exact objectz_eq_bolt_any_filter ⟨symbols, some (objs.map (·.row))⟩ bst (objs.map (·.row)) rows ev N sort paging c rfl hb hperm
    hroot hord hid hschema hc hloc
    (fun r hr n hn => by
      obtain ⟨o, ho, rfl⟩ := List.mem_map.1 hr
      exact hw o ho n hn) hq hlen

def timeSyms : List (String × SymType) := [("id", .string), ("t", .datetime)]
def tRow (id : UInt8) (ns : Int) : Row := ⟨[id], [("t", .time ns)]⟩
/-- a: 12:00 UTC, b: the same instant in a FixedZone, c: the same instant as `time.Now()` gave it (Local + monotonic
    reading), d: one hour later (also with a reading) -/
def timeObjs : List TObj :=
  [⟨tRow 97 1000, fun _ => {}⟩, ⟨tRow 98 1000, fun _ => { loc := 1 }⟩,
   ⟨tRow 99 1000, fun _ => { loc := 4, mono := some 50 }⟩, ⟨tRow 100 4600, fun _ => { loc := 4, mono := some 3650 }⟩]

def tIds : ObjOutcome (List TObj × Int) → Option (List Bytes × Int)
  | .ok r => some (r.1.map (·.row.id), r.2)
  | _ => none

/-- non-vacuity of `MonoConsistent` on a collection mixing all representations -/
example : MonoConsistent timeObjs := by
  intro a ha b hb n t u hta hub x y hx hy
  simp only [timeObjs, List.mem_cons, List.mem_nil_iff, or_false] at ha hb
  by_cases hn : n = "t"
  · subst hn
    rcases ha with rfl | rfl | rfl | rfl <;> rcases hb with rfl | rfl | rfl | rfl <;>
      simp [objTime, tRow, evalSym, Row.get, fieldToDatetime] at hta hub <;>
      subst hta <;> subst hub <;> simp at hx hy <;> subst hx <;> subst hy <;> decide
  · have hnone : ∀ o ∈ timeObjs, objTime n o = none := by
      intro o ho
      simp only [timeObjs, List.mem_cons, List.mem_nil_iff, or_false] at ho
      by_cases hid : n = "id"
      · subst hid
        rcases ho with rfl | rfl | rfl | rfl <;> simp [objTime, evalSym, fieldToDatetime]
      · have hb : ("t" == n) = false := by simpa using fun h => hn h.symm
        have hb' : (n == "t") = false := by simpa using hn
        rcases ho with rfl | rfl | rfl | rfl <;>
          simp [objTime, tRow, evalSym, hid, Row.get, List.lookup, hb', fieldToDatetime]
    have h1 := hnone a (by simp only [timeObjs, List.mem_cons, List.mem_nil_iff, or_false]; exact ha)
    rw [h1] at hta; cases hta

/-- `sort by t` and `sort by t desc limit 2`: the three representations of one instant tie and fall through to the id,
    whatever the iteration order (list model and llrb port) -/
example :
    tIds (objQueryTP expectedPaging timeSyms (some timeObjs.reverse) (fun _ => true) [⟨"t", true⟩] ⟨none, none⟩)
      = some ([[97], [98], [99], [100]], 4) ∧
    tIds (objQueryTPT expectedPaging timeSyms (some timeObjs.reverse) (fun _ => true) [⟨"t", true⟩] ⟨none, none⟩)
      = some ([[97], [98], [99], [100]], 4) ∧
    tIds (objQueryTPT expectedPaging timeSyms (some timeObjs.reverse) (fun _ => true) [⟨"t", false⟩] ⟨none, some 2⟩)
      = some ([[100], [97]], 4) := by decide

/-- **what deciding the tie with Go's `==` on the struct would do** (`*s1 != *s2` and a single `Before`): equal instants
    in different representations compare "greater" both ways, the id tie-break is never consulted, and the answer depends
    on the iteration order (llrb port): `sort by t` over a, b, c, d is right when the iterator yields them in id order and
    c, b, a, d when it yields them backwards; with `limit 1` a different object is on the page. -/
example :
    objCmpTimeValStructEq ⟨1000, none, 0⟩ ⟨1000, none, 1⟩ = .gt ∧ objCmpTimeValStructEq ⟨1000, none, 1⟩ ⟨1000, none, 0⟩ = .gt ∧
    tIds (objQueryTPW objCmpTimeValStructEq (sortScanT expectedPaging) timeSyms (some timeObjs) (fun _ => true)
      [⟨"t", true⟩] ⟨none, none⟩) = some ([[97], [98], [99], [100]], 4) ∧
    tIds (objQueryTPW objCmpTimeValStructEq (sortScanT expectedPaging) timeSyms (some timeObjs.reverse) (fun _ => true)
      [⟨"t", true⟩] ⟨none, none⟩) = some ([[99], [98], [97], [100]], 4) ∧
    tIds (objQueryTPW objCmpTimeValStructEq (sortScanT expectedPaging) timeSyms (some timeObjs.reverse) (fun _ => true)
      [⟨"t", true⟩] ⟨none, some 1⟩) = some ([[99]], 4) := by decide

/-! ### histories of calls on one store object (round 10)

`Query/ObjectzHistory.lean`: the `ObjectStore` object, the bolt store, the collection behind them, and the parsed query
objects a caller keeps, over any sequence of calls — `QueryEntities(text)` / `QueryIds(tx, text)`, `ast.Parse` into a kept
object, `QueryEntitiesC(q)` / `QueryIdsC(tx, q)` with that object (on either store, in any interleaving), `SetSkip` /
`SetLimit` on it, and changes of the collection. -/

/-- Obligation on regenerated data: an `ObjectStore` has exactly the fields `symbols` and `iteratorF`, package objectz has
    no package-level variable, no function outside the set-up (`NewObjectStore`, `Add…Symbol`) writes to (or calls a method
    on) a store field, and `QueryEntities` / `QueryEntitiesC` are "parse, then a fresh scanner".  This is what entitles the
    history model to carry no state of the store object from one call to the next. -/
theorem objectz_store_facts_expected : Generated.objectzStore = expectedObjStore := by decide

/-- **history_independent.**  For EVERY history of calls on one object store / one bolt store — any length, any
    interleaving of the two stores and of several object stores over one collection, query objects reused across calls
    and across stores, skip / limit changed in between, the collection changed in between — and for every way `parse` of
    turning texts into query objects: each answer is the stand-alone answer of that call, i.e. what stores that have never
    been used answer for the call's own request (its own text; for a kept object: the text parsed into it and the skip /
    limit the caller set last) on the collection as it is at that moment.  Earlier calls, earlier texts, and the paging
    defaults earlier executions wrote into a kept object leave no trace. -/
theorem history_independent {Text : Type} (parse : Text → Option CQuery) (W : HStores) (st : HState) (calls : List (Call Text)) :
    history parse Generated.objectzPaging Generated.boltzPaging W st calls =
      objSpecHistory parse Generated.objectzPaging Generated.boltzPaging W st calls := by
  rw [objectz_paging_facts_expected, boltz_paging_facts_expected]
  exact history_eq_spec parse W calls st st (stateAgrees_refl st)

/-- one stand-alone execution: the object store answers what the bolt store answers (`objectz_eq_bolt_any_filter`) -/
theorem standAlone_objectz_eq_bolt (W : HStores) (st : HState) (k : Nat) (q : CQuery) (h : GoodExec W st k q) :
    standAlone Generated.objectzPaging Generated.boltzPaging W st.objs st.bucket (.obj k) q =
      (standAlone Generated.objectzPaging Generated.boltzPaging W st.objs st.bucket .bolt q).norm := by
  obtain ⟨objs, rows, N, c, ho, hb, hperm, hord, hid, hschema, hc, hloc, hw, hq, hlen⟩ := h
  simp only [standAlone, runOn, Answer.norm, liftBolt]
  congr 1
  exact objectz_eq_bolt_any_filter (W.ostore k st.objs) (W.bstore st.bucket) objs rows q.ev N q.sort q.paging c
    (by simp only [HStores.ostore, ho]) (by simp only [HStores.bstore, hb]) hperm (fun _ => rfl) hord hid hschema hc hloc hw hq hlen

/-- one stand-alone execution answers the page of the objects that satisfy the predicate, in the requested order, and
    their number (`objectz_exact_pred`) -/
theorem standAlone_objectz_exact (W : HStores) (st : HState) (k : Nat) (q : CQuery) (h : GoodExec W st k q) :
    ∃ (objs : List Row) (c : Cmp Row), st.objs = some objs ∧ newRowComparator (W.ostore k st.objs).schema q.sort = .ok c ∧
      standAlone Generated.objectzPaging Generated.boltzPaging W st.objs st.bucket (.obj k) q =
        .obj (.ok (page c q.paging.skip q.paging.limit (objs.filter fun r => q.ev (boltSymbols r)),
                   total (objs.filter fun r => q.ev (boltSymbols r)))) := by
  obtain ⟨objs, rows, N, c, ho, hb, hperm, hord, hid, hschema, hc, hloc, hw, hq, hlen⟩ := h
  refine ⟨objs, c, ho, hc, ?_⟩
  have hd : DistinctIds objs := by
    have := hord.distinct
    unfold DistinctIds at *
    exact hperm.symm.pairwise this (fun h => Ne.symm h)
  simp only [standAlone, runOn]
  congr 1
  exact objectz_exact_pred (W.ostore k st.objs) objs q.ev (fun r => q.ev (boltSymbols r)) q.sort q.paging c
    (by simp only [HStores.ostore, ho]) hd hid hc
    (fun r hr => hloc _ _ (fun n hn => typedView_obj_eq_bolt (W.ostore k st.objs) r n (hw r hr n hn))) hq
    (by rw [hperm.length_eq]; exact hlen)

/-- **objectz = bolt, over histories.**  Take any history in which every execution on an object store happens under the
    hypotheses of `objectz_eq_bolt_any_filter` (for the collection and the request as they stand at that call), and send
    every query of it to the bolt store instead: the two histories give the same answers, position by position — same
    objects, same order, same count, same error. -/
theorem history_objectz_eq_bolt {Text : Type} (parse : Text → Option CQuery) (W : HStores) (st : HState) (calls : List (Call Text))
    (hg : GoodFrom parse Generated.objectzPaging Generated.boltzPaging W st calls) :
    (history parse Generated.objectzPaging Generated.boltzPaging W st calls).map Answer.norm =
      (history parse Generated.objectzPaging Generated.boltzPaging W st (calls.map Call.toBolt)).map Answer.norm := by
  rw [history_independent, history_independent]
  induction calls generalizing st with
  | nil => rfl
  | cons c cs ih =>
    obtain ⟨hc, hrest⟩ := hg
    simp only [List.map_cons, objSpecHistory]
    rw [specStep_toBolt_state, ih _ hrest]
    congr 1
    cases c with
    | setData o b => rfl
    | parse k s => rfl
    | setSkip k v => rfl
    | setLimit k v => rfl
    | text t s =>
      simp only [Call.toBolt, specStep]
      cases hp : parse s with
      | none => rfl
      | some q =>
        cases t with
        | bolt => rfl
        | obj k =>
          simp only
          rw [standAlone_objectz_eq_bolt W st k q (hc q hp)]
          cases standAlone Generated.objectzPaging Generated.boltzPaging W st.objs st.bucket .bolt q <;> rfl
    | exec j t =>
      simp only [Call.toBolt, specStep]
      cases hs : st.slots j with
      | none => rfl
      | some q =>
        cases t with
        | bolt => rfl
        | obj k =>
          simp only
          rw [standAlone_objectz_eq_bolt W st k q (hc q hs)]
          cases standAlone Generated.objectzPaging Generated.boltzPaging W st.objs st.bucket .bolt q <;> rfl

/-! non-vacuity: a history over `exStore`'s collection (sorted by id for the bolt store) whose executions are all good -/

def hW : HStores := ⟨fun _ => exSymbols, exSymbols.map fun (n, t) => (n, ⟨t, false⟩)⟩
def hRows : List Row := [⟨[97], [("s", .nil), ("i", .nil)]⟩, ⟨[98], [("s", .string []), ("i", .int32 5)]⟩,
  ⟨[99], [("s", .string [120]), ("i", .int64 5)]⟩]
def hSt : HState := ⟨some exObjs, some hRows, fun _ => none⟩
def hParse (t : Option Int) : Option CQuery := some ⟨fun _ => true, [⟨"i", false⟩], ⟨none, t⟩⟩

theorem hGoodExec (slots : Nat → Option CQuery) (k : Nat) (p : Paging) (hp : p.InRange) :
    GoodExec hW ⟨some exObjs, some hRows, slots⟩ k ⟨fun _ => true, [⟨"i", false⟩], p⟩ := by
  obtain ⟨c, hc⟩ : ∃ c, newRowComparator (hW.ostore k (some exObjs)).schema [⟨"i", false⟩] = .ok c := ⟨_, rfl⟩
  refine ⟨exObjs, hRows, [], c, rfl, rfl, ?_, ?_, rfl, ?_, hc, ?_, ?_, hp, ?_⟩
  · exact List.perm_append_comm (l₁ := [_]) (l₂ := [_, _])
  · unfold BucketOrdered; decide
  · intro f hf
    simp only [List.cons_append, List.nil_append, List.mem_cons, List.mem_nil_iff, or_false] at hf
    rcases hf with rfl | rfl <;> rfl
  · intro _ _ _; rfl
  · intro _ _ n hn; cases hn
  · decide

example : GoodFrom hParse Generated.objectzPaging Generated.boltzPaging hW hSt
    [.text (.obj 0) (some 1), .parse 3 none, .exec 3 (.obj 1), .exec 3 .bolt, .setLimit 3 2, .exec 3 (.obj 0)] := by
  refine ⟨?_, trivial, ?_, trivial, trivial, ?_, trivial⟩
  · intro q hq; cases hq
    exact hGoodExec _ 0 _ (by constructor <;> intro v hv <;> cases hv <;> simp [InI64, minI64, maxI64])
  · intro q hq
    simp only [specStep, hParse, setSlot] at hq
    cases hq
    exact hGoodExec _ 1 _ (by constructor <;> intro v hv <;> cases hv)
  · intro q hq
    simp only [specStep, hParse, setSlot, standAlone, Option.map, withLimit] at hq
    cases hq
    exact hGoodExec _ 0 _ (by constructor <;> intro v hv <;> cases hv <;> simp [InI64, minI64, maxI64])

end StorageModel.Properties.C19

#print axioms StorageModel.Properties.C19.objectz_paging_facts_expected
#print axioms StorageModel.Properties.C19.objectz_filter_exact
#print axioms StorageModel.Properties.C19.objectz_exact
#print axioms StorageModel.Properties.C19.objectz_eq_bolt
#print axioms StorageModel.Properties.C19.objectz_order_independent
#print axioms StorageModel.Properties.C19.pinned_isnil_violates
#print axioms StorageModel.Properties.C19.objectz_eq_bolt_any_filter
#print axioms StorageModel.Properties.C19.objectz_needs_id
#print axioms StorageModel.Properties.C19.objectz_float_comparator_facts_expected
#print axioms StorageModel.Properties.C19.boltz_float_comparator_facts_expected
#print axioms StorageModel.Properties.C19.set_function_on_non_set_rejected
#print axioms StorageModel.Properties.C19.objectz_nil_iterator_empty
#print axioms StorageModel.Properties.C19.objectz_time_representation_irrelevant
#print axioms StorageModel.Properties.C19.objectz_eq_bolt_time_values
#print axioms StorageModel.Properties.C19.objectz_store_facts_expected
#print axioms StorageModel.Properties.C19.history_independent
#print axioms StorageModel.Properties.C19.standAlone_objectz_eq_bolt
#print axioms StorageModel.Properties.C19.standAlone_objectz_exact
#print axioms StorageModel.Properties.C19.history_objectz_eq_bolt
