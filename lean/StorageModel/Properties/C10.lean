import StorageModel.C10.LexProofs
import StorageModel.C10.TreeCursorProofs
import StorageModel.C10.ListenerProofs
import StorageModel.C10.ListenTreeProofs3
import StorageModel.C10.ParseProofs
import StorageModel.C10.TransformProofs
import StorageModel.C10.ValidateProofs
import StorageModel.C10.Pipeline
import StorageModel.C10.BoltSymbols
import StorageModel.C10.Expected
import StorageModel.Generated.C10Sites
/-
  C10 — Parsing and evaluation are total: no panics, invalid input is rejected.

  "For every input string, parsing terminates without panicking and yields either a typed query
  or an error, and text that is not a sentence of the filter grammar - including text containing
  characters the lexer does not recognise - is rejected rather than silently altered into a
  different query. Every query that parses successfully can be evaluated against any dataset,
  including null fields, empty sets and empty stores, without panicking."
-/
namespace StorageModel.Properties.C10
open StorageModel StorageModel.C10

/-! ## 2a. the reference lexer neither skips nor alters anything -/

/-- **lossless lexing**: the token texts, concatenated, are the input — for every input. -/
theorem lex_lossless (s : List Char) (ts : List Token) (h : lex s = .ok ts) :
    (ts.map (·.text)).flatten = s :=
  (lexAux_tokenises _ _ _ _ h).flatten

/-- every token is non-empty and its text is matched by the grammar rule of its kind -/
theorem lex_tokens_match_rules (s : List Char) (ts : List Token) (h : lex s = .ok ts) : Tokenises s ts :=
  lexAux_tokenises _ _ _ _ h

/-- a lexer error is reported at a position of the input where no rule matches a non-empty
    prefix (it is never an artefact of the fuel) -/
theorem lex_error_is_real (s : List Char) (e : Nat) (h : lex s = .error e) :
    ∃ pre rest, s = pre ++ rest ∧ rest ≠ [] ∧ e = pre.length ∧ pick rest = none := by
  obtain ⟨pre, rest, h1, h2, h3, h4⟩ := lexAux_error (s.length + 1) s 0 e (by omega) h
  exact ⟨pre, rest, h1, h2, by omega, h4⟩

theorem rules_alphabet_ok : ∀ kp ∈ rules, ruleAlphabetOk kp = true := by decide

/-- **unrecognised characters are rejected**: in an accepted input, a character outside the
    token alphabet (`@ # $ % ^ & * ; ~ { } | ?`, a back-quote, control characters, non-ASCII, …) can only occur inside a
    string literal; anywhere else it makes `lex` fail. -/
theorem lex_rejects_unrecognised (s : List Char) (ts : List Token) (h : lex s = .ok ts) :
    ∀ t ∈ ts, t.kind ≠ .STRING → ∀ c ∈ t.text, recognised c = true := by
  have ht := lexAux_tokenises _ _ _ _ h
  clear h
  induction ht with
  | nil => intro t ht; cases ht
  | cons hmem hm _ _ _ ih =>
    intro t ht hk c hc
    rcases List.mem_cons.mp ht with rfl | ht'
    · have hok := rules_alphabet_ok _ hmem
      simp only [ruleAlphabetOk, Bool.or_eq_true, beq_iff_eq] at hok
      rcases hok with hs | hr
      · exact absurd hs hk
      · split at hr
        · next rs hrs => exact inRanges_within hr c (alpha_posRanges _ rs c hrs (hm.alpha c hc))
        · cases hr
    · exact ih t ht' hk c hc

/-- non-vacuity / instances -/
example : (match lex "a = 1 @".toList with | .error e => e == 6 | .ok _ => false) = true := by decide
example : recognised '@' = false ∧ recognised '#' = false ∧ recognised ';' = false ∧ recognised '`' = false := by decide

/-! ## 0. the regenerated facts are the ones the model was written against -/

/-- interfaces implemented by every node class of package ast, and their constant GetType():
    every type assertion of the model is a lookup in this table -/
theorem class_table_is_expected : Generated.C10.classTable = expectedClassTable := by decide

/-- the inventory of unchecked type assertions, pointer dereferences (with: is the pointer
    compared with nil in the function), constant indexes and slice expressions -/
theorem sites_are_expected : Generated.C10.partialSites = expectedSites := by decide

/-- zitiql.parse attaches the collecting error listener to BOTH lexer and parser -/
theorem wiring_is_expected : Generated.C10.wiring = expectedWiring := by decide

/-- the callbacks ToBoltListener defines are the cases of the model's `step` -/
theorem callbacks_are_expected : Generated.C10.listenerCallbacks = expectedCallbacks := by decide

/-! ## 1a. the listener's stack machine -/

/-- **no panic on any callback sequence of an ANTLR walk** — complete derivations and
    error-recovered trees alike: array contexts contain only element terminals (`clean`). -/
theorem listener_no_panic (evs : List Ev) (h : clean false evs = true) : (listen evs).isPanic = false :=
  listen_isPanic evs (run_no_panic_aux evs false .init h (by intro h; cases h))

/-- the hypothesis is not vacuous, and without it the Go code does panic: a marker value inside
    an array group reaches `node.GetType()` with `node == nil` -/
example : clean false [.term .IDENTIFIER ['a'], .term .IN ['i', 'n'], .eSA, .term .STRING ['"', 'x', '"'], .xSA, .xIn, .xQ] = true := by decide
example : (listen [.eSA, .term .EQ ['='], .xSA]).isPanic = true := by decide

/-- **on every complete derivation** the walk yields exactly the query the derivation denotes, or
    latches an error (a literal is refused: number out of range, impossible date, non-integer
    skip/limit, a sub-query without predicate) -/
theorem listener_builds_query (t : StartTree) (h : t.wf = true) :
    listen t.events = (match t.build with
      | some u => .ok u
      | none => .err "listener error") ∧
    ∀ u, t.build = some u → shQuery u = true := by
  refine ⟨listen_tree t h, ?_⟩
  intro u hu
  simp only [StartTree.wf, Bool.and_eq_true] at h
  exact query_shaped t.q h.1.2 u hu

theorem listener_no_panic_on_trees (t : StartTree) (h : t.wf = true) : (listen t.events).isPanic = false := by
  rw [(listener_builds_query t h).1]; cases t.build <;> rfl

/-! ## 2b. the reference recogniser accepts only sentences -/

/-- an accepted token list is the yield of a well-formed derivation of `start` -/
theorem parse_sound (ts : List Token) (t : StartTree) (h : parseStart ts = some t) :
    t.yield = ts ∧ t.wf = true := parseStart_sound ts t h

/-- **accepted strings are sentences**: the string splits, without loss, into tokens matched by
    the lexer rules, and these tokens are the frontier of a derivation of the grammar.  So text
    that is not a sentence — in particular text with a character no token admits — is rejected. -/
theorem accepts_sound (s : List Char) (h : accepts s = true) :
    ∃ (ts : List Token) (t : StartTree), Tokenises s ts ∧ (ts.map (·.text)).flatten = s ∧ t.yield = ts ∧ t.wf = true := by
  unfold accepts at h
  cases hl : lex s with
  | error e => simp [hl] at h
  | ok ts =>
    simp only [hl] at h
    cases hp : parseStart ts with
    | none => simp [hp] at h
    | some t =>
      have ht := lexAux_tokenises _ _ _ _ hl
      exact ⟨ts, t, ht, ht.flatten, (parseStart_sound ts t hp).1, (parseStart_sound ts t hp).2⟩

/-- the full statement of the recogniser's correctness: accepted exactly the sentences.  Only
    the direction `accepts → sentence` (`accepts_sound`, i.e. every non-sentence is rejected — the
    direction the property needs) is proved; the converse (the deterministic descent with its fuel
    finds a derivation whenever one exists) is validated on every run against the generated ANTLR
    parser (accept/reject compared on every input), not proved. -/
def accepts_iff_fullStatement : Prop :=
  ∀ s : List Char, accepts s = true ↔
    ∃ (ts : List Token) (t : StartTree), lex s = .ok ts ∧ t.yield = ts ∧ t.wf = true

theorem accepts_iff_partial (s : List Char) :
    accepts s = true → ∃ (ts : List Token) (t : StartTree), lex s = .ok ts ∧ t.yield = ts ∧ t.wf = true := by
  intro h
  unfold accepts at h
  cases hl : lex s with
  | error e => simp [hl] at h
  | ok ts =>
    simp only [hl] at h
    cases hp : parseStart ts with
    | none => simp [hp] at h
    | some t => exact ⟨ts, t, rfl, (parseStart_sound ts t hp).1, (parseStart_sound ts t hp).2⟩

example : accepts "a = 1 @".toList = false := by decide
example : accepts "a = 1".toList = true := by decide

/-! ## 1b. symbol validation and type transformation -/

/-- **typing never panics**: for every symbol table and every untyped query the grammar admits
    (any operand mix), PostProcess returns a typed query or an error, and a returned query is
    well typed -/
theorem transform_no_panic (st : SymTab) (u : U) (h : shQuery u = true) :
    (postProcess st u).isPanic = false ∧ ∀ t, postProcess st u = .ok t → okBool t = true := by
  have hv := (validate_ok u).1 ((sh_vShape u).2.2.2.2 h) ⟨false, st, false, [], none⟩ (Or.inr rfl)
  obtain ⟨v', hv', _⟩ := hv
  have hcls : impl u.cls .BoolTypeTransformable = true := by
    cases u <;> simp [shQuery] at h; simp [U.cls]
  have ht := (transform_good u).2.2.2.2 h st
  unfold postProcess
  rw [hv']
  simp only [Outcome.bind_ok, hcls, if_true]
  by_cases he : v'.err = true
  · simp only [he, if_true]; exact ⟨rfl, by intro t h'; cases h'⟩
  · simp only [he, Bool.false_eq_true, if_false]
    cases hx : typeTransformBool st u with
    | ok t =>
      have hok := ht.2 t hx
      simp only [Outcome.bind_ok]
      split
      · exact ⟨rfl, by intro t' h'; cases h'; exact hok.1⟩
      · exact ⟨rfl, by intro t' h'; cases h'⟩
    | err e => exact ⟨rfl, by intro t h'; cases h'⟩
    | panic p => rw [hx] at ht; exact absurd ht.1 (by simp [NP, Outcome.isPanic])

/-! ## 1c. evaluation -/

/-- **evaluation never panics**: a query that parsed can be evaluated against any row — null
    fields, empty sets, no linked rows — in any state of the Symbols' set cursors, with seekable or
    plain cursors -/
theorem eval_no_panic (st : SymTab) (u : U) (h : shQuery u = true) (t : T) (ht : postProcess st u = .ok t)
    (seekable : Bool) (env : Env) : (evalBool seekable env t).isPanic = false :=
  (eval_np t).1 ((transform_no_panic st u h).2 t ht) seekable env

/-! ## the whole pipeline, for every input string -/

/-- **ast.Parse is total and what it returns can always be evaluated**: for every string, every
    symbol table and every dataset -/
theorem pipeline_total (st : SymTab) (s : List Char) :
    (parseModel st s).isPanic = false ∧
    ∀ t, parseModel st s = .ok t → ∀ (seekable : Bool) (env : Env), (evalBool seekable env t).isPanic = false := by
  unfold parseModel
  split
  · refine ⟨rfl, ?_⟩
    intro t ht sk env; cases ht
    exact (eval_np _).1 rfl sk env
  · cases hl : lex s with
    | error e => exact ⟨rfl, by intro t h; cases h⟩
    | ok ts =>
      simp only
      cases hp : parseStart ts with
      | none => exact ⟨rfl, by intro t h; cases h⟩
      | some tree =>
        simp only
        obtain ⟨_, hwf⟩ := parseStart_sound ts tree hp
        obtain ⟨hlisten, hshape⟩ := listener_builds_query tree hwf
        rw [hlisten]
        cases hb : tree.build with
        | none => exact ⟨rfl, by intro t h; cases h⟩
        | some u =>
          simp only
          have hu := hshape u hb
          exact ⟨(transform_no_panic st u hu).1, fun t ht sk env => eval_no_panic st u hu t ht sk env⟩

/-! ## 1e. the bolt-backed Symbols (boltz/query_cursor.go) -/

/-- reading any symbol through `rowCursorImpl.IsNil` (and likewise `Eval*`) never panics: plain
    fields, set symbols with or without an open cursor, unknown symbols, and — since fix 4e2e9ce —
    dotted set symbols that are read before a set function has opened a cursor on them
    (`count(kids.ss) = null`, `count(from kids where kids.ss = "x") > 0`) -/
theorem bolt_symbols_no_panic (s : Option BoltSym) : (rowIsNil s).isPanic = false := by
  cases s with
  | none => rfl
  | some b =>
    cases b with
    | field v => rfl
    | setRuntime v => rfl
    | composite c => cases c <;> rfl

/-- the case of the former finding: no cursor, reported as nil -/
example : rowIsNil (some (.composite none)) = .ok true := rfl

/-! ## 1d. the tree-set cursor (ast/cursors.go, shared with C14) -/

/-- **any tree, also the empty one, any number of extra Next calls**: the cursor script yields
    exactly the in-order elements and then stays invalid. -/
theorem tree_cursor_enumerates (t : LTree) (extra : Nat) :
    tcScript t extra = .ok (t.inorder, List.replicate extra false) := by
  obtain ⟨c, hnew, hrem, hgood⟩ := tcNew_spec t
  obtain ⟨c', hdrain, hgood', hv⟩ := tcDrain_spec (t.size + 1) c hgood (by rw [hrem, inorder_length]; omega)
  simp only [tcScript, hnew, hdrain, tcExtra_spec extra c' hgood' hv, hrem]

theorem tree_cursor_no_panic (t : LTree) (extra : Nat) : (tcScript t extra).isPanic = false := by
  rw [tree_cursor_enumerates]; rfl

/-- the empty tree (the input of fix 9437023) -/
example : tcScript .nil 2 = .ok ([], [false, false]) := rfl

end StorageModel.Properties.C10

#print axioms StorageModel.Properties.C10.class_table_is_expected
#print axioms StorageModel.Properties.C10.sites_are_expected
#print axioms StorageModel.Properties.C10.wiring_is_expected
#print axioms StorageModel.Properties.C10.callbacks_are_expected
#print axioms StorageModel.Properties.C10.listener_no_panic
#print axioms StorageModel.Properties.C10.listener_builds_query
#print axioms StorageModel.Properties.C10.listener_no_panic_on_trees
#print axioms StorageModel.Properties.C10.parse_sound
#print axioms StorageModel.Properties.C10.accepts_sound
#print axioms StorageModel.Properties.C10.accepts_iff_partial
#print axioms StorageModel.Properties.C10.transform_no_panic
#print axioms StorageModel.Properties.C10.eval_no_panic
#print axioms StorageModel.Properties.C10.pipeline_total
#print axioms StorageModel.Properties.C10.bolt_symbols_no_panic
#print axioms StorageModel.Properties.C10.tree_cursor_enumerates
#print axioms StorageModel.Properties.C10.tree_cursor_no_panic
#print axioms StorageModel.Properties.C10.lex_lossless
#print axioms StorageModel.Properties.C10.lex_tokens_match_rules
#print axioms StorageModel.Properties.C10.lex_error_is_real
#print axioms StorageModel.Properties.C10.lex_rejects_unrecognised
