import StorageModel.C10.LexProofs
import StorageModel.C10.TreeCursorProofs
import StorageModel.C10.ListenerProofs
import StorageModel.C10.ListenTreeProofs3
import StorageModel.C10.ParseProofs
import StorageModel.C10.G4Proofs
import StorageModel.C10.G4Complete
import StorageModel.C10.ParseComplete
import StorageModel.C10.BoltSortProofs
import StorageModel.C10.Objectz
import StorageModel.C10.TransformProofs
import StorageModel.C10.ValidateProofs
import StorageModel.C10.Pipeline
import StorageModel.C10.Session
import StorageModel.C10.BoltSymbols
import StorageModel.C10.BoltScan
import StorageModel.C10.Config
import StorageModel.C10.Expected
import StorageModel.Generated.C10Sites
import StorageModel.Generated.C10Atn
import StorageModel.C10.LexRules
/-
  C10 — Parsing and evaluation are total: no panics, invalid input is rejected.

  "For every input string, parsing terminates without panicking and yields either a typed query
  or an error, and text that is not a sentence of the filter grammar - including text containing
  characters the lexer does not recognise - is rejected rather than silently altered into a
  different query. Every query that parses successfully can be evaluated against any dataset,
  including null fields, empty sets and empty stores, without panicking."
-/
namespace StorageModel.Properties.C10
open StorageModel StorageModel.C10

/-! ## 2a. the reference lexer neither skips nor alters anything

  The four lexer theorems are proved for EVERY rule table (`lexWith rules`; the last one for
  every table satisfying the decidable predicate `GoodTable`) and then instantiated at `rules`,
  the table compiled from the regenerated grammar file (`Generated.C10.g4Rules`, i.e.
  zitiql/ZitiQl.g4 as it is now), for which `GoodTable` is established by `decide`. -/

/-- the grammar file was read completely and its lexer part compiles: every reference resolves
    (no recursion), every token has a name the model knows, and the resulting table has exactly one
    rule per token type in ANTLR's numbering, no rule matching the empty string, and outside
    STRING only characters of the recognised alphabet -/
theorem lexer_table_is_good :
    Generated.C10.g4Note = "" ∧ (G4.compileLexer Generated.C10.g4Rules).isSome = true ∧ GoodTable rules = true := by
  decide

/-- **lossless lexing**, any rule table: the token texts, concatenated, are the input. -/
theorem lex_lossless_any (tbl : List (TK × Pat)) (s : List Char) (ts : List Token) (h : lexWith tbl s = .ok ts) :
    (ts.map (·.text)).flatten = s :=
  (lexAuxWith_tokenises tbl _ _ _ _ h).flatten

theorem lex_lossless (s : List Char) (ts : List Token) (h : lex s = .ok ts) :
    (ts.map (·.text)).flatten = s := lex_lossless_any rules s ts h

/-- every token is non-empty and its text is matched by the grammar rule of its kind; in a good
    table that rule is unique -/
theorem lex_tokens_match_rules_any (tbl : List (TK × Pat)) (s : List Char) (ts : List Token)
    (h : lexWith tbl s = .ok ts) : Tokenises tbl s ts :=
  lexAuxWith_tokenises tbl _ _ _ _ h

theorem lex_tokens_match_rules (s : List Char) (ts : List Token) (h : lex s = .ok ts) :
    Tokenises rules s ts ∧ (∀ k p q, (k, p) ∈ rules → (k, q) ∈ rules → p = q) ∧ ∀ k, ∃ p, (k, p) ∈ rules :=
  ⟨lex_tokens_match_rules_any rules s ts h,
   fun _ _ _ hp hq => GoodTable.rule_unique lexer_table_is_good.2.2 hp hq,
   GoodTable.rule_exists lexer_table_is_good.2.2⟩

/-- a lexer error is reported at a position of the input where no rule matches a non-empty
    prefix (it is never an artefact of the fuel) -/
theorem lex_error_is_real_any (tbl : List (TK × Pat)) (s : List Char) (e : Nat) (h : lexWith tbl s = .error e) :
    ∃ pre rest, s = pre ++ rest ∧ rest ≠ [] ∧ e = pre.length ∧ ∀ kp ∈ tbl, longest kp.2 rest = none := by
  obtain ⟨pre, rest, h1, h2, h3, h4⟩ := lexAuxWith_error tbl (s.length + 1) s 0 e (by omega) h
  exact ⟨pre, rest, h1, h2, by omega, pickFrom_none rest tbl h4⟩

theorem lex_error_is_real (s : List Char) (e : Nat) (h : lex s = .error e) :
    ∃ pre rest, s = pre ++ rest ∧ rest ≠ [] ∧ e = pre.length ∧ pick rest = none ∧
      ∀ kp ∈ rules, longest kp.2 rest = none := by
  obtain ⟨pre, rest, h1, h2, h3, h4⟩ := lexAuxWith_error rules (s.length + 1) s 0 e (by omega) h
  exact ⟨pre, rest, h1, h2, by omega, h4, pickFrom_none rest rules h4⟩

/-- **unrecognised characters are rejected**, any good table: in an accepted input, a character
    outside the token alphabet (`@ # $ % ^ & * ; ~ { } | ?`, a back-quote, control characters,
    non-ASCII, …) can only occur inside a string literal; anywhere else it makes the lexer fail. -/
theorem lex_rejects_unrecognised_any (tbl : List (TK × Pat)) (hg : GoodTable tbl = true) (s : List Char)
    (ts : List Token) (h : lexWith tbl s = .ok ts) :
    ∀ t ∈ ts, t.kind ≠ .STRING → ∀ c ∈ t.text, recognised c = true :=
  (lexAuxWith_tokenises tbl _ _ _ _ h).recognised hg

theorem lex_rejects_unrecognised (s : List Char) (ts : List Token) (h : lex s = .ok ts) :
    ∀ t ∈ ts, t.kind ≠ .STRING → ∀ c ∈ t.text, recognised c = true :=
  lex_rejects_unrecognised_any rules lexer_table_is_good.2.2 s ts h

/-- non-vacuity / instances -/
example : (match lex "a = 1 @".toList with | .error e => e == 6 | .ok _ => false) = true := by decide
example : recognised '@' = false ∧ recognised '#' = false ∧ recognised ';' = false ∧ recognised '`' = false := by decide
/-- a table that is not good: the token order is wrong / a rule is missing -/
example : GoodTable (rules.drop 1) = false := by decide
example : GoodTable ((TK.STRING, Pat.eps) :: rules.drop 1) = false := by decide

/-! ## 2a'. the generated Go lexer and parser were generated from this grammar file -/

/-- the `serializedATN` of zitiql_lexer.go, decoded by the extractor, has — rule by rule — exactly
    the transition labels the grammar file's lexer rules give (after ANTLR's set merging), the rule
    names (fragments included) in file order, the token numbering and the literal / symbolic name
    tables of the grammar file -/
theorem lexer_atn_matches_grammar : G4.lexerAtnOk Generated.C10.g4Rules Generated.C10.lexerAtn = true := by decide

/-- the same for zitiql_parser.go: rule names in file order, `boolExpr` the only precedence
    (left-recursive) rule with predicates `6 >= _p` (and) / `5 >= _p` (or) and the `not` operand
    called at precedence 1, per rule the token / rule-call labels of the grammar file's parser rules -/
theorem parser_atn_matches_grammar : G4.parserAtnOk Generated.C10.g4Rules Generated.C10.parserAtn = true := by decide

/-- the generated files are the pinned ones (SHA-256 of zitiql_lexer.go / zitiql_parser.go, SHA-256
    over the serializedATN integers, their number, number of states and decisions): a regenerated or
    hand-edited lexer or parser breaks this obligation -/
theorem generated_code_is_pinned :
    atnPins Generated.C10.lexerAtn Generated.C10.parserAtn = expectedAtnPins := by decide

/-! ## 0. the regenerated facts are the ones the model was written against -/

/-- interfaces implemented by every node class of package ast, and their constant GetType():
    every type assertion of the model is a lookup in this table -/
theorem class_table_is_expected : Generated.C10.classTable = expectedClassTable := by decide

/-- the inventory of unchecked type assertions, pointer dereferences (with: is the pointer
    compared with nil in the function), constant indexes and slice expressions -/
theorem sites_are_expected : Generated.C10.partialSites = expectedSites := by decide

/-- zitiql.parse attaches the collecting error listener to BOTH lexer and parser -/
theorem wiring_is_expected : Generated.C10.wiring = expectedWiring := by decide

/-- the pooled parser's error listeners are removed before use on every path (debug or not) and
    again, deferred, after use -/
theorem pool_wiring_is_expected : Generated.C10.wiringPool = expectedWiringPool := by decide

/-- the callbacks ToBoltListener defines are the cases of the model's `step` -/
theorem callbacks_are_expected : Generated.C10.listenerCallbacks = expectedCallbacks := by decide

/-! ## 1a. the listener's stack machine -/

/-- **no panic on any callback sequence of an ANTLR walk** — complete derivations and
    error-recovered trees alike: array contexts contain only element terminals (`clean`). -/
theorem listener_no_panic (evs : List Ev) (h : clean false evs = true) : (listen evs).isPanic = false :=
  listen_isPanic evs (run_no_panic_aux evs false .init h (by intro h; cases h))

/-- the hypothesis is not vacuous, and without it the Go code does panic: a marker value inside
    an array group reaches `node.GetType()` with `node == nil` -/
example : clean false [.term .IDENTIFIER ['a'], .term .IN ['i', 'n'], .eSA, .term .STRING ['"', 'x', '"'], .xSA, .xIn, .xQ] = true := by decide
example : (listen [.eSA, .term .EQ ['='], .xSA]).isPanic = true := by decide

/-- **on every complete derivation** the walk yields exactly the query the derivation denotes, or
    latches an error (a literal is refused: number out of range, impossible date, non-integer
    skip/limit, a sub-query without predicate) -/
theorem listener_builds_query (t : StartTree) (h : t.wf = true) :
    listen t.events = (match t.build with
      | some u => .ok u
      | none => .err "listener error") ∧
    ∀ u, t.build = some u → shQuery u = true := by
  refine ⟨listen_tree t h, ?_⟩
  intro u hu
  simp only [StartTree.wf, Bool.and_eq_true] at h
  exact query_shaped t.q h.1.2 u hu

theorem listener_no_panic_on_trees (t : StartTree) (h : t.wf = true) : (listen t.events).isPanic = false := by
  rw [(listener_builds_query t h).1]; cases t.build <;> rfl

/-! ## 2b. the reference recogniser accepts only sentences -/

/-- an accepted token list is the yield of a well-formed derivation of `start` -/
theorem parse_sound (ts : List Token) (t : StartTree) (h : parseStart ts = some t) :
    t.yield = ts ∧ t.wf = true := parseStart_sound ts t h

/-- **accepted strings are sentences**: the string splits, without loss, into tokens matched by
    the lexer rules, and these tokens are the frontier of a derivation of the grammar.  So text
    that is not a sentence — in particular text with a character no token admits — is rejected. -/
theorem accepts_sound (s : List Char) (h : accepts s = true) :
    ∃ (ts : List Token) (t : StartTree), Tokenises rules s ts ∧ (ts.map (·.text)).flatten = s ∧ t.yield = ts ∧ t.wf = true := by
  unfold accepts at h
  cases hl : lex s with
  | error e => simp [hl] at h
  | ok ts =>
    simp only [hl] at h
    cases hp : parseStart ts with
    | none => simp [hp] at h
    | some t =>
      have ht := lexAuxWith_tokenises rules _ _ _ _ hl
      exact ⟨ts, t, ht, ht.flatten, (parseStart_sound ts t hp).1, (parseStart_sound ts t hp).2⟩

/-- the parser rules of the regenerated grammar file are the ones the derivation trees, `wf` and
    the recogniser were written against -/
theorem parser_rules_are_expected : G4.parserRules Generated.C10.g4Rules = expectedParserRules := by decide

/-- **accepted strings are sentences of zitiql/ZitiQl.g4 as it is now**: the token kinds of an
    accepted string are derived from `start` in the parser rules read from the grammar file
    (relation `G4.Derives`: sequences, alternatives, `?` `*` `+`, rule and token references taken
    literally from the file), and the tokens themselves are matched by the lexer rules compiled from
    the same file (`lex_tokens_match_rules`). -/
theorem accepted_is_g4_sentence (s : List Char) (h : accepts s = true) :
    ∃ ts : List Token, lex s = .ok ts ∧ Tokenises rules s ts ∧
      G4.Sentence (G4.parserRules Generated.C10.g4Rules) (ts.map (·.kind)) := by
  unfold accepts at h
  cases hl : lex s with
  | error e => simp [hl] at h
  | ok ts =>
    simp only [hl] at h
    cases hp : parseStart ts with
    | none => simp [hp] at h
    | some t =>
      obtain ⟨hy, hwf⟩ := parseStart_sound ts t hp
      refine ⟨ts, rfl, lexAuxWith_tokenises rules _ _ _ _ hl, ?_⟩
      rw [parser_rules_are_expected, ← hy]
      exact d_start t hwf

/-- **the reference recogniser accepts exactly the sentences of zitiql/ZitiQl.g4 as it is now**: a
    string is accepted iff it lexes (with the rule table compiled from the grammar file) to tokens
    whose kinds are derived from `start` in the parser rules read from the grammar file.  Both
    directions, all strings: `→` is `accepted_is_g4_sentence`; `←` turns a derivation in the
    grammar's rules into a well-formed derivation tree (`sentence_has_tree`: every rule of the file,
    read as a statement about token lists, yields the tree of its nonterminal) and then uses
    `parse_complete`. -/
theorem accepts_iff_g4 (s : List Char) :
    accepts s = true ↔
      ∃ ts : List Token, lex s = .ok ts ∧ G4.Sentence (G4.parserRules Generated.C10.g4Rules) (ts.map (·.kind)) := by
  constructor
  · intro h
    obtain ⟨ts, hl, _, hs⟩ := accepted_is_g4_sentence s h
    exact ⟨ts, hl, hs⟩
  · rintro ⟨ts, hl, hs⟩
    rw [parser_rules_are_expected] at hs
    obtain ⟨t, hy, hwf⟩ := sentence_has_tree ts hs
    unfold accepts
    rw [hl, ← hy]
    exact parseStart_complete t hwf

/-- non-vacuity: a derivation exists, and the relation is not trivially true -/
example : G4.Sentence expectedParserRules [.IDENTIFIER, .WS, .EQ, .WS, .NUMBER] :=
  d_start ⟨[], .pred (.binary (.ident ⟨.IDENTIFIER, ['a']⟩) [⟨.WS, [' ']⟩] ⟨.EQ, ['=']⟩ [⟨.WS, [' ']⟩] ⟨.NUMBER, ['1']⟩) ⟨none, none, none⟩, []⟩
    (by decide)

/-- **every sentence is accepted** (completeness of the deterministic, greedy descent, and adequacy
    of its fuel `2·|tokens| + 4`): the yield of every well-formed derivation of `start` — whatever
    its shape: left- or right-nested `and`/`or` chains, `not` in the middle of a chain — is accepted
    (the tree found is in general a different derivation of the same token list). -/
theorem parse_complete (t : StartTree) (h : t.wf = true) : (parseStart t.yield).isSome = true :=
  parseStart_complete t h

/-- the full statement of the recogniser's correctness: accepted exactly the sentences -/
def accepts_iff_fullStatement : Prop :=
  ∀ s : List Char, accepts s = true ↔
    ∃ (ts : List Token) (t : StartTree), lex s = .ok ts ∧ t.yield = ts ∧ t.wf = true

/-- **the reference recogniser accepts exactly the sentences**: both directions, all strings -/
theorem accepts_iff : accepts_iff_fullStatement := by
  intro s
  constructor
  · intro h
    unfold accepts at h
    cases hl : lex s with
    | error e => simp [hl] at h
    | ok ts =>
      simp only [hl] at h
      cases hp : parseStart ts with
      | none => simp [hp] at h
      | some t => exact ⟨ts, t, rfl, (parseStart_sound ts t hp).1, (parseStart_sound ts t hp).2⟩
  · rintro ⟨ts, t, hl, hy, hwf⟩
    unfold accepts
    rw [hl, ← hy]
    exact parseStart_complete t hwf

/-- non-vacuity of the completeness direction: a left-nested chain with a `not` in the middle, which
    the recogniser re-associates -/
example : (parseStart (StartTree.mk [] (.pred (.and (.not ⟨.NOT, ['n','o','t']⟩ [⟨.WS, [' ']⟩] (.symbol ⟨.IDENTIFIER, ['a']⟩))
    [⟨.WS, [' ']⟩] ⟨.AND, ['a','n','d']⟩ [⟨.WS, [' ']⟩] (.symbol ⟨.IDENTIFIER, ['b']⟩)) ⟨none, none, none⟩) []).yield).isSome = true := by
  decide

example : accepts "a = 1 @".toList = false := by decide
example : accepts "a = 1".toList = true := by decide

/-! ## 1b. symbol validation and type transformation -/

/-- **typing never panics**: for every symbol table and every untyped query the grammar admits
    (any operand mix), PostProcess returns a typed query or an error, and a returned query is
    well typed -/
theorem transform_no_panic (st : SymTab) (u : U) (h : shQuery u = true) :
    (postProcess st u).isPanic = false ∧ ∀ t, postProcess st u = .ok t → okBool t = true := by
  have hv := (validate_ok u).1 ((sh_vShape u).2.2.2.2 h) ⟨false, st, false, [], none⟩ (Or.inr rfl)
  obtain ⟨v', hv', _⟩ := hv
  have hcls : impl u.cls .BoolTypeTransformable = true := by
    cases u <;> simp [shQuery] at h; simp [U.cls]
  have ht := (transform_good u).2.2.2.2 h st
  unfold postProcess
  rw [hv']
  simp only [Outcome.bind_ok, hcls, if_true]
  by_cases he : v'.err = true
  · simp only [he, if_true]; exact ⟨rfl, by intro t h'; cases h'⟩
  · simp only [he, Bool.false_eq_true, if_false]
    cases hx : typeTransformBool st u with
    | ok t =>
      have hok := ht.2 t hx
      simp only [Outcome.bind_ok]
      split
      · exact ⟨rfl, by intro t' h'; cases h'; exact hok.1⟩
      · exact ⟨rfl, by intro t' h'; cases h'⟩
    | err e => exact ⟨rfl, by intro t h'; cases h'⟩
    | panic p => rw [hx] at ht; exact absurd ht.1 (by simp [NP, Outcome.isPanic])

/-! ## 1c. evaluation -/

/-- **evaluation never panics**: a query that parsed can be evaluated against any row — null
    fields, empty sets, no linked rows — in any state of the Symbols' set cursors, with seekable or
    plain cursors -/
theorem eval_no_panic (st : SymTab) (u : U) (h : shQuery u = true) (t : T) (ht : postProcess st u = .ok t)
    (seekable : Bool) (env : Env) : (evalBool seekable env t).isPanic = false :=
  (eval_np t).1 ((transform_no_panic st u h).2 t ht) seekable env

/-! ## the whole pipeline, for every input string -/

/-- **ast.Parse is total and what it returns can always be evaluated**: for every string, every
    symbol table and every dataset -/
theorem pipeline_total (st : SymTab) (s : List Char) :
    (parseModel st s).isPanic = false ∧
    ∀ t, parseModel st s = .ok t → ∀ (seekable : Bool) (env : Env), (evalBool seekable env t).isPanic = false := by
  unfold parseModel
  split
  · refine ⟨rfl, ?_⟩
    intro t ht sk env; cases ht
    exact (eval_np _).1 rfl sk env
  · cases hl : lex s with
    | error e => exact ⟨rfl, by intro t h; cases h⟩
    | ok ts =>
      simp only
      cases hp : parseStart ts with
      | none => exact ⟨rfl, by intro t h; cases h⟩
      | some tree =>
        simp only
        obtain ⟨_, hwf⟩ := parseStart_sound ts tree hp
        obtain ⟨hlisten, hshape⟩ := listener_builds_query tree hwf
        rw [hlisten]
        cases hb : tree.build with
        | none => exact ⟨rfl, by intro t h; cases h⟩
        | some u =>
          simp only
          have hu := hshape u hb
          exact ⟨(transform_no_panic st u hu).1, fun t ht sk env => eval_no_panic st u hu t ht sk env⟩

/-! ## 1e. the bolt-backed Symbols (boltz/query_cursor.go) -/

/-- reading any symbol through `rowCursorImpl.IsNil` (and likewise `Eval*`) never panics: plain
    fields, set symbols with or without an open cursor, unknown symbols, and — since fix 4e2e9ce —
    dotted set symbols that are read before a set function has opened a cursor on them
    (`count(kids.ss) = null`, `count(from kids where kids.ss = "x") > 0`) -/
theorem bolt_symbols_no_panic (s : Option BoltSym) : (rowIsNil s).isPanic = false := by
  cases s with
  | none => rfl
  | some b =>
    cases b with
    | field v => rfl
    | setRuntime v => rfl
    | composite c => cases c <;> rfl

/-- the case of the former finding: no cursor, reported as nil -/
example : rowIsNil (some (.composite none)) = .ok true := rfl

/-! ## 1f. sorting and paging in the store (boltz/store_query.go, query_scanners.go, query_sort.go) -/

/-- **a sort clause and skip / limit never make the store panic**: for every list of sort fields
    (unknown names, map elements, set symbols, symbols of a type no comparator exists for, more
    than `SortMax` fields, duplicates, `id` anywhere), every optional skip / limit (negative, huge),
    and every pair of rows whose values were written through the TypedBucket setters — null, of the
    symbol's type or of any other type —: choosing the scanner, building the row comparator (or
    refusing the sort field with an error), computing the paging window and comparing the two rows
    all end without panic. -/
theorem bolt_sort_no_panic (fields : List (SortSym × Bool)) (idView : List (Bool × Bool)) (skip limit : Option Int) :
    (newScanner idView).isPanic = false ∧ (setPaging skip limit).isPanic = false ∧
    (newRowComparator fields).isPanic = false ∧
    ∀ (l : List (CmpKind × Bool × Stored × Stored × Bool × Bool)),
      (∀ x ∈ l, x.2.2.1.wellFormed = true ∧ x.2.2.2.1.wellFormed = true) → (rowCompare l).isPanic = false :=
  ⟨newScanner_np idView, setPaging_np skip limit, newRowComparator_np fields, rowCompare_np⟩

/-- the hypothesis on stored values is needed, and only for string symbols: `FieldToString`
    dereferences the result of `FieldToBool` / `FieldToInt64` / `FieldToFloat64` unchecked, which is
    nil for a payload of the wrong length (no setter writes one) -/
example : (rowCompare [(.string, true, ⟨.bool, 0, true⟩, ⟨.string, 1, true⟩, false, false)]).isPanic = true := by decide
example : (rowCompare [(.string, true, ⟨.int64, 8, true⟩, ⟨.nil, 0, true⟩, false, false),
    (.bool, false, ⟨.string, 3, true⟩, ⟨.bool, 1, true⟩, true, false)]).isPanic = false := by decide
/-- null on either side, both sides, neither side -/
example : compareNillable none (some ()) false false true = .ok (-1) ∧ compareNillable (some ()) none false false true = .ok 1 ∧
    compareNillable none none false false false = .ok 0 ∧ compareNillable (some ()) (some ()) false true false = .ok (-1) :=
  ⟨rfl, rfl, rfl, rfl⟩

/-! ## 1g. objectz: the in-memory object store (objectz/object_store.go, object_cursor.go, object_store_sort.go) -/

/-- the full statement for objectz: a scan never panics, whatever the store's iterator function
    returns — nil ("nothing to iterate") included.  `nilTestFirst` is the order of the nil test and
    the first use of the iterator in `memSortingScanner.Scan`; the code's order is regenerated as
    `Generated.C10.objScanNilTestFirst`. -/
def objectz_scan_fullStatement (nilTestFirst : Bool) : Prop :=
  ∀ (skip limit : Option Int) (fields : List (Option ObjSymClass × Bool)) (cursor : Option Unit),
    (objScanPrologue nilTestFirst skip limit fields cursor).isPanic = false

/-- the order the code has (since fix bbcb51c): the iterator is compared with nil before its first use -/
theorem objectz_scan_order_is_repaired : Generated.C10.objScanNilTestFirst = true := by decide

/-- **objectz never panics while setting up and ordering a scan — the full statement, for the code as
    it is**: for every skip / limit, every list of sort fields (registered symbols of the five
    classes or unknown names, any number, duplicates) and EVERY iterator the store's iterator
    function may return — nil, empty or not —, `memSortingScanner.Scan` reaches its loop (or returns
    "nothing") without panic, an unknown sort field being an error; comparing two objects on a field
    never panics whichever of the two values is a nil pointer; `ObjectCursor.eval` does not panic on
    a registered name (the only names a query typed against the same store contains). -/
theorem objectz_scan_no_panic :
    objectz_scan_fullStatement Generated.C10.objScanNilTestFirst ∧
    (∀ (s1 s2 : Option Unit) (lt gt forward : Bool), (compareNillable s1 s2 lt gt forward).isPanic = false) ∧
    (objEval true).isPanic = false := by
  refine ⟨?_, compareNillable_np, rfl⟩
  rw [objectz_scan_order_is_repaired]
  exact fun skip limit fields cursor => objScanPrologue_np true skip limit fields cursor (.inl rfl)

/-- the model follows the code in either order: the full statement holds exactly for "nil test first" -/
theorem objectz_scan_follows_code :
    (Generated.C10.objScanNilTestFirst = true → objectz_scan_fullStatement Generated.C10.objScanNilTestFirst) ∧
    (Generated.C10.objScanNilTestFirst = false → ¬ objectz_scan_fullStatement Generated.C10.objScanNilTestFirst) := by
  constructor
  · intro h; rw [h]
    exact fun skip limit fields cursor => objScanPrologue_np true skip limit fields cursor (.inl rfl)
  · intro h; rw [h]
    intro hf
    have := hf none none [] none
    revert this
    decide

/-- the defect repaired by bbcb51c (replay `O noiter true`): with `cursor.Current()` BEFORE the nil
    test a nil iterator panics, whatever the query -/
example : (objScanPrologue false none none [] none).isPanic = true := by decide
example : (objScanPrologue true none none [] none).isPanic = false := by decide

/-- and an unregistered name reaching `ObjectCursor.eval` (a query typed against another symbol
    table) is a call on a nil interface -/
example : (objEval false).isPanic = true := rfl
example : (objScanPrologue false (some (-5)) (some 9223372036854775807) [(some .string, true), (none, false)] (some ())).isPanic = false := by decide

/-! ## 1h. histories of ast.Parse calls: a result depends on its own text only (C10/Session.lean) -/

/-- what the property demands of a process that parses one filter after another: whatever listener
    state the earlier calls left behind (`found`), whatever symbol table each call uses, and whatever
    callback sequences ANTLR's walks of the error-recovered trees of the rejected texts consisted of,
    every call answers exactly as it would have answered alone -/
def parse_history_fullStatement (perCall : Bool) : Prop :=
  ∀ (found : LState) (h : List Call), parseHistory perCall found h = standalone h

/-- ast.Parse as it is: the listener is constructed inside the call (`listener := NewListener()`,
    fresh stacks, no error) and reaches zitiql.Parse from nowhere else -/
theorem parse_listener_is_per_call : Generated.C10.astParseListenerPerCall = true := by decide

/-- **no call of ast.Parse is altered by the calls before it — the full statement, for the code as
    it is**: for every history of calls (sentences, non-sentences whose recovered trees were walked by
    the listener, listener errors, typing errors, the empty filter), over any symbol tables, the
    i-th result is `parseModel` of the i-th text; in particular (with `pipeline_total`) no call
    panics and what a call returns can be evaluated. -/
theorem parse_history_independent : parse_history_fullStatement Generated.C10.astParseListenerPerCall := by
  rw [parse_listener_is_per_call]
  exact parseHistory_perCall

/-- the model follows the code either way: the full statement holds exactly when the listener is
    constructed per call.  With a listener that outlives its call (pooled, package-level, …) and is
    reused as it was left, the history `true )` (rejected: ANTLR drops the `)`, the recovered tree is
    walked — BOOL, ExitQueryStmt —, its query node stays on the operand stack because getQuery, which
    would pop it, is not reached when there are syntax errors), then `limit 5`, is answered with a query
    whose predicate is that stale node instead of match-all (`Session.leak_history`). -/
theorem parse_history_follows_code :
    (Generated.C10.astParseListenerPerCall = true → parse_history_fullStatement Generated.C10.astParseListenerPerCall) ∧
    (Generated.C10.astParseListenerPerCall = false → ¬ parse_history_fullStatement Generated.C10.astParseListenerPerCall) := by
  constructor
  · intro h; rw [h]; exact parseHistory_perCall
  · intro h; rw [h]
    exact fun hf => leak_history (hf .init leakHistory)

/-- the leak, call by call: what the rejected text leaves behind, and what `limit 5` then becomes -/
example : (parseCall false .init noSymbols "true )".toList [.term .BOOL "true".toList, .xQ]).2 = staleState := leak_leftover
example : (parseCall false staleState noSymbols "limit 5".toList []).1
    = .ok (.query (.query (.boolC true) none none none) none none (some 5)) := leak_second_call
example : parseModel noSymbols "limit 5".toList = .ok (.query (.boolC true) none none (some 5)) := alone_second_call
/-- a stale latch leaks too: every later sentence fails -/
example : traces (parseHistory false ⟨[], [], true⟩ [⟨noSymbols, "true".toList, []⟩]) = [["err", "listener"]] := by decide
/-- and the listener state a call finds is irrelevant when the listener is constructed per call -/
example : (parseCall true ⟨[], [], true⟩ noSymbols "true".toList []).1 = parseModel noSymbols "true".toList :=
  parseCall_perCall _ _ _ _

/-! ## 1d. the tree-set cursor (ast/cursors.go, shared with C14) -/

/-- **any tree, also the empty one, any number of extra Next calls**: the cursor script yields
    exactly the in-order elements and then stays invalid. -/
theorem tree_cursor_enumerates (t : LTree) (extra : Nat) :
    tcScript t extra = .ok (t.inorder, List.replicate extra false) := by
  obtain ⟨c, hnew, hrem, hgood⟩ := tcNew_spec t
  obtain ⟨c', hdrain, hgood', hv⟩ := tcDrain_spec (t.size + 1) c hgood (by rw [hrem, inorder_length]; omega)
  simp only [tcScript, hnew, hdrain, tcExtra_spec extra c' hgood' hv, hrem]

theorem tree_cursor_no_panic (t : LTree) (extra : Nat) : (tcScript t extra).isPanic = false := by
  rw [tree_cursor_enumerates]; rfl

/-- the empty tree (the input of fix 9437023) -/
example : tcScript .nil 2 = .ok ([], [false, false]) := rfl


/-! ### 1i. read APIs against a database file in which structural buckets were never created -/

/-- table obligation: in the regenerated inventory of members selected on possibly-nil buckets (read path of boltz)
    every site is guarded by a nil test, and the nil-safe getters are the ones the model relies on -/
theorem bucket_sites_are_guarded : codeGuards = Guards.all := by decide +kernel

/-- ∀ read API (QueryIdsC, QueryWithCursorC with a nil / empty / non-empty provider cursor, IterateIds,
    IterateValidIds, FindById, GetRelatedEntitiesIdList / Cursor, unique and set index Read), ∀ combinations of
    existing / never-created structural buckets, ∀ queries (any sort fields, skip, limit), root / child / extended
    child store: no panic; and when the bucket the API starts from does not exist the answer has no rows -/
theorem scan_no_panic_missing_buckets (api : Api) (b : Buckets) (q : Q) :
    (readApi codeGuards api b q).isPanic = false ∧
    (api.missing b = true → (readApi codeGuards api b q).rows = false) := by
  rw [bucket_sites_are_guarded]
  exact ⟨readApi_np api b q, readApi_missing_is_empty api b q⟩

/-- the model follows the code either way: all sites guarded → the full statement; a `Scan` that selects
    `OpenCursor` on the entities bucket without a nil test → every query panics on a never-written store -/
theorem scan_follows_code :
    (∀ api b q, (readApi Guards.all api b q).isPanic = false) ∧
    (∀ g : Guards, g.scanUnique = false → ∀ (b : Buckets) (q : Q), b.entities = false → q.sort = [] →
      (readApi g .queryIdsC b q).isPanic = true) :=
  ⟨readApi_np, fun g hg b q hb hq => unguarded_scan_panics g b q hg hb hq⟩

example : (readApi ⟨false, true, true, true, true, true, true⟩ .queryIdsC ⟨false, false, false, false, false⟩
    ⟨[], [], none, none, false, false⟩).isPanic = true := by decide +kernel

/-! ### 1j. process-wide configuration -/

/-- table obligation: the debug branch of ast.Parse reads only the parameters of Parse -/
theorem debug_branch_reads_only_input : Generated.C10.astParseDebugReadsOnlyInput = true := by decide

/-- ∀ configurations, symbol tables, strings: the verdict of ast.Parse (typed query / which error / no panic) does
    not depend on `EnableQueryDebug`; hence `pipeline_total` holds under every configuration -/
theorem parse_config_independent (cfg : Config) (st : SymTab) (s : List Char) :
    parseModelCfg Generated.C10.astParseDebugReadsOnlyInput cfg st s = parseModel st s := by
  rw [debug_branch_reads_only_input]; exact parseModelCfg_independent cfg st s

/-- the model follows the code either way: a debug branch that reads the result panics, under the debug
    configuration only, on every filter refused after the syntax check -/
theorem parse_config_follows_code :
    (∀ cfg st s, parseModelCfg true cfg st s = parseModel st s) ∧
    (∀ st s e, parseModel st s = .err e → (e == "syntax") = false →
      (parseModelCfg false ⟨true⟩ st s).isPanic = true ∧ parseModelCfg false ⟨false⟩ st s = .err e) :=
  ⟨parseModelCfg_independent, parseModelCfg_leaks⟩

end StorageModel.Properties.C10

#print axioms StorageModel.Properties.C10.class_table_is_expected
#print axioms StorageModel.Properties.C10.sites_are_expected
#print axioms StorageModel.Properties.C10.wiring_is_expected
#print axioms StorageModel.Properties.C10.callbacks_are_expected
#print axioms StorageModel.Properties.C10.pool_wiring_is_expected
#print axioms StorageModel.Properties.C10.listener_no_panic
#print axioms StorageModel.Properties.C10.listener_builds_query
#print axioms StorageModel.Properties.C10.listener_no_panic_on_trees
#print axioms StorageModel.Properties.C10.parse_sound
#print axioms StorageModel.Properties.C10.accepts_sound
#print axioms StorageModel.Properties.C10.parse_complete
#print axioms StorageModel.Properties.C10.accepts_iff
#print axioms StorageModel.Properties.C10.transform_no_panic
#print axioms StorageModel.Properties.C10.eval_no_panic
#print axioms StorageModel.Properties.C10.pipeline_total
#print axioms StorageModel.Properties.C10.bolt_symbols_no_panic
#print axioms StorageModel.Properties.C10.bolt_sort_no_panic
#print axioms StorageModel.Properties.C10.objectz_scan_order_is_repaired
#print axioms StorageModel.Properties.C10.objectz_scan_no_panic
#print axioms StorageModel.Properties.C10.objectz_scan_follows_code
#print axioms StorageModel.Properties.C10.tree_cursor_enumerates
#print axioms StorageModel.Properties.C10.tree_cursor_no_panic
#print axioms StorageModel.Properties.C10.lexer_table_is_good
#print axioms StorageModel.Properties.C10.lexer_atn_matches_grammar
#print axioms StorageModel.Properties.C10.parser_atn_matches_grammar
#print axioms StorageModel.Properties.C10.generated_code_is_pinned
#print axioms StorageModel.Properties.C10.parser_rules_are_expected
#print axioms StorageModel.Properties.C10.accepted_is_g4_sentence
#print axioms StorageModel.Properties.C10.accepts_iff_g4
#print axioms StorageModel.Properties.C10.lex_lossless_any
#print axioms StorageModel.Properties.C10.lex_tokens_match_rules_any
#print axioms StorageModel.Properties.C10.lex_error_is_real_any
#print axioms StorageModel.Properties.C10.lex_rejects_unrecognised_any
#print axioms StorageModel.Properties.C10.lex_lossless
#print axioms StorageModel.Properties.C10.lex_tokens_match_rules
#print axioms StorageModel.Properties.C10.lex_error_is_real
#print axioms StorageModel.Properties.C10.lex_rejects_unrecognised
#print axioms StorageModel.Properties.C10.parse_listener_is_per_call
#print axioms StorageModel.Properties.C10.parse_history_independent
#print axioms StorageModel.Properties.C10.parse_history_follows_code
#print axioms StorageModel.Properties.C10.bucket_sites_are_guarded
#print axioms StorageModel.Properties.C10.scan_no_panic_missing_buckets
#print axioms StorageModel.Properties.C10.scan_follows_code
#print axioms StorageModel.Properties.C10.debug_branch_reads_only_input
#print axioms StorageModel.Properties.C10.parse_config_independent
#print axioms StorageModel.Properties.C10.parse_config_follows_code
