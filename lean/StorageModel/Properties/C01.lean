import StorageModel.Filter.DbProofs
/-
  C01 — Filter evaluation returns exactly the entities satisfying the predicate.

  "For every stored dataset and every well-typed filter, a query returns exactly the ids of the
  entities that satisfy the filter under the documented semantics: typed comparisons (=, !=, <, <=,
  >, >=, in, between with inclusive lower and exclusive upper bound, contains, icontains and their
  negations) with int-to-float and number-to-string coercion, null operands making every comparison
  false except != and the negated forms, boolean connectives, and anyOf/allOf/count/isEmpty over
  direct sets, dotted (linked) symbols, map fields and sub-queries. No matching entity is omitted and
  no non-matching entity is returned, and the answer never depends on which internal shortcut (for
  example an index seek instead of a scan) the engine happens to take."

  Model (executable, follows the Go code branch by branch):
    Filter/Syntax     the untyped tree of ast/bolt_listener.go, the typed node classes
    Filter/Transform  SymbolValidator + node_convert.go (getTypedExpr, handle*Ops, handleCaseInsensitive,
                      InArray/Between getTypedExpr, SetFunctionNode.TypeTransform/MoveUpTree/specializeSetAnyOf)
    Filter/Eval       EvalBool/EvalString/EvalInt64/EvalFloat64/EvalDatetime of every node class, the seek
                      shortcut, the paging scanner of sub-queries, over an abstract ast.Symbols (`World`)
    Filter/Basic      stored values and the FieldTo* coercions
    Filter/Db         stores, GetSymbol / createCompositeEntitySymbol, symbol evaluation on rows, the
                      stacked cursor, sub-query rows, Store.QueryIds (`modelWorld`, `query`) and the path
                      semantics of dotted symbols (`specWorld`, `specQuery`)
  Spec: Filter/Spec (`sat`, `wellTyped`).

  All theorems hold for every symbol-table family `Sigma T`, every `World C F`, every `FloatOps F`.
-/
namespace StorageModel.Properties.C01
open StorageModel StorageModel.Filter

variable {C F T : Type}

/-- **Every well-typed filter is accepted**: symbol validation passes and the type transformation
    produces a BoolNode — no error, no panic. -/
theorem transform_total (sg : Sigma T) (fo : FloatOps F) (t : T) (f : U F)
    (h : wellTyped sg fo t f = true) : ∃ p, typeCheck sg fo t f = .ok p := by
  let w : World Empty F := { val := fun c _ => c.elim, elems := fun c _ => c.elim,
                              seekable := fun c _ => c.elim, subRows := fun c _ => c.elim,
                              nilRow := fun c => c.elim }
  obtain ⟨p, hp, hb, _⟩ := (refine_main sg w fo (fun c => c.elim) f t).1 h
  refine ⟨p, ?_⟩
  have hv := (validate_ok sg fo f t).1 h false
  unfold typeCheck
  cases hvv : validate sg t false f with
  | none => simp [hvv] at hv
  | some _ => simp [asBool, hp, hb]

/-- **Refinement (the headline theorem)**: for every well-typed filter, on every row, the typed tree
    the engine builds evaluates to exactly what the specification says — provided every seekable
    cursor ranges over a sorted string bucket (`SeekOK`, true of every bbolt bucket of strings). -/
theorem eval_refines_sat (sg : Sigma T) (w : World C F) (fo : FloatOps F) (hw : SeekOK w)
    (t : T) (f : U F) (h : wellTyped sg fo t f = true)
    (p : TNode F) (hp : typeCheck sg fo t f = .ok p) (c : C) :
    evalRow w fo c p = sat sg w fo t c f := by
  obtain ⟨p', hp', hbool, he⟩ := (refine_main sg w fo hw f t).1 h
  have hv := (validate_ok sg fo f t).1 h false
  unfold typeCheck at hp
  cases hvv : validate sg t false f with
  | none => simp [hvv] at hv
  | some _ =>
    simp [hvv, asBool, hp', hbool] at hp
    subst hp
    exact he c

/-- **The seek shortcut never changes an answer**: positioning a cursor at the first key ≥ the
    compared string and testing only that element equals scanning the whole (sorted, duplicate free,
    string) bucket for an equal element. -/
theorem seek_eq_scan (fo : FloatOps F) (es : List (SVal F)) (v : Bytes) (h : SortedStrs es) :
    (match seekTo es v with
     | some e => e.toStr fo == some v
     | none => false) = es.any (fun e => e.toStr fo == some v) := by
  obtain ⟨ss, rfl, hss⟩ := h
  have := seek_any fo v (fun e => e.toStr fo == some v) (by intro s; simp [SVal.toStr]) ss hss
  exact this

/-- non-vacuity of `SortedStrs` -/
example : SortedStrs (F := Float) [.str [97], .str [97, 98], .str [98]] :=
  ⟨[[97], [97, 98], [98]], rfl, by decide⟩

/-- the world with every cursor demoted to a plain (non-seekable) one -/
def noSeek (w : World C F) : World C F := { w with seekable := fun _ _ => false }

theorem sat_noSeek (sg : Sigma T) (w : World C F) (fo : FloatOps F) :
    ∀ (f : U F) (t : T) (c : C), sat sg (noSeek w) fo t c f = sat sg w fo t c f ∧
      lhsDen sg (noSeek w) fo t c f = lhsDen sg w fo t c f := by
  intro f
  induction f with
  | sym n => intro t c; simp [sat, lhsDen, noSeek]
  | setFn fn n => intro t c; cases fn <;> simp [sat, lhsDen, noSeek]
  | setFnSub fn n q sk li ih =>
    intro t c
    have : ∀ t', (fun c' => sat sg (noSeek w) fo t' c' q) = (fun c' => sat sg w fo t' c' q) :=
      fun t' => funext fun c' => (ih t' c').1
    cases fn <;> cases hst : sg.setTypes t n <;> simp [sat, lhsDen, hst, this] <;> simp [noSeek, liveRows]
  | boolC b => intro t c; simp [sat, lhsDen]
  | cmp op l r ih => intro t c; simp [sat, lhsDen, (ih t c).2]
  | inArr l arr ih => intro t c; simp [sat, lhsDen, (ih t c).2]
  | between l lo hi ih => intro t c; simp [sat, lhsDen, (ih t c).2]
  | notE e ih => intro t c; simp [sat, lhsDen, (ih t c).1]
  | unot e ih => intro t c; simp [sat, lhsDen, (ih t c).1]
  | logic o l r ihl ihr => intro t c; simp [sat, lhsDen, (ihl t c).1, (ihr t c).1]

/-- **The answer does not depend on the shortcut**: evaluating with seekable cursors and with plain
    cursors gives the same value, for every well-typed filter on every row. -/
theorem query_shortcut_free (sg : Sigma T) (w : World C F) (fo : FloatOps F) (hw : SeekOK w)
    (t : T) (f : U F) (h : wellTyped sg fo t f = true)
    (p : TNode F) (hp : typeCheck sg fo t f = .ok p) (c : C) :
    evalRow w fo c p = evalRow (noSeek w) fo c p := by
  rw [eval_refines_sat sg w fo hw t f h p hp c,
      eval_refines_sat sg (noSeek w) fo (fun c n hs => by simp [noSeek] at hs) t f h p hp c,
      (sat_noSeek sg w fo f t c).1]

/-- **Sub-query counts are exact**: the paging scanner behind `count(from s where q skip k limit m)`
    yields exactly as many rows as "drop the null links, filter, drop k, take m" keeps. -/
theorem subquery_count_exact (m nil : C → Bool) (skip limit : Option Int) (rows : List C) :
    scanCount m nil (pagingOffset skip) (pagingLimit limit) rows 0 0 =
      (paged skip limit ((rows.filter fun r => !nil r).filter m)).length :=
  scanCount_paged m nil skip limit rows

/-- **Null rules of the specification** (and hence, by `eval_refines_sat`, of the engine): with a
    null left operand and a non-null literal, a well-typed comparison — bool comparisons included —
    is true exactly for `!=`, `not contains` and `not icontains`. -/
theorem null_rules (fo : FloatOps F) (τ : NodeType) (op : Op) (r : Lit F) (hr : r ≠ .null)
    (h : okCmp τ true op r = true) :
    satCmp fo τ op .nil r = decide (op = .ne ∨ op = .ncontains ∨ op = .nicontains) := by
  cases τ <;> cases op <;> cases r <;>
    simp_all [okCmp, cmpType, satCmp, withNull, SVal.toBool, SVal.toInt, SVal.toFloat, SVal.toTime, SVal.toStr,
      readStr, readFloat, litBool, litTime, litInt, litFloat, litStr]

/-- the same null rules for the engine itself: a well-typed comparison of a symbol whose stored value
    is nil (`flag = false`, `n < 3`, `name contains "x"`, ...) evaluates to true exactly for `!=`,
    `not contains` and `not icontains` -/
theorem engine_null_rules (sg : Sigma T) (w : World C F) (fo : FloatOps F) (hw : SeekOK w)
    (t : T) (n : String) (op : Op) (r : Lit F) (hr : r ≠ .null)
    (h : wellTyped sg fo t (.cmp op (.sym n) r) = true)
    (p : TNode F) (hp : typeCheck sg fo t (.cmp op (.sym n) r) = .ok p) (c : C) (hnil : w.val c n = .nil) :
    evalRow w fo c p = decide (op = .ne ∨ op = .ncontains ∨ op = .nicontains) := by
  rw [eval_refines_sat sg w fo hw t _ h p hp c]
  simp only [sat, lhsDen, LhsDen.holds, hnil]
  have hok : okCmp (symType sg t n) true op r = true := by
    simp only [wellTyped, lhsType] at h
    cases hs : sg.sym t n with
    | none => simp [hs] at h
    | some x =>
      obtain ⟨τ, b⟩ := x
      cases b <;> simp [hs] at h
      by_cases hτ : τ = .other
      · simp [hτ] at h
      · simp [hτ] at h; simpa [symType, hs] using h
  rw [null_rules fo _ op r hr hok]

/-- `= null` holds exactly for nil values and `!= null` exactly for the others. -/
theorem null_literal_rule (fo : FloatOps F) (τ : NodeType) (sv : SVal F) :
    satCmp fo τ .eq sv .null = sv.isNil ∧ satCmp fo τ .ne sv .null = !sv.isNil := by
  simp [satCmp]

/-- `not in`, `not between` and `not` are the negations of the positive forms. -/
theorem not_forms_negate (sg : Sigma T) (w : World C F) (fo : FloatOps F) (t : T) (c : C) (e : U F) :
    sat sg w fo t c (.notE e) = !sat sg w fo t c e ∧ sat sg w fo t c (.unot e) = !sat sg w fo t c e := by
  simp [sat]

def witFo : FloatOps Float where
  eq a b := a == b
  lt a b := decide (a < b)
  le a b := decide (a ≤ b)
  ofInt := Float.ofInt
  fmt _ := []

/-- non-vacuity of the hypotheses of `eval_refines_sat`: a well-typed filter over a world with a
    seekable sorted string set, a bool field that is null, and a null string field -/
def exSigma : Sigma Unit where
  sym _ n :=
    if n = "flag" then some (.bool, false) else if n = "name" then some (.str, false)
    else if n = "roles" then some (.str, true) else none
  setTypes _ _ := none

def exWorld : World Unit Float where
  val _ _ := .nil
  elems _ n := if n = "roles" then [.str [97], .str [98]] else []
  seekable _ n := n = "roles"
  subRows _ _ := []
  nilRow _ := false

def exFilter : U Float :=
  .logic false (.cmp .ne (.sym "flag") (.bool true))
    (.logic true (.cmp .eq (.setFn .anyOf "roles") (.str [98])) (.cmp .ne (.sym "name") (.str [120])))

example : wellTyped exSigma witFo () exFilter = true := by decide
example : SeekOK exWorld := by
  intro c n h
  have : n = "roles" := by simpa [exWorld] using h
  subst this
  exact ⟨[[97], [98]], rfl, by decide⟩
/-- `flag != true` holds on a row whose flag is null; `flag = false` does not (df0c801) -/
example : sat exSigma exWorld witFo () () exFilter = true := by decide
example : sat exSigma exWorld witFo () () (.cmp .eq (.sym "flag") (.bool false)) = false := by decide

/-! ### the bolt-backed store -/

/-- **The stacked cursor of a composite set symbol enumerates exactly the path semantics**:
    follow every link of the dotted name, collect the values, with multiplicity and in order. -/
theorem stacked_eq_flatMap (db : Db F) (chain : List Atom) (key : Option Bytes) :
    stackedElems db chain key = pathElems db chain key :=
  Filter.stacked_eq_flatMap db chain key

/-- **Dotted names mean what their path means**: when the resolution of a name is regular
    (`regularParts`: no link is composed onto a composite set symbol that carries a non-iterable tail —
    always the case for names of up to three segments, `regular_le3`), the symbol `GetSymbol` builds
    denotes exactly the chain of links the specification reads off the name. -/
theorem resolve_refines_path (defs : List StoreDef) (st : Nat) (parts : List String)
    (h : regularParts defs st parts = true) :
    specPath defs st parts = (resolve defs st parts).map RSym.atoms :=
  (resolve_path defs parts st h).1

/-- On a regularly resolved name the world the code computes (`modelWorld`, code's symbol tables) and
    the path semantics (`specWorld`, `dbSpecSigma`) agree: type and set-ness, value, set elements; for
    the symbol of a sub-query (plain cursor) also the linked entity type and the rows visited. -/
theorem world_refines_spec (db : Db F) (c : Ctx) (n : String) (sub : Bool) (h : nameOK db.defs sub c.1 n = true) :
    (dbSigma db.defs).sym c.1 n = (dbSpecSigma db.defs).sym c.1 n ∧
    (((dbSigma db.defs).sym c.1 n).map (·.2) = some false → (modelWorld db).val c n = (specWorld db).val c n) ∧
    (((dbSigma db.defs).sym c.1 n).map (·.2) = some true → (modelWorld db).elems c n = (specWorld db).elems c n) ∧
    (sub = true → ((dbSigma db.defs).sym c.1 n).map (·.2) = some true →
      (dbSigma db.defs).setTypes c.1 n = (dbSpecSigma db.defs).setTypes c.1 n ∧
      liveRows (modelWorld db) c n = liveRows (specWorld db) c n) :=
  world_name_eq db c n sub h

/-- **`Store.QueryIds` returns exactly the satisfying ids** — the full statement of the property
    for the bolt-backed store: for every database whose set buckets are sorted string buckets, every
    store and every well-typed filter (any depth, dotted names of any length, map elements,
    sub-queries with skip / limit): no matching entity is omitted, no non-matching entity is
    returned.  The specification reads dotted names as chains of links (`specPath`) and types
    sub-queries against the entity type the path leads to (`dbSpecSigma`). -/
theorem query_exact (db : Db F) (fo : FloatOps F) (st : Nat) (f : U F)
    (hwf : WellFormedDb db) (hwt : wellTyped (dbSpecSigma db.defs) fo st f = true) :
    query db fo st f = .ok (specQuery db fo st f) := by
  rw [← dbSigma_eq_spec] at hwt
  obtain ⟨p, hpp⟩ := transform_total (dbSigma db.defs) fo st f hwt
  unfold query specQuery
  rw [hpp]
  simp only
  congr 1
  apply List.filter_congr
  intro id _
  rw [eval_refines_sat (dbSigma db.defs) (modelWorld db) fo (modelWorld_seekOK db hwf) st f hwt p hpp (st, some id)]
  exact (sat_world_eq db fo f st (st, some id) rfl (namesOK_all db.defs f st) (Or.inl hwt)).1

/-- the symbol tables `Store` answers `ast.Parse` with are those of the path semantics -/
theorem symbol_tables_exact (defs : List StoreDef) : dbSigma defs = dbSpecSigma defs :=
  dbSigma_eq_spec defs

/-! ### a null link inside the dotted set symbol of a sub-query is no row (38978b1)

  `count(from members.owner where true)`: the stacked cursor yields one element per member, a nil key
  for a member without owner; the scanner skips it and counts the remaining owners. -/

def nilDb : Db Float where
  defs := [{ syms := [("id", .id), ("owner", .field .str (some 1))], maps := [] },
           { syms := [("id", .id), ("members", .set .str (some 0))], maps := [] }]
  rows := [[{ id := [97, 49], fields := [], sets := [], maps := [] },
            { id := [97, 50], fields := [("owner", .str [98, 49])], sets := [], maps := [] }],
           [{ id := [98, 49], fields := [], sets := [("members", [.str [97, 49], .str [97, 50]])], maps := [] }]]

/-- `count(from members.owner where true) = 1`, asked of the owners -/
def nilFilter : U Float := .cmp .eq (.setFnSub .count "members.owner" (.boolC true) none none) (.int 1)

example : (modelWorld nilDb).subRows (1, some [98, 49]) "members.owner" = [(1, none), (1, some [98, 49])] := by decide
example : specQuery nilDb witFo 1 nilFilter = [[98, 49]] := by decide
example : query nilDb witFo 1 nilFilter = .ok [[98, 49]] := by decide

/-! ### why 0441eb9 was needed: composite set symbols with a non-iterable tail

  Before 0441eb9 `createCompositeEntitySymbol` (`composePre0441eb9`) kept a non-set chain behind a set as
  a non-iterable tail: for `groups.boss.boss` the iterable chain was `groups` alone, so a sub-query over
  it scanned the groups (and was typed against their entity type), and prefixing such a symbol with a
  further link (`boss.groups.boss.label`) dropped the tail (`getChain()`).  The same queries on the
  current model are answered as the specification says. -/

def tailDb : Db Float where
  defs := [{ syms := [("id", .id), ("groups", .set .str (some 1))], maps := [] },
           { syms := [("id", .id), ("boss", .field .str (some 1)), ("label", .field .str none)], maps := [] }]
  rows := [[{ id := [97, 49], fields := [], sets := [("groups", [.str [98, 49]])], maps := [] }],
           [{ id := [98, 49], fields := [("boss", .str [98, 50])], sets := [], maps := [] },
            { id := [98, 50], fields := [("boss", .str [98, 51])], sets := [], maps := [] },
            { id := [98, 51], fields := [("label", .str [120])], sets := [], maps := [] }]]

/-- `count(from groups.boss.boss where label = "x") = 1` -/
def tailFilter : U Float :=
  .cmp .eq (.setFnSub .count "groups.boss.boss" (.cmp .eq (.sym "label") (.str [120])) none none) (.int 1)

/-- the string payloads of a key list (SVal over Float has no decidable equality) -/
def strKeys {F : Type} (l : List (SVal F)) : List (Option Bytes) :=
  l.map fun v => match v with | .str s => some s | _ => none

/-- old code: the cursor of `groups.boss.boss` ranged over the groups (b1), the path leads to b3 -/
example : (resolvePre0441eb9 tailDb.defs 0 ["groups", "boss", "boss"]).map
    (fun r => (r.hasTail, strKeys (cursorKeys tailDb r (some [97, 49])))) = some (true, [some [98, 49]]) := by decide
example : (specPath tailDb.defs 0 ["groups", "boss", "boss"]).map (fun p => strKeys (pathElems tailDb p (some [97, 49]))) =
    some [some [98, 51]] := by decide
/-- current code -/
example : (resolve tailDb.defs 0 ["groups", "boss", "boss"]).map
    (fun r => (r.hasTail, strKeys (cursorKeys tailDb r (some [97, 49])))) = some (false, [some [98, 51]]) := by decide
example : query tailDb witFo 0 tailFilter = .ok [[97, 49]] := by decide
example : specQuery tailDb witFo 0 tailFilter = [[97, 49]] := by decide

def dropDb : Db Float where
  defs := [{ syms := [("id", .id), ("boss", .field .str (some 0)), ("groups", .set .str (some 1))], maps := [] },
           { syms := [("id", .id), ("boss", .field .str (some 1)), ("label", .field .str none)], maps := [] }]
  rows := [[{ id := [97, 49], fields := [("boss", .str [97, 50])], sets := [], maps := [] },
            { id := [97, 50], fields := [], sets := [("groups", [.str [98, 49]])], maps := [] }],
           [{ id := [98, 49], fields := [("boss", .str [98, 50])], sets := [], maps := [] },
            { id := [98, 50], fields := [("label", .str [120])], sets := [], maps := [] }]]

/-- `anyOf(boss.groups.boss.label) = "x"` -/
def dropFilter : U Float := .cmp .eq (.setFn .anyOf "boss.groups.boss.label") (.str [120])

/-- old code: the resolved symbol of `boss.groups.boss.label` had lost `boss.label` -/
example : (resolvePre0441eb9 dropDb.defs 0 ["boss", "groups", "boss", "label"]).map (fun r => r.atoms.length) = some 2 := by decide
example : (specPath dropDb.defs 0 ["boss", "groups", "boss", "label"]).map List.length = some 4 := by decide
example : (resolve dropDb.defs 0 ["boss", "groups", "boss", "label"]).map (fun r => r.atoms.length) = some 4 := by decide
example : query dropDb witFo 0 dropFilter = .ok [[97, 49]] := by decide
example : specQuery dropDb witFo 0 dropFilter = [[97, 49]] := by decide

theorem wellFormed_of_sets (db : Db Float)
    (h : ∀ rows ∈ db.rows, ∀ e ∈ rows, ∀ p ∈ e.sets, SortedStrs p.2) : WellFormedDb db := by
  intro st id e he k es hl
  simp only [findEntity] at he
  cases hr : db.rows[st]? with
  | none => simp [hr] at he
  | some rows =>
    simp only [hr] at he
    have hmem : e ∈ rows := List.mem_of_find?_eq_some he
    have hrows : rows ∈ db.rows := List.mem_of_getElem? hr
    have : (k, es) ∈ e.sets := by
      have := List.lookup_eq_some_iff.mp hl
      obtain ⟨l1, l2, h1, _⟩ := this
      rw [h1]; simp
    exact h rows hrows e hmem (k, es) this

/-- non-vacuity of the hypotheses of `query_exact`: two linked stores, three rows, a filter that
    uses a dotted set symbol, a direct (seekable) set, a bool comparison on a null flag and a sub-query -/
def exDb : Db Float where
  defs := [{ syms := [("id", .id), ("name", .field .str none), ("flag", .field .bool none), ("roles", .set .str none),
                      ("owner", .field .str (some 1)), ("groups", .set .str (some 1))], maps := [("tags", .any)] },
           { syms := [("id", .id), ("label", .field .str none), ("boss", .field .str (some 1)),
                      ("members", .set .str (some 0))], maps := [] }]
  rows := [[{ id := [97, 49], fields := [("name", .str [110]), ("owner", .str [98, 49])],
              sets := [("roles", [.str [120], .str [121]]), ("groups", [.str [98, 49]])], maps := [("tags", [("k", .int64 5)])] },
            { id := [97, 50], fields := [], sets := [], maps := [] }],
           [{ id := [98, 49], fields := [("label", .str [76]), ("boss", .str [98, 50])],
              sets := [("members", [.str [97, 49], .str [97, 50]])], maps := [] },
            { id := [98, 50], fields := [("label", .str [77])], sets := [], maps := [] }]]

def exDbFilter : U Float :=
  .logic false (.cmp .eq (.setFn .anyOf "groups.boss.label") (.str [77]))
    (.logic true (.cmp .eq (.setFn .anyOf "roles") (.str [121]))
      (.logic false (.cmp .ne (.sym "flag") (.bool true))
        (.cmp .ge (.setFnSub .count "groups" (.cmp .ne (.sym "label") (.str [])) none (some 1)) (.int 1))))

example : wellTyped (dbSigma exDb.defs) witFo 0 exDbFilter = true := by decide
theorem exDb_wellFormed : WellFormedDb exDb := by
  apply wellFormed_of_sets
  intro rows hrows e he p hp
  simp only [exDb, List.mem_cons, List.mem_nil_iff, or_false] at hrows
  rcases hrows with rfl | rfl <;> simp only [List.mem_cons, List.mem_nil_iff, or_false] at he <;>
    rcases he with rfl | rfl <;> simp only [List.mem_cons, List.mem_nil_iff, or_false] at hp <;>
    first
    | exact hp.elim
    | (rcases hp with rfl | rfl
       · exact ⟨[[120], [121]], rfl, by decide⟩
       · exact ⟨[[98, 49]], rfl, by decide⟩)
    | (subst hp; exact ⟨[[97, 49], [97, 50]], rfl, by decide⟩)

example : WellFormedDb exDb := exDb_wellFormed
example : query exDb witFo 0 exDbFilter = .ok [[97, 49]] := by decide
example : specQuery exDb witFo 0 exDbFilter = [[97, 49]] := by decide

end StorageModel.Properties.C01

#print axioms StorageModel.Properties.C01.transform_total
#print axioms StorageModel.Properties.C01.eval_refines_sat
#print axioms StorageModel.Properties.C01.seek_eq_scan
#print axioms StorageModel.Properties.C01.query_shortcut_free
#print axioms StorageModel.Properties.C01.subquery_count_exact
#print axioms StorageModel.Properties.C01.null_rules
#print axioms StorageModel.Properties.C01.engine_null_rules
#print axioms StorageModel.Properties.C01.null_literal_rule
#print axioms StorageModel.Properties.C01.not_forms_negate
#print axioms StorageModel.Properties.C01.stacked_eq_flatMap
#print axioms StorageModel.Properties.C01.world_refines_spec
#print axioms StorageModel.Properties.C01.query_exact
#print axioms StorageModel.Properties.C01.resolve_refines_path
#print axioms StorageModel.Properties.C01.symbol_tables_exact
