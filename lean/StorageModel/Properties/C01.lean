import StorageModel.Filter.DbProofs
import StorageModel.Filter.Cursors
import StorageModel.Filter.CursorsAlloc
import StorageModel.Filter.CursorsCode
/-
  C01 — Filter evaluation returns exactly the entities satisfying the predicate.

  "For every stored dataset and every well-typed filter, a query returns exactly the ids of the
  entities that satisfy the filter under the documented semantics: typed comparisons (=, !=, <, <=,
  >, >=, in, between with inclusive lower and exclusive upper bound, contains, icontains and their
  negations) with int-to-float and number-to-string coercion, null operands making every comparison
  false except != and the negated forms, boolean connectives, and anyOf/allOf/count/isEmpty over
  direct sets, dotted (linked) symbols, map fields and sub-queries. No matching entity is omitted and
  no non-matching entity is returned, and the answer never depends on which internal shortcut (for
  example an index seek instead of a scan) the engine happens to take."

  Model (executable, follows the Go code branch by branch):
    Filter/Syntax     the untyped tree of ast/bolt_listener.go, the typed node classes
    Filter/Transform  SymbolValidator + node_convert.go (getTypedExpr, handle*Ops, handleCaseInsensitive,
                      InArray/Between getTypedExpr, SetFunctionNode.TypeTransform/MoveUpTree/specializeSetAnyOf)
    Filter/Eval       EvalBool/EvalString/EvalInt64/EvalFloat64/EvalDatetime of every node class, the seek
                      shortcut, the paging scanner of sub-queries, over an abstract ast.Symbols (`World`)
    Filter/Basic      stored values and the FieldTo* coercions
    Filter/Db         stores, GetSymbol / createCompositeEntitySymbol, symbol evaluation on rows, the
                      stacked cursor, sub-query rows, Store.QueryIds (`modelWorld`, `query`) and the path
                      semantics of dotted symbols (`specWorld`, `specQuery`)
  Spec: Filter/Spec (`sat`, `wellTyped`).

  All theorems hold for every symbol-table family `Sigma T`, every `World C F`, every `FloatOps F`.
-/
namespace StorageModel.Properties.C01
open StorageModel StorageModel.Filter

variable {C F T : Type}

/-- **Every well-typed filter is accepted**: symbol validation passes and the type transformation
    produces a BoolNode — no error, no panic. -/
theorem transform_total (sg : Sigma T) (fo : FloatOps F) (t : T) (f : U F)
    (h : wellTyped sg fo t f = true) : ∃ p, typeCheck sg fo t f = .ok p := by
  let w : World Empty F := { val := fun c _ => c.elim, elems := fun c _ => c.elim,
                              seekable := fun c _ => c.elim, subRows := fun c _ => c.elim,
                              nilRow := fun c => c.elim }
  obtain ⟨p, hp, hb, _⟩ := (refine_main sg w fo (fun c => c.elim) f t).1 h
  refine ⟨p, ?_⟩
  have hv := (validate_ok sg fo f t).1 h false
  unfold typeCheck
  cases hvv : validate sg t false f with
  | none => simp [hvv] at hv
  | some _ => simp [asBool, hp, hb]

/-- **Refinement (the headline theorem)**: for every well-typed filter, on every row, the typed tree
    the engine builds evaluates to exactly what the specification says — provided every seekable
    cursor ranges over a sorted string bucket (`SeekOK`, true of every bbolt bucket of strings). -/
theorem eval_refines_sat (sg : Sigma T) (w : World C F) (fo : FloatOps F) (hw : SeekOK w)
    (t : T) (f : U F) (h : wellTyped sg fo t f = true)
    (p : TNode F) (hp : typeCheck sg fo t f = .ok p) (c : C) :
    evalRow w fo c p = sat sg w fo t c f := by
  obtain ⟨p', hp', hbool, he⟩ := (refine_main sg w fo hw f t).1 h
  have hv := (validate_ok sg fo f t).1 h false
  unfold typeCheck at hp
  cases hvv : validate sg t false f with
  | none => simp [hvv] at hv
  | some _ =>
    simp [hvv, asBool, hp', hbool] at hp
    subst hp
    exact he c

/-- **The seek shortcut never changes an answer**: positioning a cursor at the first key ≥ the
    compared string and testing only that element equals scanning the whole (sorted, duplicate free,
    string) bucket for an equal element. -/
theorem seek_eq_scan (fo : FloatOps F) (es : List (SVal F)) (v : Bytes) (h : SortedStrs es) :
    (match seekTo es v with
     | some e => e.toStr fo == some v
     | none => false) = es.any (fun e => e.toStr fo == some v) := by
  obtain ⟨ss, rfl, hss⟩ := h
  have := seek_any fo v (fun e => e.toStr fo == some v) (by intro s; simp [SVal.toStr]) ss hss
  exact this

/-- **On any bucket the shortcut is sound**: if the element the seek lands on satisfies the
    predicate, a scan finds a satisfying element too — the shortcut can only omit matches. -/
theorem seek_sound (es : List (SVal F)) (v : Bytes) (g : SVal F → Bool)
    (h : (match seekTo es v with | some e => g e | none => false) = true) : es.any g = true :=
  Filter.seek_sound es v g h

/-- **Buckets of mixed types**: in a bucket whose keys are in bbolt order (type byte first: bools,
    ints, floats before the strings, datetimes and nils after) the shortcut agrees with the scan as
    long as no element that is not a string renders to the compared string; what it computes in
    general is membership among the string elements (`seek_typed`). -/
theorem seek_eq_scan_typed (fo : FloatOps F) (v : Bytes) (lo : List (SVal F)) (ss : List Bytes) (hi : List (SVal F))
    (hss : ss.Pairwise (fun a b => bytesLt a b = true))
    (hlo : ∀ e ∈ lo, ∀ v, keyGe v e = false)
    (hv : ∀ e ∈ lo ++ hi, e.toStr fo ≠ some v) :
    (match seekTo (lo ++ ss.map SVal.str ++ hi) v with
     | some e => e.toStr fo == some v
     | none => false) = (lo ++ ss.map SVal.str ++ hi).any (fun e => e.toStr fo == some v) :=
  Filter.seek_eq_scan_typed fo v lo ss hi hss hlo hv

/-- non-vacuity of `SortedStrs` -/
example : SortedStrs (F := Float) [.str [97], .str [97, 98], .str [98]] :=
  ⟨[[97], [97, 98], [98]], rfl, by decide⟩

/-- the world with every cursor demoted to a plain (non-seekable) one -/
def noSeek (w : World C F) : World C F := { w with seekable := fun _ _ => false }

theorem sat_noSeek (sg : Sigma T) (w : World C F) (fo : FloatOps F) :
    ∀ (f : U F) (t : T) (c : C), sat sg (noSeek w) fo t c f = sat sg w fo t c f ∧
      lhsDen sg (noSeek w) fo t c f = lhsDen sg w fo t c f := by
  intro f
  induction f with
  | sym n => intro t c; simp [sat, lhsDen, noSeek]
  | setFn fn n => intro t c; cases fn <;> simp [sat, lhsDen, noSeek]
  | setFnSub fn n q so sk li ih =>
    intro t c
    have : ∀ t', (fun c' => sat sg (noSeek w) fo t' c' q) = (fun c' => sat sg w fo t' c' q) :=
      fun t' => funext fun c' => (ih t' c').1
    cases fn <;> cases hst : sg.setTypes t n <;> simp [sat, lhsDen, hst, this] <;> simp [noSeek, liveRows]
  | boolC b => intro t c; simp [sat, lhsDen]
  | cmp op l r ih => intro t c; simp [sat, lhsDen, (ih t c).2]
  | inArr l arr ih => intro t c; simp [sat, lhsDen, (ih t c).2]
  | between l lo hi ih => intro t c; simp [sat, lhsDen, (ih t c).2]
  | notE e ih => intro t c; simp [sat, lhsDen, (ih t c).1]
  | unot e ih => intro t c; simp [sat, lhsDen, (ih t c).1]
  | logic o l r ihl ihr => intro t c; simp [sat, lhsDen, (ihl t c).1, (ihr t c).1]

/-- **The answer does not depend on the shortcut**: evaluating with seekable cursors and with plain
    cursors gives the same value, for every well-typed filter on every row. -/
theorem query_shortcut_free (sg : Sigma T) (w : World C F) (fo : FloatOps F) (hw : SeekOK w)
    (t : T) (f : U F) (h : wellTyped sg fo t f = true)
    (p : TNode F) (hp : typeCheck sg fo t f = .ok p) (c : C) :
    evalRow w fo c p = evalRow (noSeek w) fo c p := by
  rw [eval_refines_sat sg w fo hw t f h p hp c,
      eval_refines_sat sg (noSeek w) fo (fun c n hs => by simp [noSeek] at hs) t f h p hp c,
      (sat_noSeek sg w fo f t c).1]

/-- **Sub-query counts are exact**: the paging scanner behind `count(from s where q skip k limit m)`
    yields exactly as many rows as "drop the null links, filter, drop k, take m" keeps. -/
theorem subquery_count_exact (m nil : C → Bool) (skip limit : Option Int) (rows : List C) :
    scanCount m nil (pagingOffset skip) (pagingLimit limit) rows 0 0 =
      (paged skip limit ((rows.filter fun r => !nil r).filter m)).length :=
  scanCount_paged m nil skip limit rows

/-- … and a `sort by` clause inside the sub-query changes nothing: whatever order `le` it denotes, the
    scanner (which never reads the sort fields) yields as many rows as "filter, sort, drop k, take m". -/
theorem subquery_sort_irrelevant (m nil : C → Bool) (le : C → C → Bool) (skip limit : Option Int) (rows : List C) :
    scanCount m nil (pagingOffset skip) (pagingLimit limit) rows 0 0 =
      (paged skip limit (sortBy le ((rows.filter fun r => !nil r).filter m))).length :=
  scanCount_sorted m nil le skip limit rows

/-- `sortBy` only rearranges the rows -/
theorem sort_is_permutation {α : Type} (le : α → α → Bool) (l : List α) : (sortBy le l).Perm l := sortBy_perm le l

theorem isEmpty_of_length_eq {α β : Type} (l₁ : List α) (l₂ : List β) (h : l₁.length = l₂.length) :
    l₁.isEmpty = l₂.isEmpty := by
  cases l₁ <;> cases l₂ <;> simp_all

/-- the world with another reading of what order `sort by` denotes -/
def withOrder (w : World C F) (le : List (String × Bool) → C → C → Bool) : World C F := { w with rowLe := le }

/-- **The answer does not depend on the order a sub-query's `sort by` denotes**: the specification
    sorts the rows of a sub-query before skip / limit; for every two orders the verdict is the same
    (so `eval_refines_sat`, stated for the world's own `rowLe`, holds for the documented comparator
    order as for any other). -/
theorem sort_order_irrelevant (sg : Sigma T) (w : World C F) (fo : FloatOps F)
    (le : List (String × Bool) → C → C → Bool) :
    ∀ (f : U F) (t : T) (c : C), sat sg (withOrder w le) fo t c f = sat sg w fo t c f ∧
      lhsDen sg (withOrder w le) fo t c f = lhsDen sg w fo t c f := by
  intro f
  induction f with
  | sym n => intro t c; simp [sat, lhsDen, withOrder]
  | setFn fn n => intro t c; cases fn <;> simp [sat, lhsDen, withOrder]
  | setFnSub fn n q so sk li ih =>
    intro t c
    have hf : ∀ t', (fun c' => sat sg (withOrder w le) fo t' c' q) = (fun c' => sat sg w fo t' c' q) :=
      fun t' => funext fun c' => (ih t' c').1
    have hl : liveRows (withOrder w le) c n = liveRows w c n := rfl
    have hlen : ∀ t', (paged sk li (sortBy ((withOrder w le).rowLe so) ((liveRows w c n).filter fun c' => sat sg w fo t' c' q))).length =
        (paged sk li (sortBy (w.rowLe so) ((liveRows w c n).filter fun c' => sat sg w fo t' c' q))).length :=
      fun t' => paged_length_congr sk li _ _ (by rw [sortBy_length, sortBy_length])
    cases fn <;> cases hst : sg.setTypes t n <;> simp [sat, lhsDen, hst, hf, hl, hlen]
    exact isEmpty_of_length_eq _ _ (hlen _)
  | boolC b => intro t c; simp [sat, lhsDen]
  | cmp op l r ih => intro t c; simp [sat, lhsDen, (ih t c).2]
  | inArr l arr ih => intro t c; simp [sat, lhsDen, (ih t c).2]
  | between l lo hi ih => intro t c; simp [sat, lhsDen, (ih t c).2]
  | notE e ih => intro t c; simp [sat, lhsDen, (ih t c).1]
  | unot e ih => intro t c; simp [sat, lhsDen, (ih t c).1]
  | logic o l r ihl ihr => intro t c; simp [sat, lhsDen, (ihl t c).1, (ihr t c).1]

/-- **Null rules of the specification** (and hence, by `eval_refines_sat`, of the engine): with a
    null left operand and a non-null literal, a well-typed comparison — bool comparisons included —
    is true exactly for `!=`, `not contains` and `not icontains`. -/
theorem null_rules (fo : FloatOps F) (τ : NodeType) (op : Op) (r : Lit F) (hr : r ≠ .null)
    (h : okCmp τ true op r = true) :
    satCmp fo τ op .nil r = decide (op = .ne ∨ op = .ncontains ∨ op = .nicontains) := by
  cases τ <;> cases op <;> cases r <;>
    simp_all [okCmp, cmpType, satCmp, withNull, SVal.toBool, SVal.toInt, SVal.toFloat, SVal.toTime, SVal.toStr,
      readStr, readFloat, litBool, litTime, litInt, litFloat, litStr]

/-- the same null rules for the engine itself: a well-typed comparison of a symbol whose stored value
    is nil (`flag = false`, `n < 3`, `name contains "x"`, ...) evaluates to true exactly for `!=`,
    `not contains` and `not icontains` -/
theorem engine_null_rules (sg : Sigma T) (w : World C F) (fo : FloatOps F) (hw : SeekOK w)
    (t : T) (n : String) (op : Op) (r : Lit F) (hr : r ≠ .null)
    (h : wellTyped sg fo t (.cmp op (.sym n) r) = true)
    (p : TNode F) (hp : typeCheck sg fo t (.cmp op (.sym n) r) = .ok p) (c : C) (hnil : w.val c n = .nil) :
    evalRow w fo c p = decide (op = .ne ∨ op = .ncontains ∨ op = .nicontains) := by
  rw [eval_refines_sat sg w fo hw t _ h p hp c]
  simp only [sat, lhsDen, LhsDen.holds, hnil]
  have hok : okCmp (symType sg t n) true op r = true := by
    simp only [wellTyped, lhsType] at h
    cases hs : sg.sym t n with
    | none => simp [hs] at h
    | some x =>
      obtain ⟨τ, b⟩ := x
      cases b <;> simp [hs] at h
      by_cases hτ : τ = .other
      · simp [hτ] at h
      · simp [hτ] at h; simpa [symType, hs] using h
  rw [null_rules fo _ op r hr hok]

/-- `= null` holds exactly for nil values and `!= null` exactly for the others. -/
theorem null_literal_rule (fo : FloatOps F) (τ : NodeType) (sv : SVal F) :
    satCmp fo τ .eq sv .null = sv.isNil ∧ satCmp fo τ .ne sv .null = !sv.isNil := by
  simp [satCmp]

/-- `not in`, `not between` and `not` are the negations of the positive forms. -/
theorem not_forms_negate (sg : Sigma T) (w : World C F) (fo : FloatOps F) (t : T) (c : C) (e : U F) :
    sat sg w fo t c (.notE e) = !sat sg w fo t c e ∧ sat sg w fo t c (.unot e) = !sat sg w fo t c e := by
  simp [sat]

def witFo : FloatOps Float where
  eq a b := a == b
  lt a b := decide (a < b)
  le a b := decide (a ≤ b)
  ofInt := Float.ofInt
  fmt _ := []

/-- non-vacuity of the hypotheses of `eval_refines_sat`: a well-typed filter over a world with a
    seekable sorted string set, a bool field that is null, and a null string field -/
def exSigma : Sigma Unit where
  sym _ n :=
    if n = "flag" then some (.bool, false) else if n = "name" then some (.str, false)
    else if n = "roles" then some (.str, true) else none
  setTypes _ _ := none

def exWorld : World Unit Float where
  val _ _ := .nil
  elems _ n := if n = "roles" then [.str [97], .str [98]] else []
  seekable _ n := n = "roles"
  subRows _ _ := []
  nilRow _ := false

def exFilter : U Float :=
  .logic false (.cmp .ne (.sym "flag") (.bool true))
    (.logic true (.cmp .eq (.setFn .anyOf "roles") (.str [98])) (.cmp .ne (.sym "name") (.str [120])))

example : wellTyped exSigma witFo () exFilter = true := by decide
example : SeekOK exWorld := by
  intro c n h
  have : n = "roles" := by simpa [exWorld] using h
  subst this
  exact ⟨[[97], [98]], rfl, by decide⟩
/-- `flag != true` holds on a row whose flag is null; `flag = false` does not (df0c801) -/
example : sat exSigma exWorld witFo () () exFilter = true := by decide
example : sat exSigma exWorld witFo () () (.cmp .eq (.sym "flag") (.bool false)) = false := by decide

/-- … and it does not otherwise: the int 7 renders to "7" (number-to-string coercion), the seek to
    "7" lands on "a" -/
theorem seek_mixed_differs :
    (match seekTo (F := Float) [.int64 7, .str [97]] [55] with
     | some e => e.toStr witFo == some [55]
     | none => false) = false ∧
    ([SVal.int64 7, .str [97]] : List (SVal Float)).any (fun e => e.toStr witFo == some [55]) = true := by decide +kernel

/-- **why df4edc3 was needed** (seek over a set that holds a number): `anyOf(mixed) = "7"` over the
    any-typed set {7, "a"}.  Before df4edc3 `IsSeekable()` looked only at the operator and at one side
    being constant, so the typed tree was the seekable `AnyOfSetExprNode` and the seek (which looks
    among the string keys only, `seek_mixed_differs`) answered false.  Now only a string-typed symbol
    qualifies: the tree is the plain `AnyOfSetExprNode`, and the engine answers what the specification
    says, with a seekable cursor as with a plain one. -/
def mixSigma : Sigma Unit where
  sym _ n := if n = "mixed" then some (.any, true) else none
  setTypes _ _ := none

def mixWorld : World Unit Float where
  val _ _ := .nil
  elems _ n := if n = "mixed" then [.int64 7, .str [97]] else []
  seekable _ n := n = "mixed"
  subRows _ _ := []
  nilRow _ := false

def mixFilter : U Float := .cmp .eq (.setFn .anyOf "mixed") (.str [55])

example : isSeekableOpPreDf4edc3 .eq (.anySym "mixed" : TNode Float) (.strC [55]) = true ∧
    isSeekableOp .eq (.anySym "mixed" : TNode Float) (.strC [55]) = false ∧
    isSeekableOp .eq (.strSym "roles" : TNode Float) (.strC [55]) = true := by decide
example : wellTyped mixSigma witFo () mixFilter = true ∧
    (typeCheck mixSigma witFo () mixFilter).bind (fun p => .ok (p.shape, evalRow mixWorld witFo () p, evalRow (noSeek mixWorld) witFo () p)) =
      .ok ("AnyOf:mixed(BinStr(AnySym:mixed;StrC;))", true, true) ∧
    sat mixSigma mixWorld witFo () () mixFilter = true := by decide +kernel
/-- the old tree on the same world: the shortcut answers false -/
example : evalRow mixWorld witFo () (.anyOfS "mixed" .eq (.anySym "mixed") (.strC [55])) = false := by decide +kernel

/-- only `=` between a constant and a string-typed symbol is ever evaluated through the seek -/
theorem seekable_needs_string_symbol (op : Op) (l r : TNode F) (h : isSeekableOp op l r = true) :
    op = .eq ∧ ((∃ n, l = .strSym n) ∨ (∃ n, r = .strSym n)) := by
  simp only [isSeekableOp, TNode.seekableStr, Bool.and_eq_true, Bool.or_eq_true, decide_eq_true_eq] at h
  refine ⟨h.1, ?_⟩
  rcases h.2 with h2 | h2
  · left; cases l <;> simp_all [TNode.isStrSym]
  · right; cases r <;> simp_all [TNode.isStrSym]

/-! ### the bolt-backed store -/

/-- **The stacked cursor of a composite set symbol enumerates exactly the path semantics**:
    follow every link of the dotted name, collect the values, with multiplicity and in order. -/
theorem stacked_eq_flatMap (db : Db F) (chain : List Atom) (key : Option Bytes) :
    stackedElems db chain key = pathElems db chain key :=
  Filter.stacked_eq_flatMap db chain key

/-- **Dotted names mean what their path means**: for every name, the symbol `GetSymbol` builds denotes
    exactly the chain of links the specification reads off the name (no hypothesis left since 5f6f9bb:
    a non-iterable tail survives composition). -/
theorem resolve_refines_path (defs : List StoreDef) (st : Nat) (parts : List String) :
    specPath defs st parts = (resolve defs st parts).map RSym.atoms :=
  (resolve_path defs parts st).1

/-- On a name that uses external functions directly (`nameOK`), read on an entity, the world the code
    computes (`modelWorld`, code's symbol tables) and the path semantics (`specWorld`, `dbSpecSigma`)
    agree: type and set-ness, value, set elements; for the symbol of a sub-query (plain cursor) also the
    linked entity type and the rows visited. -/
theorem world_refines_spec (db : Db F) (c : Ctx) (hc : c.2.isSome = true) (n : String) (sub : Bool)
    (h : nameOK db.defs sub c.1 n = true) :
    (dbSigma db.defs).sym c.1 n = (dbSpecSigma db.defs).sym c.1 n ∧
    (((dbSigma db.defs).sym c.1 n).map (·.2) = some false → (modelWorld db).val c n = (specWorld db).val c n) ∧
    (((dbSigma db.defs).sym c.1 n).map (·.2) = some true → (modelWorld db).elems c n = (specWorld db).elems c n) ∧
    (sub = true → ((dbSigma db.defs).sym c.1 n).map (·.2) = some true →
      (dbSigma db.defs).setTypes c.1 n = (dbSpecSigma db.defs).setTypes c.1 n ∧
      liveRows (modelWorld db) c n = liveRows (specWorld db) c n) :=
  world_name_eq db c hc n sub h

theorem rootOf_self (defs : List StoreDef) (st : Nat) (h : isChild defs st = false) (fuel : Nat) :
    rootOf defs fuel st = st := by
  cases fuel with
  | zero => rfl
  | succ k =>
    simp only [rootOf]
    simp only [isChild] at h
    cases hp : (defs[st]?).bind (·.parent) with
    | none => rfl
    | some p => simp [hp] at h

/-- **The rows a scan of a store evaluates are the store's entities**: `GetEntitiesBucket` of a child
    store is its parent's bucket, and the scanners' rule (`IsChildStore ∧ ¬IsEntityPresent ∧ ¬IsExtended`
    ⇒ skip) leaves exactly the entities that have child data — every parent entity for a store
    declared extended. -/
theorem child_store_rows (db : Db F) (hch : ChildRowsNested db) (st : Nat) :
    (scanIds db st).filter (fun id => !skipped db st id) = entitiesOf db st := by
  simp only [entitiesOf, skipped]
  cases hc : isChild db.defs st with
  | false =>
    simp only [Bool.false_and, Bool.not_false, filter_const_true, Bool.false_eq_true, if_false, scanIds,
      rootOf_self db.defs st hc]
  | true =>
    cases he : isExtended db.defs st with
    | true => simp [filter_const_true]
    | false => simp [hch st hc]

/-- **`Store.QueryIds` returns exactly the satisfying ids** — for every database whose set buckets are
    sorted string buckets and whose child data is nested in the parents' buckets, every store (root,
    plain child, extended child) and every well-typed filter (any depth, dotted names of any length,
    nested map elements, external and mapped symbols, sub-queries with sort / skip / limit, also over
    child stores), with ONE proviso left: `extNamesOK` — an external function (`AddEntitySymbol`) is used
    by its own name, not at the end of a dotted name (there the code evaluates it on the empty id when
    the link in front of it is null: the open finding ext-behind-null-link, `ext_null_link_violates`).
    The provisos about `set.custom` tails and nil string functions went with 5f6f9bb and fce0761.
    On schemas without custom symbols the proviso holds for every filter: `query_exact`. -/
theorem query_exact_partial (db : Db F) (fo : FloatOps F) (st : Nat) (f : U F)
    (hwf : WellFormedDb db) (hch : ChildRowsNested db) (hext : extNamesOK db.defs st f = true)
    (hwt : wellTyped (dbSpecSigma db.defs) fo st f = true) :
    query db fo st f = .ok (specQuery db fo st f) := by
  obtain ⟨hwt', hn⟩ := (spec_typed_ok db.defs fo f st).1 hwt hext
  obtain ⟨p, hpp⟩ := transform_total (dbSigma db.defs) fo st f hwt'
  unfold query specQuery
  rw [hpp, ← child_store_rows db hch st]
  simp only
  congr 1
  rw [List.filter_filter]
  apply List.filter_congr
  intro id _
  rw [Bool.and_comm]
  congr 1
  rw [eval_refines_sat (dbSigma db.defs) (modelWorld db) fo (modelWorld_seekOK db hwf) st f hwt' p hpp (st, some id)]
  exact (sat_world_eq db fo f st (st, some id) rfl rfl hn (Or.inl hwt')).1

/-- **`Store.QueryIds` returns exactly the satisfying ids** — the full statement of the property on
    every schema built from `AddIdSymbol` / `AddSymbol` / `AddFkSymbol` / `AddSetSymbol` /
    `AddFkSetSymbol` / `AddMapSymbol` / `GrantSymbols` (no `AddEntitySymbol`, no `MapSymbol`): every
    database, store (root, plain or extended child) and well-typed filter, no hypothesis on names. -/
theorem query_exact (db : Db F) (fo : FloatOps F) (st : Nat) (f : U F)
    (hwf : WellFormedDb db) (hch : ChildRowsNested db) (hpl : PlainDefs db.defs)
    (hwt : wellTyped (dbSpecSigma db.defs) fo st f = true) :
    query db fo st f = .ok (specQuery db fo st f) :=
  query_exact_partial db fo st f hwf hch (extNamesOK_all db.defs hpl f st) hwt

/-- the statement without the proviso: false on the code as it is (`ext_null_link_violates` below) -/
def query_exact_fullStatement : Prop :=
  ∀ (db : Db Float) (fo : FloatOps Float) (st : Nat) (f : U Float), WellFormedDb db → ChildRowsNested db →
    wellTyped (dbSpecSigma db.defs) fo st f = true → query db fo st f = .ok (specQuery db fo st f)

/-- **Map elements of any depth**: the `entitySymbol` that `createElementSymbol` builds for
    `m.x₁.….xₙ` (prefix = the map's prefix ++ its key ++ the middle segments, key = the last segment)
    names exactly the node the specification reads off the name — the bucket path `prefix/key` of the
    map symbol followed by `x₁ … xₙ`. -/
theorem map_element_names_node (st : Nat) (md : MapDef) (q : String) (rest : List String) :
    mapElemPath st md (q :: rest) = elementSymbol st md q rest :=
  elementSymbol_eq_path st md q rest

/-- … and evaluating it (`GetPath(prefix...)`, then `getTyped(key)`) yields the value stored at that
    node, null when the node is missing at some level, or is itself a map or a list. -/
theorem map_element_reads_node (db : Db F) (st : Nat) (bp : List String) (k : String) (ty : NodeType)
    (key : Option Bytes) :
    evalAtom db (.mapElem st bp k ty) key =
      (match key.bind (findEntity db st) with
       | some e => leafVal (nodeAt e.maps (bp ++ [k]))
       | none => .nil) :=
  (specAtomVal_eq db (.mapElem st bp k ty) rfl key).symm

/-- the symbol tables `Store` answers `ast.Parse` with are those of the path semantics -/
theorem symbol_tables_exact (defs : List StoreDef) (hpl : PlainDefs defs) : dbSigma defs = dbSpecSigma defs :=
  dbSigma_eq_spec defs hpl

/-! ### a null link inside the dotted set symbol of a sub-query is no row (38978b1)

  `count(from members.owner where true)`: the stacked cursor yields one element per member, a nil key
  for a member without owner; the scanner skips it and counts the remaining owners. -/

def nilDb : Db Float where
  defs := [{ syms := [("id", .id), ("owner", .field .str (some 1))], maps := [] },
           { syms := [("id", .id), ("members", .set .str (some 0))], maps := [] }]
  rows := [[{ id := [97, 49], fields := [], sets := [], maps := [] },
            { id := [97, 50], fields := [("owner", .str [98, 49])], sets := [], maps := [] }],
           [{ id := [98, 49], fields := [], sets := [("members", [.str [97, 49], .str [97, 50]])], maps := [] }]]

/-- `count(from members.owner where true) = 1`, asked of the owners -/
def nilFilter : U Float := .cmp .eq (.setFnSub .count "members.owner" (.boolC true) [] none none) (.int 1)

example : (modelWorld nilDb).subRows (1, some [98, 49]) "members.owner" = [(1, none), (1, some [98, 49])] := by decide
example : specQuery nilDb witFo 1 nilFilter = [[98, 49]] := by decide
example : query nilDb witFo 1 nilFilter = .ok [[98, 49]] := by decide

/-! ### why 0441eb9 was needed: composite set symbols with a non-iterable tail

  Before 0441eb9 `createCompositeEntitySymbol` (`composePre0441eb9`) kept a non-set chain behind a set as
  a non-iterable tail: for `groups.boss.boss` the iterable chain was `groups` alone, so a sub-query over
  it scanned the groups (and was typed against their entity type), and prefixing such a symbol with a
  further link (`boss.groups.boss.label`) dropped the tail (`getChain()`).  The same queries on the
  current model are answered as the specification says. -/

def tailDb : Db Float where
  defs := [{ syms := [("id", .id), ("groups", .set .str (some 1))], maps := [] },
           { syms := [("id", .id), ("boss", .field .str (some 1)), ("label", .field .str none)], maps := [] }]
  rows := [[{ id := [97, 49], fields := [], sets := [("groups", [.str [98, 49]])], maps := [] }],
           [{ id := [98, 49], fields := [("boss", .str [98, 50])], sets := [], maps := [] },
            { id := [98, 50], fields := [("boss", .str [98, 51])], sets := [], maps := [] },
            { id := [98, 51], fields := [("label", .str [120])], sets := [], maps := [] }]]

/-- `count(from groups.boss.boss where label = "x") = 1` -/
def tailFilter : U Float :=
  .cmp .eq (.setFnSub .count "groups.boss.boss" (.cmp .eq (.sym "label") (.str [120])) [] none none) (.int 1)

/-- the string payloads of a key list (SVal over Float has no decidable equality) -/
def strKeys {F : Type} (l : List (SVal F)) : List (Option Bytes) :=
  l.map fun v => match v with | .str s => some s | _ => none

/-- old code: the cursor of `groups.boss.boss` ranged over the groups (b1), the path leads to b3 -/
example : (resolvePre0441eb9 tailDb.defs 0 ["groups", "boss", "boss"]).map
    (fun r => (r.hasTail, strKeys (cursorKeys tailDb r (some [97, 49])))) = some (true, [some [98, 49]]) := by decide
example : (specPath tailDb.defs 0 ["groups", "boss", "boss"]).map (fun p => strKeys (pathElems tailDb p (some [97, 49]))) =
    some [some [98, 51]] := by decide
/-- current code -/
example : (resolve tailDb.defs 0 ["groups", "boss", "boss"]).map
    (fun r => (r.hasTail, strKeys (cursorKeys tailDb r (some [97, 49])))) = some (false, [some [98, 51]]) := by decide
example : query tailDb witFo 0 tailFilter = .ok [[97, 49]] := by decide
example : specQuery tailDb witFo 0 tailFilter = [[97, 49]] := by decide

def dropDb : Db Float where
  defs := [{ syms := [("id", .id), ("boss", .field .str (some 0)), ("groups", .set .str (some 1))], maps := [] },
           { syms := [("id", .id), ("boss", .field .str (some 1)), ("label", .field .str none)], maps := [] }]
  rows := [[{ id := [97, 49], fields := [("boss", .str [97, 50])], sets := [], maps := [] },
            { id := [97, 50], fields := [], sets := [("groups", [.str [98, 49]])], maps := [] }],
           [{ id := [98, 49], fields := [("boss", .str [98, 50])], sets := [], maps := [] },
            { id := [98, 50], fields := [("label", .str [120])], sets := [], maps := [] }]]

/-- `anyOf(boss.groups.boss.label) = "x"` -/
def dropFilter : U Float := .cmp .eq (.setFn .anyOf "boss.groups.boss.label") (.str [120])

/-- old code: the resolved symbol of `boss.groups.boss.label` had lost `boss.label` -/
example : (resolvePre0441eb9 dropDb.defs 0 ["boss", "groups", "boss", "label"]).map (fun r => r.atoms.length) = some 2 := by decide
example : (specPath dropDb.defs 0 ["boss", "groups", "boss", "label"]).map List.length = some 4 := by decide
example : (resolve dropDb.defs 0 ["boss", "groups", "boss", "label"]).map (fun r => r.atoms.length) = some 4 := by decide
example : query dropDb witFo 0 dropFilter = .ok [[97, 49]] := by decide
example : specQuery dropDb witFo 0 dropFilter = [[97, 49]] := by decide

theorem wellFormed_of_sets (db : Db Float)
    (h : ∀ rows ∈ db.rows, ∀ e ∈ rows, ∀ p ∈ e.sets, SortedStrs p.2) : WellFormedDb db := by
  intro st id e he k es hl
  simp only [findEntity] at he
  cases hr : db.rows[st]? with
  | none => simp [hr] at he
  | some rows =>
    simp only [hr] at he
    have hmem : e ∈ rows := List.mem_of_find?_eq_some he
    have hrows : rows ∈ db.rows := List.mem_of_getElem? hr
    have : (k, es) ∈ e.sets := by
      have := List.lookup_eq_some_iff.mp hl
      obtain ⟨l1, l2, h1, _⟩ := this
      rw [h1]; simp
    exact h rows hrows e hmem (k, es) this

/-- non-vacuity of the hypotheses of `query_exact`: two linked stores, three rows, a filter that
    uses a dotted set symbol, a direct (seekable) set, a bool comparison on a null flag and a sub-query -/
def exDb : Db Float where
  defs := [{ syms := [("id", .id), ("name", .field .str none), ("flag", .field .bool none), ("roles", .set .str none),
                      ("owner", .field .str (some 1)), ("groups", .set .str (some 1))], maps := [("tags", { ty := .any, key := "tags", pfx := [] }), ("meta", { ty := .any, key := "m", pfx := ["ext", "edge"] })] },
           { syms := [("id", .id), ("label", .field .str none), ("boss", .field .str (some 1)),
                      ("members", .set .str (some 0))], maps := [] }]
  rows := [[{ id := [97, 49], fields := [("name", .str [110]), ("owner", .str [98, 49])],
              sets := [("roles", [.str [120], .str [121]]), ("groups", [.str [98, 49]])], maps := [("tags", .bucket [("k", .val (.int64 5)), ("site", .bucket [("name", .val (.str [122])), ("lst", .bucket [])])]),
                       ("ext", .bucket [("edge", .bucket [("m", .bucket [("a", .bucket [("b", .val (.bool true))])])])])] },
            { id := [97, 50], fields := [], sets := [], maps := [] }],
           [{ id := [98, 49], fields := [("label", .str [76]), ("boss", .str [98, 50])],
              sets := [("members", [.str [97, 49], .str [97, 50]])], maps := [] },
            { id := [98, 50], fields := [("label", .str [77])], sets := [], maps := [] }]]

def exDbFilter : U Float :=
  .logic false (.cmp .eq (.setFn .anyOf "groups.boss.label") (.str [77]))
    (.logic true (.cmp .eq (.setFn .anyOf "roles") (.str [121]))
      (.logic false (.cmp .ne (.sym "flag") (.bool true))
        (.cmp .ge (.setFnSub .count "groups" (.cmp .ne (.sym "label") (.str [])) [("label", false)] none (some 1)) (.int 1))))

example : wellTyped (dbSigma exDb.defs) witFo 0 exDbFilter = true := by decide
theorem exDb_wellFormed : WellFormedDb exDb := by
  apply wellFormed_of_sets
  intro rows hrows e he p hp
  simp only [exDb, List.mem_cons, List.mem_nil_iff, or_false] at hrows
  rcases hrows with rfl | rfl <;> simp only [List.mem_cons, List.mem_nil_iff, or_false] at he <;>
    rcases he with rfl | rfl <;> simp only [List.mem_cons, List.mem_nil_iff, or_false] at hp <;>
    first
    | exact hp.elim
    | (rcases hp with rfl | rfl
       · exact ⟨[[120], [121]], rfl, by decide⟩
       · exact ⟨[[98, 49]], rfl, by decide⟩)
    | (subst hp; exact ⟨[[97, 49], [97, 50]], rfl, by decide⟩)

example : WellFormedDb exDb := exDb_wellFormed

theorem childRowsNested_of_roots (db : Db Float) (h : ∀ st, isChild db.defs st = false) : ChildRowsNested db := by
  intro st hc; rw [h st] at hc; cases hc

theorem exDb_nested : ChildRowsNested exDb := by
  apply childRowsNested_of_roots
  intro st
  match st with
  | 0 => rfl
  | 1 => rfl
  | n + 2 => rfl

/-! ### custom symbols: external functions (`AddEntitySymbol`) and mapped symbols (`MapSymbol`)

  `owners` registers `vip` (a bool function of the id), `nick` (a string function) and `mlabel`
  (`label` through a mapper that prefixes "M").  a1 → boss a2, owner b1; a2 → groups {b1, b2}, owner b2;
  a3 has no owner.  vip(b2) = true; nick(b1) = nil. -/

def customDefs : List StoreDef :=
  [{ syms := [("id", .id), ("boss", .field .str (some 0)), ("owner", .field .str (some 1)), ("groups", .set .str (some 1))],
     maps := [] },
   { syms := [("id", .id), ("label", .field .str none), ("vip", .custom none .bool none .ext),
              ("nick", .custom none .str none .ext), ("mlabel", .custom none .str none (.mapped "label" 0))], maps := [] }]

def customRows : List (List (Entity Float)) :=
  [[{ id := [97, 49], fields := [("boss", .str [97, 50]), ("owner", .str [98, 49])], sets := [], maps := [] },
    { id := [97, 50], fields := [("owner", .str [98, 50])], sets := [("groups", [.str [98, 49], .str [98, 50]])], maps := [] },
    { id := [97, 51], fields := [], sets := [], maps := [] }],
   [{ id := [98, 49], fields := [("label", .str [120])], sets := [], maps := [] },
    { id := [98, 50], fields := [("label", .str [121])], sets := [], maps := [] }]]

def customMappers : Nat → SVal Float → SVal Float := fun _ v => match v with | .str s => .str (77 :: s) | v => v

def customDb : Db Float where
  defs := customDefs
  rows := customRows
  ext := fun _ n =>
    if n = "vip" then .boolFn (fun id => id == [98, 50])
    else if n = "nick" then .strFn (fun id => if id == [98, 49] then none else some id)
    else .fn fun _ => .nil
  mappers := customMappers

theorem customDb_wellFormed (db : Db Float) (h : db.rows = customRows) : WellFormedDb db := by
  apply wellFormed_of_sets
  intro rows hrows e he p hp
  rw [h] at hrows
  simp only [customRows, List.mem_cons, List.mem_nil_iff, or_false] at hrows
  rcases hrows with rfl | rfl <;> simp only [List.mem_cons, List.mem_nil_iff, or_false] at he <;>
    rcases he with rfl | rfl | rfl <;> simp only [List.mem_cons, List.mem_nil_iff, or_false] at hp <;>
    first
    | exact hp.elim
    | (subst hp; exact ⟨[[98, 49], [98, 50]], rfl, by decide⟩)
    | (rcases he with rfl | rfl <;> exact hp.elim)

theorem customDb_nested (db : Db Float) (h : db.defs = customDefs) : ChildRowsNested db := by
  apply childRowsNested_of_roots
  intro st
  rw [h]
  match st with
  | 0 => rfl
  | 1 => rfl
  | n + 2 => rfl

/-- direct use of the external functions, mapped symbols through a link and through a set:
    `vip = true` on owners; `owner.mlabel = "Mx" or anyOf(groups.mlabel) = "My"` on things -/
def customFilter : U Float :=
  .logic true (.cmp .eq (.sym "owner.mlabel") (.str [77, 120])) (.cmp .eq (.setFn .anyOf "groups.mlabel") (.str [77, 121]))

example : extNamesOK customDefs 0 customFilter = true := by decide
example : wellTyped (dbSpecSigma customDefs) witFo 0 customFilter = true := by decide
example : query customDb witFo 0 customFilter = .ok [[97, 49], [97, 50]] := by decide
example : specQuery customDb witFo 0 customFilter = [[97, 49], [97, 50]] := by decide
example : query customDb witFo 1 (.cmp .eq (.sym "vip") (.bool true)) = .ok [[98, 50]] := by decide
example : query customDb witFo 1 (.cmp .eq (.sym "nick") (.str [98, 50])) = .ok [[98, 50]] := by decide
example : extNamesOK customDefs 1 (.cmp .eq (.sym "nick") (.str [98, 49]) : U Float) = true := by decide

/-- **why 5f6f9bb was needed** (tail dropped): `anyOf(boss.groups.vip) = true` — a1's boss a2 is in group
    b2, which is vip.  Before 5f6f9bb composing `boss` onto `groups.vip` lost `vip` (`getChain()` returned
    the iterable part only) and the group ids were compared with `true`; now the chain is complete and
    the query answers what the path semantics says. -/
def tailFilterExt : U Float := .cmp .eq (.setFn .anyOf "boss.groups.vip") (.bool true)
example : (resolvePre5f6f9bb customDefs 0 ["boss", "groups", "vip"]).map (fun r => r.atoms.length) = some 2 := by decide
example : (resolve customDefs 0 ["boss", "groups", "vip"]).map (fun r => (r.atoms.length, r.hasTail)) = some (3, true) := by decide
example : (specPath customDefs 0 ["boss", "groups", "vip"]).map List.length = some 3 := by decide
example : wellTyped (dbSpecSigma customDefs) witFo 0 tailFilterExt = true := by decide
example : query customDb witFo 0 tailFilterExt = .ok [[97, 49]] ∧ specQuery customDb witFo 0 tailFilterExt = [[97, 49]] := by decide
/-- the same with the mapped symbol: the elements of `boss.groups.mlabel` are the mapped labels -/
example : query customDb witFo 0 (.cmp .eq (.setFn .anyOf "boss.groups.mlabel") (.str [77, 120])) = .ok [[97, 49]] ∧
    specQuery customDb witFo 0 (.cmp .eq (.setFn .anyOf "boss.groups.mlabel") (.str [77, 120])) = [[97, 49]] := by decide

/-- **why fce0761 was needed** (nil string function): nick(b1) is nil; `Eval` used to encode that as
    `(TypeString, nil)`, the empty string, so `nick = null` missed b1 and `nick = ""` returned it -/
example : (ExtSrc.strFn (F := Float) fun _ => none).codeValPreFce0761 [98, 49] = .str [] := rfl
example : (ExtSrc.strFn (F := Float) fun _ => none).codeVal [98, 49] = .nil := rfl
example : query customDb witFo 1 (.cmp .eq (.sym "nick") .null) = .ok [[98, 49]] ∧
    specQuery customDb witFo 1 (.cmp .eq (.sym "nick") .null) = [[98, 49]] ∧
    query customDb witFo 1 (.cmp .eq (.sym "nick") (.str [])) = .ok [] := by decide

/-- **open finding (external function behind a null link)**: `owner.vip = false` — a3 has no owner, the
    comparison has a null operand; the code evaluates vip("") = false and returns a3 -/
def extLinkFilter : U Float := .cmp .eq (.sym "owner.vip") (.bool false)
example : extNamesOK customDefs 0 extLinkFilter = false := by decide
theorem ext_null_link_violates :
    query customDb witFo 0 extLinkFilter = .ok [[97, 49], [97, 51]] ∧
    specQuery customDb witFo 0 extLinkFilter = [[97, 49]] := by decide

theorem query_exact_full_fails : ¬ query_exact_fullStatement := by
  intro h
  have := h customDb witFo 0 extLinkFilter (customDb_wellFormed customDb rfl) (customDb_nested customDb rfl) (by decide)
  rw [ext_null_link_violates.1, ext_null_link_violates.2] at this
  cases this

/-! ### child stores (the presence rule of the scanners)

  `items` (store 0) with a plain child store (1: own field `level`, the parent's symbols granted) and
  an extended child store (2: own field `note`).  a1 has plain-child data, a2 has extension data;
  `kids` links into the plain child store. -/

def childDefs : List StoreDef :=
  let root : StoreDef := { syms := [("id", .id), ("name", .field .str none), ("kids", .set .str (some 1))],
                           maps := [("meta", { ty := .any, key := "m", pfx := [] })] }
  [root,
   grantSymbols 0 root { syms := [("level", .field .int none)], maps := [], parent := some 0 },
   grantSymbols 0 root { syms := [("note", .field .str none)], maps := [], parent := some 0, extended := true }]

def childDb : Db Float where
  defs := childDefs
  rows := [[{ id := [97, 49], fields := [("name", .str [110])], sets := [("kids", [.str [97, 49], .str [97, 50]])], maps := [] },
            { id := [97, 50], fields := [("name", .str [109])], sets := [], maps := [] }],
           [{ id := [97, 49], fields := [("level", .int64 5)], sets := [], maps := [] }],
           [{ id := [97, 50], fields := [("note", .str [120])], sets := [], maps := [] }]]

theorem childDb_nested : ChildRowsNested childDb := by
  intro st hc
  match st with
  | 0 => simp [isChild, childDb, childDefs] at hc
  | 1 => decide
  | 2 => decide
  | n + 3 => simp [isChild, childDb, childDefs] at hc

/-- the plain child store shows only a1; a granted symbol (`name`) reads the parent's data -/
example : query childDb witFo 1 (.boolC true) = .ok [[97, 49]] := by decide
example : specQuery childDb witFo 1 (.boolC true) = [[97, 49]] := by decide
example : query childDb witFo 1 (.logic false (.cmp .eq (.sym "name") (.str [110])) (.cmp .eq (.sym "level") (.int 5))) = .ok [[97, 49]] := by decide
/-- the extended child store shows every parent entity; a1 has no extension data: `note = null` -/
example : query childDb witFo 2 (.cmp .eq (.sym "note") .null) = .ok [[97, 49]] := by decide
example : specQuery childDb witFo 2 (.cmp .eq (.sym "note") .null) = [[97, 49]] := by decide
/-- a sub-query whose linked store is the plain child store: a2 is linked but has no child data -/
example : query childDb witFo 0 (.cmp .eq (.setFnSub .count "kids" (.boolC true) [] none none) (.int 1)) = .ok [[97, 49]] := by decide
example : specQuery childDb witFo 0 (.cmp .eq (.setFnSub .count "kids" (.boolC true) [] none none) (.int 1)) = [[97, 49]] := by decide
example : query childDb witFo 0 (.cmp .eq (.setFn .count "kids") (.int 2)) = .ok [[97, 49]] := by decide
/-- `inheritMapSymbol` files the parent's map symbol under its key: on the child stores `m.x`
    resolves (and reads the parent's bucket), `meta.x` does not -/
example : ((dbSigma childDefs).sym 1 "m.x", (dbSigma childDefs).sym 1 "meta.x") = (some (.any, false), none) := by decide

/-- nested tag maps and a map symbol registered with a two-bucket prefix:
    `tags.site.name = "z"`, `meta.a.b = true`, `tags.site = null` (a map), `tags.site.lst = null` (a list),
    `tags.k.x = null` (`k` holds a value), `tags.nope.x = null` (missing level) -/
def exMapFilter : U Float :=
  .logic false (.cmp .eq (.sym "tags.site.name") (.str [122]))
    (.logic false (.cmp .eq (.sym "meta.a.b") (.bool true))
      (.logic false (.cmp .eq (.sym "tags.site") .null)
        (.logic false (.cmp .eq (.sym "tags.site.lst") .null)
          (.logic false (.cmp .eq (.sym "tags.k.x") .null) (.cmp .eq (.sym "tags.nope.x") .null)))))

example : wellTyped (dbSpecSigma exDb.defs) witFo 0 exMapFilter = true := by decide
example : query exDb witFo 0 exMapFilter = .ok [[97, 49]] := by decide
example : specQuery exDb witFo 0 exMapFilter = [[97, 49]] := by decide
example : query exDb witFo 0 (.cmp .eq (.sym "tags.site.name") .null) = .ok [[97, 50]] := by decide
/-- through a link: `owner.tags.…` resolves on the linked store (no map symbol there: rejected) -/
example : (dbSpecSigma exDb.defs).sym 0 "owner.tags.k" = none := by decide
example : (dbSpecSigma exDb.defs).sym 1 "members.tags.site.name" = some (.any, true) := by decide
example : query exDb witFo 0 exDbFilter = .ok [[97, 49]] := by decide
example : specQuery exDb witFo 0 exDbFilter = [[97, 49]] := by decide

/-! ### per-scan cursor state: sub-queries over the entity type being scanned (`Filter/Cursors.lean`)

  The set symbols of the code are stateful objects (`entitySetSymbolRuntime{cursor, value}`,
  `compositeEntitySetSymbol{cursor}`) kept in the `symbolCache` of a row cursor; a sub-query scanner gets a row
  cursor of its own (`newCursorScanner` → `newRowCursor`).  `Sk.run` evaluates a filter over a heap of such objects,
  keyed by (row cursor, symbol name). -/

/-- **Cursor state is per scan**: for every allocation of row cursors that gives a sub-query scan a row cursor no
    enclosing scan uses, every filter skeleton, row cursor, row and heap, the evaluation over the runtime objects
    computes the list semantics (`Sk.eval`, which is `evalBool`: `skOf_eval`) and leaves the objects of the
    enclosing scans untouched — no proviso that the sub-query ranges over another entity type or avoids the set
    symbol it iterates. -/
theorem cursor_state_per_scan (w : World C F) (alloc : Nat → C → String → Nat) (hfresh : ∀ rc c n, rc < alloc rc c n)
    (sk : Sk C F) (rc : Nat) (c : C) (h : Heap C F) :
    (sk.run w alloc rc c h).1 = sk.eval w c ∧ ∀ k' : ObjKey, k'.1 < rc → (sk.run w alloc rc c h).2 k' = h k' :=
  run_fresh_eq_eval w alloc hfresh sk rc c h

/-- the typed filter's skeleton has the typed filter's `EvalBool` as its list semantics -/
theorem skeleton_is_evalBool (w : World C F) (fo : FloatOps F) (t : TNode F) (c : C) :
    (skOf w fo t).eval w c = evalRow w fo c t := skOf_eval w fo t c

/-- **The same with the allocation inside the model** (`Filter/CursorsAlloc.lean`): the state counts the row cursors
    handed out; `OpenSetCursorForQuery` → `newCursorScanner` → `newRowCursor` is the policy `newRowCursorPolicy`.  For
    every policy that gives the scanner a row cursor nobody holds yet, every skeleton, every allocated row cursor, row
    and state: list semantics, the counter never decreases, the objects of all other existing row cursors untouched. -/
theorem cursor_state_allocating (w : World C F) (pol : RowCursorPolicy C) (hp : FreshPolicy pol) (sk : Sk C F)
    (rc : Nat) (c : C) (h : Heap C F) (x : Nat) (hx : rc < x) :
    (sk.exec w pol rc c (h, x)).1 = sk.eval w c ∧ x ≤ (sk.exec w pol rc c (h, x)).2.2 ∧
      ∀ k' : ObjKey, k'.1 < x → k'.1 ≠ rc → (sk.exec w pol rc c (h, x)).2.1 k' = h k' :=
  exec_eq_eval w pol hp sk rc c h x hx

/-- `Store.QueryIds` with every row evaluated over the heap of runtime set-symbol objects by the scan's row cursor
    (`ScanCursor`: `scanner.rowCursor = newRowCursor(store, tx)`, row cursor 0), sub-query scanners getting their row
    cursor from `pol` -/
def queryS (db : Db F) (fo : FloatOps F) (pol : RowCursorPolicy Ctx) (st : Nat) (f : U F) : Outcome (List Bytes) :=
  match typeCheck (dbSigma db.defs) fo st f with
  | .ok p => .ok ((scanIds db st).filter fun id =>
      !skipped db st id && (evalRowA (modelWorld db) fo pol (st, some id) p Heap.init).1)
  | .err => .err
  | .panic => .panic

/-- the policy the source denotes (`Filter/CursorsCode.lean`: `newRowCursorPolicy` iff the go/ast extractor
    `extract/c01cursors.go` recognises `newRowCursor`, `getSymbol`, `OpenSetCursorForQuery`, `newCursorScanner` and the
    runtime-copy branch of `BaseStore.GetSymbol` in the shapes the model reads) is fresh -/
theorem code_policy_fresh : FreshPolicy (codePolicy (C := C)) := codePolicy_fresh

/-- with the code's allocation (`newRowCursor` per sub-query scan) the query over the runtime objects is `query` -/
theorem queryS_eq_query (db : Db F) (fo : FloatOps F) (st : Nat) (f : U F) :
    queryS db fo codePolicy st f = query db fo st f := by
  unfold queryS query
  cases typeCheck (dbSigma db.defs) fo st f with
  | ok p =>
    simp only
    congr 1
    apply List.filter_congr
    intro id _
    rw [evalRowA_codePolicy]
  | err => rfl
  | panic => rfl

/-- **Sub-queries over the scanned entity type are exact.**  On every database and schema of `query_exact` — in
    particular with self-referential link sets (`AddFkSetSymbol(name, sameStore)`) — and every well-typed filter,
    however often and however deep it re-uses the set symbol a sub-query iterates, the query evaluated over the
    stateful runtime objects, with the row cursors allocated as the code allocates them, returns exactly the entities
    the specification's nested semantics selects. -/
theorem self_subquery_exact (db : Db F) (fo : FloatOps F) (st : Nat) (f : U F)
    (hwf : WellFormedDb db) (hch : ChildRowsNested db) (hpl : PlainDefs db.defs)
    (hwt : wellTyped (dbSpecSigma db.defs) fo st f = true) :
    queryS db fo codePolicy st f = .ok (specQuery db fo st f) := by
  rw [queryS_eq_query db fo st f]
  exact query_exact db fo st f hwf hch hpl hwt

/-- staff with `dr` (direct reports) → staff:  b → {m1, m2, m3}, m1 → {}, m2 → {w1}, m3 → {w1, w2} -/
def selfDb : Db Float where
  defs := [{ syms := [("id", .id), ("name", .field .str none), ("dr", .set .str (some 0))], maps := [] }]
  rows := [[{ id := [98], fields := [], sets := [("dr", [.str [109, 49], .str [109, 50], .str [109, 51]])], maps := [] },
            { id := [109, 49], fields := [], sets := [], maps := [] },
            { id := [109, 50], fields := [], sets := [("dr", [.str [119, 49]])], maps := [] },
            { id := [109, 51], fields := [], sets := [("dr", [.str [119, 49], .str [119, 50]])], maps := [] },
            { id := [119, 49], fields := [], sets := [], maps := [] },
            { id := [119, 50], fields := [], sets := [], maps := [] }]]

/-- `count(from dr where not isEmpty(dr)) = 2`: who has exactly two reports that have reports -/
def selfFilter : U Float := .cmp .eq (.setFnSub .count "dr" (.unot (.setFn .isEmpty "dr")) [] none none) (.int 2)
/-- nested two deep, the set symbol used at three levels:
    `count(from dr where count(from dr where isEmpty(dr)) = 1 and anyOf(dr) = "w1") = 1` -/
def selfFilter2 : U Float :=
  .cmp .eq (.setFnSub .count "dr"
    (.logic false (.cmp .eq (.setFnSub .count "dr" (.setFn .isEmpty "dr") [] none none) (.int 1))
                  (.cmp .eq (.setFn .anyOf "dr") (.str [119, 49]))) [] none none) (.int 1)

/-- every sub-query scan with a row cursor of its own (`newCursorScanner` → `newRowCursor`) -/
def perScan : RowCursorPolicy Ctx := codePolicy
/-- the symbol cache of the scanning row cursor handed to the sub-query scan (same entity type) -/
def sharedCache : RowCursorPolicy Ctx := sharedCachePolicy

example : FreshPolicy perScan := codePolicy_fresh
example : (codePolicy : RowCursorPolicy Ctx) = newRowCursorPolicy := by
  unfold codePolicy; exact if_pos (by decide)
example : ∀ rc c n, rc < (freshAlloc : Nat → Ctx → String → Nat) rc c n := fun rc _ _ => Nat.lt_succ_self rc
example : wellTyped (dbSpecSigma selfDb.defs) witFo 0 selfFilter = true := by decide
example : wellTyped (dbSpecSigma selfDb.defs) witFo 0 selfFilter2 = true := by decide
example : specQuery selfDb witFo 0 selfFilter = [[98]] := by decide
example : query selfDb witFo 0 selfFilter = .ok [[98]] := by decide
example : queryS selfDb witFo perScan 0 selfFilter = .ok [[98]] := by decide
example : specQuery selfDb witFo 0 selfFilter2 = [[98]] := by decide
example : queryS selfDb witFo perScan 0 selfFilter2 = .ok [[98]] := by decide

/-- non-vacuity of the hypotheses of `cursor_state_per_scan` / `cursor_state_allocating`: with the objects shared, evaluating
    `isEmpty(dr)` on the sub-query row m1 re-positions the walk over b's reports onto m1's (empty) set — the walk ends
    after m1 and b is counted as having no reports with reports -/
theorem shared_cache_differs : queryS selfDb witFo sharedCache 0 selfFilter = .ok [] := by decide

/-- a checkable form of `PlainDefs` -/
theorem plainDefs_of_check (defs : List StoreDef)
    (h : (defs.all fun d => d.syms.all fun e => match e.2 with | .custom .. => false | _ => true) = true) :
    PlainDefs defs := by
  intro st d hd n o ty l k hl
  have hdm : d ∈ defs := List.mem_of_getElem? hd
  have hmem : (n, SymDef.custom o ty l k) ∈ d.syms := by
    obtain ⟨l1, l2, h1, _⟩ := List.lookup_eq_some_iff.mp hl
    rw [h1]; simp
  have h1 := List.all_eq_true.mp h d hdm
  have h2 := List.all_eq_true.mp h1 _ hmem
  simp at h2

theorem selfDb_plain : PlainDefs selfDb.defs := plainDefs_of_check _ (by decide)

theorem selfDb_nested : ChildRowsNested selfDb := by
  apply childRowsNested_of_roots
  intro st
  match st with
  | 0 => rfl
  | n + 1 => rfl

theorem selfDb_wellFormed : WellFormedDb selfDb := by
  apply wellFormed_of_sets
  intro rows hrows e he p hp
  simp only [selfDb, List.mem_cons, List.mem_nil_iff, or_false] at hrows
  subst hrows
  simp only [List.mem_cons, List.mem_nil_iff, or_false] at he
  rcases he with rfl | rfl | rfl | rfl | rfl | rfl <;> simp only [List.mem_cons, List.mem_nil_iff, or_false] at hp <;>
    first
    | exact hp.elim
    | (subst hp
       first
       | exact ⟨[[109, 49], [109, 50], [109, 51]], rfl, by decide⟩
       | exact ⟨[[119, 49]], rfl, by decide⟩
       | exact ⟨[[119, 49], [119, 50]], rfl, by decide⟩)

/-- non-vacuity of `self_subquery_exact`: its hypotheses hold on the self-referential staff database, for the filter
    that uses the iterated set symbol at three nesting levels -/
example : queryS selfDb witFo perScan 0 selfFilter2 = .ok (specQuery selfDb witFo 0 selfFilter2) :=
  self_subquery_exact selfDb witFo 0 selfFilter2
    selfDb_wellFormed selfDb_nested selfDb_plain (by decide)

end StorageModel.Properties.C01

#print axioms StorageModel.Properties.C01.cursor_state_per_scan
#print axioms StorageModel.Properties.C01.cursor_state_allocating
#print axioms StorageModel.Properties.C01.code_policy_fresh
#print axioms StorageModel.Properties.C01.skeleton_is_evalBool
#print axioms StorageModel.Properties.C01.self_subquery_exact
#print axioms StorageModel.Properties.C01.shared_cache_differs
#print axioms StorageModel.Properties.C01.transform_total
#print axioms StorageModel.Properties.C01.eval_refines_sat
#print axioms StorageModel.Properties.C01.seek_eq_scan
#print axioms StorageModel.Properties.C01.query_shortcut_free
#print axioms StorageModel.Properties.C01.subquery_count_exact
#print axioms StorageModel.Properties.C01.null_rules
#print axioms StorageModel.Properties.C01.engine_null_rules
#print axioms StorageModel.Properties.C01.null_literal_rule
#print axioms StorageModel.Properties.C01.not_forms_negate
#print axioms StorageModel.Properties.C01.stacked_eq_flatMap
#print axioms StorageModel.Properties.C01.world_refines_spec
#print axioms StorageModel.Properties.C01.query_exact
#print axioms StorageModel.Properties.C01.query_exact_partial
#print axioms StorageModel.Properties.C01.query_exact_full_fails
#print axioms StorageModel.Properties.C01.seek_sound
#print axioms StorageModel.Properties.C01.seek_eq_scan_typed
#print axioms StorageModel.Properties.C01.seekable_needs_string_symbol
#print axioms StorageModel.Properties.C01.resolve_refines_path
#print axioms StorageModel.Properties.C01.symbol_tables_exact
#print axioms StorageModel.Properties.C01.map_element_names_node
#print axioms StorageModel.Properties.C01.map_element_reads_node
#print axioms StorageModel.Properties.C01.child_store_rows
#print axioms StorageModel.Properties.C01.subquery_sort_irrelevant
#print axioms StorageModel.Properties.C01.sort_is_permutation
#print axioms StorageModel.Properties.C01.sort_order_irrelevant
