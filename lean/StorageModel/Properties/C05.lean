import StorageModel.C05.Sim
import StorageModel.C05.SelfW
import StorageModel.C05.Self
/-
  C05 — Link collections stay symmetric; ref-counted links agree on both sides.

  "For many-to-many link collections, after any committed history of add, remove, set-links and
  entity deletions, B is in A's link set if and only if A is in B's; set-links leaves exactly the
  requested set (duplicates and order are irrelevant) and linking to a missing entity fails.  For
  reference-counted links both sides always hold the same positive count, and the link disappears
  from both sides when the count reaches zero or either entity is deleted."

  The theorems are about the executable model in StorageModel/C05/Model.lean, which follows
  boltz/link_collection.go, boltz/link_collection_rc.go, the list-entry / link-count functions of
  boltz/typed_bucket.go and Create/Update/DeleteById of boltz/store_crud.go branch by branch
  (paired writes local side first, the literal sorted-merge loop of SetLinks, int32 counts with
  explicit wrap-around), for every key type with a strict total order — in particular byte
  strings under Go's string order (`KOrd Bytes`, proved in C05/Order.lean).  The correspondence
  harness runs that same model (compiled) against the real stores on every check.

  A history is a list of `Db.Update` bodies (`List (List (Op K))`); a body that returns an error
  is rolled back (`commitTx`).  Histories start from the empty database.
-/
set_option linter.unusedSectionVars false
namespace StorageModel.Properties.C05
open StorageModel StorageModel.C05

section
variable {K : Type} [KOrd K] [DecidableEq K]

/-! ## symmetry -/

/-- **After any committed history, B is in A's link set iff A is in B's.**  No hypothesis on the
    history: any operations (link, ref-count, create/update/delete, with any arguments, failing
    or not), any number of transactions. -/
theorem links_symmetric (h : List (List (Op K))) (a b : K) :
    b ∈ linksOf (runHist ([] : St K) h) (.A, a) ↔ a ∈ linksOf (runHist ([] : St K) h) (.B, b) :=
  (runHist_lInv lInv_nil h).sym .A a b

/-- consequence: a link never points to an entity that does not exist (no dangling link survives
    a committed history), and every link bucket is in key order without duplicates -/
theorem links_point_to_existing (h : List (List (Op K))) (sd : Side) (a b : K)
    (hm : b ∈ linksOf (runHist ([] : St K) h) (sd, a)) :
    exists? (runHist ([] : St K) h) (sd.other, b) = true :=
  exists_of_mem_linksOf (((runHist_lInv lInv_nil h).sym sd a b).mp hm)

theorem link_buckets_sorted (h : List (List (Op K))) (r : Ref K) :
    SSorted (linksOf (runHist ([] : St K) h) r) :=
  (runHist_lInv lInv_nil h).sorted r

/-! ## SetLinks -/

/-- **set-links leaves exactly the requested set.**  For every state whose link buckets are
    symmetric and in key order (every state a history can reach, see `setlinks_exact_reachable`),
    every entity `id` that exists and EVERY request list `req` — any order, any duplicates, any
    overlap with the current links — all of whose keys exist on the other side:
    `SetLinks` succeeds; afterwards the link bucket of `id` is `dedup (sort req)`; on the other side
    exactly the requested entities list `id`; no other link set of `id`'s store changes. -/
theorem setlinks_exact {s : St K} (hinv : LInv s) {sd : Side} {id : K} {req : List K}
    (hid : exists? s (sd, id) = true) (hall : ∀ k ∈ req, exists? s (sd.other, k) = true) :
    (setLinks s sd id req).2 = none ∧
    linksOf (setLinks s sd id req).1 (sd, id) = dedupK (sortK req) ∧
    (∀ b, id ∈ linksOf (setLinks s sd id req).1 (sd.other, b) ↔ b ∈ req) ∧
    (∀ x, x ≠ id → ∀ y, y ∈ linksOf (setLinks s sd id req).1 (sd, x) ↔ y ∈ linksOf s (sd, x)) := by
  obtain ⟨h1, h2, h3⟩ := setLinks_ok hinv.sorted hid hall
  refine ⟨h1, h2, ?_, h3⟩
  intro b
  have := setLinks_sym hinv.sym h1 sd id b
  rw [← this, h2, mem_dedup_sort]

/-- the same, phrased on the key lists only: the current bucket content `cur` (strictly sorted,
    hence duplicate free) and the request decide the result -/
theorem setlinks_exact_lists {s : St K} (hinv : LInv s) {sd : Side} {id : K} {cur req : List K}
    (_hcur : linksOf s (sd, id) = cur) (_hsorted : SSorted cur) (_hnodup : cur.Nodup)
    (hid : exists? s (sd, id) = true) (hall : ∀ k ∈ req, exists? s (sd.other, k) = true) :
    linksOf (setLinks s sd id req).1 (sd, id) = dedupK (sortK req) :=
  (setlinks_exact hinv hid hall).2.1

theorem setlinks_exact_reachable (h : List (List (Op K))) {sd : Side} {id : K} {req : List K}
    (hid : exists? (runHist ([] : St K) h) (sd, id) = true)
    (hall : ∀ k ∈ req, exists? (runHist ([] : St K) h) (sd.other, k) = true) :
    (setLinks (runHist ([] : St K) h) sd id req).2 = none ∧
    linksOf (setLinks (runHist ([] : St K) h) sd id req).1 (sd, id) = dedupK (sortK req) ∧
    (∀ b, id ∈ linksOf (setLinks (runHist ([] : St K) h) sd id req).1 (sd.other, b) ↔ b ∈ req) :=
  let r := setlinks_exact (runHist_lInv lInv_nil h) hid hall
  ⟨r.1, r.2.1, r.2.2.1⟩

/-- `dedup (sort req)` is the set of `req`: same members, strictly increasing -/
theorem dedup_sort_is_the_set (req : List K) :
    SSorted (dedupK (sortK req)) ∧ ∀ x, x ∈ dedupK (sortK req) ↔ x ∈ req :=
  ⟨ssorted_dedup_sort req, fun _ => mem_dedup_sort⟩

/-- **linking to a missing entity fails**: a `SetLinks` request that names an entity which does
    not exist returns not-found … -/
theorem setlinks_missing {s : St K} (hinv : LInv s) {sd : Side} {id : K} {req : List K}
    (hid : exists? s (sd, id) = true) (hmiss : ∃ k ∈ req, exists? s (sd.other, k) = false) :
    (setLinks s sd id req).2 = some .notFound := by
  apply setLinks_missing hinv.sorted hid _ hmiss
  intro k hk
  exact exists_of_mem_linksOf ((hinv.sym sd id k).mp hk)

/-- … and so do `AddLinks`, `AddLink`, `IncrementLinkCount` and `SetLinkCount` … -/
theorem addlinks_missing {s : St K} {sd : Side} {id : K} {keys : List K}
    (hid : exists? s (sd, id) = true) (hmiss : ∃ k ∈ keys, exists? s (sd.other, k) = false) :
    (addLinks s sd id keys).2 = some .notFound := by
  rw [addLinks_unfold keys hid]; exact linkAll_missing sd id keys s hmiss

theorem addlink_missing {s : St K} {sd : Side} {id k : K}
    (hid : exists? s (sd, id) = true) (hmiss : exists? s (sd.other, k) = false) :
    (addLink s sd id k).2.2 = some .notFound := by
  rw [(addLink_unfold k hid).2]; exact link_err hmiss

theorem increment_missing {s : St K} {sd : Side} {id k : K}
    (hid : exists? s (sd, id) = true) (hmiss : exists? s (sd.other, k) = false) :
    (rcIncr s sd id k).2.2 = some .notFound := rcIncr_missing_other hid hmiss

theorem setcount_missing {s : St K} {sd : Side} {id k : K} (c : Int)
    (hid : exists? s (sd, id) = true) (hmiss : exists? s (sd.other, k) = false) :
    (rcSet s sd id k c).2.2.2 = some .notFound := rcSet_missing_other c hid hmiss

/-- … and a transaction whose body fails leaves the database as it was. -/
theorem failed_tx_changes_nothing {s : St K} {ops : List (Op K)} (h : (runOps s ops).2 = true) :
    commitTx s ops = s := commitTx_failed h

/-! ## reference-counted links -/

/-- **Both sides always hold the same positive count**, after every committed history inside the
    property's vocabulary: `SetLinkCount` arguments are ≥ 0 (`HistVocab`) and counts stay below
    2^31 — stated on the history alone: the sum of all `SetLinkCount` arguments plus the number
    of increments (`histWeight`) is < 2^31. -/
theorem rc_agree (h : List (List (Op K))) (hv : HistVocab h) (hw : histWeight h < 2147483648) (a b : K) :
    rcOf (runHist ([] : St K) h) (.A, a) b = rcOf (runHist ([] : St K) h) (.B, b) a ∧
    ∀ c, rcOf (runHist ([] : St K) h) (.A, a) b = some c → 0 < c ∧ c < 2147483648 := by
  have := runHist_rcInv (rcInv_nil (K := K) 0) (Int.le_refl 0) h hv (by omega)
  refine ⟨this.1 .A a b, fun c hc => ?_⟩
  have := this.2 _ _ _ hc
  omega

/-- the hypothesis of `rc_agree` is necessary: at 2^31 - 1 the int32 count wraps to a negative
    number (the model follows the Go arithmetic) -/
example : (bucketIncr ({ rc := [((5 : Nat), 2147483647)] } : Ent Nat) 5).2 = -2147483648 := by decide

/-- **The link disappears from both sides when the count reaches zero** (by `DecrementLinkCount`):
    in every state satisfying the invariant, a decrement of an existing entity's count succeeds,
    returns the old count minus one (−1 if there was none), and whenever that is ≤ 0 neither side
    holds an entry afterwards; otherwise both sides hold the decremented count. -/
theorem rc_zero_removes {s : St K} {w : Int} (hinv : RcInv s w) (hw : w < 2147483648) {sd : Side} {id k : K}
    (hid : exists? s (sd, id) = true) :
    (rcDecr s sd id k).2.2 = none ∧
    ((rcDecr s sd id k).2.1 ≤ 0 →
      rcOf (rcDecr s sd id k).1 (sd, id) k = none ∧ rcOf (rcDecr s sd id k).1 (sd.other, k) id = none) ∧
    ((rcDecr s sd id k).2.1 > 0 →
      rcOf (rcDecr s sd id k).1 (sd, id) k = some (rcDecr s sd id k).2.1 ∧
      rcOf (rcDecr s sd id k).1 (sd.other, k) id = some (rcDecr s sd id k).2.1) := by
  obtain ⟨h1, h2, _, _⟩ := rcDecr_ok (k := k) hinv hw hid
  have hret : (rcDecr s sd id k).2.1 = decrRet (rcOf s (sd, id) k) := by rw [h1]
  have hloc := h2 sd id k
  have hoth := h2 sd.other k id
  simp only [if_true, and_self] at hloc
  simp only [Side.other_ne, false_and, if_false, if_true, and_self] at hoth
  refine ⟨by rw [h1], ?_, ?_⟩
  · intro hle
    rw [hret] at hle
    rw [hloc, hoth]
    cases hc : rcOf s (sd, id) k with
    | none => simp [decrValue]
    | some c =>
      rw [hc] at hle; simp only [decrRet] at hle
      simp [decrValue]; omega
  · intro hgt
    rw [hret] at hgt ⊢
    rw [hloc, hoth]
    cases hc : rcOf s (sd, id) k with
    | none => rw [hc] at hgt; simp [decrRet] at hgt
    | some c =>
      rw [hc] at hgt; simp only [decrRet] at hgt
      simp [decrValue, decrRet]; omega

/-- … and by `SetLinkCount(…, 0)`; a positive argument stores that count on both sides -/
theorem rc_set_both_sides {s : St K} {sd : Side} {id k : K} (c : Int) (hc0 : 0 ≤ c) (hc : c < 2147483648)
    (hid : exists? s (sd, id) = true) (hk : exists? s (sd.other, k) = true) :
    (rcSet s sd id k c).2.2.2 = none ∧
    rcOf (rcSet s sd id k c).1 (sd, id) k = (if c = 0 then none else some c) ∧
    rcOf (rcSet s sd id k c).1 (sd.other, k) id = (if c = 0 then none else some c) := by
  obtain ⟨h1, h2, _, _⟩ := rcSet_ok (s := s) (sd := sd) (id := id) (k := k) c hc0 hc hid hk
  refine ⟨h1, ?_, ?_⟩
  · rw [h2]; simp
  · rw [h2]; simp

/-- an increment inside the vocabulary stores the same new count on both sides -/
theorem rc_increment_both_sides {s : St K} {w : Int} (hinv : RcInv s w) (hw : w + 1 < 2147483648)
    {sd : Side} {id k : K} (hid : exists? s (sd, id) = true) (hk : exists? s (sd.other, k) = true) :
    ∃ n, (rcIncr s sd id k).2 = (n, none) ∧ 0 < n ∧
      rcOf (rcIncr s sd id k).1 (sd, id) k = some n ∧ rcOf (rcIncr s sd id k).1 (sd.other, k) id = some n := by
  obtain ⟨n, h1, hn, h2, _, _⟩ := rcIncr_ok hinv hw hid hk
  refine ⟨n, h1, ?_, ?_, ?_⟩
  · rw [hn]; cases hc : rcOf s (sd, id) k with
    | none => simp
    | some c => have := hinv.2 _ _ _ hc; simp only; omega
  · rw [h2]; simp
  · rw [h2]; simp

/-! ## entity deletion -/

/-- **The link disappears from both sides when either entity is deleted**: after a successful
    `DeleteById` from a state satisfying the invariants, the entity is gone, no link set and no
    count map of the other store mentions its id, and nothing else changed. -/
theorem delete_unlinks {s : St K} {w : Int} (hl : LInv s) (hr : RcInv s w) {sd : Side} {id : K}
    (hid : exists? s (sd, id) = true) :
    (deleteEntity s sd id).2 = none ∧
    exists? (deleteEntity s sd id).1 (sd, id) = false ∧
    linksOf (deleteEntity s sd id).1 (sd, id) = [] ∧
    (∀ x, id ∉ linksOf (deleteEntity s sd id).1 (sd.other, x)) ∧
    (∀ x, rcOf (deleteEntity s sd id).1 (sd.other, x) id = none ∧ rcOf (deleteEntity s sd id).1 (sd, id) x = none) ∧
    (∀ x y, y ≠ id → (y ∈ linksOf (deleteEntity s sd id).1 (sd.other, x) ↔ y ∈ linksOf s (sd.other, x))) ∧
    (∀ x, x ≠ id → linksOf (deleteEntity s sd id).1 (sd, x) = linksOf s (sd, x)) := by
  obtain ⟨h1, h2, h3, h4⟩ := deleteEntity_ok hid
  have hgone : exists? (deleteEntity s sd id).1 (sd, id) = false := by rw [h2]; simp
  refine ⟨h1, hgone, linksOf_of_not_exists hgone, ?_, ?_, ?_, ?_⟩
  · intro x hm
    rw [h3] at hm
    obtain ⟨_, hm1, hm2⟩ := hm
    exact hm2 ⟨rfl, (hl.sym sd id x).mpr (by simpa using hm1), rfl⟩
  · intro x
    constructor
    · rw [h4]
      have hne : ¬ (sd, id) = (sd.other, x) := fun h => Side.ne_other sd (Prod.mk.inj h).1
      simp only [hne, if_false, true_and, and_true]
      split
      · rfl
      · next hn =>
        have : rcOf s (sd, id) x = none := by
          cases hc : rcOf s (sd, id) x with
          | none => rfl
          | some c => exact absurd (by rw [hc]; simp) hn
        rw [← hr.1 sd id x]; exact this
    · exact rcOf_of_not_exists hgone x
  · intro x y hy
    rw [h3]
    have hne : ¬ (sd, id) = (sd.other, x) := fun h => Side.ne_other sd (Prod.mk.inj h).1
    simp [hne, hy]
  · intro x hx
    apply ssorted_ext ((deleteEntity_allSorted hl.sorted) (sd, x)) (hl.sorted (sd, x))
    intro y
    rw [h3]
    have hne : ¬ (sd, id) = (sd, x) := fun h => hx (Prod.mk.inj h).2.symm
    simp [hne]

/-- deletion from any state a history inside the vocabulary can reach -/
theorem delete_unlinks_reachable (h : List (List (Op K))) (hv : HistVocab h) (hw : histWeight h < 2147483648)
    {sd : Side} {id : K} (hid : exists? (runHist ([] : St K) h) (sd, id) = true) :
    let s' := (deleteEntity (runHist ([] : St K) h) sd id).1
    exists? s' (sd, id) = false ∧ (∀ x, id ∉ linksOf s' (sd.other, x)) ∧ (∀ x, rcOf s' (sd.other, x) id = none) := by
  have hr := runHist_rcInv (rcInv_nil (K := K) 0) (Int.le_refl 0) h hv (by omega)
  obtain ⟨_, a, _, b, c, _⟩ := delete_unlinks (runHist_lInv lInv_nil h) hr hid
  exact ⟨a, b, fun x => (c x).1⟩

/-! ## the model refines the relational specification -/

/-- **For every history inside the vocabulary the committed state of the model is the state the
    specification prescribes** (C05/Spec.lean: ONE relation and ONE count map of which both sides'
    views are projections; set-links replaces a row by the requested set; linking to a missing
    entity fails; delete removes every pair that mentions the entity; a count reaching zero removes
    the pair; a failing operation fails its transaction, which then changes nothing): both show
    the same entities, the same sorted link list for every entity on either side and the same
    count for every pair from either side.  `step_sim` (C05/Sim.lean) is the single-operation
    statement, including equal return values and equal failure. -/
theorem model_refines_spec (h : List (List (Op K))) (hv : HistVocab h) (hw : histWeight h < 2147483648) :
    (∀ r, exists? (runHist ([] : St K) h) r = Spec.has (srunHist ({} : Spec.SSt K) h) r) ∧
    (∀ sd id, linksOf (runHist ([] : St K) h) (sd, id) = Spec.partners (srunHist ({} : Spec.SSt K) h) sd id) ∧
    (∀ sd id k, rcOf (runHist ([] : St K) h) (sd, id) k = Spec.count (srunHist ({} : Spec.SSt K) h) sd id k) := by
  have hl := runHist_lInv (lInv_nil (K := K)) h
  have hc := runHist_rcInv (rcInv_nil (K := K) 0) (Int.le_refl 0) h hv (by omega)
  have hr := runHist_sim (rel_nil (K := K)) ⟨lInv_nil, rcInv_nil 0⟩ (Int.le_refl 0) h hv (by omega)
  exact ⟨hr.ents, fun sd id => (partners_eq hr hl sd id).symm, fun sd id k => (count_eq hr hc sd id k).symm⟩

/-! ## self-referential collections: one store linked with itself, self links allowed

  `store.AddLinkCollection(peers, peers)`: the collection's other field is its own field, so an entity
  can be linked to itself, `link`/`unlink` write twice into the same bucket, and `EntityDeleted`'s
  `RemoveLink(id, id)` deletes from the very bucket whose keys it walks — the repaired code
  (b23d525) collects the keys first.  Model: C05/SelfW.lean (the same state type and bucket
  primitives, one side). -/

open SelfW in
/-- **symmetry for every history** of a self-referential collection (create, create-with-links,
    delete, AddLinks, RemoveLinks, SetLinks, AddLink, RemoveLink; self links included) -/
theorem self_links_symmetric (h : List (List (SelfW.SOp K))) (a b : K) :
    b ∈ SelfW.L (SelfW.srunHistW ([] : St K) h) a ↔ a ∈ SelfW.L (SelfW.srunHistW ([] : St K) h) b :=
  (SelfW.srunHistW_lInv SelfW.lInvW_nil h).sym a b

/-- **set-links leaves exactly the requested set**, whether or not the request, the current set or
    both contain the entity itself; exactly the requested entities list `id` afterwards -/
theorem self_setlinks_exact {s : St K} (hinv : SelfW.LInvW s) {id : K} {req : List K}
    (hid : exists? s (SelfW.R id) = true) (hall : ∀ k ∈ req, exists? s (SelfW.R k) = true) :
    (SelfW.ssetLinks s id req).2 = none ∧
    SelfW.L (SelfW.ssetLinks s id req).1 id = dedupK (sortK req) ∧
    (∀ b, id ∈ SelfW.L (SelfW.ssetLinks s id req).1 b ↔ b ∈ req) := by
  obtain ⟨h1, h2⟩ := SelfW.ssetLinks_ok hinv.sorted hid hall
  refine ⟨h1, h2, fun b => ?_⟩
  rw [← SelfW.ssetLinks_sym hinv.sym h1 id b, h2, mem_dedup_sort]

theorem self_setlinks_missing {s : St K} (hinv : SelfW.LInvW s) {id : K} {req : List K}
    (hid : exists? s (SelfW.R id) = true) (hmiss : ∃ k ∈ req, exists? s (SelfW.R k) = false) :
    (SelfW.ssetLinks s id req).2 = some .notFound := by
  apply SelfW.ssetLinks_missing hinv.sorted hid _ hmiss
  intro k hk
  exact exists_of_mem_linksOf ((hinv.sym id k).mp hk)

/-- **a deleted entity disappears from every link set, also when it was linked to itself**: after
    `DeleteById` nobody lists `id`, `id` is gone, and every other membership is as before -/
theorem self_delete_unlinks {s : St K} (hinv : SelfW.LInvW s) {id : K} (hid : exists? s (SelfW.R id) = true) :
    (SelfW.sdelete s id).2 = none ∧
    exists? (SelfW.sdelete s id).1 (SelfW.R id) = false ∧
    (∀ x, id ∉ SelfW.L (SelfW.sdelete s id).1 x) ∧
    (∀ x y, x ≠ id → y ≠ id → (y ∈ SelfW.L (SelfW.sdelete s id).1 x ↔ y ∈ SelfW.L s x)) := by
  obtain ⟨h1, h2, h3⟩ := SelfW.sdelete_ok hid
  refine ⟨h1, by rw [h2]; simp, ?_, ?_⟩
  · intro x hm
    rw [h3] at hm
    obtain ⟨_, hm1, hm2⟩ := hm
    exact hm2 ⟨(hinv.sym id x).mpr hm1, rfl⟩
  · intro x y hx hy
    rw [h3]; simp [hx, hy]

theorem self_delete_unlinks_reachable (h : List (List (SelfW.SOp K))) {id : K}
    (hid : exists? (SelfW.srunHistW ([] : St K) h) (SelfW.R id) = true) (x : K) :
    id ∉ SelfW.L (SelfW.sdelete (SelfW.srunHistW ([] : St K) h) id).1 x :=
  (self_delete_unlinks (SelfW.srunHistW_lInv SelfW.lInvW_nil h) hid).2.2.1 x

end

/-! ## non-vacuity: concrete states and histories (keys = Nat) -/

/-- a history: create B.1 B.2 B.3 and A.7; link A.7 to {1,3}; set-links A.7 := [3,2,2,3] -/
def demoHist : List (List (Op Nat)) :=
  [[.create .B 1 false none, .create .B 2 false none, .create .B 3 false none, .create .A 7 false none],
   [.addLinks .A 7 [3, 1]],
   [.setLinks .A 7 [3, 2, 2, 3], .incr .A 7 2, .incr .B 2 7, .setCount .A 7 3 5, .decr .B 3 7]]

example : linksOf (runHist [] demoHist) (.A, 7) = [2, 3] := by decide
example : linksOf (runHist [] demoHist) (.B, 2) = [7] ∧ linksOf (runHist [] demoHist) (.B, 1) = [] := by decide
example : rcOf (runHist [] demoHist) (.A, 7) 2 = some 2 ∧ rcOf (runHist [] demoHist) (.B, 2) 7 = some 2 := by decide
example : rcOf (runHist [] demoHist) (.A, 7) 3 = some 4 ∧ rcOf (runHist [] demoHist) (.B, 3) 7 = some 4 := by decide
example : HistVocab demoHist ∧ histWeight demoHist < 2147483648 := by
  refine ⟨?_, by decide⟩
  intro tx htx op hop
  simp only [demoHist, List.mem_cons, List.mem_nil_iff, or_false] at htx
  rcases htx with rfl | rfl | rfl <;> simp only [List.mem_cons, List.mem_nil_iff, or_false] at hop
  all_goals (rcases hop with rfl | rfl | rfl | rfl | rfl <;> simp [OpVocab])
/-- hypotheses of `setlinks_exact` / `setlinks_missing` / `delete_unlinks` are satisfiable by a state with links -/
example : exists? (runHist [] demoHist) (.A, 7) = true ∧ exists? (runHist [] demoHist) (.B, 9) = false := by decide
example : (setLinks (runHist [] demoHist) .A 7 [9, 1]).2 = some .notFound := by decide
example : (linksOf (deleteEntity (runHist [] demoHist) .B 2).1 (.A, 7), rcOf (deleteEntity (runHist [] demoHist) .B 2).1 (.A, 7) 2)
    = ([3], none) := by decide

/-! ### self-referential wiring -/

/-- create 1 2 3; `AddLinks(1, 1, 2, 3)` (a self link) and `DeleteById(1)` in one transaction -/
def selfHist : List (List (SelfW.SOp Nat)) :=
  [[.create 1 false none, .create 2 false none, .create 3 false none, .addLinks 1 [1, 2, 3]]]

example : SelfW.L (SelfW.srunHistW [] selfHist) 1 = [1, 2, 3] ∧ SelfW.L (SelfW.srunHistW [] selfHist) 2 = [1] := by decide
example : exists? (SelfW.srunHistW [] selfHist) (SelfW.R 1) = true := by decide
example : SelfW.L (SelfW.sdelete (SelfW.srunHistW [] selfHist) 1).1 2 = [] ∧
    SelfW.L (SelfW.sdelete (SelfW.srunHistW [] selfHist) 1).1 3 = [] := by decide
example : SelfW.L (SelfW.ssetLinks (SelfW.srunHistW [] selfHist) 2 [2, 3, 2]).1 2 = [2, 3] ∧
    SelfW.L (SelfW.ssetLinks (SelfW.srunHistW [] selfHist) 2 [2, 3, 2]).1 1 = [1, 3] := by decide

/-- Why the tree before b23d525 violated C05 in this wiring (C05/Self.lean models the old walk: a
    bbolt cursor standing on an in-memory node skips the key after a deleted current key): entity
    2 kept its link to the deleted entity 1. -/
example : Self.linksOf (Self.runHist false {} Self.witness) 2 = [1] ∧
    Self.mget (Self.runHist false {} Self.witness).ents 1 = none := by decide

end StorageModel.Properties.C05

#print axioms StorageModel.Properties.C05.links_symmetric
#print axioms StorageModel.Properties.C05.setlinks_exact
#print axioms StorageModel.Properties.C05.setlinks_missing
#print axioms StorageModel.Properties.C05.rc_agree
#print axioms StorageModel.Properties.C05.rc_zero_removes
#print axioms StorageModel.Properties.C05.delete_unlinks
#print axioms StorageModel.Properties.C05.model_refines_spec
#print axioms StorageModel.Properties.C05.self_links_symmetric
#print axioms StorageModel.Properties.C05.self_setlinks_exact
#print axioms StorageModel.Properties.C05.self_delete_unlinks
