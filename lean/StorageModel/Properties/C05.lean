import StorageModel.C05.Sim
import StorageModel.C05.SelfW
import StorageModel.C05.Self
import StorageModel.C05.SchemaHist
import StorageModel.C05.KeySize
import StorageModel.C05.Restrict
/-
  C05 — Link collections stay symmetric; ref-counted links agree on both sides.

  "For many-to-many link collections, after any committed history of add, remove, set-links and
  entity deletions, B is in A's link set if and only if A is in B's; set-links leaves exactly the
  requested set (duplicates and order are irrelevant) and linking to a missing entity fails.  For
  reference-counted links both sides always hold the same positive count, and the link disappears
  from both sides when the count reaches zero or either entity is deleted."

  The theorems are about the executable model in StorageModel/C05/Model.lean, which follows
  boltz/link_collection.go, boltz/link_collection_rc.go, the list-entry / link-count functions of
  boltz/typed_bucket.go and Create/Update/DeleteById of boltz/store_crud.go branch by branch
  (paired writes local side first, the literal sorted-merge loop of SetLinks, int32 counts with
  explicit wrap-around), for every key type with a strict total order — in particular byte
  strings under Go's string order (`KOrd Bytes`, proved in C05/Order.lean).  The correspondence
  harness runs that same model (compiled) against the real stores on every check.

  A history is a list of `Db.Update` bodies (`List (List (Op K))`); a body that returns an error
  is rolled back (`commitTx`).  Histories start from the empty database.
-/
set_option linter.unusedSectionVars false
namespace StorageModel.Properties.C05
open StorageModel StorageModel.C05

section
variable {K : Type} [KOrd K] [DecidableEq K]

/-! ## symmetry -/

/-- **After any committed history, B is in A's link set iff A is in B's.**  No hypothesis on the
    history: any operations (link, ref-count, create/update/delete, with any arguments, failing
    or not), any number of transactions. -/
theorem links_symmetric (h : List (List (Op K))) (a b : K) :
    b ∈ linksOf (runHist ([] : St K) h) (.A, a) ↔ a ∈ linksOf (runHist ([] : St K) h) (.B, b) :=
  (runHist_lInv lInv_nil h).sym .A a b

/-- consequence: a link never points to an entity that does not exist (no dangling link survives
    a committed history), and every link bucket is in key order without duplicates -/
theorem links_point_to_existing (h : List (List (Op K))) (sd : Side) (a b : K)
    (hm : b ∈ linksOf (runHist ([] : St K) h) (sd, a)) :
    exists? (runHist ([] : St K) h) (sd.other, b) = true :=
  exists_of_mem_linksOf (((runHist_lInv lInv_nil h).sym sd a b).mp hm)

theorem link_buckets_sorted (h : List (List (Op K))) (r : Ref K) :
    SSorted (linksOf (runHist ([] : St K) h) r) :=
  (runHist_lInv lInv_nil h).sorted r

/-! ## SetLinks -/

/-- **set-links leaves exactly the requested set.**  For every state whose link buckets are
    symmetric and in key order (every state a history can reach, see `setlinks_exact_reachable`),
    every entity `id` that exists and EVERY request list `req` — any order, any duplicates, any
    overlap with the current links — all of whose keys exist on the other side:
    `SetLinks` succeeds; afterwards the link bucket of `id` is `dedup (sort req)`; on the other side
    exactly the requested entities list `id`; no other link set of `id`'s store changes. -/
theorem setlinks_exact {s : St K} (hinv : LInv s) {sd : Side} {id : K} {req : List K}
    (hid : exists? s (sd, id) = true) (hall : ∀ k ∈ req, exists? s (sd.other, k) = true) :
    (setLinks s sd id req).2 = none ∧
    linksOf (setLinks s sd id req).1 (sd, id) = dedupK (sortK req) ∧
    (∀ b, id ∈ linksOf (setLinks s sd id req).1 (sd.other, b) ↔ b ∈ req) ∧
    (∀ x, x ≠ id → ∀ y, y ∈ linksOf (setLinks s sd id req).1 (sd, x) ↔ y ∈ linksOf s (sd, x)) := by
  obtain ⟨h1, h2, h3⟩ := setLinks_ok hinv.sorted hid hall
  refine ⟨h1, h2, ?_, h3⟩
  intro b
  have := setLinks_sym hinv.sym h1 sd id b
  rw [← this, h2, mem_dedup_sort]

/-- the same, phrased on the key lists only: the current bucket content `cur` (strictly sorted,
    hence duplicate free) and the request decide the result -/
theorem setlinks_exact_lists {s : St K} (hinv : LInv s) {sd : Side} {id : K} {cur req : List K}
    (_hcur : linksOf s (sd, id) = cur) (_hsorted : SSorted cur) (_hnodup : cur.Nodup)
    (hid : exists? s (sd, id) = true) (hall : ∀ k ∈ req, exists? s (sd.other, k) = true) :
    linksOf (setLinks s sd id req).1 (sd, id) = dedupK (sortK req) :=
  (setlinks_exact hinv hid hall).2.1

theorem setlinks_exact_reachable (h : List (List (Op K))) {sd : Side} {id : K} {req : List K}
    (hid : exists? (runHist ([] : St K) h) (sd, id) = true)
    (hall : ∀ k ∈ req, exists? (runHist ([] : St K) h) (sd.other, k) = true) :
    (setLinks (runHist ([] : St K) h) sd id req).2 = none ∧
    linksOf (setLinks (runHist ([] : St K) h) sd id req).1 (sd, id) = dedupK (sortK req) ∧
    (∀ b, id ∈ linksOf (setLinks (runHist ([] : St K) h) sd id req).1 (sd.other, b) ↔ b ∈ req) :=
  let r := setlinks_exact (runHist_lInv lInv_nil h) hid hall
  ⟨r.1, r.2.1, r.2.2.1⟩

/-- `dedup (sort req)` is the set of `req`: same members, strictly increasing -/
theorem dedup_sort_is_the_set (req : List K) :
    SSorted (dedupK (sortK req)) ∧ ∀ x, x ∈ dedupK (sortK req) ↔ x ∈ req :=
  ⟨ssorted_dedup_sort req, fun _ => mem_dedup_sort⟩

/-- **linking to a missing entity fails**: a `SetLinks` request that names an entity which does
    not exist returns not-found … -/
theorem setlinks_missing {s : St K} (hinv : LInv s) {sd : Side} {id : K} {req : List K}
    (hid : exists? s (sd, id) = true) (hmiss : ∃ k ∈ req, exists? s (sd.other, k) = false) :
    (setLinks s sd id req).2 = some .notFound := by
  apply setLinks_missing hinv.sorted hid _ hmiss
  intro k hk
  exact exists_of_mem_linksOf ((hinv.sym sd id k).mp hk)

/-- … and so do `AddLinks`, `AddLink`, `IncrementLinkCount` and `SetLinkCount` … -/
theorem addlinks_missing {s : St K} {sd : Side} {id : K} {keys : List K}
    (hid : exists? s (sd, id) = true) (hmiss : ∃ k ∈ keys, exists? s (sd.other, k) = false) :
    (addLinks s sd id keys).2 = some .notFound := by
  rw [addLinks_unfold keys hid]; exact linkAll_missing sd id keys s hmiss

theorem addlink_missing {s : St K} {sd : Side} {id k : K}
    (hid : exists? s (sd, id) = true) (hmiss : exists? s (sd.other, k) = false) :
    (addLink s sd id k).2.2 = some .notFound := by
  rw [(addLink_unfold k hid).2]; exact link_err hmiss

theorem increment_missing {s : St K} {sd : Side} {id k : K}
    (hid : exists? s (sd, id) = true) (hmiss : exists? s (sd.other, k) = false) :
    (rcIncr s sd id k).2.2 = some .notFound := rcIncr_missing_other hid hmiss

theorem setcount_missing {s : St K} {sd : Side} {id k : K} (c : Int)
    (hid : exists? s (sd, id) = true) (hmiss : exists? s (sd.other, k) = false) :
    (rcSet s sd id k c).2.2.2 = some .notFound := rcSet_missing_other c hid hmiss

/-- … and a transaction whose body fails leaves the database as it was. -/
theorem failed_tx_changes_nothing {s : St K} {ops : List (Op K)} (h : (runOps s ops).2 = true) :
    commitTx s ops = s := commitTx_failed h

/-! ## reference-counted links -/

/-- **Both sides always hold the same positive count**, after every committed history inside the
    property's vocabulary: `SetLinkCount` arguments are ≥ 0 (`HistVocab`) and counts stay below
    2^31 — stated on the history alone: the sum of all `SetLinkCount` arguments plus the number
    of increments (`histWeight`) is < 2^31. -/
theorem rc_agree (h : List (List (Op K))) (hv : HistVocab h) (hw : histWeight h < 2147483648) (a b : K) :
    rcOf (runHist ([] : St K) h) (.A, a) b = rcOf (runHist ([] : St K) h) (.B, b) a ∧
    ∀ c, rcOf (runHist ([] : St K) h) (.A, a) b = some c → 0 < c ∧ c < 2147483648 := by
  have := runHist_rcInv (rcInv_nil (K := K) 0) (Int.le_refl 0) h hv (by omega)
  refine ⟨this.1 .A a b, fun c hc => ?_⟩
  have := this.2 _ _ _ hc
  omega

/-- the hypothesis of `rc_agree` is necessary: at 2^31 - 1 the int32 count wraps to a negative
    number (the model follows the Go arithmetic) -/
example : (bucketIncr ({ rc := [((5 : Nat), 2147483647)] } : Ent Nat) 5).2 = -2147483648 := by decide

/-- **The link disappears from both sides when the count reaches zero** (by `DecrementLinkCount`):
    in every state satisfying the invariant, a decrement of an existing entity's count succeeds,
    returns the old count minus one (−1 if there was none), and whenever that is ≤ 0 neither side
    holds an entry afterwards; otherwise both sides hold the decremented count. -/
theorem rc_zero_removes {s : St K} {w : Int} (hinv : RcInv s w) (hw : w < 2147483648) {sd : Side} {id k : K}
    (hid : exists? s (sd, id) = true) :
    (rcDecr s sd id k).2.2 = none ∧
    ((rcDecr s sd id k).2.1 ≤ 0 →
      rcOf (rcDecr s sd id k).1 (sd, id) k = none ∧ rcOf (rcDecr s sd id k).1 (sd.other, k) id = none) ∧
    ((rcDecr s sd id k).2.1 > 0 →
      rcOf (rcDecr s sd id k).1 (sd, id) k = some (rcDecr s sd id k).2.1 ∧
      rcOf (rcDecr s sd id k).1 (sd.other, k) id = some (rcDecr s sd id k).2.1) := by
  obtain ⟨h1, h2, _, _⟩ := rcDecr_ok (k := k) hinv hw hid
  have hret : (rcDecr s sd id k).2.1 = decrRet (rcOf s (sd, id) k) := by rw [h1]
  have hloc := h2 sd id k
  have hoth := h2 sd.other k id
  simp only [if_true, and_self] at hloc
  simp only [Side.other_ne, false_and, if_false, if_true, and_self] at hoth
  refine ⟨by rw [h1], ?_, ?_⟩
  · intro hle
    rw [hret] at hle
    rw [hloc, hoth]
    cases hc : rcOf s (sd, id) k with
    | none => simp [decrValue]
    | some c =>
      rw [hc] at hle; simp only [decrRet] at hle
      simp [decrValue]; omega
  · intro hgt
    rw [hret] at hgt ⊢
    rw [hloc, hoth]
    cases hc : rcOf s (sd, id) k with
    | none => rw [hc] at hgt; simp [decrRet] at hgt
    | some c =>
      rw [hc] at hgt; simp only [decrRet] at hgt
      simp [decrValue, decrRet]; omega

/-- … and by `SetLinkCount(…, 0)`; a positive argument stores that count on both sides -/
theorem rc_set_both_sides {s : St K} {sd : Side} {id k : K} (c : Int) (hc0 : 0 ≤ c) (hc : c < 2147483648)
    (hid : exists? s (sd, id) = true) (hk : exists? s (sd.other, k) = true) :
    (rcSet s sd id k c).2.2.2 = none ∧
    rcOf (rcSet s sd id k c).1 (sd, id) k = (if c = 0 then none else some c) ∧
    rcOf (rcSet s sd id k c).1 (sd.other, k) id = (if c = 0 then none else some c) := by
  obtain ⟨h1, h2, _, _⟩ := rcSet_ok (s := s) (sd := sd) (id := id) (k := k) c hc0 hc hid hk
  refine ⟨h1, ?_, ?_⟩
  · rw [h2]; simp
  · rw [h2]; simp

/-- an increment inside the vocabulary stores the same new count on both sides -/
theorem rc_increment_both_sides {s : St K} {w : Int} (hinv : RcInv s w) (hw : w + 1 < 2147483648)
    {sd : Side} {id k : K} (hid : exists? s (sd, id) = true) (hk : exists? s (sd.other, k) = true) :
    ∃ n, (rcIncr s sd id k).2 = (n, none) ∧ 0 < n ∧
      rcOf (rcIncr s sd id k).1 (sd, id) k = some n ∧ rcOf (rcIncr s sd id k).1 (sd.other, k) id = some n := by
  obtain ⟨n, h1, hn, h2, _, _⟩ := rcIncr_ok hinv hw hid hk
  refine ⟨n, h1, ?_, ?_, ?_⟩
  · rw [hn]; cases hc : rcOf s (sd, id) k with
    | none => simp
    | some c => have := hinv.2 _ _ _ hc; simp only; omega
  · rw [h2]; simp
  · rw [h2]; simp

/-! ## entity deletion -/

/-- **The link disappears from both sides when either entity is deleted**: after a successful
    `DeleteById` from a state satisfying the invariants, the entity is gone, no link set and no
    count map of the other store mentions its id, and nothing else changed. -/
theorem delete_unlinks {s : St K} {w : Int} (hl : LInv s) (hr : RcInv s w) {sd : Side} {id : K}
    (hid : exists? s (sd, id) = true) :
    (deleteEntity s sd id).2 = none ∧
    exists? (deleteEntity s sd id).1 (sd, id) = false ∧
    linksOf (deleteEntity s sd id).1 (sd, id) = [] ∧
    (∀ x, id ∉ linksOf (deleteEntity s sd id).1 (sd.other, x)) ∧
    (∀ x, rcOf (deleteEntity s sd id).1 (sd.other, x) id = none ∧ rcOf (deleteEntity s sd id).1 (sd, id) x = none) ∧
    (∀ x y, y ≠ id → (y ∈ linksOf (deleteEntity s sd id).1 (sd.other, x) ↔ y ∈ linksOf s (sd.other, x))) ∧
    (∀ x, x ≠ id → linksOf (deleteEntity s sd id).1 (sd, x) = linksOf s (sd, x)) := by
  obtain ⟨h1, h2, h3, h4⟩ := deleteEntity_ok hid
  have hgone : exists? (deleteEntity s sd id).1 (sd, id) = false := by rw [h2]; simp
  refine ⟨h1, hgone, linksOf_of_not_exists hgone, ?_, ?_, ?_, ?_⟩
  · intro x hm
    rw [h3] at hm
    obtain ⟨_, hm1, hm2⟩ := hm
    exact hm2 ⟨rfl, (hl.sym sd id x).mpr (by simpa using hm1), rfl⟩
  · intro x
    constructor
    · rw [h4]
      have hne : ¬ (sd, id) = (sd.other, x) := fun h => Side.ne_other sd (Prod.mk.inj h).1
      simp only [hne, if_false, true_and, and_true]
      split
      · rfl
      · next hn =>
        have : rcOf s (sd, id) x = none := by
          cases hc : rcOf s (sd, id) x with
          | none => rfl
          | some c => exact absurd (by rw [hc]; simp) hn
        rw [← hr.1 sd id x]; exact this
    · exact rcOf_of_not_exists hgone x
  · intro x y hy
    rw [h3]
    have hne : ¬ (sd, id) = (sd.other, x) := fun h => Side.ne_other sd (Prod.mk.inj h).1
    simp [hne, hy]
  · intro x hx
    apply ssorted_ext ((deleteEntity_allSorted hl.sorted) (sd, x)) (hl.sorted (sd, x))
    intro y
    rw [h3]
    have hne : ¬ (sd, id) = (sd, x) := fun h => hx (Prod.mk.inj h).2.symm
    simp [hne]

/-- deletion from any state a history inside the vocabulary can reach -/
theorem delete_unlinks_reachable (h : List (List (Op K))) (hv : HistVocab h) (hw : histWeight h < 2147483648)
    {sd : Side} {id : K} (hid : exists? (runHist ([] : St K) h) (sd, id) = true) :
    let s' := (deleteEntity (runHist ([] : St K) h) sd id).1
    exists? s' (sd, id) = false ∧ (∀ x, id ∉ linksOf s' (sd.other, x)) ∧ (∀ x, rcOf s' (sd.other, x) id = none) := by
  have hr := runHist_rcInv (rcInv_nil (K := K) 0) (Int.le_refl 0) h hv (by omega)
  obtain ⟨_, a, _, b, c, _⟩ := delete_unlinks (runHist_lInv lInv_nil h) hr hid
  exact ⟨a, b, fun x => (c x).1⟩

/-! ## the model refines the relational specification -/

/-- **For every history inside the vocabulary the committed state of the model is the state the
    specification prescribes** (C05/Spec.lean: ONE relation and ONE count map of which both sides'
    views are projections; set-links replaces a row by the requested set; linking to a missing
    entity fails; delete removes every pair that mentions the entity; a count reaching zero removes
    the pair; a failing operation fails its transaction, which then changes nothing): both show
    the same entities, the same sorted link list for every entity on either side and the same
    count for every pair from either side.  `step_sim` (C05/Sim.lean) is the single-operation
    statement, including equal return values and equal failure. -/
theorem model_refines_spec (h : List (List (Op K))) (hv : HistVocab h) (hw : histWeight h < 2147483648) :
    (∀ r, exists? (runHist ([] : St K) h) r = Spec.has (srunHist ({} : Spec.SSt K) h) r) ∧
    (∀ sd id, linksOf (runHist ([] : St K) h) (sd, id) = Spec.partners (srunHist ({} : Spec.SSt K) h) sd id) ∧
    (∀ sd id k, rcOf (runHist ([] : St K) h) (sd, id) k = Spec.count (srunHist ({} : Spec.SSt K) h) sd id k) := by
  have hl := runHist_lInv (lInv_nil (K := K)) h
  have hc := runHist_rcInv (rcInv_nil (K := K) 0) (Int.le_refl 0) h hv (by omega)
  have hr := runHist_sim (rel_nil (K := K)) ⟨lInv_nil, rcInv_nil 0⟩ (Int.le_refl 0) h hv (by omega)
  exact ⟨hr.ents, fun sd id => (partners_eq hr hl sd id).symm, fun sd id k => (count_eq hr hc sd id k).symm⟩

/-! ## self-referential collections: one store linked with itself, self links allowed

  `store.AddLinkCollection(peers, peers)`: the collection's other field is its own field, so an entity
  can be linked to itself, `link`/`unlink` write twice into the same bucket, and `EntityDeleted`'s
  `RemoveLink(id, id)` deletes from the very bucket whose keys it walks — the repaired code
  (b23d525) collects the keys first.  Model: C05/SelfW.lean (the same state type and bucket
  primitives, one side). -/

open SelfW in
/-- **symmetry for every history** of a self-referential collection (create, create-with-links,
    delete, AddLinks, RemoveLinks, SetLinks, AddLink, RemoveLink; self links included) -/
theorem self_links_symmetric (h : List (List (SelfW.SOp K))) (a b : K) :
    b ∈ SelfW.L (SelfW.srunHistW ([] : St K) h) a ↔ a ∈ SelfW.L (SelfW.srunHistW ([] : St K) h) b :=
  (SelfW.srunHistW_lInv SelfW.lInvW_nil h).sym a b

/-- **set-links leaves exactly the requested set**, whether or not the request, the current set or
    both contain the entity itself; exactly the requested entities list `id` afterwards -/
theorem self_setlinks_exact {s : St K} (hinv : SelfW.LInvW s) {id : K} {req : List K}
    (hid : exists? s (SelfW.R id) = true) (hall : ∀ k ∈ req, exists? s (SelfW.R k) = true) :
    (SelfW.ssetLinks s id req).2 = none ∧
    SelfW.L (SelfW.ssetLinks s id req).1 id = dedupK (sortK req) ∧
    (∀ b, id ∈ SelfW.L (SelfW.ssetLinks s id req).1 b ↔ b ∈ req) := by
  obtain ⟨h1, h2⟩ := SelfW.ssetLinks_ok hinv.sorted hid hall
  refine ⟨h1, h2, fun b => ?_⟩
  rw [← SelfW.ssetLinks_sym hinv.sym h1 id b, h2, mem_dedup_sort]

theorem self_setlinks_missing {s : St K} (hinv : SelfW.LInvW s) {id : K} {req : List K}
    (hid : exists? s (SelfW.R id) = true) (hmiss : ∃ k ∈ req, exists? s (SelfW.R k) = false) :
    (SelfW.ssetLinks s id req).2 = some .notFound := by
  apply SelfW.ssetLinks_missing hinv.sorted hid _ hmiss
  intro k hk
  exact exists_of_mem_linksOf ((hinv.sym id k).mp hk)

/-- **a deleted entity disappears from every link set, also when it was linked to itself**: after
    `DeleteById` nobody lists `id`, `id` is gone, and every other membership is as before -/
theorem self_delete_unlinks {s : St K} (hinv : SelfW.LInvW s) {id : K} (hid : exists? s (SelfW.R id) = true) :
    (SelfW.sdelete s id).2 = none ∧
    exists? (SelfW.sdelete s id).1 (SelfW.R id) = false ∧
    (∀ x, id ∉ SelfW.L (SelfW.sdelete s id).1 x) ∧
    (∀ x y, x ≠ id → y ≠ id → (y ∈ SelfW.L (SelfW.sdelete s id).1 x ↔ y ∈ SelfW.L s x)) := by
  obtain ⟨h1, h2, h3⟩ := SelfW.sdelete_ok hid
  refine ⟨h1, by rw [h2]; simp, ?_, ?_⟩
  · intro x hm
    rw [h3] at hm
    obtain ⟨_, hm1, hm2⟩ := hm
    exact hm2 ⟨(hinv.sym id x).mpr hm1, rfl⟩
  · intro x y hx hy
    rw [h3]; simp [hx, hy]

theorem self_delete_unlinks_reachable (h : List (List (SelfW.SOp K))) {id : K}
    (hid : exists? (SelfW.srunHistW ([] : St K) h) (SelfW.R id) = true) (x : K) :
    id ∉ SelfW.L (SelfW.sdelete (SelfW.srunHistW ([] : St K) h) id).1 x :=
  (self_delete_unlinks (SelfW.srunHistW_lInv SelfW.lInvW_nil h) hid).2.2.1 x

/-! ## every schema

  Which stores declare which link collections is configuration (`AddLinkCollection` /
  `AddRefCountedLinkCollection` fill the registries `store.links` / `store.refCountedLinks`, and
  `DeleteById → processDeleteConstraints → cleanupLinks` walks exactly those registries, for the store
  and for every registered child store that holds the entity).  C05/Schema.lean is the model
  parametrised by the schema: two root stores, a child store of each, and ANY list of declared
  collections — plain or reference-counted between a store of family A and a store of family B
  (root or child on either end), or self-referential on any of the four stores; so a store may
  carry no collection, only plain ones, only reference-counted ones, both, several of each.  The
  theorems below hold for EVERY schema of that family and every history over it. -/

open Schema in
/-- **Every declared collection of every schema behaves like the two-store model**: after any
    committed history of store-level (Create / Update / DeleteById on any of the four stores) and
    collection-level operations, the field buckets of a plain or ref-counted collection are the
    committed state of a history of C05/Model.lean — so every theorem above about reachable states
    applies to it.  Inside the vocabulary that history is inside the vocabulary, and not heavier. -/
theorem schema_collection_is_two_store_model (sc : Schema) (h : List (List (GOp K))) {j : Nat} {c : Coll}
    (hj : sc.colls[j]? = some c) (hc : ∀ sd ch, c ≠ .self sd ch) :
    ∃ h' : List (List (Op K)), (grunHist sc (g0 : GSt K) h).slots j = runHist [] h' ∧
      (GHistVocab h → HistVocab h' ∧ histWeight h' ≤ ghistWeight h) :=
  slot_reachable sc h hj hc

open Schema in
/-- consequently every declared plain / ref-counted collection of every schema shows, after every
    history inside the vocabulary, exactly the two views of ONE relation and ONE count map (the
    relational spec of C05/Spec.lean run on the collection's own history) -/
theorem schema_collection_refines_spec (sc : Schema) (h : List (List (GOp K))) (hv : GHistVocab h)
    (hw : ghistWeight h < 2147483648) {j : Nat} {c : Coll} (hj : sc.colls[j]? = some c) (hc : ∀ sd ch, c ≠ .self sd ch) :
    ∃ h' : List (List (Op K)),
      (∀ r, exists? ((grunHist sc (g0 : GSt K) h).slots j) r = Spec.has (srunHist ({} : Spec.SSt K) h') r) ∧
      (∀ sd id, linksOf ((grunHist sc (g0 : GSt K) h).slots j) (sd, id) = Spec.partners (srunHist ({} : Spec.SSt K) h') sd id) ∧
      (∀ sd id k, rcOf ((grunHist sc (g0 : GSt K) h).slots j) (sd, id) k = Spec.count (srunHist ({} : Spec.SSt K) h') sd id k) := by
  obtain ⟨h', e, p⟩ := slot_reachable sc h hj hc
  refine ⟨h', ?_⟩
  rw [e]
  exact model_refines_spec h' (p hv).1 (by have := (p hv).2; omega)

open Schema in
theorem schema_self_collection_is_self_model (sc : Schema) (h : List (List (GOp K))) {j : Nat} {sd : Side} {ch : Bool}
    (hj : sc.colls[j]? = some (.self sd ch)) :
    ∃ h' : List (List (SelfW.SOp K)), (grunHist sc (g0 : GSt K) h).slots j = SelfW.srunHistW [] h' :=
  self_slot_reachable sc h hj

open Schema in
/-- the field buckets of a collection exist exactly inside the entity buckets of its two stores,
    a child-store entity lives inside a root-store entity, a plain collection stores no counts
    and a ref-counted one no link keys — after every history over every schema -/
theorem schema_coherent (sc : Schema) (h : List (List (GOp K))) : GInv sc (grunHist sc (g0 : GSt K) h) :=
  grunHist_ginv (gInv_g0 sc) h

open Schema in
/-- **for every naming**: how the set symbols at the ends of the collections are named, under which
    key their buckets are stored and under which path prefix (`AddFkSymbolWithKey(name, key, store,
    prefix...)`), and whether a child store is extended, does not influence any operation — two
    schemas with the same declared collections run every history to the same state.  All `schema_*`
    theorems quantify over the whole `Schema`, naming included; what the naming does decide is where
    the buckets are (`Schema.bucketPath`, printed by the rendered dump and compared with the real
    bucket tree on every run; `Schema.wf` = the symbols of a store have different names and
    different, non-nested buckets). -/
theorem schema_naming_irrelevant (sc : Schema) (e : Side → Bool) (n : Nat → Side → Naming) (g : GSt K)
    (h : List (List (GOp K))) :
    grunHist { colls := sc.colls, ext := e, naming := n } g h = grunHist sc g h :=
  naming_irrelevant sc e n g h

open Schema in
/-- **symmetry, for every schema and every history**: in every declared plain collection, b is in
    a's link set iff a is in b's -/
theorem schema_links_symmetric (sc : Schema) (h : List (List (GOp K))) {j : Nat} {ca cb : Bool}
    (hj : sc.colls[j]? = some (.plain ca cb)) (a b : K) :
    b ∈ linksOf ((grunHist sc (g0 : GSt K) h).slots j) (.A, a) ↔
      a ∈ linksOf ((grunHist sc (g0 : GSt K) h).slots j) (.B, b) := by
  obtain ⟨h', e, _⟩ := slot_reachable sc h hj (by intro sd ch e; cases e)
  rw [e]; exact links_symmetric h' a b

open Schema in
theorem schema_self_links_symmetric (sc : Schema) (h : List (List (GOp K))) {j : Nat} {sd : Side} {ch : Bool}
    (hj : sc.colls[j]? = some (.self sd ch)) (a b : K) :
    b ∈ SelfW.L ((grunHist sc (g0 : GSt K) h).slots j) a ↔ a ∈ SelfW.L ((grunHist sc (g0 : GSt K) h).slots j) b := by
  obtain ⟨h', e⟩ := self_slot_reachable sc h hj
  rw [e]; exact self_links_symmetric h' a b

open Schema in
/-- no link of any collection points to an entity that its far-side store does not hold -/
theorem schema_links_point_to_existing (sc : Schema) (h : List (List (GOp K))) {j : Nat} {ca cb : Bool}
    (hj : sc.colls[j]? = some (.plain ca cb)) (sd : Side) (a b : K)
    (hm : b ∈ linksOf ((grunHist sc (g0 : GSt K) h).slots j) (sd, a)) :
    ∃ y, (Coll.plain ca cb).storeAt sd.other = some y ∧ (grunHist sc (g0 : GSt K) h).ents y b = true := by
  have hinv := schema_coherent sc h
  obtain ⟨h', e, _⟩ := slot_reachable sc h hj (by intro sd ch e; cases e)
  have hex : exists? ((grunHist sc (g0 : GSt K) h).slots j) (sd.other, b) = true := by
    rw [e] at hm ⊢; exact links_point_to_existing h' sd a b hm
  rw [hinv.coh j _ hj sd.other b] at hex
  cases sd <;> exact ⟨_, rfl, hex⟩

open Schema in
/-- **both sides hold the same positive count, for every schema**: every declared ref-counted
    collection, every history inside the vocabulary (`SetLinkCount` arguments ≥ 0, total weight < 2^31) -/
theorem schema_rc_agree (sc : Schema) (h : List (List (GOp K))) (hv : GHistVocab h) (hw : ghistWeight h < 2147483648)
    {j : Nat} {ca cb : Bool} (hj : sc.colls[j]? = some (.rc ca cb)) (a b : K) :
    rcOf ((grunHist sc (g0 : GSt K) h).slots j) (.A, a) b = rcOf ((grunHist sc (g0 : GSt K) h).slots j) (.B, b) a ∧
    ∀ c, rcOf ((grunHist sc (g0 : GSt K) h).slots j) (.A, a) b = some c → 0 < c ∧ c < 2147483648 := by
  obtain ⟨h', e, p⟩ := slot_reachable sc h hj (by intro sd ch e; cases e)
  rw [e]; exact rc_agree h' (p hv).1 (by have := (p hv).2; omega) a b

open Schema in
/-- **set-links leaves exactly the requested set, in every collection of every schema**:
    `SetLinks` through the collection API on a reachable state, for an entity its store holds and
    any request list (order, duplicates irrelevant) naming entities the far-side store holds -/
theorem schema_setlinks_exact (sc : Schema) (h : List (List (GOp K))) {j : Nat} {ca cb : Bool}
    (hj : sc.colls[j]? = some (.plain ca cb)) {sd : Side} {x y : Store} {id : K} {req : List K}
    (hx : (Coll.plain ca cb).storeAt sd = some x) (hy : (Coll.plain ca cb).storeAt sd.other = some y)
    (hid : (grunHist sc (g0 : GSt K) h).ents x id = true)
    (hall : ∀ k ∈ req, (grunHist sc (g0 : GSt K) h).ents y k = true) :
    let o := gstep sc (grunHist sc (g0 : GSt K) h) (.link j (.setLinks sd id req))
    o.err = none ∧ linksOf (o.st.slots j) (sd, id) = dedupK (sortK req) ∧
      ∀ b, id ∈ linksOf (o.st.slots j) (sd.other, b) ↔ b ∈ req := by
  have hinv := schema_coherent sc h
  obtain ⟨h', e, _⟩ := slot_reachable sc h hj (by intro sd ch e; cases e)
  have hid' : exists? (runHist ([] : St K) h') (sd, id) = true := by
    rw [← e, hinv.coh j _ hj sd id, hx]; exact hid
  have hall' : ∀ k ∈ req, exists? (runHist ([] : St K) h') (sd.other, k) = true := by
    intro k hk; rw [← e, hinv.coh j _ hj sd.other k, hy]; exact hall k hk
  have := setlinks_exact_reachable h' hid' hall'
  simp only [gstep, hj, PlainOp.toOp, step, setSlot_same, e]
  exact this

open Schema in
/-- **linking to a missing entity fails, in every collection of every schema** -/
theorem schema_setlinks_missing (sc : Schema) (h : List (List (GOp K))) {j : Nat} {ca cb : Bool}
    (hj : sc.colls[j]? = some (.plain ca cb)) {sd : Side} {x y : Store} {id : K} {req : List K}
    (hx : (Coll.plain ca cb).storeAt sd = some x) (hy : (Coll.plain ca cb).storeAt sd.other = some y)
    (hid : (grunHist sc (g0 : GSt K) h).ents x id = true)
    (hmiss : ∃ k ∈ req, (grunHist sc (g0 : GSt K) h).ents y k = false) :
    (gstep sc (grunHist sc (g0 : GSt K) h) (.link j (.setLinks sd id req))).err = some .notFound := by
  have hinv := schema_coherent sc h
  obtain ⟨h', e, _⟩ := slot_reachable sc h hj (by intro sd ch e; cases e)
  have hid' : exists? (runHist ([] : St K) h') (sd, id) = true := by
    rw [← e, hinv.coh j _ hj sd id, hx]; exact hid
  have hmiss' : ∃ k ∈ req, exists? (runHist ([] : St K) h') (sd.other, k) = false := by
    obtain ⟨k, hk, hm⟩ := hmiss
    exact ⟨k, hk, by rw [← e, hinv.coh j _ hj sd.other k, hy]; exact hm⟩
  have := setlinks_missing (runHist_lInv lInv_nil h') hid' hmiss'
  simp only [gstep, hj, PlainOp.toOp, step, e]
  exact this

/-! ### the key-size boundary of ids (C05/KeySize.lean)

  bbolt refuses a `Put` key longer than 32768 bytes and a link key is the type byte plus the peer's id.
  `Schema.gstepK big` is the model with that limit (`big` = the id cannot be a link key): AddLinks /
  AddLink / SetLinks / SetLinkedIds / IncrementLinkCount fail with key-too-large (their transaction is
  rolled back, so every committed state is a state of the model without the limit and all theorems
  above apply); so does `SetLinkCount` since fix 2a864e9 (before it the error was dropped and the two
  sides disagreed: found by this check, pre-fix behaviour witnessed by `decide` in C05/KeySize.lean). -/

open Schema in
/-- with ids below the limit the model with bbolt's key-size limit IS the model above -/
theorem keysize_small_ids_unchanged (sc : Schema) (big : K → Bool) (g : GSt K) (op : GOp K)
    (h : ∀ k ∈ op.keys, big k = false) : gstepK sc big g op = liftOut (gstep sc g op) :=
  gstepK_small sc big g op h

/-- in a plain or ref-counted collection the side-`s` store belongs to family `s` -/
theorem Schema.storeAt_side {c : Schema.Coll} (hc : ∀ sd ch, c ≠ .self sd ch) {s : Side} {y : Schema.Store}
    (h : c.storeAt s = some y) : y.side = s := by
  cases c with
  | self sd ch => exact absurd rfl (hc sd ch)
  | plain ca cb => cases s <;> simp [Schema.Coll.storeAt] at h <;> rw [← h]
  | rc ca cb => cases s <;> simp [Schema.Coll.storeAt] at h <;> rw [← h]

theorem Schema.rcInv_of_noRc {s : St K} (h : Schema.NoRc s) : RcInv s 0 :=
  ⟨fun sd a b => by rw [h, h], fun r k c hc => by rw [h] at hc; cases hc⟩

theorem Schema.lInv_of_noLinks {s : St K} (h : Schema.NoLinks s) : LInv s :=
  ⟨fun sd a b => by rw [h, h]; simp, fun r => by rw [h]; exact List.Pairwise.nil⟩

open Schema in
/-- `DeleteById` in a coherent state whose collections satisfy their invariants -/
theorem Schema.gdelete_unlinks {sc : Schema} {g : GSt K} (hinv : GInv sc g)
    (hl : ∀ j ca cb, sc.colls[j]? = some (.plain ca cb) → LInv (g.slots j))
    (hs : ∀ j sd ch, sc.colls[j]? = some (.self sd ch) → SelfW.LInvW (g.slots j))
    (x : Store) (id : K) (hok : (gdelete sc g x id).2 = none) :
    (∀ ch, (gdelete sc g x id).1.ents ⟨x.side, ch⟩ id = false) ∧
    (∀ j ca cb, sc.colls[j]? = some (.plain ca cb) → ∀ y, id ∉ linksOf ((gdelete sc g x id).1.slots j) (x.side.other, y)) ∧
    (∀ j ca cb, sc.colls[j]? = some (.rc ca cb) → (∃ w, RcInv (g.slots j) w) →
      ∀ y, rcOf ((gdelete sc g x id).1.slots j) (x.side.other, y) id = none) ∧
    (∀ j ch, sc.colls[j]? = some (.self x.side ch) → ∀ y, id ∉ SelfW.L ((gdelete sc g x id).1.slots j) y) := by
  have hgd := (gdelete_success hok).2
  refine ⟨?_, ?_, ?_, ?_⟩
  · intro ch; rw [hgd]; simp [dropEntity]
  · intro j ca cb hj y hm
    have hnself : ∀ sd ch, Coll.plain ca cb ≠ .self sd ch := by intro sd ch e; cases e
    rcases gdelete_slot hinv x id hok hj with ⟨hf, _⟩ | ⟨s, y', hys, hsy, hcase⟩
    · exact absurd (by cases x.side <;> rfl) ((famSide_eq_none_iff _ _).mp hf x.side (match x.side with | .A => ca | .B => cb))
    · have hst := (sideOf_eq_some_iff _ _ _).mp hsy
      have hside : s = x.side := by rw [← Schema.storeAt_side hnself hst, hys]
      subst hside
      have hL := hl j ca cb hj
      rcases hcase with ⟨hy, e⟩ | ⟨hy, e⟩
      · rw [e] at hm
        have := (hL.sym x.side.other y id).mp hm
        rw [Side.other_other] at this
        have hex := exists_of_mem_linksOf this
        rw [coh_at hinv hj hsy] at hex
        rw [hy] at hex; cases hex
      · have hex : exists? (g.slots j) (x.side, id) = true := by rw [coh_at hinv hj hsy]; exact hy
        have hde := deleteEntity_plain (hinv.noRc j ca cb hj) hex
        have hsl : (gdelete sc g x id).1.slots j = (deleteEntity (g.slots j) x.side id).1 := by
          rw [e, hde]; simp [cleanupSlot, hsy]
        rw [hsl] at hm
        exact (delete_unlinks hL (Schema.rcInv_of_noRc (hinv.noRc j ca cb hj)) hex).2.2.2.1 y hm
  · intro j ca cb hj hrj y
    have hnself : ∀ sd ch, Coll.rc ca cb ≠ .self sd ch := by intro sd ch e; cases e
    obtain ⟨w, hR⟩ := hrj
    rcases gdelete_slot hinv x id hok hj with ⟨hf, _⟩ | ⟨s, y', hys, hsy, hcase⟩
    · exact absurd (by cases x.side <;> rfl) ((famSide_eq_none_iff _ _).mp hf x.side (match x.side with | .A => ca | .B => cb))
    · have hst := (sideOf_eq_some_iff _ _ _).mp hsy
      have hside : s = x.side := by rw [← Schema.storeAt_side hnself hst, hys]
      subst hside
      rcases hcase with ⟨hy, e⟩ | ⟨hy, e⟩
      · rw [e, hR.1 x.side.other y id, Side.other_other]
        apply rcOf_of_not_exists
        rw [coh_at hinv hj hsy]; exact hy
      · have hex : exists? (g.slots j) (x.side, id) = true := by rw [coh_at hinv hj hsy]; exact hy
        have hde := deleteEntity_rc (hinv.noLinks j ca cb hj) hex
        have hsl : (gdelete sc g x id).1.slots j = (deleteEntity (g.slots j) x.side id).1 := by
          rw [e, hde]; simp [cleanupSlot, hsy]
        rw [hsl]
        exact ((delete_unlinks (Schema.lInv_of_noLinks (hinv.noLinks j ca cb hj)) hR hex).2.2.2.2.1 y).1
  · intro j ch hj y hm
    have hW := hs j x.side ch hj
    rcases gdelete_slot hinv x id hok hj with ⟨hf, _⟩ | ⟨s, y', hys, hsy, hcase⟩
    · exact absurd rfl ((famSide_eq_none_iff _ _).mp hf .A ch)
    · have hst := (sideOf_eq_some_iff _ _ _).mp hsy
      have hs' : s = .A := by
        cases s with
        | A => rfl
        | B => simp [Coll.storeAt] at hst
      subst hs'
      rcases hcase with ⟨hy, e⟩ | ⟨hy, e⟩
      · rw [e] at hm
        have := (hW.sym y id).mp hm
        have hex := exists_of_mem_linksOf this
        rw [coh_at hinv hj hsy] at hex
        rw [hy] at hex; cases hex
      · have hex : exists? (g.slots j) (SelfW.R id) = true := by rw [coh_at hinv hj hsy]; exact hy
        obtain ⟨en, hen, _⟩ := get_of_exists hex
        have hsl : (gdelete sc g x id).1.slots j = (SelfW.sdelete (g.slots j) id).1 := by
          rw [e]; simp [cleanupSlot, hsy, SelfW.sdelete, hen]
        rw [hsl] at hm
        exact (self_delete_unlinks hW hex).2.2.1 y hm

open Schema in
/-- **`DeleteById` succeeds exactly when** the root store of the family holds the id — for every
    schema, also when the family's child store is EXTENDED, declares link collections and the entity
    has no extension data (before fix c784f90 that delete failed with `getFieldBucket`'s
    "… not found with id …") -/
theorem schema_delete_succeeds_iff (sc : Schema) (g : GSt K) (x : Store) (id : K) :
    (gdelete sc g x id).2 = none ↔ g.ents ⟨x.side, false⟩ id = true :=
  gdelete_succeeds_iff sc g x id

open Schema in
/-- a failing `DeleteById` changes nothing (even before the rollback) -/
theorem schema_delete_failure_changes_nothing {sc : Schema} {g : GSt K} {x : Store} {id : K} {e : Err}
    (h : (gdelete sc g x id).2 = some e) : (gdelete sc g x id).1 = g := (gdelete_failure h).1

open Schema in
/-- **The link disappears from both sides when either entity is deleted — for every schema.**
    After any history, `DeleteById` of an entity the root store holds, through ANY store of its family
    (root store or child store, plain or extended), succeeds and leaves no store of the family
    holding the id, and no link set of any
    declared plain collection (whether registered on the root store or on the child store, and
    whatever else the stores declare or do not declare) and no link set of a self-referential
    collection of the family mentions the id … -/
theorem schema_delete_unlinks (sc : Schema) (h : List (List (GOp K))) (x : Store) (id : K)
    (hid : (grunHist sc (g0 : GSt K) h).ents ⟨x.side, false⟩ id = true) :
    let g' := (gdelete sc (grunHist sc (g0 : GSt K) h) x id).1
    (gdelete sc (grunHist sc (g0 : GSt K) h) x id).2 = none ∧
    (∀ ch, g'.ents ⟨x.side, ch⟩ id = false) ∧
    (∀ j ca cb, sc.colls[j]? = some (.plain ca cb) → ∀ y, id ∉ linksOf (g'.slots j) (x.side.other, y)) ∧
    (∀ j ch, sc.colls[j]? = some (.self x.side ch) → ∀ y, id ∉ SelfW.L (g'.slots j) y) := by
  have hinv := schema_coherent sc h
  have hl : ∀ j ca cb, sc.colls[j]? = some (.plain ca cb) → LInv ((grunHist sc (g0 : GSt K) h).slots j) := by
    intro j ca cb hj
    obtain ⟨h', e, _⟩ := slot_reachable sc h hj (by intro sd ch e; cases e)
    rw [e]; exact runHist_lInv lInv_nil h'
  have hs : ∀ j sd ch, sc.colls[j]? = some (.self sd ch) → SelfW.LInvW ((grunHist sc (g0 : GSt K) h).slots j) := by
    intro j sd ch hj
    obtain ⟨h', e⟩ := self_slot_reachable sc h hj
    rw [e]; exact SelfW.srunHistW_lInv SelfW.lInvW_nil h'
  have hok := (gdelete_succeeds_iff sc _ x id).mpr hid
  obtain ⟨b, c, _, d⟩ := Schema.gdelete_unlinks hinv hl hs x id hok
  exact ⟨hok, b, c, d⟩

open Schema in
/-- … and, inside the vocabulary, no count map of any declared reference-counted collection holds a
    count for the id any more: the deleted entity's store may have reference-counted collections
    only (no plain one), plain ones only, both, several, on the root or on the child store. -/
theorem schema_delete_unlinks_rc (sc : Schema) (h : List (List (GOp K))) (hv : GHistVocab h)
    (hw : ghistWeight h < 2147483648) (x : Store) (id : K)
    (hid : (grunHist sc (g0 : GSt K) h).ents ⟨x.side, false⟩ id = true) {j : Nat} {ca cb : Bool}
    (hj : sc.colls[j]? = some (.rc ca cb)) (y : K) :
    rcOf ((gdelete sc (grunHist sc (g0 : GSt K) h) x id).1.slots j) (x.side.other, y) id = none ∧
    rcOf ((gdelete sc (grunHist sc (g0 : GSt K) h) x id).1.slots j) (x.side, id) y = none := by
  have hinv := schema_coherent sc h
  have hl : ∀ j ca cb, sc.colls[j]? = some (.plain ca cb) → LInv ((grunHist sc (g0 : GSt K) h).slots j) := by
    intro j ca cb hj
    obtain ⟨h', e, _⟩ := slot_reachable sc h hj (by intro sd ch e; cases e)
    rw [e]; exact runHist_lInv lInv_nil h'
  have hs : ∀ j sd ch, sc.colls[j]? = some (.self sd ch) → SelfW.LInvW ((grunHist sc (g0 : GSt K) h).slots j) := by
    intro j sd ch hj
    obtain ⟨h', e⟩ := self_slot_reachable sc h hj
    rw [e]; exact SelfW.srunHistW_lInv SelfW.lInvW_nil h'
  have hr : ∃ w, RcInv ((grunHist sc (g0 : GSt K) h).slots j) w := by
    obtain ⟨h', e, p⟩ := slot_reachable sc h hj (by intro sd ch e; cases e)
    rw [e]
    exact ⟨_, runHist_rcInv (rcInv_nil (K := K) 0) (Int.le_refl 0) h' (p hv).1 (by have := (p hv).2; omega)⟩
  have hok := (gdelete_succeeds_iff sc _ x id).mpr hid
  obtain ⟨hgone, _, d, _⟩ := Schema.gdelete_unlinks hinv hl hs x id hok
  refine ⟨d j ca cb hj hr y, ?_⟩
  -- the entity's own bucket is gone
  have hinv' := (gdelete_ok hinv x id hok).1
  apply rcOf_of_not_exists
  rw [hinv'.coh j _ hj x.side id]
  obtain ⟨xs, xc⟩ := x
  cases xs <;> simp only [Coll.storeAt] <;> first | exact hgone ca | exact hgone cb

end

/-! ## non-vacuity: concrete states and histories (keys = Nat) -/

/-- a history: create B.1 B.2 B.3 and A.7; link A.7 to {1,3}; set-links A.7 := [3,2,2,3] -/
def demoHist : List (List (Op Nat)) :=
  [[.create .B 1 false none, .create .B 2 false none, .create .B 3 false none, .create .A 7 false none],
   [.addLinks .A 7 [3, 1]],
   [.setLinks .A 7 [3, 2, 2, 3], .incr .A 7 2, .incr .B 2 7, .setCount .A 7 3 5, .decr .B 3 7]]

example : linksOf (runHist [] demoHist) (.A, 7) = [2, 3] := by decide
example : linksOf (runHist [] demoHist) (.B, 2) = [7] ∧ linksOf (runHist [] demoHist) (.B, 1) = [] := by decide
example : rcOf (runHist [] demoHist) (.A, 7) 2 = some 2 ∧ rcOf (runHist [] demoHist) (.B, 2) 7 = some 2 := by decide
example : rcOf (runHist [] demoHist) (.A, 7) 3 = some 4 ∧ rcOf (runHist [] demoHist) (.B, 3) 7 = some 4 := by decide
example : HistVocab demoHist ∧ histWeight demoHist < 2147483648 := by
  refine ⟨?_, by decide⟩
  intro tx htx op hop
  simp only [demoHist, List.mem_cons, List.mem_nil_iff, or_false] at htx
  rcases htx with rfl | rfl | rfl <;> simp only [List.mem_cons, List.mem_nil_iff, or_false] at hop
  all_goals (rcases hop with rfl | rfl | rfl | rfl | rfl <;> simp [OpVocab])
/-- hypotheses of `setlinks_exact` / `setlinks_missing` / `delete_unlinks` are satisfiable by a state with links -/
example : exists? (runHist [] demoHist) (.A, 7) = true ∧ exists? (runHist [] demoHist) (.B, 9) = false := by decide
example : (setLinks (runHist [] demoHist) .A 7 [9, 1]).2 = some .notFound := by decide
example : (linksOf (deleteEntity (runHist [] demoHist) .B 2).1 (.A, 7), rcOf (deleteEntity (runHist [] demoHist) .B 2).1 (.A, 7) 2)
    = ([3], none) := by decide

/-! ### self-referential wiring -/

/-- create 1 2 3; `AddLinks(1, 1, 2, 3)` (a self link) and `DeleteById(1)` in one transaction -/
def selfHist : List (List (SelfW.SOp Nat)) :=
  [[.create 1 false none, .create 2 false none, .create 3 false none, .addLinks 1 [1, 2, 3]]]

example : SelfW.L (SelfW.srunHistW [] selfHist) 1 = [1, 2, 3] ∧ SelfW.L (SelfW.srunHistW [] selfHist) 2 = [1] := by decide
example : exists? (SelfW.srunHistW [] selfHist) (SelfW.R 1) = true := by decide
example : SelfW.L (SelfW.sdelete (SelfW.srunHistW [] selfHist) 1).1 2 = [] ∧
    SelfW.L (SelfW.sdelete (SelfW.srunHistW [] selfHist) 1).1 3 = [] := by decide
example : SelfW.L (SelfW.ssetLinks (SelfW.srunHistW [] selfHist) 2 [2, 3, 2]).1 2 = [2, 3] ∧
    SelfW.L (SelfW.ssetLinks (SelfW.srunHistW [] selfHist) 2 [2, 3, 2]).1 1 = [1, 3] := by decide

/-- Why the tree before b23d525 violated C05 in this wiring (C05/Self.lean models the old walk: a
    bbolt cursor standing on an in-memory node skips the key after a deleted current key): entity
    2 kept its link to the deleted entity 1. -/
example : Self.linksOf (Self.runHist false {} Self.witness) 2 = [1] ∧
    Self.mget (Self.runHist false {} Self.witness).ents 1 = none := by decide

/-! ### schemas -/

open Schema in
/-- a schema whose two stores are related ONLY through a ref-counted collection (no store has a
    plain collection) -/
def rcOnly : Schema := { colls := [.rc false false] }

open Schema in
def rcOnlyHist : List (List (GOp Nat)) :=
  [[.create ⟨.A, false⟩ 1 false none, .create ⟨.B, false⟩ 7 false none, .count 0 (.setCount .A 1 7 3)],
   [.count 0 (.incr .B 7 1)]]

open Schema in
example : rcOf ((grunHist rcOnly g0 rcOnlyHist).slots 0) (.B, 7) 1 = some 4 ∧
    (grunHist rcOnly g0 rcOnlyHist).ents ⟨.A, false⟩ 1 = true := by decide
open Schema in
example : (gdelete rcOnly (grunHist rcOnly g0 rcOnlyHist) ⟨.A, false⟩ 1).2 = none ∧
    rcOf ((gdelete rcOnly (grunHist rcOnly g0 rcOnlyHist) ⟨.A, false⟩ 1).1.slots 0) (.B, 7) 1 = none := by decide
open Schema in
example : GHistVocab rcOnlyHist ∧ ghistWeight rcOnlyHist < 2147483648 := by
  refine ⟨?_, by decide⟩
  intro tx htx op hop
  simp only [rcOnlyHist, List.mem_cons, List.mem_nil_iff, or_false] at htx
  rcases htx with rfl | rfl <;> simp only [List.mem_cons, List.mem_nil_iff, or_false] at hop
  · rcases hop with rfl | rfl | rfl <;> simp [GOpVocab, RcOp.toOp, OpVocab]
  · subst hop; simp [GOpVocab, RcOp.toOp, OpVocab]

open Schema in
/-- a schema with a collection declared on the CHILD store of A (slot 0), one on the root stores
    (slot 1), a ref-counted one between the child of A and the child of B (slot 2) and a
    self-referential one on B (slot 3) -/
def mixed : Schema := { colls := [.plain true false, .plain false false, .rc true true, .self .B false] }

open Schema in
def mixedHist : List (List (GOp Nat)) :=
  [[.create ⟨.A, true⟩ 1 false none, .create ⟨.B, true⟩ 7 false none, .create ⟨.B, false⟩ 8 false (some (3, [7, 8]))],
   [.link 0 (.addLinks .A 1 [8, 7]), .link 1 (.addLink .B 7 1), .count 2 (.incr .A 1 7)],
   [.create ⟨.A, false⟩ 2 false none, .link 0 (.addLinks .A 2 [7])]]

open Schema in
example : linksOf ((grunHist mixed g0 mixedHist).slots 0) (.B, 7) = [1] ∧
    linksOf ((grunHist mixed g0 mixedHist).slots 1) (.A, 1) = [7] ∧
    rcOf ((grunHist mixed g0 mixedHist).slots 2) (.B, 7) 1 = some 1 ∧
    SelfW.L ((grunHist mixed g0 mixedHist).slots 3) 7 = [8] := by decide
open Schema in
/-- the third transaction failed (entity 2 is not held by the child store): rolled back -/
example : (grunHist mixed g0 mixedHist).ents ⟨.A, false⟩ 2 = false := by decide
open Schema in
/-- `DeleteById` through the ROOT store of A cleans the child store's collections too -/
example : let g' := (gdelete mixed (grunHist mixed g0 mixedHist) ⟨.A, false⟩ 1).1
    linksOf (g'.slots 0) (.B, 7) = [] ∧ linksOf (g'.slots 0) (.B, 8) = [] ∧ linksOf (g'.slots 1) (.B, 7) = [] ∧
    rcOf (g'.slots 2) (.B, 7) 1 = none ∧ g'.ents ⟨.A, true⟩ 1 = false := by decide
open Schema in
/-- deleting B.7 through the child store of B; B.8 keeps its link to itself -/
example : let g' := (gdelete mixed (grunHist mixed g0 mixedHist) ⟨.B, true⟩ 7).1
    linksOf (g'.slots 0) (.A, 1) = [8] ∧ linksOf (g'.slots 1) (.A, 1) = [] ∧ rcOf (g'.slots 2) (.A, 1) 7 = none ∧
    SelfW.L (g'.slots 3) 8 = [8] := by decide

open Schema in
/-- a naming: collection 0 (ref-counted, child store of A <-> root store B) has on A the symbol `crew`
    stored at `refs/crewCounts`, on B the symbol `ships` stored under the key `s`; collection 1 the plain
    symbols `f1` -/
def namedSchema : Schema :=
  { colls := [.rc true false, .plain false false],
    naming := fun i sd => match i, sd with
      | 0, .A => { name := "crew", key := "crewCounts", pre := ["refs"] }
      | 0, .B => { name := "ships", key := "s" }
      | _, _ => { name := "f1", key := "f1" } }

open Schema in
example : namedSchema.wf = true ∧ namedSchema.bucketPath 0 (.rc true false) .A = ["ext", "refs", "crewCounts"] ∧
    namedSchema.bucketPath 0 (.rc true false) .B = ["s"] := by decide
open Schema in
/-- ill-formed: two symbols of one store in the same bucket / nested buckets / same name -/
example : ({ colls := [.plain false false, .rc false false], naming := fun _ _ => { name := "x", key := "x" } } : Schema).wf = false ∧
    ({ colls := [.plain false false, .rc false false],
       naming := fun i _ => if i = 0 then { name := "x", key := "x" } else { name := "y", key := "z", pre := ["x"] } } : Schema).wf = false := by decide
open Schema in
example : let h : List (List (GOp Nat)) := [[.create ⟨.A, true⟩ 1 false none, .create ⟨.B, false⟩ 7 false none, .count 0 (.incr .A 1 7)]]
    rcOf ((grunHist namedSchema g0 h).slots 0) (.B, 7) 1 = some 1 ∧
    rcOf ((gdelete namedSchema (grunHist namedSchema g0 h) ⟨.A, false⟩ 1).1.slots 0) (.B, 7) 1 = none := by decide

open Schema in
/-- Extended child store with link collections (found by this check, repaired by c784f90): the child
    store of A is extended and declares collection 0; entity 1 is created through the ROOT store (no
    extension data) or through the child store, entity 7 in B and linked with 1 through the
    ref-counted collection 1 of the root stores.  `DeleteById(1)` succeeds through the root store as
    well as through the child store, and the count disappears from B.7. -/
def extSchema (ext : Bool) : Schema := { colls := [.plain true false, .rc false false], ext := fun sd => ext && sd == .A }

open Schema in
def extHist (x : Store) : List (List (GOp Nat)) :=
  [[.create x 1 false none, .create ⟨.B, false⟩ 7 false none, .count 1 (.incr .A 1 7)]]

open Schema in
example : (gdelete (extSchema true) (grunHist (extSchema true) g0 (extHist ⟨.A, false⟩)) ⟨.A, false⟩ 1).2 = none ∧
    (gdelete (extSchema true) (grunHist (extSchema true) g0 (extHist ⟨.A, false⟩)) ⟨.A, true⟩ 1).2 = none ∧
    (gdelete (extSchema true) (grunHist (extSchema true) g0 (extHist ⟨.A, true⟩)) ⟨.A, false⟩ 1).2 = none := by decide
open Schema in
example : rcOf ((grunHist (extSchema true) g0 (extHist ⟨.A, false⟩)).slots 1) (.B, 7) 1 = some 1 ∧
    rcOf ((gdelete (extSchema true) (grunHist (extSchema true) g0 (extHist ⟨.A, false⟩)) ⟨.A, true⟩ 1).1.slots 1) (.B, 7) 1 = none ∧
    (gdelete (extSchema true) (grunHist (extSchema true) g0 (extHist ⟨.A, false⟩)) ⟨.A, true⟩ 1).1.ents ⟨.A, false⟩ 1 = false := by decide

/-! ## Refused operations inside a transaction that carries on (C05/Restrict.lean)

  The theorems above treat a failing operation as "its transaction is rolled back".  A caller may
  tolerate a REFUSED `DeleteById` and commit.  The schema family gets a restricting fk between the
  root stores (`RSchema.fk`), histories may contain `deleteT` (a delete whose refusal is tolerated),
  creates with an fk value and creates through a child store that persist the parent's link field
  (`createP`).  What the code guarantees — and the model, following its order of checks and
  writes, proves: a delete refused by the restricting fk (or because the entity does not exist) has
  written nothing when it returns, so symmetry and agreement of counts survive histories that
  carry on after it.  Failures that do leave partial link writes (a link / an fk value naming a
  missing entity) are not tolerable in the model's histories: `ROp.tolerated` is true for `deleteT`
  only. -/
section
variable {K : Type} [KOrd K] [DecidableEq K]
open Schema Restrict

/-- **a refused delete leaves every link set and every count map, on both sides, exactly as it was —
    inside the transaction, not merely after a rollback**: for every schema, every state, through
    root or child store -/
theorem refused_delete_changes_no_links (rs : RSchema) (r : RSt K) (x : Store) (id : K) (e : RErr)
    (h : (rdelete rs r x id).err = some e) :
    (rdelete rs r x id).st = r ∧
    (∀ j ref, linksOf ((rdelete rs r x id).st.g.slots j) ref = linksOf (r.g.slots j) ref) ∧
    (∀ j ref k, rcOf ((rdelete rs r x id).st.g.slots j) ref k = rcOf (r.g.slots j) ref k) := by
  have := rdelete_err h
  exact ⟨this, fun j ref => by rw [this], fun j ref k => by rw [this]⟩

/-- the restricting fk does refuse: an entity of the referred root store that has a back-reference
    cannot be deleted, through either store of its family -/
theorem restricted_delete_refused (rs : RSchema) (r : RSt K) (x : Store) (id : K)
    (hid : r.g.ents ⟨x.side, false⟩ id = true) (hfk : rs.fk = some x.side.other) (p : K × K) (hp : p ∈ r.idx) (hpid : p.1 = id) :
    (rdelete rs r x id).err = some .referenced := by
  unfold rdelete
  have : r.idx.any (fun p => decide (p.1 = id)) = true := List.any_eq_true.mpr ⟨p, hp, by simp [hpid]⟩
  simp [hid, hfk, this]

/-- the only failures a history may carry on after are those that changed nothing -/
theorem tolerated_refusal_changes_nothing {rs : RSchema} {r : RSt K} {op : ROp K} {e : RErr}
    (ht : op.tolerated = true) (h : (rstep rs r op).err = some e) : (rstep rs r op).st = r :=
  Restrict.tolerated_refusal_changes_nothing ht h

theorem restrict_coherent (rs : RSchema) (h : List (List (ROp K))) : GInv rs.sc (rrunHist rs (r0 : RSt K) h).g :=
  (rreach_hist (rs := rs) (r := (r0 : RSt K)) (reach_g0 (K := K) rs.sc) h).1

/-- after any such history every declared collection is still a committed state of the two-store model -/
theorem restrict_collection_is_two_store_model (rs : RSchema) (h : List (List (ROp K))) {j : Nat} {c : Coll}
    (hj : rs.sc.colls[j]? = some c) (hc : ∀ sd ch, c ≠ .self sd ch) :
    ∃ h' : List (List (Op K)), (rrunHist rs (r0 : RSt K) h).g.slots j = runHist [] h' ∧
      (RHistVocab h → HistVocab h' ∧ histWeight h' ≤ rhistWeight h) :=
  r_slot_reachable rs h hj hc

/-- **symmetry for every schema with a restricting fk and every history, tolerated refused deletes
    followed by further operations and a commit included** -/
theorem restrict_links_symmetric (rs : RSchema) (h : List (List (ROp K))) {j : Nat} {ca cb : Bool}
    (hj : rs.sc.colls[j]? = some (.plain ca cb)) (a b : K) :
    b ∈ linksOf ((rrunHist rs (r0 : RSt K) h).g.slots j) (.A, a) ↔
      a ∈ linksOf ((rrunHist rs (r0 : RSt K) h).g.slots j) (.B, b) := by
  obtain ⟨h', e, _⟩ := r_slot_reachable rs h hj (by intro sd ch e; cases e)
  rw [e]; exact links_symmetric h' a b

theorem restrict_self_links_symmetric (rs : RSchema) (h : List (List (ROp K))) {j : Nat} {sd : Side} {ch : Bool}
    (hj : rs.sc.colls[j]? = some (.self sd ch)) (a b : K) :
    b ∈ SelfW.L ((rrunHist rs (r0 : RSt K) h).g.slots j) a ↔ a ∈ SelfW.L ((rrunHist rs (r0 : RSt K) h).g.slots j) b := by
  obtain ⟨h', e⟩ := r_self_slot_reachable rs h hj
  rw [e]; exact self_links_symmetric h' a b

/-- **both sides hold the same positive count** after every such history inside the vocabulary -/
theorem restrict_rc_agree (rs : RSchema) (h : List (List (ROp K))) (hv : RHistVocab h) (hw : rhistWeight h < 2147483648)
    {j : Nat} {ca cb : Bool} (hj : rs.sc.colls[j]? = some (.rc ca cb)) (a b : K) :
    rcOf ((rrunHist rs (r0 : RSt K) h).g.slots j) (.A, a) b = rcOf ((rrunHist rs (r0 : RSt K) h).g.slots j) (.B, b) a ∧
    ∀ c, rcOf ((rrunHist rs (r0 : RSt K) h).g.slots j) (.A, a) b = some c → 0 < c ∧ c < 2147483648 := by
  obtain ⟨h', e, p⟩ := r_slot_reachable rs h hj (by intro sd ch e; cases e)
  rw [e]; exact rc_agree h' (p hv).1 (by have := (p hv).2; omega) a b

end

/-- non-vacuity: employees-like store A (fk `ref` to B) with a plain and a ref-counted collection to B;
    B.7 is linked with A.1 and referenced by it: the delete of B.7 is refused (through root and child
    store), the transaction carries on and commits, both sides still list each other; once the
    referrer is gone the delete succeeds and unlinks. -/
def fkSchema : Restrict.RSchema := { sc := { colls := [.plain false false, .rc false true] }, fk := some .A }

open Schema Restrict in
def fkHist : List (List (ROp Nat)) :=
  [[.g (.create ⟨.B, true⟩ 7 false none), .createRef 1 false (some (0, [7])) 7, .g (.count 1 (.incr .A 1 7))],
   [.deleteT ⟨.B, false⟩ 7, .deleteT ⟨.B, true⟩ 7, .g (.create ⟨.A, false⟩ 2 false none), .g (.link 0 (.addLink .B 7 2))]]

open Schema Restrict in
example : (rdelete fkSchema (rrunHist fkSchema r0 fkHist) ⟨.B, false⟩ 7).err = some .referenced ∧
    linksOf ((rrunHist fkSchema r0 fkHist).g.slots 0) (.B, 7) = [1, 2] ∧
    linksOf ((rrunHist fkSchema r0 fkHist).g.slots 0) (.A, 1) = [7] ∧
    rcOf ((rrunHist fkSchema r0 fkHist).g.slots 1) (.B, 7) 1 = some 1 ∧
    (rrunHist fkSchema r0 fkHist).g.ents ⟨.A, false⟩ 2 = true := by decide
open Schema Restrict in
example : let r := rrunHist fkSchema r0 (fkHist ++ [[.g (.delete ⟨.A, false⟩ 1), .deleteT ⟨.B, true⟩ 7]])
    r.g.ents ⟨.B, false⟩ 7 = false ∧ linksOf (r.g.slots 0) (.A, 2) = [] ∧ r.idx = [] := by decide
-- a create through the child store over an existing parent with links leaves exactly the requested set
open Schema Restrict in
def cpHist : List (List (ROp Nat)) :=
  [[.g (.create ⟨.B, false⟩ 7 false none), .g (.create ⟨.B, false⟩ 8 false none), .g (.create ⟨.A, false⟩ 1 false (some (0, [8, 7])))],
   [.createP ⟨.A, true⟩ 1 false 0 [8]]]
open Schema Restrict in
example : let r := rrunHist fkSchema (r0 : RSt Nat) cpHist
    linksOf (r.g.slots 0) (.A, 1) = [8] ∧ linksOf (r.g.slots 0) (.B, 7) = [] ∧ linksOf (r.g.slots 0) (.B, 8) = [1] ∧
      r.g.ents ⟨.A, true⟩ 1 = true := by decide

end StorageModel.Properties.C05

#print axioms StorageModel.Properties.C05.links_symmetric
#print axioms StorageModel.Properties.C05.setlinks_exact
#print axioms StorageModel.Properties.C05.setlinks_missing
#print axioms StorageModel.Properties.C05.rc_agree
#print axioms StorageModel.Properties.C05.rc_zero_removes
#print axioms StorageModel.Properties.C05.delete_unlinks
#print axioms StorageModel.Properties.C05.model_refines_spec
#print axioms StorageModel.Properties.C05.self_links_symmetric
#print axioms StorageModel.Properties.C05.self_setlinks_exact
#print axioms StorageModel.Properties.C05.self_delete_unlinks
#print axioms StorageModel.Properties.C05.schema_collection_is_two_store_model
#print axioms StorageModel.Properties.C05.schema_self_collection_is_self_model
#print axioms StorageModel.Properties.C05.schema_coherent
#print axioms StorageModel.Properties.C05.schema_links_symmetric
#print axioms StorageModel.Properties.C05.schema_rc_agree
#print axioms StorageModel.Properties.C05.schema_setlinks_exact
#print axioms StorageModel.Properties.C05.schema_delete_unlinks
#print axioms StorageModel.Properties.C05.schema_delete_unlinks_rc
#print axioms StorageModel.Properties.C05.schema_delete_succeeds_iff
#print axioms StorageModel.Properties.C05.schema_collection_refines_spec
#print axioms StorageModel.Properties.C05.schema_naming_irrelevant
#print axioms StorageModel.Properties.C05.keysize_small_ids_unchanged
#print axioms StorageModel.Properties.C05.refused_delete_changes_no_links
#print axioms StorageModel.Properties.C05.restrict_links_symmetric
#print axioms StorageModel.Properties.C05.restrict_rc_agree
