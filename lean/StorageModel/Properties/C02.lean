import StorageModel.Query.BoltProofs
import StorageModel.Query.Providers
import StorageModel.Query.Resolve
import StorageModel.Query.Llrb
import StorageModel.Query.FloatOrder
import StorageModel.Query.History
import StorageModel.Generated.PagingFacts
/-
  C02 — Sort order, skip, limit and total count are exact.

  "For every dataset and query, the returned id list equals the matching entities ordered by the
  requested sort fields (each ascending or descending, null values first when ascending, remaining
  ties broken by id ascending; default order id ascending), with the first max(skip,0) rows dropped
  and at most limit rows kept, where an absent, negative or 'none' limit means unbounded.  The
  returned count always equals the total number of matching entities regardless of skip and limit,
  and the same answer is produced whichever scan strategy or cursor-style iteration serves the
  query."

  Model: Query/Paging.lean (setPaging, uniqueIndexScanner.ScanCursor / Next / Seek,
  sortingScanner.ScanCursor with the llrb tree as a strictly sorted list, int64 counters that wrap),
  Query/Compare.lean (the symbol comparators and newRowComparator), Query/Bolt.lean (NewScanner,
  QueryIdsC, QueryWithCursorC, IterateIds, skip/limit parsing).  Spec: Query/Spec.lean (`page`,
  `total`).  The paging arithmetic is the one the `paging` extractor reads from the source on every
  run (`Generated.boltzPaging`).

  Hypotheses that appear below, all explicit:
    * `BucketOrdered rows`      the entities bucket yields ids in ascending byte order (bbolt)
      (no hypothesis on the values: since 1532996 the float64 comparator orders NaN before every number)
    * `Paging.InRange`          skip and limit are int64 values
    * `rows.length ≤ maxI64`    fewer than 2^63 rows (the counters are int64)
-/
namespace StorageModel.Properties.C02
open StorageModel StorageModel.Query

/-- Obligation on regenerated data: `setPaging`, `maxResults` and the eviction test in
    boltz/query_scanners.go have the expected shape (negative skip clamped, overflow guarded,
    strict `>`). -/
theorem paging_facts_expected : Generated.boltzPaging = expectedPaging := by decide

/-- Obligation on regenerated data: the branch chain of `float64SymbolComparator.Compare`
    (boltz/query_sort.go) is the one `cmpFloatVal` models — nil tests, the NaN branch of 1532996
    (NaN before every number, NaNs tie), `<`, `>`. -/
theorem float_comparator_facts_expected : Generated.boltzFloatCmp = expectedFloatCmp := by decide

/-- **comparator_strict_total.**  The comparator built for any list of sort fields (per-type
    comparison, nulls first, direction flip, trailing `id asc`) is a strict total order on any set
    of rows with distinct ids — whatever their values: a NaN float64 key sorts before every number
    (after null) and ties only with NaN. -/
theorem comparator_strict_total {schema : Schema} {sort : List SortField} {c : Cmp Row} {rows : List Row}
    (hid : HasIdSymbol schema) (hc : newRowComparator schema sort = .ok c)
    (hd : DistinctIds rows) :
    StrictTotalOn (fun r => r ∈ rows) c :=
  newRowComparator_strict hid hc hd

/-- **the requested order, in closed form.**  The row comparator is: one symbol comparator per
    requested sort field, in the order requested and in the requested direction, then `id`
    ascending; the first comparator that does not tie decides. -/
theorem order_closed_form {schema : Schema} {sort : List SortField} {c : Cmp Row} (hid : HasIdSymbol schema)
    (hc : newRowComparator schema sort = .ok c) :
    c = chain ((sort.map fun f => symCmp (tyOf schema f.name) f.name f.asc) ++ [symCmp .string "id" true]) :=
  newRowComparator_closed hid hc

/-- lexicographic reading: `a` sorts before `b` iff some field (or finally the id) puts it first and
    all earlier fields tie -/
theorem order_lexicographic {schema : Schema} {sort : List SortField} {c : Cmp Row} (hid : HasIdSymbol schema)
    (hc : newRowComparator schema sort = .ok c) (a b : Row) :
    c a b = .lt ↔ ∃ pre d post,
      (sort.map fun f => symCmp (tyOf schema f.name) f.name f.asc) ++ [symCmp .string "id" true] = pre ++ d :: post ∧
      (∀ e ∈ pre, e a b = .eq) ∧ d a b = .lt := by
  rw [order_closed_form hid hc]; exact chain_lt_iff _ a b .lt (by decide)

/-- remaining ties are broken by id ascending (byte order) -/
theorem ties_broken_by_id {schema : Schema} {sort : List SortField} {c : Cmp Row} (hid : HasIdSymbol schema)
    (hc : newRowComparator schema sort = .ok c) (a b : Row)
    (htie : ∀ f ∈ sort, symCmp (tyOf schema f.name) f.name f.asc a b = .eq) : c a b = cmpBytes a.id b.id := by
  rw [order_closed_form hid hc, chain_all_eq _ _ _ _ (by
    intro d hd
    obtain ⟨f, hf, rfl⟩ := List.mem_map.1 hd
    exact htie f hf), symCmp_id]
  rfl

/-- the value a symbol comparator of type `ty` reads is null (nil pointer after `FieldTo*`) -/
def keyIsNull (ty : SymType) (v : Stored) : Bool :=
  match ty with
  | .bool => (fieldToBool v).isNone
  | .datetime => (fieldToDatetime v).isNone
  | .float64 => (fieldToFloat64 v).isNone
  | .int64 => (fieldToInt64 v).isNone
  | .string => (fieldToString v).isNone
  | .other => true

/-- null sort keys come first when ascending and last when descending -/
theorem nulls_first_ascending (ty : SymType) (name : String) (a b : Row)
    (ha : keyIsNull ty (evalSym name a) = true) (hb : keyIsNull ty (evalSym name b) = false) :
    symCmp ty name true a b = .lt ∧ symCmp ty name false a b = .gt := by
  have key : ∀ {κ : Type} (base : κ → κ → Ordering) (y : Option κ), y.isNone = false →
      nullsFirst base none y = .lt ∧ (nullsFirst base none y).swap = .gt := by
    intro κ base y hy
    cases y with
    | none => cases hy
    | some v => exact ⟨rfl, rfl⟩
  cases ty <;> simp only [keyIsNull, Option.isNone_iff_eq_none] at ha hb
  case other => cases hb
  all_goals
    simp only [symCmp, dir, ha, if_true, Bool.false_eq_true, if_false]
    exact key _ _ hb

/-! ### sort keys whose stored type differs from the symbol type (`FieldTo*` coercions)

The typed bucket admits any stored type under any key; a symbol of type T reads the field through
`FieldToT`.  `comparator_strict_total`, `sorting_scan_exact`, `query_ids_exact` above quantify over
arbitrary rows, hence over every (symbol type, stored type) pair; the theorems below say what the
key is in each case. -/

/-- **the coercion matrix**: what a symbol of each sortable type reads from each stored type.
    bool / datetime symbols read only their own type; an int64 symbol widens int32; a float64 symbol
    converts ints with `float64(int64)`; a string symbol formats everything; all other pairs are null. -/
theorem coerced_keys :
    (∀ v, fieldToBool v = match v with | .bool b => some b | _ => none) ∧
    (∀ v, fieldToDatetime v = match v with | .time t => some t | _ => none) ∧
    (∀ v, fieldToInt64 v = match v with | .int32 i => some i | .int64 i => some i | _ => none) ∧
    (∀ v, fieldToFloat64 v = match v with
      | .float64 b _ => some b | .int32 i => some (intToF64Bits i) | .int64 i => some (intToF64Bits i) | _ => none) ∧
    (∀ v, fieldToString v = match v with
      | .string s => some s | .bool b => some (boolText b) | .int32 i => some (intText i) | .int64 i => some (intText i)
      | .float64 _ text => some text | .time t => timeText t | .nil => none) := by
  refine ⟨?_, ?_, ?_, ?_, ?_⟩ <;> intro v <;> cases v <;> rfl

/-- an int-stored field read through a float64 symbol is never NaN … -/
theorem int_float_key_not_nan (v : Int) : fIsNaN (intToF64Bits v) = false := intToF64Bits_not_nan v

/-- **the float64 comparator is a total preorder on ALL float64 values**: comparison of the integer
    keys `fKey` (NaN ↦ below everything, otherwise the monotone image of the bit pattern; −0 = +0) -/
theorem float_comparator_total (a b : Nat) : cmpFloatVal a b = cmpInt (fKey a) (fKey b) := cmpFloatVal_eq_key a b

/-- NaN sorts before every number and ties with NaN only -/
theorem nan_sorts_first (a b : Nat) (ha : fIsNaN a = true) :
    cmpFloatVal a b = (if fIsNaN b then .eq else .lt) ∧ cmpFloatVal b a = (if fIsNaN b then .eq else .gt) := by
  cases hb : fIsNaN b <;> simp [cmpFloatVal, cmpFloatValWith, ha, hb]

/-- the comparator BEFORE 1532996 (`cmpFloatValWith false`: no NaN branch, `<` and `>` both false on NaN) tied NaN
    with every number; with the id tie-break the rows a: 2.0, b: NaN, c: 1.0 then form a cycle a < b < c < a —
    no order at all, which is why the theorems used to carry the hypothesis `NoNaNKeys` -/
example :
    let c : Cmp (Bytes × Nat) := fun x y => match cmpFloatValWith false x.2 y.2 with | .eq => cmpBytes x.1 y.1 | o => o
    c ([97], 0x4000000000000000) ([98], 0x7ff8000000000001) = .lt ∧
    c ([98], 0x7ff8000000000001) ([99], 0x3ff0000000000000) = .lt ∧
    c ([99], 0x3ff0000000000000) ([97], 0x4000000000000000) = .lt := by decide
/-- with the NaN branch: b (NaN) < c (1.0) < a (2.0), transitively -/
example : cmpFloatVal 0x7ff8000000000001 0x3ff0000000000000 = .lt ∧ cmpFloatVal 0x3ff0000000000000 0x4000000000000000 = .lt ∧
    cmpFloatVal 0x7ff8000000000001 0x4000000000000000 = .lt ∧ cmpFloatVal 0x7ff8000000000001 0xfff8000000000000 = .eq := by decide

/-- **the order a float64 symbol gives int-stored fields**: integers `a ≤ b` never come out inverted —
    `float64(int64)` is monotone; integers rounding to the same float64 tie (→ next field / id) -/
theorem int_float_key_monotone {a b : Int} (h : a ≤ b) :
    cmpFloatVal (intToF64Bits a) (intToF64Bits b) ≠ .gt := by
  rw [cmpFloatVal_eq (intToF64Bits_not_nan a) (intToF64Bits_not_nan b)]
  have := intToF64Bits_mono h
  unfold cmpInt
  split
  · decide
  · split
    · omega
    · decide

/-- ids and count of an answer (for the concrete examples) -/
def answer : Except SortErr (List Row × Int) → Option (List Bytes × Int)
  | .ok r => some (r.1.map (·.id), r.2)
  | .error _ => none

def coSchema : Schema := [("id", ⟨.string, false⟩), ("f", ⟨.float64, false⟩), ("s", ⟨.string, false⟩)]
/-- ints under a float64 symbol: 2^53 + 1 and 2^53 convert to the same float64 (tie → id order), 7 is smaller;
    under a string symbol the decimal texts compare bytewise: "10" < "7" < "9007…" -/
def coRows : List Row :=
  [⟨[97], [("f", .int64 9007199254740993), ("s", .int64 7)]⟩,
   ⟨[98], [("f", .int64 9007199254740992), ("s", .int32 10)]⟩,
   ⟨[99], [("f", .int32 7), ("s", .time 1614834367000000001)]⟩,
   ⟨[100], [("f", .string [55]), ("s", .float64 4602678819172646912 [48, 46, 53])]⟩]
def coStore : BoltStore := { schema := coSchema, bucket := some coRows }

/-- a string stored under the float64 symbol is null (first); then 7.0; then the two ints that
    round to 2^53, in id order -/
example : answer (queryIdsC expectedPaging coStore ⟨.tt, [⟨"f", true⟩], ⟨none, none⟩⟩) = some ([[100], [99], [97], [98]], 4) := by
  decide
/-- "0.5" < "10" < "2021-03-04T05:06:07.000000001Z" < "7" -/
example : answer (queryIdsC expectedPaging coStore ⟨.tt, [⟨"s", true⟩], ⟨none, none⟩⟩) = some ([[100], [98], [99], [97]], 4) := by
  decide

/-- a strictly sorted permutation of the matching rows is what the specification calls their
    sort: `page` does not depend on the sorting algorithm written in Query/Sorted.lean -/
theorem sort_characterised {P : Row → Prop} {c : Cmp Row} (hc : StrictTotalOn P c) {xs l : List Row}
    (hP : ∀ a ∈ xs, P a) (hnd : xs.Nodup) : (l.Perm xs ∧ Sorted c l) ↔ l = sort c xs :=
  ⟨fun h => sort_unique hc hP hnd h.1 h.2, fun h => h ▸ ⟨sort_perm c xs, sort_sorted hc hP hnd⟩⟩

/-- **k_smallest_stream** (core lemma of the bounded result tree).  Inserting every row into the
    tree and cutting it back to `k` rows after each insertion leaves exactly the first `k` rows of
    the sorted input. -/
theorem k_smallest_stream {P : Row → Prop} {c : Cmp Row} (hc : StrictTotalOn P c) (k : Nat) {xs : List Row}
    (hP : ∀ a ∈ xs, P a) (hnd : xs.Nodup) :
    xs.foldl (fun t x => (tins c x t).take k) [] = (sort c xs).take k := by
  have := bounded_fold c k [] xs
  simp only [List.take_nil] at this
  rw [this, (foldl_tins_eq_sort hc hP hnd).1]

/-- what `setPaging` leaves in the scanner and in the query object: absent skip → 0, negative skip
    clamped to 0 (scanner only), absent / negative / `none` limit → MaxInt64, and the defaults are
    written back into the query. -/
theorem set_paging_exact (q : Paging) :
    setPaging Generated.boltzPaging q =
      (⟨some (q.skip.getD 0), some (match q.limit with | none => maxI64 | some l => if l < 0 then maxI64 else l)⟩,
       ⟨max (q.skip.getD 0) 0, match q.limit with | none => maxI64 | some l => if l < 0 then maxI64 else l⟩) := by
  rw [paging_facts_expected]
  exact Prod.ext (setPaging_writeback q) (setPaging_target q)

/-- a query object that already went through a scan pages the same way when it is run again -/
theorem set_paging_idempotent (q : Paging) :
    setPaging Generated.boltzPaging (setPaging Generated.boltzPaging q).1 = setPaging Generated.boltzPaging q := by
  rw [paging_facts_expected]; exact setPaging_idempotent q

/-- **index_scan_exact.**  When `NewScanner` chooses the index scanner (no sort field, or `id`
    first, either direction), `QueryIdsC` returns the page of the matching rows under the row
    comparator of the requested sort fields, and the total number of matching rows. -/
theorem index_scan_exact (st : BoltStore) (rows : List Row) (q : Query) (fwd : Bool) (c : Cmp Row)
    (hb : st.bucket = some rows) (hord : BucketOrdered rows) (hid : HasIdSymbol st.schema)
    (hs : newScanner q.sort = .index fwd) (hc : newRowComparator st.schema q.sort = .ok c)
    (hq : q.paging.InRange) (hlen : (rows.length : Int) ≤ maxI64) :
    queryIdsC Generated.boltzPaging st q =
      .ok (page c q.paging.skip q.paging.limit (matching (st.env q.filter) rows),
           total (matching (st.env q.filter) rows)) := by
  rw [paging_facts_expected]
  have hstrict := newRowComparator_strict hid hc hord.distinct
  have hmlen : ∀ l : List Row, l.Perm rows → ((matching (st.env q.filter) l).length : Int) ≤ maxI64 := by
    intro l hl
    have : (matching (st.env q.filter) l).length ≤ l.length := List.length_filter_le ..
    rw [hl.length_eq] at this; omega
  simp only [queryIdsC, hb, scanCursor, hs]
  rw [idxScan_spec _ _ _ hq (hmlen _ (bucketCursor_perm rows fwd))]
  have hperm := matching_perm (st.env q.filter) (bucketCursor_perm rows fwd)
  have hsorted := index_cursor_sorted hid hs hc hord (st.env q.filter)
  have hPm : ∀ a ∈ matching (st.env q.filter) rows, a ∈ rows := fun a ha => (List.mem_filter.1 ha).1
  have hnd : (matching (st.env q.filter) rows).Nodup := hord.distinct.nodup.sublist List.filter_sublist
  have heq := sort_unique hstrict hPm hnd hperm hsorted
  rw [page_eq_target c q.paging _ (hmlen rows (.refl _)), ← heq]
  simp only [total, hperm.length_eq]

/-- **sorting_scan_exact.**  When `NewScanner` chooses the sorting scanner, `QueryIdsC` returns the
    page of the matching rows under the row comparator, and the total number of matching rows — for
    every skip and limit in int64 (negative, 0, MaxInt64, beyond the end, absent, none). -/
theorem sorting_scan_exact (st : BoltStore) (rows : List Row) (q : Query) (c : Cmp Row)
    (hb : st.bucket = some rows) (hord : BucketOrdered rows) (hid : HasIdSymbol st.schema)
    (hs : newScanner q.sort = .sorting) (hc : newRowComparator st.schema q.sort = .ok c)
    (hq : q.paging.InRange) (hlen : (rows.length : Int) ≤ maxI64) :
    queryIdsC Generated.boltzPaging st q =
      .ok (page c q.paging.skip q.paging.limit (matching (st.env q.filter) rows),
           total (matching (st.env q.filter) rows)) := by
  rw [paging_facts_expected]
  have hstrict := newRowComparator_strict hid hc hord.distinct
  have hmlen : ((matching (st.env q.filter) rows).length : Int) ≤ maxI64 := by
    have : (matching (st.env q.filter) rows).length ≤ rows.length := List.length_filter_le ..
    omega
  simp only [queryIdsC, hb, scanCursor, hs, hc, bucketCursor, if_true]
  rw [sortScan_spec hstrict _ _ _ hq (fun a ha => ha) hord.distinct.nodup hmlen]

/-- **query_ids_exact** (the property, for the bolt store): whatever strategy serves the query,
    the answer is the page of the matching rows in the requested order and their total number. -/
theorem query_ids_exact (st : BoltStore) (rows : List Row) (q : Query) (c : Cmp Row)
    (hb : st.bucket = some rows) (hord : BucketOrdered rows) (hid : HasIdSymbol st.schema)
    (hc : newRowComparator st.schema q.sort = .ok c)
    (hq : q.paging.InRange) (hlen : (rows.length : Int) ≤ maxI64) :
    queryIdsC Generated.boltzPaging st q =
      .ok (page c q.paging.skip q.paging.limit (rows.filter fun r => !st.childSkip r && sat r q.filter),
           total (rows.filter fun r => !st.childSkip r && sat r q.filter)) := by
  have hm : matching (st.env q.filter) rows = rows.filter fun r => !st.childSkip r && sat r q.filter := by
    simp only [matching, BoltStore.env, bolt_eval_sat]
    congr 1
  rw [← hm]
  cases hs : newScanner q.sort with
  | index fwd => exact index_scan_exact st rows q fwd c hb hord hid hs hc hq hlen
  | sorting => exact sorting_scan_exact st rows q c hb hord hid hs hc hq hlen

/-- **cursor_provider_exact.**  `QueryWithCursorC` with a cursor provider that yields a sub-sequence
    of the bucket in key order (forward) or reverse key order — as the bucket's own `OpenCursor`,
    `IteratorMatchingAllOf` and `IteratorMatchingAnyOf` do — answers with the page and count of the
    matching rows among those the provider yields. -/
theorem cursor_provider_exact (st : BoltStore) (sub : List Row) (q : Query) (c : Cmp Row)
    (hord : BucketOrdered sub) (hid : HasIdSymbol st.schema)
    (hc : newRowComparator st.schema q.sort = .ok c)
    (hq : q.paging.InRange) (hlen : (sub.length : Int) ≤ maxI64) :
    queryWithCursorC Generated.boltzPaging st q (fun fwd => some (bucketCursor sub fwd)) =
      .ok (page c q.paging.skip q.paging.limit (sub.filter fun r => !st.childSkip r && sat r q.filter),
           total (sub.filter fun r => !st.childSkip r && sat r q.filter)) :=
  query_ids_exact { st with bucket := some sub } sub q c rfl hord hid hc hq hlen

/-- the listener's reading of `skip N` / `limit N` / `limit none` pages exactly as the text asks:
    `limit none` (pushed as -1) is "no limit" -/
theorem paging_tokens_exact (skip : Option NumTok) (limit : Option LimitTok) (p : Paging)
    (h : parsePaging skip limit = .ok p) (c : Cmp Row) (xs : List Row) :
    page c p.skip p.limit xs = page c (tokSkip skip) (tokLimit limit) xs := by
  cases skip with
  | none =>
    cases limit with
    | none => simp [parsePaging] at h; subst h; rfl
    | some l =>
      cases l with
      | none_ => simp [parsePaging] at h; subst h; simp [page, limitRows, tokSkip, tokLimit]
      | num n => cases n with
        | int v => simp [parsePaging] at h; subst h; rfl
        | nonInt => simp [parsePaging] at h
  | some sk =>
    cases sk with
    | nonInt => simp [parsePaging] at h
    | int s =>
      cases limit with
      | none => simp [parsePaging] at h; subst h; rfl
      | some l =>
        cases l with
        | none_ => simp [parsePaging] at h; subst h; simp [page, limitRows, tokSkip, tokLimit]
        | num n => cases n with
          | int v => simp [parsePaging] at h; subst h; rfl
          | nonInt => simp [parsePaging] at h

/-- **strategy_independent.**  On a query the index scanner can serve (no sort field or `id`
    first), the sorting scanner run with the same comparator gives the same ids and count. -/
theorem strategy_independent (st : BoltStore) (rows : List Row) (q : Query) (fwd : Bool) (c : Cmp Row)
    (hord : BucketOrdered rows) (hid : HasIdSymbol st.schema)
    (hs : newScanner q.sort = .index fwd) (hc : newRowComparator st.schema q.sort = .ok c)
    (hq : q.paging.InRange) (hlen : (rows.length : Int) ≤ maxI64) :
    sortScan Generated.boltzPaging c (st.env q.filter) q.paging (some rows) =
      idxScan Generated.boltzPaging (st.env q.filter) q.paging (some (bucketCursor rows fwd)) := by
  have h1 := index_scan_exact { st with bucket := some rows } rows q fwd c rfl hord hid hs hc hq hlen
  simp only [queryIdsC, scanCursor, hs] at h1
  have h1' := Except.ok.inj h1
  have hstrict := newRowComparator_strict hid hc hord.distinct
  have hmlen : ((matching (st.env q.filter) rows).length : Int) ≤ maxI64 := by
    have : (matching (st.env q.filter) rows).length ≤ rows.length := List.length_filter_le ..
    omega
  rw [paging_facts_expected] at h1' ⊢
  rw [sortScan_spec hstrict _ _ _ hq (fun a ha => ha) hord.distinct.nodup hmlen]
  exact h1'.symm

/-- **count_exact.**  The count does not depend on skip and limit. -/
theorem count_exact (st : BoltStore) (rows : List Row) (q : Query) (p' : Paging) (c : Cmp Row)
    (hb : st.bucket = some rows) (hord : BucketOrdered rows) (hid : HasIdSymbol st.schema)
    (hc : newRowComparator st.schema q.sort = .ok c)
    (hq : q.paging.InRange) (hq' : p'.InRange)
    (hlen : (rows.length : Int) ≤ maxI64) :
    (queryIdsC Generated.boltzPaging st q).map (·.2) =
      (queryIdsC Generated.boltzPaging st { q with paging := p' }).map (·.2) := by
  rw [query_ids_exact st rows q c hb hord hid hc hq hlen,
    query_ids_exact st rows { q with paging := p' } c hb hord hid hc hq' hlen]
  rfl

/-- the count of the sorting scan is the number of matching rows for *any* comparator — also when
    sort keys are NaN and the order itself is undefined -/
theorem count_exact_any_comparator (c : Cmp Row) (env : ScanEnv Row) (q : Paging) (cur : List Row)
    (hlen : ((matching env cur).length : Int) ≤ maxI64) :
    (sortScan Generated.boltzPaging c env q (some cur)).2 = total (matching env cur) := by
  simp only [sortScan]
  rw [sortLoop_count _ c env _ cur {} (by simp) (by simpa using hlen)]
  simp [total]

/-- **cursor_iter_exact.**  Draining `IterateIds(tx, query)` yields the page of the matching rows in
    id order (a filtered cursor cannot sort: the sort fields are ignored). -/
theorem cursor_iter_exact (st : BoltStore) (rows : List Row) (q : Query) (c : Cmp Row)
    (hb : st.bucket = some rows) (hord : BucketOrdered rows) (hid : HasIdSymbol st.schema)
    (hc : newRowComparator st.schema [] = .ok c) (hq : q.paging.InRange) (hlen : (rows.length : Int) ≤ maxI64) :
    iterateIds Generated.boltzPaging st q =
      page c q.paging.skip q.paging.limit (matching (st.env q.filter) rows) := by
  have h := index_scan_exact st rows { q with sort := [] } true c hb hord hid rfl hc hq hlen
  rw [paging_facts_expected] at h ⊢
  simp only [queryIdsC, hb, scanCursor, newScanner, sortMax, List.length_nil, Nat.not_lt_zero, if_false,
    bucketCursor, if_true] at h
  have hmlen : ((matching (st.env q.filter) rows).length : Int) ≤ maxI64 := by
    have : (matching (st.env q.filter) rows).length ≤ rows.length := List.length_filter_le ..
    omega
  rw [idxScan_spec _ _ _ hq hmlen] at h
  simp only [iterateIds, hb]
  rw [iterate_spec _ _ _ hq]
  exact congrArg Prod.fst (Except.ok.inj h)

/-- `Seek(v)` on an unpaged `IterateIds` cursor (any state it can be in), then draining: the matching
    rows from the first id ≥ v on. -/
theorem cursor_seek_exact (env : ScanEnv Row) (v : Bytes) (c : PagedCursor Row)
    (ho : 0 ≤ c.offset) (hc : 0 ≤ c.collected) (hlen : c.collected + (c.all.length : Int) < maxI64) :
    drain ⟨0, maxI64⟩ env (c.all.length + 1) (c.seek ⟨0, maxI64⟩ env (fun r => cmpBytes r.id v == .lt)) =
      matching env (c.all.dropWhile (fun r => cmpBytes r.id v == .lt)) :=
  seek_spec env _ c ho hc hlen

/-! ### non-vacuity and the arithmetic the pinned tree had -/

def exSchema : Schema := [("id", ⟨.string, false⟩), ("s", ⟨.string, false⟩), ("f", ⟨.float64, false⟩)]
def exRows : List Row :=
  [⟨[97], [("s", .string [120]), ("f", .float64 0 [48])]⟩,
   ⟨[98], [("s", .nil), ("f", .float64 4607182418800017408 [49])]⟩,
   ⟨[99], [("s", .string [120]), ("f", .nil)]⟩]
def exStore : BoltStore := { schema := exSchema, bucket := some exRows }
def exQuery : Query := ⟨.tt, [⟨"s", true⟩], ⟨some 1, none⟩⟩
/-- the hypotheses are satisfiable by a store with ties and nulls -/
example : BucketOrdered exRows ∧ HasIdSymbol exSchema ∧ exQuery.paging.InRange ∧ newScanner exQuery.sort = .sorting := by
  refine ⟨by unfold BucketOrdered; decide, by unfold HasIdSymbol; decide,
    ⟨by intro s h; cases h; unfold InI64; decide, by intro l h; cases h⟩, by decide⟩

/-- `sort by s skip 1` (no limit): null first, then the tie on "x" broken by id; one row dropped -/
example : answer (queryIdsC expectedPaging exStore exQuery) = some ([[97], [99]], 3) := by decide

/-- the arithmetic before e51f293 (no overflow guard): `skip 1` without limit makes
    `targetOffset + targetLimit` wrap negative, every row is evicted -/
theorem pinned_arithmetic_violates :
    answer (queryIdsC pinnedPaging exStore exQuery) = some ([], 3) := by decide

/-- ... and a negative skip shrank the window: `skip -2 limit 2` kept nothing -/
example : answer (queryIdsC pinnedPaging exStore { exQuery with paging := ⟨some (-2), some 2⟩ }) = some ([], 3) := by decide
example : answer (queryIdsC expectedPaging exStore { exQuery with paging := ⟨some (-2), some 2⟩ }) = some ([[98], [97]], 3) := by
  decide

/-! ### which sort fields are supported: map elements, linked symbols, child-store symbols

`ast.Parse` resolves a sort field with `GetSymbol` (registered symbols, map elements `tags.k`,
composite symbols through linked stores `owner.label`); `newRowComparator` looks only into
`store.symbols`.  Supported are therefore exactly the registered non-set symbols of the five
sortable types — among them the fk symbol itself (`owner`: the linked id, a string), the parent's
symbols granted to a child store and the child store's own symbols; `comparator_strict_total`,
`sorting_scan_exact`, `query_ids_exact` cover those (any schema).  Everything else is refused: -/

/-- a sort list is accepted by `newRowComparator` iff every field — and the trailing `id` — is a
    registered, non-set symbol of a sortable type -/
theorem sort_accepted_iff (schema : Schema) (sort : List SortField) :
    (∃ c, newRowComparator schema sort = .ok c) ↔ ∀ f ∈ sort ++ [⟨"id", true⟩], fieldErr schema f = none := by
  rw [← resolveSort_ok_iff]
  unfold newRowComparator
  cases resolveSort schema (sort ++ [⟨"id", true⟩]) with
  | error e => simp
  | ok cs => simp

/-- **exact error**: the error is that of the first refused field in the order written ("no such
    sort field" for a name that is not registered, "invalid sort field" for a set symbol,
    "unsupported sort field type" for a registered symbol of another type) -/
theorem sort_field_error_exact (schema : Schema) (sort : List SortField) (e : SortErr) :
    newRowComparator schema sort = .error e ↔
      ∃ pre f post, sort ++ [⟨"id", true⟩] = pre ++ f :: post ∧ (∀ g ∈ pre, fieldErr schema g = none) ∧
        fieldErr schema f = some e :=
  newRowComparator_error_iff schema sort e

/-- **map elements and linked symbols** (`tags.k`, `owner.label`, `owner.id`): a dotted name is never a
    registered symbol, so the comparator refuses it with "no such sort field" although the parser
    resolved it -/
theorem dotted_sort_field_refused {schema : Schema} (hp : PlainNames schema) (f : SortField)
    (hd : (splitDots f.name).length ≠ 1) : fieldErr schema f = some .noSuchField :=
  dotted_field_unsupported hp f hd

/-- the sorting scanner reports that error for every dataset, filter, skip and limit (once the
    entities bucket exists; without it `Scan` answers `(nil, 0, nil)` before looking at the sort) -/
theorem sorting_scan_error_exact (st : BoltStore) (rows : List Row) (q : Query) (e : SortErr)
    (hb : st.bucket = some rows) (hs : newScanner q.sort = .sorting) (he : newRowComparator st.schema q.sort = .error e) :
    queryIdsC Generated.boltzPaging st q = .error e ∧
    queryIdsC Generated.boltzPaging { st with bucket := none } q = .ok ([], 0) := by
  simp [queryIdsC, hb, scanCursor, hs, he]

/-- **`id` first**: the index scanner serves the query and never builds a comparator — any sort
    fields after `id` (refused ones included) are irrelevant and the answer is the page in id order -/
theorem id_first_exact (st : BoltStore) (rows : List Row) (q : Query) (asc : Bool) (rest : List SortField) (c : Cmp Row)
    (hsort : q.sort = ⟨"id", asc⟩ :: rest)
    (hb : st.bucket = some rows) (hord : BucketOrdered rows) (hid : HasIdSymbol st.schema)
    (hc : newRowComparator st.schema [⟨"id", asc⟩] = .ok c) (hq : q.paging.InRange) (hlen : (rows.length : Int) ≤ maxI64) :
    queryIdsC Generated.boltzPaging st q =
      .ok (page c q.paging.skip q.paging.limit (rows.filter fun r => !st.childSkip r && sat r q.filter),
           total (rows.filter fun r => !st.childSkip r && sat r q.filter)) := by
  have hs : newScanner q.sort = .index asc := by
    rw [hsort]
    have hhead : (if (⟨"id", asc⟩ :: rest : List SortField).length > sortMax then (⟨"id", asc⟩ :: rest : List SortField).take sortMax
        else ⟨"id", asc⟩ :: rest) = ⟨"id", asc⟩ :: (if (⟨"id", asc⟩ :: rest : List SortField).length > sortMax then rest.take (sortMax - 1) else rest) := by
      split <;> simp [sortMax]
    simp only [newScanner, hhead]
    cases asc <;> simp
  have hs' : newScanner [⟨"id", asc⟩] = .index asc := by cases asc <;> simp [newScanner, sortMax]
  rw [index_scanner_needs_no_comparator _ st q asc hs [⟨"id", asc⟩] hs']
  exact query_ids_exact st rows { q with sort := [⟨"id", asc⟩] } c hb hord hid hc hq hlen

/-- the harness stores' tables: `things` with the map symbol `tags` and the fk `owner` → `owners` -/
def exStores : Stores :=
  [("things", { symbols := [("id", ⟨.string, false⟩), ("s", ⟨.string, false⟩), ("owner", ⟨.string, false⟩), ("roles", ⟨.string, true⟩)],
                maps := [("tags", .other)], links := [("owner", "owners")] }),
   ("owners", { symbols := [("id", ⟨.string, false⟩), ("label", ⟨.string, false⟩), ("things", ⟨.string, true⟩)],
                maps := [], links := [("things", "things")] })]
def exThings : Schema := [("id", ⟨.string, false⟩), ("s", ⟨.string, false⟩), ("owner", ⟨.string, false⟩), ("roles", ⟨.string, true⟩)]

/-- the parser resolves `tags.k`, `owner.label`, `owner.id`; `owner.things.s` resolves to a set -/
example : sortFieldParses exStores "things" ⟨"tags.k", true⟩ = true ∧ sortFieldParses exStores "things" ⟨"owner.label", true⟩ = true ∧
    sortFieldParses exStores "things" ⟨"owner.id", false⟩ = true ∧ sortFieldParses exStores "things" ⟨"owner.things.s", true⟩ = false ∧
    sortFieldParses exStores "things" ⟨"tags", true⟩ = false := by decide
/-- … and the comparator refuses them, while the fk symbol itself sorts (by the linked id) -/
example : fieldErr exThings ⟨"tags.k", true⟩ = some .noSuchField ∧ fieldErr exThings ⟨"owner.label", true⟩ = some .noSuchField ∧
    fieldErr exThings ⟨"owner", true⟩ = none ∧ fieldErr exThings ⟨"roles", true⟩ = some .invalidSetField := by decide
example : PlainNames exThings := by
  intro p hp
  simp only [exThings, List.mem_cons, List.mem_nil_iff, or_false] at hp
  rcases hp with rfl | rfl | rfl | rfl <;> decide

/-! ### the llrb tree and its sorted-list view

`Query/Llrb.lean` ports biogo's `Tree.Insert` / `DeleteMax` / `Do` node by node; the scanner theorems
above use the in-order walk (`tins`, `dropLast`).  For `Insert` the two are proved equal; for
`DeleteMax` (= `dropLast` on a balanced tree) the drivers compare both models on every generated case. -/

/-- **`llrb.Tree.Insert` is sorted-list insertion with replace-on-equal**, whenever the row comparator
    is a strict total order on the rows involved (`comparator_strict_total`) — whatever the colours
    and the shape of the tree -/
theorem llrb_insert_is_sorted_insert {P : Row → Prop} {c : Cmp Row} (hc : StrictTotalOn P c) (e : Row) (he : P e)
    (t : LL Row) (hP : ∀ y ∈ t.inorder, P y) (hs : Sorted c t.inorder) :
    (LL.Insert c e t).inorder = tins c e t.inorder :=
  LL.Insert_inorder hc e he t hP hs

/-! ### every cursor provider the library offers -/

/-- **cursor_provider_exact, for every provider kind** (`TypedBucket.OpenCursor`, `setIndex.OpenValueCursor`,
    `ast.OpenEmptyCursor`, the filtered cursor of `IteratorMatchingAllOf`, the tree set of
    `IteratorMatchingAnyOf`, `GetRelatedEntitiesCursor` over an fk back-reference list, a nil cursor):
    `QueryWithCursorC` answers with the page — in the requested sort order, whichever scanner serves
    it — and the total of the matching entities among those the provider selects. -/
theorem cursor_provider_exact_all (st : BoltStore) (rows : List Row) (ix : Indexes) (p : Provider) (q : Query) (c : Cmp Row)
    (hord : BucketOrdered rows) (hm : IndexesMirror ix rows) (hid : HasIdSymbol st.schema)
    (hc : newRowComparator st.schema q.sort = .ok c)
    (hq : q.paging.InRange) (hlen : (rows.length : Int) ≤ maxI64) :
    queryWithCursorC Generated.boltzPaging st q (p.cursor ix rows) =
      .ok (page c q.paging.skip q.paging.limit
             ((rows.filter (p.selects ix)).filter fun r => !st.childSkip r && sat r q.filter),
           total ((rows.filter (p.selects ix)).filter fun r => !st.childSkip r && sat r q.filter)) := by
  by_cases hp : p = .nilCursor
  · subst hp
    have hnil : rows.filter (Provider.selects ix .nilCursor) = [] :=
      List.filter_eq_nil_iff.2 (fun _ _ => by simp [Provider.selects])
    have hcur : Provider.cursor ix rows .nilCursor = fun _ => none := rfl
    simp only [hnil, List.filter_nil, queryWithCursorC, scanCursor, hcur, hc]
    cases newScanner q.sort <;> simp [idxScan, sortScan, page, sort, total]
    all_goals (cases limitRows q.paging.limit <;> simp)
  · have hsub : BucketOrdered (rows.filter (p.selects ix)) := List.Pairwise.sublist List.filter_sublist hord
    have hcur : p.cursor ix rows = fun fwd => some (bucketCursor (rows.filter (p.selects ix)) fwd) := by
      funext fwd; exact provider_cursor_eq hord hm p hp fwd
    rw [hcur]
    refine cursor_provider_exact st _ q c hsub hid hc hq ?_
    have : (rows.filter (p.selects ix)).length ≤ rows.length := List.length_filter_le ..
    omega

/-- `IteratorMatchingAllOf(index, values)`: the entities that hold every value (none at all for an
    empty value list), duplicates in `values` being irrelevant -/
theorem iterator_all_of_exact (st : BoltStore) (rows : List Row) (ix : Indexes) (vs : List Bytes) (q : Query) (c : Cmp Row)
    (hord : BucketOrdered rows) (hm : IndexesMirror ix rows) (hid : HasIdSymbol st.schema)
    (hc : newRowComparator st.schema q.sort = .ok c)
    (hq : q.paging.InRange) (hlen : (rows.length : Int) ≤ maxI64) :
    queryWithCursorC Generated.boltzPaging st q ((iteratorMatchingAllOf vs).cursor ix rows) =
      .ok (page c q.paging.skip q.paging.limit
             ((rows.filter fun r => !vs.isEmpty && vs.all (hasValue ix r.id)).filter fun r => !st.childSkip r && sat r q.filter),
           total ((rows.filter fun r => !vs.isEmpty && vs.all (hasValue ix r.id)).filter fun r => !st.childSkip r && sat r q.filter)) := by
  rw [cursor_provider_exact_all st rows ix _ q c hord hm hid hc hq hlen]
  have : rows.filter ((iteratorMatchingAllOf vs).selects ix) = rows.filter fun r => !vs.isEmpty && vs.all (hasValue ix r.id) :=
    List.filter_congr (fun r _ => iteratorMatchingAllOf_selects ix vs r)
  rw [this]

/-- `IteratorMatchingAnyOf(index, values)`: the entities that hold at least one of the values, each once -/
theorem iterator_any_of_exact (st : BoltStore) (rows : List Row) (ix : Indexes) (vs : List Bytes) (q : Query) (c : Cmp Row)
    (hord : BucketOrdered rows) (hm : IndexesMirror ix rows) (hid : HasIdSymbol st.schema)
    (hc : newRowComparator st.schema q.sort = .ok c)
    (hq : q.paging.InRange) (hlen : (rows.length : Int) ≤ maxI64) :
    queryWithCursorC Generated.boltzPaging st q ((iteratorMatchingAnyOf vs).cursor ix rows) =
      .ok (page c q.paging.skip q.paging.limit
             ((rows.filter fun r => vs.any (hasValue ix r.id)).filter fun r => !st.childSkip r && sat r q.filter),
           total ((rows.filter fun r => vs.any (hasValue ix r.id)).filter fun r => !st.childSkip r && sat r q.filter)) := by
  rw [cursor_provider_exact_all st rows ix _ q c hord hm hid hc hq hlen]
  have : rows.filter ((iteratorMatchingAnyOf vs).selects ix) = rows.filter fun r => vs.any (hasValue ix r.id) :=
    List.filter_congr (fun r _ => iteratorMatchingAnyOf_selects ix vs r)
  rw [this]

/-- **cursor_scanner_exact** (`newCursorScanner`, the cursor behind `OpenSetCursorForQuery`): drained,
    it yields the page — in id order, a cursor cannot sort — of the members of the set cursor that
    satisfy the sub-query's predicate in the linked store, honouring the sub-query's skip and limit. -/
theorem cursor_scanner_exact (linked : BoltStore) (members : List Row) (q : Query) (c : Cmp Row)
    (hord : BucketOrdered members) (hid : HasIdSymbol linked.schema)
    (hc : newRowComparator linked.schema [] = .ok c) (hq : q.paging.InRange) (hlen : (members.length : Int) ≤ maxI64) :
    subQueryCursor Generated.boltzPaging linked q members =
      page c q.paging.skip q.paging.limit (members.filter fun r => !linked.childSkip r && sat r q.filter) := by
  have h := cursor_iter_exact { linked with bucket := some members } members q c rfl hord hid hc hq hlen
  simp only [iterateIds] at h
  have hm : matching (BoltStore.env { linked with bucket := some members } q.filter) members =
      members.filter fun r => !linked.childSkip r && sat r q.filter := by
    simp only [matching, BoltStore.env, bolt_eval_sat]
    congr 1
  rw [← hm, ← h]
  rfl

def pvRows : List Row := [⟨[97], []⟩, ⟨[98], []⟩, ⟨[99], []⟩, ⟨[100], []⟩]
/-- a: r w, b: w, c: r, d: — ; owner o holds back-references to b and d -/
def pvIx : Indexes :=
  { valuesOf := fun id => if id = [97] then [[114], [119]] else if id = [98] then [[119]] else if id = [99] then [[114]] else [],
    index := [([114], [[97], [99]]), ([119], [[97], [98]])],
    related := [(([111], "things"), [[98], [100]])] }

example : BucketOrdered pvRows ∧ IndexesMirror pvIx pvRows := by
  refine ⟨by unfold BucketOrdered; decide, ?_, ?_⟩
  · intro v
    by_cases h1 : v = [114]
    · subst h1; decide
    · by_cases h2 : v = [119]
      · subst h2; decide
      · have e1 : (v == [114]) = false := by simpa using h1
        have e2 : (v == [119]) = false := by simpa using h2
        have f1 : hasValue pvIx [97] v = false := by simp [hasValue, pvIx, h1, h2]
        have f2 : hasValue pvIx [98] v = false := by simp [hasValue, pvIx, h2]
        have f3 : hasValue pvIx [99] v = false := by simp [hasValue, pvIx, h1]
        have f4 : hasValue pvIx [100] v = false := by simp [hasValue, pvIx]
        have hl : pvIx.index.lookup v = none := by simp [pvIx, List.lookup, e1, e2]
        simp [hl, pvRows, List.filter, f1, f2, f3, f4]
  · intro k ids hk
    simp only [pvIx, List.lookup] at hk
    split at hk
    · cases hk; exact ⟨by unfold IdLt; decide, by decide⟩
    · cases hk

example : ((iteratorMatchingAllOf [[114], [119], [114]]).cursor pvIx pvRows true).map (·.map (·.id)) = some [[97]] := by decide
example : ((iteratorMatchingAnyOf [[119], [114], [119]]).cursor pvIx pvRows false).map (·.map (·.id)) = some [[99], [98], [97]] := by
  decide
example : ((iteratorMatchingAllOf []).cursor pvIx pvRows true) = some [] := by decide
example : ((Provider.related [111] "things").cursor pvIx pvRows false).map (·.map (·.id)) = some [[100], [98]] := by decide

/-! ### histories on one query object -/

theorem newRowComparator_id_ok {schema : Schema} (hid : HasIdSymbol schema) (asc : Bool) :
    ∃ c, newRowComparator schema [⟨"id", asc⟩] = .ok c := by
  unfold HasIdSymbol at hid
  simp [newRowComparator, resolveSort, hid]

theorem newRowComparator_nil_ok {schema : Schema} (hid : HasIdSymbol schema) :
    ∃ c, newRowComparator schema [] = .ok c := by
  unfold HasIdSymbol at hid
  simp [newRowComparator, resolveSort, hid]

/-- the model's scans read the paging of the query object only through the scanner's targets -/
theorem queryIdsC_target (st : BoltStore) (q q' : Query) (hf : q.filter = q'.filter) (hs : q.sort = q'.sort)
    (ht : targetOf q.paging = targetOf q'.paging) :
    queryIdsC expectedPaging st q = queryIdsC expectedPaging st q' := by
  rcases q with ⟨f, s, p⟩
  rcases q' with ⟨f', s', p'⟩
  simp only at hf hs ht
  subst hf hs
  simp only [queryIdsC, scanCursor, idxScan, sortScan, setPaging_target, ht]

theorem iterateIds_target (st : BoltStore) (q q' : Query) (hf : q.filter = q'.filter)
    (ht : targetOf q.paging = targetOf q'.paging) :
    iterateIds expectedPaging st q = iterateIds expectedPaging st q' := by
  rcases q with ⟨f, s, p⟩
  rcases q' with ⟨f', s', p'⟩
  simp only at hf ht
  subst hf
  simp only [iterateIds, iterate, openPaged, setPaging_target, ht]

theorem requested_eq_matching (st : BoltStore) (rows : List Row) (q : Query) :
    matching (st.env q.filter) rows = requested st rows q := by
  simp only [matching, requested, BoltStore.env, bolt_eval_sat]
  congr 1

/-- **query_ids_total**: `QueryIdsC` answers what the specification demands for EVERY sort list — refused
    ones (error of the comparator) and `id`-first ones included -/
theorem query_ids_total (st : BoltStore) (rows : List Row) (q : Query)
    (hb : st.bucket = some rows) (hord : BucketOrdered rows) (hid : HasIdSymbol st.schema)
    (hq : q.paging.InRange) (hlen : (rows.length : Int) ≤ maxI64) :
    queryIdsC Generated.boltzPaging st q = specAnswer st rows q := by
  unfold specAnswer requested
  cases hsort : q.sort with
  | nil =>
    obtain ⟨c, hc⟩ := newRowComparator_nil_ok hid
    simp only [effSort, hc]
    exact query_ids_exact st rows q c hb hord hid (by rw [hsort]; exact hc) hq hlen
  | cons f rest =>
    by_cases hname : f.name = "id"
    · obtain ⟨c, hc⟩ := newRowComparator_id_ok hid f.asc
      have hf : f = ⟨"id", f.asc⟩ := by cases f; simp only at hname; subst hname; rfl
      simp only [effSort, hname, if_true]
      rw [hf] at hsort ⊢
      simp only [hc]
      exact id_first_exact st rows q f.asc rest c hsort hb hord hid hc hq hlen
    · simp only [effSort, hname, if_false]
      have hs : newScanner q.sort = .sorting := by
        rw [hsort]
        have hhead : (if (f :: rest).length > sortMax then (f :: rest).take sortMax else f :: rest) =
            f :: (if (f :: rest).length > sortMax then rest.take (sortMax - 1) else rest) := by
          split <;> simp [sortMax]
        simp only [newScanner, hhead, hname, if_false]
      cases hc : newRowComparator st.schema (f :: rest) with
      | error e =>
        exact (sorting_scan_error_exact st rows q e hb hs (by rw [hsort]; exact hc)).1
      | ok c =>
        exact query_ids_exact st rows q c hb hord hid (by rw [hsort]; exact hc) hq hlen

theorem iterate_ids_total (st : BoltStore) (rows : List Row) (q : Query)
    (hb : st.bucket = some rows) (hord : BucketOrdered rows) (hid : HasIdSymbol st.schema)
    (hq : q.paging.InRange) (hlen : (rows.length : Int) ≤ maxI64) :
    iterateIds Generated.boltzPaging st q = specIter st rows q := by
  obtain ⟨c, hc⟩ := newRowComparator_nil_ok hid
  simp only [specIter, hc, ← requested_eq_matching]
  exact cursor_iter_exact st rows q c hb hord hid hc hq hlen

/-- model object and request agree: same filter, same sort clause, pagings that mean the same targets -/
structure Agrees (qm qs : Query) : Prop where
  filter : qm.filter = qs.filter
  sort : qm.sort = qs.sort
  target : targetOf qm.paging = targetOf qs.paging
  rm : qm.paging.InRange
  rs : qs.paging.InRange

theorem targetOf_writeback (p : Paging) : targetOf (setPaging expectedPaging p).1 = targetOf p := by
  rw [← setPaging_target, setPaging_idempotent, setPaging_target]

theorem inRange_writeback {p : Paging} (h : p.InRange) : (setPaging expectedPaging p).1.InRange := by
  rw [setPaging_writeback]
  rcases p with ⟨skip, limit⟩
  obtain ⟨hs, hl⟩ := h
  constructor
  · intro s hs'
    simp only [Option.some.injEq] at hs'
    subst hs'
    cases skip with
    | none => simp [InI64, minI64, maxI64]
    | some s => exact hs s rfl
  · intro l hl'
    simp only [Option.some.injEq] at hl'
    subst hl'
    cases limit with
    | none => simp [InI64, minI64, maxI64]
    | some l =>
      by_cases h : l < 0
      · simp [h, InI64, minI64, maxI64]
      · simp only [h, if_false]; exact hl l rfl

theorem agrees_writeback {qm qs : Query} (h : Agrees qm qs) : Agrees (wroteBack expectedPaging qm) qs :=
  ⟨h.filter, h.sort, by simp only [wroteBack]; rw [targetOf_writeback]; exact h.target, inRange_writeback h.rm, h.rs⟩

theorem agrees_step (st : BoltStore) (rows : List Row) (hb : st.bucket = some rows) {qm qs : Query} (h : Agrees qm qs)
    (op : QOp) (hop : op.InRange) :
    Agrees (stepOp expectedPaging st qm op).1 (applyRequest qs op) := by
  obtain ⟨hf, hs, ht, hrm, hrs⟩ := h
  cases op with
  | run => simpa only [stepOp, hb, Option.isNone_some, applyRequest, Bool.false_eq_true, if_false] using agrees_writeback ⟨hf, hs, ht, hrm, hrs⟩
  | cur => simpa only [stepOp, hb, applyRequest] using agrees_writeback ⟨hf, hs, ht, hrm, hrs⟩
  | iter => simpa only [stepOp, hb, Option.isNone_some, applyRequest, Bool.false_eq_true, if_false] using agrees_writeback ⟨hf, hs, ht, hrm, hrs⟩
  | getSort => exact ⟨hf, hs, ht, hrm, hrs⟩
  | adopt s => exact ⟨hf, rfl, ht, hrm, hrs⟩
  | setPredicate f => exact ⟨rfl, hs, ht, hrm, hrs⟩
  | setSkip v =>
    refine ⟨hf, hs, ?_, ⟨?_, hrm.2⟩, ⟨?_, hrs.2⟩⟩
    · simp only [stepOp, applyRequest, targetOf, Target.mk.injEq, true_and]
      simp only [targetOf, Target.mk.injEq] at ht
      exact ht.2
    · intro s hs'; simp only [stepOp, Option.some.injEq] at hs'; subst hs'; exact hop
    · intro s hs'; simp only [applyRequest, Option.some.injEq] at hs'; subst hs'; exact hop
  | setLimit v =>
    refine ⟨hf, hs, ?_, ⟨hrm.1, ?_⟩, ⟨hrs.1, ?_⟩⟩
    · simp only [stepOp, applyRequest, targetOf, Target.mk.injEq, and_true]
      simp only [targetOf, Target.mk.injEq] at ht
      exact ht.1
    · intro s hs'; simp only [stepOp, Option.some.injEq] at hs'; subst hs'; exact hop
    · intro s hs'; simp only [applyRequest, Option.some.injEq] at hs'; subst hs'; exact hop

theorem obs_step (st : BoltStore) (rows : List Row) (hb : st.bucket = some rows) (hord : BucketOrdered rows)
    (hid : HasIdSymbol st.schema) (hlen : (rows.length : Int) ≤ maxI64) {qm qs : Query} (h : Agrees qm qs) (op : QOp) :
    (stepOp Generated.boltzPaging st qm op).2 = specObs st qs op := by
  have hrun : queryIdsC Generated.boltzPaging st qm = specAnswer st rows qs := by
    rw [← query_ids_total st rows qs hb hord hid h.rs hlen, paging_facts_expected]
    exact queryIdsC_target st qm qs h.filter h.sort h.target
  cases op with
  | run => simp only [stepOp, specObs, hb, hrun]
  | cur =>
    simp only [stepOp, specObs, hb]
    rw [← hrun]
    simp only [queryIdsC, queryWithCursorC, hb]
  | iter =>
    simp only [stepOp, specObs, hb]
    rw [← iterate_ids_total st rows qs hb hord hid h.rs hlen, paging_facts_expected]
    exact congrArg _ (iterateIds_target st qm qs h.filter h.target)
  | getSort => simp only [stepOp, specObs, h.sort]
  | adopt s => rfl
  | setSkip v => rfl
  | setLimit v => rfl
  | setPredicate f => rfl

/-- **history_exact.**  For every sequence of calls on ONE query object — executions through `QueryIdsC`,
    `QueryWithCursorC`, `IterateIds`, reads of the sort fields, `AdoptSortFields`, `SetSkip`, `SetLimit`,
    `SetPredicate`, in any order and number — every execution answers the page (and count) of the request
    as the caller's own calls have made it by then: the sort clause adopted last, the skip / limit set last,
    the predicate set last.  Earlier executions (which write the paging defaults back into the object)
    and earlier reads leave no trace. -/
theorem history_exact (st : BoltStore) (rows : List Row) (q0 : Query) (ops : List QOp)
    (hb : st.bucket = some rows) (hord : BucketOrdered rows) (hid : HasIdSymbol st.schema)
    (hq : q0.paging.InRange) (hops : ∀ op ∈ ops, op.InRange) (hlen : (rows.length : Int) ≤ maxI64) :
    runHistory Generated.boltzPaging st q0 ops = specHistory st q0 ops := by
  suffices h : ∀ (ops : List QOp) (qm qs : Query), Agrees qm qs → (∀ op ∈ ops, op.InRange) →
      runHistory Generated.boltzPaging st qm ops = specHistory st qs ops from
    h ops q0 q0 ⟨rfl, rfl, rfl, hq, hq⟩ hops
  intro ops
  induction ops with
  | nil => intros; rfl
  | cons op ops ih =>
    intro qm qs hag hops
    simp only [runHistory, specHistory]
    rw [obs_step st rows hb hord hid hlen hag op]
    congr 1
    apply ih
    · have := agrees_step st rows hb hag op (hops op List.mem_cons_self)
      rwa [← paging_facts_expected] at this
    · exact fun o ho => hops o (List.mem_cons_of_mem _ ho)

/-- without entities bucket nothing is scanned and nothing is written back: every execution answers
    "no rows, count 0" and the object stays exactly what the caller made it -/
theorem history_exact_no_bucket (st : BoltStore) (q0 : Query) (ops : List QOp) (hb : st.bucket = none) :
    runHistory Generated.boltzPaging st q0 ops = specHistory st q0 ops := by
  induction ops generalizing q0 with
  | nil => rfl
  | cons op ops ih =>
    simp only [runHistory, specHistory]
    have h1 : (stepOp Generated.boltzPaging st q0 op).2 = specObs st q0 op := by
      cases op <;> simp [stepOp, specObs, hb, queryIdsC, iterateIds]
    have h2 : (stepOp Generated.boltzPaging st q0 op).1 = applyRequest q0 op := by
      cases op <;> simp [stepOp, applyRequest, hb]
    rw [h1, h2, ih]

/-- the seeded shape: a query sorted by `s`, executed, then adopting `id desc`, executed again -/
example : (runHistory expectedPaging exStore exQuery [.run, .adopt [⟨"id", false⟩], .run]).map
      (fun o => match o with | .answer r => answer r | _ => none) =
    [some ([[97], [99]], 3), none, some ([[98], [97]], 3)] := by decide

/-- non-vacuity of `history_exact`'s hypotheses (with `exStore`, `exQuery` above) -/
example : ∀ op ∈ [QOp.run, .adopt [⟨"id", false⟩], .setSkip 1, .setLimit (-1), .iter], op.InRange := by
  intro op h
  simp only [List.mem_cons, List.mem_nil_iff, or_false] at h
  rcases h with rfl | rfl | rfl | rfl | rfl <;> simp [QOp.InRange, InI64, minI64, maxI64]

/-- after an execution wrote the defaults back (`skip 1`, limit MaxInt64), `SetLimit(1)` and a new sort clause
    decide the next answer alone -/
example : (runHistory expectedPaging exStore exQuery [.cur, .setLimit 1, .adopt [⟨"s", false⟩], .getSort, .run]).map
      (fun o => match o with | .answer r => answer r | _ => none) =
    [some ([[97], [99]], 3), none, none, none, some ([[99]], 3)] := by decide

end StorageModel.Properties.C02

#print axioms StorageModel.Properties.C02.paging_facts_expected
#print axioms StorageModel.Properties.C02.comparator_strict_total
#print axioms StorageModel.Properties.C02.order_closed_form
#print axioms StorageModel.Properties.C02.order_lexicographic
#print axioms StorageModel.Properties.C02.ties_broken_by_id
#print axioms StorageModel.Properties.C02.nulls_first_ascending
#print axioms StorageModel.Properties.C02.count_exact_any_comparator
#print axioms StorageModel.Properties.C02.sort_characterised
#print axioms StorageModel.Properties.C02.k_smallest_stream
#print axioms StorageModel.Properties.C02.set_paging_exact
#print axioms StorageModel.Properties.C02.set_paging_idempotent
#print axioms StorageModel.Properties.C02.index_scan_exact
#print axioms StorageModel.Properties.C02.sorting_scan_exact
#print axioms StorageModel.Properties.C02.query_ids_exact
#print axioms StorageModel.Properties.C02.cursor_provider_exact
#print axioms StorageModel.Properties.C02.paging_tokens_exact
#print axioms StorageModel.Properties.C02.strategy_independent
#print axioms StorageModel.Properties.C02.count_exact
#print axioms StorageModel.Properties.C02.cursor_iter_exact
#print axioms StorageModel.Properties.C02.cursor_seek_exact
#print axioms StorageModel.Properties.C02.pinned_arithmetic_violates
#print axioms StorageModel.Properties.C02.coerced_keys
#print axioms StorageModel.Properties.C02.int_float_key_not_nan
#print axioms StorageModel.Properties.C02.float_comparator_total
#print axioms StorageModel.Properties.C02.nan_sorts_first
#print axioms StorageModel.Properties.C02.float_comparator_facts_expected
#print axioms StorageModel.Properties.C02.cursor_provider_exact_all
#print axioms StorageModel.Properties.C02.iterator_all_of_exact
#print axioms StorageModel.Properties.C02.iterator_any_of_exact
#print axioms StorageModel.Properties.C02.cursor_scanner_exact
#print axioms StorageModel.Properties.C02.sort_accepted_iff
#print axioms StorageModel.Properties.C02.sort_field_error_exact
#print axioms StorageModel.Properties.C02.dotted_sort_field_refused
#print axioms StorageModel.Properties.C02.sorting_scan_error_exact
#print axioms StorageModel.Properties.C02.id_first_exact
#print axioms StorageModel.Properties.C02.llrb_insert_is_sorted_insert
#print axioms StorageModel.Properties.C02.int_float_key_monotone
#print axioms StorageModel.Properties.C02.query_ids_total
#print axioms StorageModel.Properties.C02.iterate_ids_total
#print axioms StorageModel.Properties.C02.history_exact
#print axioms StorageModel.Properties.C02.history_exact_no_bucket
