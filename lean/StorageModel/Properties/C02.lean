import StorageModel.Query.BoltProofs
import StorageModel.Generated.PagingFacts
/-
  C02 — Sort order, skip, limit and total count are exact.

  "For every dataset and query, the returned id list equals the matching entities ordered by the
  requested sort fields (each ascending or descending, null values first when ascending, remaining
  ties broken by id ascending; default order id ascending), with the first max(skip,0) rows dropped
  and at most limit rows kept, where an absent, negative or 'none' limit means unbounded.  The
  returned count always equals the total number of matching entities regardless of skip and limit,
  and the same answer is produced whichever scan strategy or cursor-style iteration serves the
  query."

  Model: Query/Paging.lean (setPaging, uniqueIndexScanner.ScanCursor / Next / Seek,
  sortingScanner.ScanCursor with the llrb tree as a strictly sorted list, int64 counters that wrap),
  Query/Compare.lean (the symbol comparators and newRowComparator), Query/Bolt.lean (NewScanner,
  QueryIdsC, QueryWithCursorC, IterateIds, skip/limit parsing).  Spec: Query/Spec.lean (`page`,
  `total`).  The paging arithmetic is the one the `paging` extractor reads from the source on every
  run (`Generated.boltzPaging`).

  Hypotheses that appear below, all explicit:
    * `BucketOrdered rows`      the entities bucket yields ids in ascending byte order (bbolt)
    * `NoNaNKeys sort r`        no float64 sort key is NaN (Go's `<` is not an order on NaN)
    * `Paging.InRange`          skip and limit are int64 values
    * `rows.length ≤ maxI64`    fewer than 2^63 rows (the counters are int64)
-/
namespace StorageModel.Properties.C02
open StorageModel StorageModel.Query

/-- Obligation on regenerated data: `setPaging`, `maxResults` and the eviction test in
    boltz/query_scanners.go have the expected shape (negative skip clamped, overflow guarded,
    strict `>`). -/
theorem paging_facts_expected : Generated.boltzPaging = expectedPaging := by decide

/-- **comparator_strict_total.**  The comparator built for any list of sort fields (per-type
    comparison, nulls first, direction flip, trailing `id asc`) is a strict total order on any set
    of rows with distinct ids and no NaN sort key. -/
theorem comparator_strict_total {schema : Schema} {sort : List SortField} {c : Cmp Row} {rows : List Row}
    (hid : HasIdSymbol schema) (hc : newRowComparator schema sort = .ok c)
    (hnan : ∀ r ∈ rows, NoNaNKeys sort r) (hd : DistinctIds rows) :
    StrictTotalOn (fun r => r ∈ rows) c :=
  newRowComparator_strict hid hc hnan hd

/-- **the requested order, in closed form.**  The row comparator is: one symbol comparator per
    requested sort field, in the order requested and in the requested direction, then `id`
    ascending; the first comparator that does not tie decides. -/
theorem order_closed_form {schema : Schema} {sort : List SortField} {c : Cmp Row} (hid : HasIdSymbol schema)
    (hc : newRowComparator schema sort = .ok c) :
    c = chain ((sort.map fun f => symCmp (tyOf schema f.name) f.name f.asc) ++ [symCmp .string "id" true]) :=
  newRowComparator_closed hid hc

/-- lexicographic reading: `a` sorts before `b` iff some field (or finally the id) puts it first and
    all earlier fields tie -/
theorem order_lexicographic {schema : Schema} {sort : List SortField} {c : Cmp Row} (hid : HasIdSymbol schema)
    (hc : newRowComparator schema sort = .ok c) (a b : Row) :
    c a b = .lt ↔ ∃ pre d post,
      (sort.map fun f => symCmp (tyOf schema f.name) f.name f.asc) ++ [symCmp .string "id" true] = pre ++ d :: post ∧
      (∀ e ∈ pre, e a b = .eq) ∧ d a b = .lt := by
  rw [order_closed_form hid hc]; exact chain_lt_iff _ a b .lt (by decide)

/-- remaining ties are broken by id ascending (byte order) -/
theorem ties_broken_by_id {schema : Schema} {sort : List SortField} {c : Cmp Row} (hid : HasIdSymbol schema)
    (hc : newRowComparator schema sort = .ok c) (a b : Row)
    (htie : ∀ f ∈ sort, symCmp (tyOf schema f.name) f.name f.asc a b = .eq) : c a b = cmpBytes a.id b.id := by
  rw [order_closed_form hid hc, chain_all_eq _ _ _ _ (by
    intro d hd
    obtain ⟨f, hf, rfl⟩ := List.mem_map.1 hd
    exact htie f hf), symCmp_id]
  rfl

/-- the value a symbol comparator of type `ty` reads is null (nil pointer after `FieldTo*`) -/
def keyIsNull (ty : SymType) (v : Stored) : Bool :=
  match ty with
  | .bool => (fieldToBool v).isNone
  | .datetime => (fieldToDatetime v).isNone
  | .float64 => (fieldToFloat64 v).isNone
  | .int64 => (fieldToInt64 v).isNone
  | .string => (fieldToString v).isNone
  | .other => true

/-- null sort keys come first when ascending and last when descending -/
theorem nulls_first_ascending (ty : SymType) (name : String) (a b : Row)
    (ha : keyIsNull ty (evalSym name a) = true) (hb : keyIsNull ty (evalSym name b) = false) :
    symCmp ty name true a b = .lt ∧ symCmp ty name false a b = .gt := by
  have key : ∀ {κ : Type} (base : κ → κ → Ordering) (y : Option κ), y.isNone = false →
      nullsFirst base none y = .lt ∧ (nullsFirst base none y).swap = .gt := by
    intro κ base y hy
    cases y with
    | none => cases hy
    | some v => exact ⟨rfl, rfl⟩
  cases ty <;> simp only [keyIsNull, Option.isNone_iff_eq_none] at ha hb
  case other => cases hb
  all_goals
    simp only [symCmp, dir, ha, if_true, Bool.false_eq_true, if_false]
    exact key _ _ hb

/-- a strictly sorted permutation of the matching rows is what the specification calls their
    sort: `page` does not depend on the sorting algorithm written in Query/Sorted.lean -/
theorem sort_characterised {P : Row → Prop} {c : Cmp Row} (hc : StrictTotalOn P c) {xs l : List Row}
    (hP : ∀ a ∈ xs, P a) (hnd : xs.Nodup) : (l.Perm xs ∧ Sorted c l) ↔ l = sort c xs :=
  ⟨fun h => sort_unique hc hP hnd h.1 h.2, fun h => h ▸ ⟨sort_perm c xs, sort_sorted hc hP hnd⟩⟩

/-- **k_smallest_stream** (core lemma of the bounded result tree).  Inserting every row into the
    tree and cutting it back to `k` rows after each insertion leaves exactly the first `k` rows of
    the sorted input. -/
theorem k_smallest_stream {P : Row → Prop} {c : Cmp Row} (hc : StrictTotalOn P c) (k : Nat) {xs : List Row}
    (hP : ∀ a ∈ xs, P a) (hnd : xs.Nodup) :
    xs.foldl (fun t x => (tins c x t).take k) [] = (sort c xs).take k := by
  have := bounded_fold c k [] xs
  simp only [List.take_nil] at this
  rw [this, (foldl_tins_eq_sort hc hP hnd).1]

/-- what `setPaging` leaves in the scanner and in the query object: absent skip → 0, negative skip
    clamped to 0 (scanner only), absent / negative / `none` limit → MaxInt64, and the defaults are
    written back into the query. -/
theorem set_paging_exact (q : Paging) :
    setPaging Generated.boltzPaging q =
      (⟨some (q.skip.getD 0), some (match q.limit with | none => maxI64 | some l => if l < 0 then maxI64 else l)⟩,
       ⟨max (q.skip.getD 0) 0, match q.limit with | none => maxI64 | some l => if l < 0 then maxI64 else l⟩) := by
  rw [paging_facts_expected]
  exact Prod.ext (setPaging_writeback q) (setPaging_target q)

/-- a query object that already went through a scan pages the same way when it is run again -/
theorem set_paging_idempotent (q : Paging) :
    setPaging Generated.boltzPaging (setPaging Generated.boltzPaging q).1 = setPaging Generated.boltzPaging q := by
  rw [paging_facts_expected]; exact setPaging_idempotent q

/-- **index_scan_exact.**  When `NewScanner` chooses the index scanner (no sort field, or `id`
    first, either direction), `QueryIdsC` returns the page of the matching rows under the row
    comparator of the requested sort fields, and the total number of matching rows. -/
theorem index_scan_exact (st : BoltStore) (rows : List Row) (q : Query) (fwd : Bool) (c : Cmp Row)
    (hb : st.bucket = some rows) (hord : BucketOrdered rows) (hid : HasIdSymbol st.schema)
    (hs : newScanner q.sort = .index fwd) (hc : newRowComparator st.schema q.sort = .ok c)
    (hnan : ∀ r ∈ rows, NoNaNKeys q.sort r) (hq : q.paging.InRange) (hlen : (rows.length : Int) ≤ maxI64) :
    queryIdsC Generated.boltzPaging st q =
      .ok (page c q.paging.skip q.paging.limit (matching (st.env q.filter) rows),
           total (matching (st.env q.filter) rows)) := by
  rw [paging_facts_expected]
  have hstrict := newRowComparator_strict hid hc hnan hord.distinct
  have hmlen : ∀ l : List Row, l.Perm rows → ((matching (st.env q.filter) l).length : Int) ≤ maxI64 := by
    intro l hl
    have : (matching (st.env q.filter) l).length ≤ l.length := List.length_filter_le ..
    rw [hl.length_eq] at this; omega
  simp only [queryIdsC, hb, scanCursor, hs]
  rw [idxScan_spec _ _ _ hq (hmlen _ (bucketCursor_perm rows fwd))]
  have hperm := matching_perm (st.env q.filter) (bucketCursor_perm rows fwd)
  have hsorted := index_cursor_sorted hid hs hc hord (st.env q.filter)
  have hPm : ∀ a ∈ matching (st.env q.filter) rows, a ∈ rows := fun a ha => (List.mem_filter.1 ha).1
  have hnd : (matching (st.env q.filter) rows).Nodup := hord.distinct.nodup.sublist List.filter_sublist
  have heq := sort_unique hstrict hPm hnd hperm hsorted
  rw [page_eq_target c q.paging _ (hmlen rows (.refl _)), ← heq]
  simp only [total, hperm.length_eq]

/-- **sorting_scan_exact.**  When `NewScanner` chooses the sorting scanner, `QueryIdsC` returns the
    page of the matching rows under the row comparator, and the total number of matching rows — for
    every skip and limit in int64 (negative, 0, MaxInt64, beyond the end, absent, none). -/
theorem sorting_scan_exact (st : BoltStore) (rows : List Row) (q : Query) (c : Cmp Row)
    (hb : st.bucket = some rows) (hord : BucketOrdered rows) (hid : HasIdSymbol st.schema)
    (hs : newScanner q.sort = .sorting) (hc : newRowComparator st.schema q.sort = .ok c)
    (hnan : ∀ r ∈ rows, NoNaNKeys q.sort r) (hq : q.paging.InRange) (hlen : (rows.length : Int) ≤ maxI64) :
    queryIdsC Generated.boltzPaging st q =
      .ok (page c q.paging.skip q.paging.limit (matching (st.env q.filter) rows),
           total (matching (st.env q.filter) rows)) := by
  rw [paging_facts_expected]
  have hstrict := newRowComparator_strict hid hc hnan hord.distinct
  have hmlen : ((matching (st.env q.filter) rows).length : Int) ≤ maxI64 := by
    have : (matching (st.env q.filter) rows).length ≤ rows.length := List.length_filter_le ..
    omega
  simp only [queryIdsC, hb, scanCursor, hs, hc, bucketCursor, if_true]
  rw [sortScan_spec hstrict _ _ _ hq (fun a ha => ha) hord.distinct.nodup hmlen]

/-- **query_ids_exact** (the property, for the bolt store): whatever strategy serves the query,
    the answer is the page of the matching rows in the requested order and their total number. -/
theorem query_ids_exact (st : BoltStore) (rows : List Row) (q : Query) (c : Cmp Row)
    (hb : st.bucket = some rows) (hord : BucketOrdered rows) (hid : HasIdSymbol st.schema)
    (hc : newRowComparator st.schema q.sort = .ok c)
    (hnan : ∀ r ∈ rows, NoNaNKeys q.sort r) (hq : q.paging.InRange) (hlen : (rows.length : Int) ≤ maxI64) :
    queryIdsC Generated.boltzPaging st q =
      .ok (page c q.paging.skip q.paging.limit (rows.filter fun r => !st.childSkip r && sat r q.filter),
           total (rows.filter fun r => !st.childSkip r && sat r q.filter)) := by
  have hm : matching (st.env q.filter) rows = rows.filter fun r => !st.childSkip r && sat r q.filter := by
    simp only [matching, BoltStore.env, bolt_eval_sat]
    congr 1
  rw [← hm]
  cases hs : newScanner q.sort with
  | index fwd => exact index_scan_exact st rows q fwd c hb hord hid hs hc hnan hq hlen
  | sorting => exact sorting_scan_exact st rows q c hb hord hid hs hc hnan hq hlen

/-- **cursor_provider_exact.**  `QueryWithCursorC` with a cursor provider that yields a sub-sequence
    of the bucket in key order (forward) or reverse key order — as the bucket's own `OpenCursor`,
    `IteratorMatchingAllOf` and `IteratorMatchingAnyOf` do — answers with the page and count of the
    matching rows among those the provider yields. -/
theorem cursor_provider_exact (st : BoltStore) (sub : List Row) (q : Query) (c : Cmp Row)
    (hord : BucketOrdered sub) (hid : HasIdSymbol st.schema)
    (hc : newRowComparator st.schema q.sort = .ok c)
    (hnan : ∀ r ∈ sub, NoNaNKeys q.sort r) (hq : q.paging.InRange) (hlen : (sub.length : Int) ≤ maxI64) :
    queryWithCursorC Generated.boltzPaging st q (fun fwd => some (bucketCursor sub fwd)) =
      .ok (page c q.paging.skip q.paging.limit (sub.filter fun r => !st.childSkip r && sat r q.filter),
           total (sub.filter fun r => !st.childSkip r && sat r q.filter)) :=
  query_ids_exact { st with bucket := some sub } sub q c rfl hord hid hc hnan hq hlen

/-- the listener's reading of `skip N` / `limit N` / `limit none` pages exactly as the text asks:
    `limit none` (pushed as -1) is "no limit" -/
theorem paging_tokens_exact (skip : Option NumTok) (limit : Option LimitTok) (p : Paging)
    (h : parsePaging skip limit = .ok p) (c : Cmp Row) (xs : List Row) :
    page c p.skip p.limit xs = page c (tokSkip skip) (tokLimit limit) xs := by
  cases skip with
  | none =>
    cases limit with
    | none => simp [parsePaging] at h; subst h; rfl
    | some l =>
      cases l with
      | none_ => simp [parsePaging] at h; subst h; simp [page, limitRows, tokSkip, tokLimit]
      | num n => cases n with
        | int v => simp [parsePaging] at h; subst h; rfl
        | nonInt => simp [parsePaging] at h
  | some sk =>
    cases sk with
    | nonInt => simp [parsePaging] at h
    | int s =>
      cases limit with
      | none => simp [parsePaging] at h; subst h; rfl
      | some l =>
        cases l with
        | none_ => simp [parsePaging] at h; subst h; simp [page, limitRows, tokSkip, tokLimit]
        | num n => cases n with
          | int v => simp [parsePaging] at h; subst h; rfl
          | nonInt => simp [parsePaging] at h

/-- **strategy_independent.**  On a query the index scanner can serve (no sort field or `id`
    first), the sorting scanner run with the same comparator gives the same ids and count. -/
theorem strategy_independent (st : BoltStore) (rows : List Row) (q : Query) (fwd : Bool) (c : Cmp Row)
    (hord : BucketOrdered rows) (hid : HasIdSymbol st.schema)
    (hs : newScanner q.sort = .index fwd) (hc : newRowComparator st.schema q.sort = .ok c)
    (hnan : ∀ r ∈ rows, NoNaNKeys q.sort r) (hq : q.paging.InRange) (hlen : (rows.length : Int) ≤ maxI64) :
    sortScan Generated.boltzPaging c (st.env q.filter) q.paging (some rows) =
      idxScan Generated.boltzPaging (st.env q.filter) q.paging (some (bucketCursor rows fwd)) := by
  have h1 := index_scan_exact { st with bucket := some rows } rows q fwd c rfl hord hid hs hc hnan hq hlen
  simp only [queryIdsC, scanCursor, hs] at h1
  have h1' := Except.ok.inj h1
  have hstrict := newRowComparator_strict hid hc hnan hord.distinct
  have hmlen : ((matching (st.env q.filter) rows).length : Int) ≤ maxI64 := by
    have : (matching (st.env q.filter) rows).length ≤ rows.length := List.length_filter_le ..
    omega
  rw [paging_facts_expected] at h1' ⊢
  rw [sortScan_spec hstrict _ _ _ hq (fun a ha => ha) hord.distinct.nodup hmlen]
  exact h1'.symm

/-- **count_exact.**  The count does not depend on skip and limit. -/
theorem count_exact (st : BoltStore) (rows : List Row) (q : Query) (p' : Paging) (c : Cmp Row)
    (hb : st.bucket = some rows) (hord : BucketOrdered rows) (hid : HasIdSymbol st.schema)
    (hc : newRowComparator st.schema q.sort = .ok c)
    (hnan : ∀ r ∈ rows, NoNaNKeys q.sort r) (hq : q.paging.InRange) (hq' : p'.InRange)
    (hlen : (rows.length : Int) ≤ maxI64) :
    (queryIdsC Generated.boltzPaging st q).map (·.2) =
      (queryIdsC Generated.boltzPaging st { q with paging := p' }).map (·.2) := by
  rw [query_ids_exact st rows q c hb hord hid hc hnan hq hlen,
    query_ids_exact st rows { q with paging := p' } c hb hord hid hc hnan hq' hlen]
  rfl

/-- the count of the sorting scan is the number of matching rows for *any* comparator — also when
    sort keys are NaN and the order itself is undefined -/
theorem count_exact_any_comparator (c : Cmp Row) (env : ScanEnv Row) (q : Paging) (cur : List Row)
    (hlen : ((matching env cur).length : Int) ≤ maxI64) :
    (sortScan Generated.boltzPaging c env q (some cur)).2 = total (matching env cur) := by
  simp only [sortScan]
  rw [sortLoop_count _ c env _ cur {} (by simp) (by simpa using hlen)]
  simp [total]

/-- **cursor_iter_exact.**  Draining `IterateIds(tx, query)` yields the page of the matching rows in
    id order (a filtered cursor cannot sort: the sort fields are ignored). -/
theorem cursor_iter_exact (st : BoltStore) (rows : List Row) (q : Query) (c : Cmp Row)
    (hb : st.bucket = some rows) (hord : BucketOrdered rows) (hid : HasIdSymbol st.schema)
    (hc : newRowComparator st.schema [] = .ok c) (hq : q.paging.InRange) (hlen : (rows.length : Int) ≤ maxI64) :
    iterateIds Generated.boltzPaging st q =
      page c q.paging.skip q.paging.limit (matching (st.env q.filter) rows) := by
  have h := index_scan_exact st rows { q with sort := [] } true c hb hord hid rfl hc
    (fun _ _ _ hf => nomatch hf) hq hlen
  rw [paging_facts_expected] at h ⊢
  simp only [queryIdsC, hb, scanCursor, newScanner, sortMax, List.length_nil, Nat.not_lt_zero, if_false,
    bucketCursor, if_true] at h
  have hmlen : ((matching (st.env q.filter) rows).length : Int) ≤ maxI64 := by
    have : (matching (st.env q.filter) rows).length ≤ rows.length := List.length_filter_le ..
    omega
  rw [idxScan_spec _ _ _ hq hmlen] at h
  simp only [iterateIds, hb]
  rw [iterate_spec _ _ _ hq]
  exact congrArg Prod.fst (Except.ok.inj h)

/-- `Seek(v)` on an unpaged `IterateIds` cursor (any state it can be in), then draining: the matching
    rows from the first id ≥ v on. -/
theorem cursor_seek_exact (env : ScanEnv Row) (v : Bytes) (c : PagedCursor Row)
    (ho : 0 ≤ c.offset) (hc : 0 ≤ c.collected) (hlen : c.collected + (c.all.length : Int) < maxI64) :
    drain ⟨0, maxI64⟩ env (c.all.length + 1) (c.seek ⟨0, maxI64⟩ env (fun r => cmpBytes r.id v == .lt)) =
      matching env (c.all.dropWhile (fun r => cmpBytes r.id v == .lt)) :=
  seek_spec env _ c ho hc hlen

/-! ### non-vacuity and the arithmetic the pinned tree had -/

def exSchema : Schema := [("id", ⟨.string, false⟩), ("s", ⟨.string, false⟩), ("f", ⟨.float64, false⟩)]
def exRows : List Row :=
  [⟨[97], [("s", .string [120]), ("f", .float64 0)]⟩,
   ⟨[98], [("s", .nil), ("f", .float64 4607182418800017408)]⟩,
   ⟨[99], [("s", .string [120]), ("f", .nil)]⟩]
def exStore : BoltStore := { schema := exSchema, bucket := some exRows }
def exQuery : Query := ⟨.tt, [⟨"s", true⟩], ⟨some 1, none⟩⟩
/-- ids and count of an answer (for the concrete examples) -/
def answer : Except SortErr (List Row × Int) → Option (List Bytes × Int)
  | .ok r => some (r.1.map (·.id), r.2)
  | .error _ => none

/-- the hypotheses are satisfiable by a store with ties and nulls -/
example : BucketOrdered exRows ∧ HasIdSymbol exSchema ∧ (∀ r ∈ exRows, NoNaNKeys exQuery.sort r) ∧
    exQuery.paging.InRange ∧ newScanner exQuery.sort = .sorting := by
  refine ⟨by unfold BucketOrdered; decide, by unfold HasIdSymbol; decide, ?_,
    ⟨by intro s h; cases h; unfold InI64; decide, by intro l h; cases h⟩, by decide⟩
  intro r hr f hf
  simp only [exQuery, List.mem_singleton] at hf
  subst hf
  intro bits hb
  simp only [exRows, List.mem_cons, List.mem_nil_iff, or_false] at hr
  rcases hr with rfl | rfl | rfl <;> simp [evalSym, Row.get, List.lookup] at hb

/-- `sort by s skip 1` (no limit): null first, then the tie on "x" broken by id; one row dropped -/
example : answer (queryIdsC expectedPaging exStore exQuery) = some ([[97], [99]], 3) := by decide

/-- the arithmetic before e51f293 (no overflow guard): `skip 1` without limit makes
    `targetOffset + targetLimit` wrap negative, every row is evicted -/
theorem pinned_arithmetic_violates :
    answer (queryIdsC pinnedPaging exStore exQuery) = some ([], 3) := by decide

/-- ... and a negative skip shrank the window: `skip -2 limit 2` kept nothing -/
example : answer (queryIdsC pinnedPaging exStore { exQuery with paging := ⟨some (-2), some 2⟩ }) = some ([], 3) := by decide
example : answer (queryIdsC expectedPaging exStore { exQuery with paging := ⟨some (-2), some 2⟩ }) = some ([[98], [97]], 3) := by
  decide

end StorageModel.Properties.C02

#print axioms StorageModel.Properties.C02.paging_facts_expected
#print axioms StorageModel.Properties.C02.comparator_strict_total
#print axioms StorageModel.Properties.C02.order_closed_form
#print axioms StorageModel.Properties.C02.order_lexicographic
#print axioms StorageModel.Properties.C02.ties_broken_by_id
#print axioms StorageModel.Properties.C02.nulls_first_ascending
#print axioms StorageModel.Properties.C02.count_exact_any_comparator
#print axioms StorageModel.Properties.C02.sort_characterised
#print axioms StorageModel.Properties.C02.k_smallest_stream
#print axioms StorageModel.Properties.C02.set_paging_exact
#print axioms StorageModel.Properties.C02.set_paging_idempotent
#print axioms StorageModel.Properties.C02.index_scan_exact
#print axioms StorageModel.Properties.C02.sorting_scan_exact
#print axioms StorageModel.Properties.C02.query_ids_exact
#print axioms StorageModel.Properties.C02.cursor_provider_exact
#print axioms StorageModel.Properties.C02.paging_tokens_exact
#print axioms StorageModel.Properties.C02.strategy_independent
#print axioms StorageModel.Properties.C02.count_exact
#print axioms StorageModel.Properties.C02.cursor_iter_exact
#print axioms StorageModel.Properties.C02.cursor_seek_exact
#print axioms StorageModel.Properties.C02.pinned_arithmetic_violates
