import StorageModel.C09.WfPres
import StorageModel.C09.Errors
import StorageModel.C09.Universe
import StorageModel.Generated.C09Quirks
import StorageModel.C09.NamingDriver
import StorageModel.C09.NamingIrrelevant
/-
  C09 — Integrity check: sound, complete, read-only in check mode, convergent in fix.

  "On a database whose indexes, foreign keys and links are consistent the integrity check reports
  nothing. On a database with any combination of missing, stale, dangling or one-sided index,
  back-reference or link entries it reports every inconsistency; in check-only mode it leaves the
  database unchanged; and in fix mode a single run repairs every repairable inconsistency so that
  an immediate re-check is clean and the indexes again mirror the entities, leaving only genuine
  data conflicts (duplicate unique values, null in a non-nullable field) reported as unfixable."

  `checkAll S fix` (C09/Model.lean) is the model of `BaseStore.CheckIntegrity` run over every
  store of a schema `S`, following uniqueIndex / setIndex / fkIndex / fkConstraint /
  linkCollectionImpl `.CheckIntegrity` branch by branch — the code as repaired by 6e61536 (an
  empty value in a unique index is skipped like nil), 946f949 (`IterateLinks` is a read-only
  lookup) and 0fc3c29 (dangling links are removed after the link-cursor loop) — over a state whose
  index buckets, back-reference lists and link lists are ARBITRARY.  `inconsistencies S s`
  (C09/Spec.lean) is the symmetric difference between every index / back-reference list / link
  list and the image of the entity table, computed directly.  All theorems hold for every schema
  and every state; the only hypotheses are

  * `s.WF`        what bbolt guarantees of any database: the keys of a bucket are distinct (and
                  non-empty), the elements of a list bucket are distinct;
  * `SchemaOk S`  (fix-mode theorems) constraints are declared on pairwise different locations (a
                  link collection and its inverse excepted) and the two sides of a link collection
                  differ — decided for the harness schema by `universe_schema_ok`.

  Nothing is assumed about the *content*: the empty string in a (nullable) unique index, absent
  link buckets, several stores fixed one after the other, and ANY NUMBER of corruptions aimed at
  the same index value, the same entity or the same bucket (a duplicate whose index entry is
  missing as well, a plain key sitting where a missing value bucket belongs, a stale and a missing
  back-reference of one referrer, a dangling link next to a one-sided one, an emptied store whose
  indexes still hold entries) are all covered.

  `checkAllE` (C09/ModelE.lean) is the same run WITH the `return err` exits of the code that depend
  on the state (UniqueIndexDuplicateError out of `processIntegrityFix`, a value bucket that cannot
  be created over a plain key, NotFound out of `AddLink` / the fk `getIndexBucket` / `RemoveLink`):
  an error return ends the run and rolls the caller's transaction back.  `run_never_fails` proves,
  without any hypothesis, that no such exit is reachable, so every theorem about `checkAll` is a
  theorem about the run the code performs; `fix_run_repairs` states convergence in that form.
-/
namespace StorageModel.Properties.C09
open StorageModel StorageModel.C09

/-- obligation on regenerated data (extract/c09quirks.go reads the source on every run): the three
    code sites — and the dangling-reference repair of fkIndex / fkConstraint, which clears the value at the symbol's
    path (C09-nested-fk-repair) — have the repaired shape this model follows -/
theorem code_shape_is_repaired :
    Generated.c09QuirksRecognised = true ∧ Generated.c09IterateLinksCreates = false ∧
    Generated.c09EmptyUniqueIsNil = true ∧ Generated.c09LinkRemoveDeferred = true ∧
    Generated.c09FkRepairAtPath = true := by decide

/-! ## check-only mode -/

/-- **read-only.** A check-only run returns the state it was given — entities, unique-index
    buckets, set-index buckets and every nested list are untouched — and creates no nested
    bucket (`bucketsEnsured`: the only creating calls, `AddLink` and the fk back-reference
    repair, belong to reports with `fixed = true`, which a check-only run never emits).
    For every schema and every state, link collections included. -/
theorem check_readonly (S : Schema) (s : St) :
    (checkAll S false s).1 = s ∧ bucketsEnsured S (checkAll S false s).2 = [] := by
  refine ⟨by rw [checkAll_false], ?_⟩
  apply List.eq_nil_iff_forall_not_mem.2
  intro b hb
  unfold bucketsEnsured at hb
  obtain ⟨r, hr, hb⟩ := List.mem_flatMap.1 hb
  have hfix : r.fixed = false := checkReports_unfixed S s r (by rw [checkAll_false] at hr; exact hr)
  unfold reportEnsures at hb
  simp [hfix] at hb

/-- no report of a check-only run claims a repair -/
theorem check_reports_unfixed (S : Schema) (s : St) : ∀ r ∈ (checkAll S false s).2, r.fixed = false := by
  rw [checkAll_false]; exact checkReports_unfixed S s

/-- **complete.** Every inconsistency of a (well-formed, otherwise arbitrary) state is the subject
    of a report of the check-only run. -/
theorem check_complete (S : Schema) (s : St) (hwf : s.WF) :
    ∀ d ∈ inconsistencies S s, ∃ r ∈ (checkAll S false s).2, r.about = d := by
  rw [checkAll_false]; exact checkReports_complete hwf S

/-- **sound, report by report.** Every report of a check-only run is about a real inconsistency. -/
theorem check_sound_reports (S : Schema) (s : St) (hwf : s.WF) :
    ∀ r ∈ (checkAll S false s).2, r.about ∈ inconsistencies S s := by
  rw [checkAll_false]; exact checkReports_sound hwf S

/-- **sound.** On a consistent state the check reports nothing. -/
theorem check_sound (S : Schema) (s : St) (hwf : s.WF) (hinv : Inv S s) : (checkAll S false s).2 = [] := by
  apply List.eq_nil_iff_forall_not_mem.2
  intro r hr
  have := check_sound_reports S s hwf r hr
  rw [hinv] at this
  cases this

/-- sound and complete together: the check is clean exactly on the consistent states -/
theorem check_clean_iff (S : Schema) (s : St) (hwf : s.WF) : (checkAll S false s).2 = [] ↔ Inv S s := by
  constructor
  · intro h
    apply List.eq_nil_iff_forall_not_mem.2
    intro d hd
    obtain ⟨r, hr, _⟩ := check_complete S s hwf d hd
    rw [h] at hr; cases hr
  · exact check_sound S s hwf

/-! ## fix mode

  `checkAll S true` runs every store's `CheckIntegrity(fix = true)` one after the other on the
  evolving state — i.e. several stores in ONE transaction.  Since 0fc3c29 no loop of the link
  check deletes under its own cursor, so for link buckets the model's "a cursor iterates the
  list as it was when it was opened" no longer rests on bbolt's behaviour after a delete in a
  bucket already modified by an earlier store's check. -/

/-- **convergent.** After ONE fix run over an arbitrarily corrupted state, an immediate re-check
    reports nothing but genuine data conflicts: duplicate unique value, nil (or empty) in a
    non-nullable field, dangling reference in a non-nullable foreign key. -/
theorem fix_converges (S : Schema) (hS : SchemaOk S) (s : St) (hwf : s.WF) :
    ∀ r ∈ (checkAll S false (checkAll S true s).1).2, Unfixable S r :=
  (checkAll_fix_converges S hS s (pre_of_wf hwf)).2

/-- **idempotent.** A second fix run changes nothing. -/
theorem fix_idempotent (S : Schema) (hS : SchemaOk S) (s : St) (hwf : s.WF) :
    (checkAll S true (checkAll S true s).1).1 = (checkAll S true s).1 :=
  checkAll_fix_idempotent S hS s (pre_of_wf hwf)

/-- on a consistent state a fix run changes nothing either -/
theorem fix_noop_on_consistent (S : Schema) (s : St) (hwf : s.WF) (hinv : Inv S s) : (checkAll S true s).1 = s := by
  have hrep : checkReports S s = [] := by
    have := check_sound S s hwf hinv
    rw [checkAll_false] at this; exact this
  rw [checkAll_units]
  apply units_idempotent
  intro u hu
  have hu' : u.rep s = [] := by
    rw [checkReports_units] at hrep
    apply List.eq_nil_iff_forall_not_mem.2
    intro r hr
    have : r ∈ S.units.flatMap (CUnit.rep s) := List.mem_flatMap.2 ⟨u, hu, hr⟩
    rw [hrep] at this; cases this
  exact u.good_of_rep_nil s hu'

/-- a fix run keeps the state well-formed, so every theorem above applies to the repaired state -/
theorem fix_preserves_wf (S : Schema) (hS : SchemaOk S) (s : St) (hwf : s.WF) : (checkAll S true s).1.WF :=
  checkAll_fix_wf S hS s hwf

/-- the kinds of discrepancy that are data conflicts rather than index damage -/
def ConflictKind (S : Schema) : Disc → Prop
  | .uqMissing .. => True
  | .null .. => True
  | .fkDangling st f _ _ => S.nonNullFk st f = true
  | .lkNoInverse .. => True
  | _ => False

/-- **the indexes mirror the entities again, modulo genuine conflicts.** After one fix run, every
    remaining difference between an index and the image of the entity table is a data conflict —
    no extra, stale, dangling, junk or empty index entry, no missing or extra back-reference, no
    dangling or one-sided link is left — and each one is reported, as unfixable, by the re-check.
    (A remaining `uqMissing v id` is reported as `uqDup`: another entity owns the value.) -/
theorem fix_mirrors (S : Schema) (hS : SchemaOk S) (s : St) (hwf : s.WF) :
    ∀ d ∈ inconsistencies S (checkAll S true s).1,
      ConflictKind S d ∧
      ∃ r ∈ (checkAll S false (checkAll S true s).1).2, r.about = d ∧ Unfixable S r := by
  intro d hd
  obtain ⟨r, hr, hab⟩ := check_complete S _ (fix_preserves_wf S hS s hwf) d hd
  have hu := fix_converges S hS s hwf r hr
  refine ⟨?_, r, hr, hab, hu⟩
  subst hab
  unfold Unfixable at hu
  unfold Report.about ConflictKind
  cases hm : r.msg <;> simp_all

/-! ## no run aborts

  An error return of `CheckIntegrity` makes the caller roll the transaction back: every repair of the
  run is lost and the reports already handed to the sink claim repairs that did not happen.  The
  failure exits are therefore part of the model (`checkAllE`), and unreachable. -/

/-- **a run never aborts.** For every schema, both modes and every state (no hypothesis: any
    combination of corruptions, on shared targets or not) the run with the code's failure exits
    completes, with the state and the reports of `checkAll`. -/
theorem run_never_fails (S : Schema) (fix : Bool) (s : St) :
    checkAllE S fix s = .ok (checkAll S fix s).1 (checkAll S fix s).2 := checkAllE_ok S fix s

/-- the same for one store's `BaseStore.CheckIntegrity` in a transaction of its own -/
theorem store_run_never_fails (S : Schema) (fix : Bool) (sd : StoreDef) (s : St) :
    sd.checkE S fix s = .ok (sd.check S fix s).1 (sd.check S fix s).2 := storeE_ok S fix sd s

/-- **a single fix run repairs everything repairable**, stated about the run with failure exits: it
    completes (nothing is rolled back), the committed state is well-formed, an immediate re-check
    reports only genuine conflicts, and every remaining discrepancy is of a conflict kind. -/
theorem fix_run_repairs (S : Schema) (hS : SchemaOk S) (s : St) (hwf : s.WF) :
    ∃ s' rs, checkAllE S true s = .ok s' rs ∧ (checkAllE S true s).commit s = s' ∧ s'.WF ∧
      (∀ r ∈ (checkAll S false s').2, Unfixable S r) ∧ (∀ d ∈ inconsistencies S s', ConflictKind S d) := by
  refine ⟨(checkAll S true s).1, (checkAll S true s).2, run_never_fails S true s, ?_, fix_preserves_wf S hS s hwf,
    fix_converges S hS s hwf, fun d hd => (fix_mirrors S hS s hwf d hd).1⟩
  rw [run_never_fails]; rfl

/-! ## the schema of the correspondence harness -/

theorem universe_schema_ok : SchemaOk uniSchema := by decide

/-! ## non-vacuity: a non-trivial consistent state satisfying every hypothesis -/

def a1 : Bytes := [97, 49]
def a2 : Bytes := [97, 50]
def b1 : Bytes := [98, 49]
def b2 : Bytes := [98, 50]
def n1 : Bytes := [110, 49]
def n2 : Bytes := [110, 50]
def x1 : Bytes := [120, 49]
def l1 : Bytes := [108, 49]
def r1 : Bytes := [114, 49]
def r2 : Bytes := [114, 50]

/-- two things, two owners, every kind of index populated -/
def good : StD :=
  { ents :=
      [ (things,
          [ ⟨a1, [("name", .str n1), ("alias", .str x1), ("owner", .str b1), ("home", .str b1), ("dep", .str b2),
                  ("req", .str b1)],
                 [("roles", [r1, r2]), ("groups", [b1]), ("minions", [a2])]⟩,
            ⟨a2, [("name", .str n2), ("owner", .str b1), ("home", .str b2), ("req", .str b2), ("boss", .str a1)],
                 [("roles", [r2])]⟩ ]),
        (owners,
          [ ⟨b1, [("label", .str l1)], [("things", [a1, a2]), ("residents", [a1]), ("members", [a1])]⟩,
            ⟨b2, [], [("residents", [a2])]⟩ ]) ]
    uniq := [ ((things, "name"), [(n1, a1), (n2, a2)]), ((things, "alias"), [(x1, a1)]), ((owners, "label"), [(l1, b1)]) ]
    setx := [ ((things, "roles"), [(r1, .ids [a1]), (r2, .ids [a1, a2])]) ] }

example : good.toSt.WF := good.wf (by decide)
example : Inv uniSchema good.toSt := by decide
example : (checkAll uniSchema false good.toSt).2 = [] := by decide

/-- a corrupted variant: a stale unique entry, a missing set-index entry, a plain junk key, a
    dangling nullable reference, a one-sided link -/
def bad : StD :=
  { good with
    ents :=
      [ (things,
          [ ⟨a1, [("name", .str n1), ("alias", .str x1), ("owner", .str [98, 57]), ("home", .str b1), ("dep", .str b2),
                  ("req", .str b1)],
                 [("roles", [r1, r2]), ("groups", [b1, b2]), ("minions", [a2])]⟩,
            ⟨a2, [("name", .str n2), ("owner", .str b1), ("home", .str b2), ("req", .str b2), ("boss", .str a1)],
                 [("roles", [r2])]⟩ ]),
        (owners,
          [ ⟨b1, [("label", .str l1)], [("things", [a1, a2]), ("residents", [a1]), ("members", [a1])]⟩,
            ⟨b2, [], [("residents", [a2])]⟩ ]) ]
    uniq := [ ((things, "name"), [(n1, a2), (n2, a2)]), ((things, "alias"), [(x1, a1)]), ((owners, "label"), [(l1, b1)]) ]
    setx := [ ((things, "roles"), [(r1, .ids [a1]), ([114, 49, 49], .junk), (r2, .ids [a1])]) ] }

example : bad.toSt.WF := bad.wf (by decide)
example : (inconsistencies uniSchema bad.toSt).length = 7 := by decide
example : (checkAll uniSchema false bad.toSt).2.map (·.msg) =
    [.lkOneSided a1 b2, .uqStale n1 a2 n2, .uqDup n1 a2 a1, .sxJunk [114, 49, 49], .sxMissing r2 a2,
     .fkBackStale b1 a1 [98, 57], .fkDangling a1 [98, 57]] := by decide
example : (checkAll uniSchema false (checkAll uniSchema true bad.toSt).1).2 = [] := by decide

/-! ## the first-round findings, now repaired: the former counterexamples as positive instances -/

/-- an entity with the EMPTY STRING in the nullable unique index `things.alias`: reachable through
    `Create` (the index accepts "" and stores no entry) -/
def emptyAlias : StD :=
  { ents :=
      [ (things, [ ⟨a1, [("name", .str n1), ("alias", .str []), ("home", .str b1), ("req", .str b1)], [("roles", [])]⟩ ]),
        (owners, [ ⟨b1, [], [("residents", [a1])]⟩ ]) ]
    uniq := [ ((things, "name"), [(n1, a1)]) ]
    setx := [] }

/-- the state is well-formed and consistent, the check reports nothing on it (before 6e61536:
    `unique index things.alias missing value  for id a1`, claimed fixed, reported again for ever),
    and a fix run leaves it alone -/
theorem empty_alias_clean :
    emptyAlias.toSt.WF ∧ Inv uniSchema emptyAlias.toSt ∧ (checkAll uniSchema false emptyAlias.toSt).2 = [] ∧
    (checkAll uniSchema true emptyAlias.toSt).2 = [] :=
  ⟨emptyAlias.wf (by decide), by decide, by decide, by decide⟩

/-- the same value in a NON-nullable unique index is a conflict, reported as such and left alone -/
example : (uniqueCheck things "alias" false true emptyAlias.toSt).2 = [⟨things, "alias", .uqNull a1, false⟩] := by
  decide

/-- two dangling links next to each other and a one-sided link from the other store, both stores
    fixed one after the other (owners first): before 0fc3c29 the second dangling link survived the
    run inside one transaction; in the model — and now in the code — one run repairs everything -/
def twoDangling : StD :=
  { ents :=
      [ (things, [ ⟨a1, [("name", .str n1), ("home", .str b1), ("req", .str b1)],
                        [("roles", []), ("groups", [[98, 56], [98, 57]])]⟩ ]),
        (owners, [ ⟨b1, [], [("residents", [a1]), ("members", [a1])]⟩ ]) ]
    uniq := [ ((things, "name"), [(n1, a1)]) ]
    setx := [] }

theorem one_transaction_fix_converges :
    ((checkAll uniSchema.reverse true twoDangling.toSt).2.map (·.msg) =
      [.lkOneSided b1 a1, .lkDangling a1 [98, 56], .lkDangling a1 [98, 57]]) ∧
    (checkAll uniSchema.reverse false (checkAll uniSchema.reverse true twoDangling.toSt).1).2 = [] := by decide

/-! ## interacting corruptions: several corruptions aimed at one target, as instances -/

/-- a1 and a2 both hold the name n1 (a genuine duplicate; a2's old entry n2 is stale) AND the index
    entry for n1 is missing -/
def dupMissing : StD :=
  { ents :=
      [ (things, [ ⟨a1, [("name", .str n1), ("home", .str b1), ("req", .str b1)], [("roles", [])]⟩,
                   ⟨a2, [("name", .str n1), ("home", .str b1), ("req", .str b1)], [("roles", [])]⟩ ]),
        (owners, [ ⟨b1, [], [("residents", [a1, a2])]⟩ ]) ]
    uniq := [ ((things, "name"), [(n2, a2)]) ]
    setx := [] }

/-- one fix run re-creates the entry for the first holder, reports the second holder as an
    unfixable duplicate, and completes; the re-check shows the duplicate only.  (With the puts
    deferred to after the entity scan both holders are classified "missing" and the second put
    fails with UniqueIndexDuplicateError: see the next example.) -/
theorem dup_and_missing_entry_converges :
    dupMissing.toSt.WF ∧
    (checkAllE uniSchema true dupMissing.toSt).failed = false ∧
    (checkAll uniSchema true dupMissing.toSt).2.map (fun r => (r.msg, r.fixed)) =
      [(.uqStale n2 a2 n1, true), (.uqMissing n1 a1, true), (.uqDup n1 a1 a2, false)] ∧
    (checkAll uniSchema false (checkAll uniSchema true dupMissing.toSt).1).2.map (·.msg) = [.uqDup n1 a1 a2] :=
  ⟨dupMissing.wf (by decide), by rw [run_never_fails]; rfl, by decide, by decide⟩

/-- the failure exit of `processIntegrityFix` is live: called for the second holder in the state the
    first holder's repair produced, it returns the duplicate error -/
example :
    (match uqFixE things "name" false (uqRepair dupMissing.toSt things "name" n1 a1) a2 with
      | .error .dupValue => true
      | _ => false) = true := by decide

/-- a plain (junk) key r1 sits exactly where the value bucket of the role a1 holds is missing -/
def junkAtMissing : StD :=
  { ents :=
      [ (things, [ ⟨a1, [("name", .str n1), ("home", .str b1), ("req", .str b1)], [("roles", [r1])]⟩ ]),
        (owners, [ ⟨b1, [], [("residents", [a1])]⟩ ]) ]
    uniq := [ ((things, "name"), [(n1, a1)]) ]
    setx := [ ((things, "roles"), [(r1, .junk)]) ] }

theorem junk_at_missing_value_converges :
    junkAtMissing.toSt.WF ∧
    (checkAllE uniSchema true junkAtMissing.toSt).failed = false ∧
    (checkAll uniSchema true junkAtMissing.toSt).2.map (fun r => (r.msg, r.fixed)) =
      [(.sxJunk r1, true), (.sxMissing r1 a1, true)] ∧
    (checkAll uniSchema false (checkAll uniSchema true junkAtMissing.toSt).1).2 = [] :=
  ⟨junkAtMissing.wf (by decide), by rw [run_never_fails]; rfl, by decide, by decide⟩

/-- and the failure exit of the second pass is live: asked for the value bucket while the plain key
    is still there, it fails -/
example : (sxStep2ValE things "roles" true a1 junkAtMissing.toSt r1).failed = true := by decide

/-- the things store is EMPTY at check time while its indexes still hold entries, and an owner still
    lists a thing as referrer and as member -/
def emptiedStore : StD :=
  { ents := [ (things, []), (owners, [ ⟨b1, [], [("things", [a1]), ("residents", [a1]), ("members", [a1])]⟩ ]) ]
    uniq := [ ((things, "name"), [(n1, a1)]) ]
    setx := [ ((things, "roles"), [(r1, .ids [a1]), (r2, .junk)]) ] }

theorem emptied_store_converges :
    emptiedStore.toSt.WF ∧
    (checkAll uniSchema false emptiedStore.toSt).2.map (·.msg) =
      [.uqDangling n1 a1, .sxDangling r1 a1, .sxJunk r2, .fkBackDangling b1 a1, .fkBackDangling b1 a1,
       .lkDangling b1 a1] ∧
    (checkAllE uniSchema true emptiedStore.toSt).failed = false ∧
    (checkAll uniSchema false (checkAll uniSchema true emptiedStore.toSt).1).2 = [] :=
  ⟨emptiedStore.wf (by decide), by decide, by rw [run_never_fails]; rfl, by decide⟩

/-! ## layered stores: a parent store with plain and extended child stores

  The theorems above hold for EVERY schema — also for one whose store names are child stores: the
  model reaches the entities of a store only through `ids` / `present` / `evalT` / `setOf` of that
  store.  What has to be shown for a layered database is that the code's access paths (the shared
  entities bucket, the scan rule of the filtered cursor, the `ValidIdsCursors` wrapper of an extended
  store with its initial positioning, `GetEntityBucket` through the child's data path) expose exactly
  the flat state `p.view L` (C09/Layered.lean); `checkAllL L S fix p = checkAll S fix (p.view L)`. -/

/-- **which ids each store's CheckIntegrity scans**: a loop over `store.IterateValidIds(tx, true)` visits the
    ids of the view's table, in bucket order — root store, plain child store (parent-only ids dropped
    by the filtered cursor) and extended child store (dropped by `ValidIdsCursors`: by its initial
    positioning when the smallest id is parent-only, by `Next` afterwards), for every population -/
theorem layered_scan_is_view (L : Layering) (p : PSt) (hwf : p.WF) (st : Name) :
    p.validIds L st = (p.view L).ids st := validIds_eq_view L p hwf st

/-- the store's own presence test, `Eval` and the list cursor read the view as well -/
theorem layered_access_is_view (L : Layering) (p : PSt) (hwf : p.WF) (st : Name) (id : Id) (f : Name) :
    p.isEntityPresent L st id = (p.view L).present st id ∧ p.evalT L st id f = (p.view L).evalT st id f ∧
    p.setOf L st id f = (p.view L).setOf st id f :=
  ⟨isEntityPresent_eq_view L p hwf st id, evalT_eq_view L p hwf st id f, setOf_eq_view L p hwf st id f⟩

/-- **sound, layered.** A layered database whose indexes mirror its stores — the child stores' indexes
    mirroring the entities that HAVE child data — yields no report, for every layering and schema:
    a parent-only entity is not a member of the child store, so no "nil in a non-nullable field". -/
theorem layered_check_sound (L : Layering) (S : Schema) (p : PSt) (hwf : p.WF) (hinv : Inv S (p.view L)) :
    (checkAllL L S false p).2 = [] := check_sound S _ (view_wf L p hwf) hinv

theorem layered_check_sound_reports (L : Layering) (S : Schema) (p : PSt) (hwf : p.WF) :
    ∀ r ∈ (checkAllL L S false p).2, r.about ∈ inconsistencies S (p.view L) :=
  check_sound_reports S _ (view_wf L p hwf)

/-- **complete, layered** -/
theorem layered_check_complete (L : Layering) (S : Schema) (p : PSt) (hwf : p.WF) :
    ∀ d ∈ inconsistencies S (p.view L), ∃ r ∈ (checkAllL L S false p).2, r.about = d :=
  check_complete S _ (view_wf L p hwf)

/-- **read-only, layered**: the state the access paths expose is unchanged -/
theorem layered_check_readonly (L : Layering) (S : Schema) (p : PSt) : (checkAllL L S false p).1 = p.view L :=
  (check_readonly S _).1

/-- **convergent, layered**: one fix run completes and a re-check reports only genuine conflicts -/
theorem layered_fix_converges (L : Layering) (S : Schema) (hS : SchemaOk S) (p : PSt) (hwf : p.WF) :
    (checkAllE S true (p.view L)).failed = false ∧
    ∀ r ∈ (checkAll S false (checkAllL L S true p).1).2, Unfixable S r := by
  refine ⟨?_, fix_converges S hS _ (view_wf L p hwf)⟩
  rw [run_never_fails]; rfl

/-- things a0 (parent-only, SMALLEST id), a1 (extension data: badge n1, sponsor b1), a2 (plain-child data:
    code n2) — a healthy database -/
def layeredGood : StD :=
  { ents :=
      [ (things,
          [ ⟨[97, 48], [("name", .str [110, 48]), ("home", .str b1), ("req", .str b1)], [("roles", [])]⟩,
            ⟨a1, [("name", .str n1), ("home", .str b1), ("req", .str b1)], [("roles", [])]⟩,
            ⟨a2, [("name", .str n2), ("home", .str b1), ("req", .str b1)], [("roles", [])]⟩ ]),
        (thingsX, [ ⟨a1, [("badge", .str n1), ("sponsor", .str b1)], [("caps", [r1])]⟩ ]),
        (thingsP, [ ⟨a2, [("code", .str n2)], [("marks", [])]⟩ ]),
        (owners, [ ⟨b1, [], [("residents", [[97, 48], a1, a2])]⟩ ]) ]
    uniq := [ ((things, "name"), [([110, 48], [97, 48]), (n1, a1), (n2, a2)]), ((thingsX, "badge"), [(n1, a1)]),
              ((thingsP, "code"), [(n2, a2)]) ]
    setx := [ ((thingsX, "caps"), [(r1, .ids [a1])]) ] }

/-- the extended store's scan starts at a1 (the parent-only a0 is skipped by the initial positioning),
    the plain store's at a2; the check is clean; without the initial positioning the scan would visit
    a0 and report "nil in the non-nullable badge" on this healthy database -/
theorem layered_healthy_clean :
    (layeredGood.toPSt uniLayering).validIds uniLayering thingsX = [a1] ∧
    (layeredGood.toPSt uniLayering).validIds uniLayering thingsP = [a2] ∧
    (layeredGood.toPSt uniLayering).validIds uniLayering things = [[97, 48], a1, a2] ∧
    Inv uniSchema ((layeredGood.toPSt uniLayering).view uniLayering) ∧
    (checkAllL uniLayering uniSchema false (layeredGood.toPSt uniLayering)).2 = [] ∧
    (checkAllL uniLayering uniSchema true (layeredGood.toPSt uniLayering)).2 = [] := by decide

/-- the initial positioning is load-bearing: the wrapper returned unpositioned visits a0 -/
example :
    drain (validNext ((layeredGood.toPSt uniLayering).isEntityPresent uniLayering thingsX)) 4
      ((layeredGood.toPSt uniLayering).iterateIds uniLayering thingsX) = [[97, 48], a1] := by decide

/-- a corrupted layered database: the badge entry of a1 is missing, an entry points at the parent-only
    a0 (dangling for the child store), a2's code entry is stale — all reported, all repaired in one run -/
def layeredBad : StD :=
  { layeredGood with
    uniq := [ ((things, "name"), [([110, 48], [97, 48]), (n1, a1), (n2, a2)]), ((thingsX, "badge"), [(n2, [97, 48])]),
              ((thingsP, "code"), [(n1, a2)]) ] }

example :
    (checkAllL uniLayering uniSchema false (layeredBad.toPSt uniLayering)).2.map (·.msg) =
      [.uqDangling n2 [97, 48], .uqMissing n1 a1, .uqStale n1 a2 n2, .uqMissing n2 a2] ∧
    (checkAll uniSchema false (checkAllL uniLayering uniSchema true (layeredBad.toPSt uniLayering)).1).2 = [] := by
  decide

/-! ## the empty string is "no value"

  `GetTypeAndValue` returns a nil value both for a missing / nil field and for the one-byte encoding of the
  EMPTY STRING (`TypeString` followed by nothing), which create and update accept in every nullable field as
  "no value / no reference" (`len(newValue) > 0` is false: no index entry, no back-reference, no target
  test).  The checker's entity scans must use the same test: `key == nil` in fkIndex / fkConstraint,
  `fieldType == TypeNil || len(fieldVal) == 0` in uniqueIndex (fix 6e61536) — NOT `fieldType == TypeNil`
  alone, under which "" is looked up as the id "" and classified as a dangling reference.  In the model
  `St.evalB` is that value (`[]` for nil and for ""), `St.evalT` keeps the type; the specification
  (`scalarImage`, `nullOrEmptyIds`) treats "" like nil, so `check_sound` — for ALL consistent states —
  covers databases holding "" in indexed / referencing fields of root and child stores. -/

/-- `GetTypeAndValue` of a stored field: (`fieldType == TypeNil`, value) -/
def goTypeAndValue : FVal → Bool × Option Bytes
  | .nil => (true, none)
  | .str v => (false, if v = [] then none else some v)

/-- the code's `key == nil` / `len(value) == 0` is the model's `evalB = []` … -/
theorem key_nil_iff (s : St) (st : Name) (id : Id) (f : Name) :
    (goTypeAndValue (s.evalT st id f)).2 = none ↔ s.evalB st id f = [] := by
  unfold St.evalB
  cases s.evalT st id f with
  | nil => simp [goTypeAndValue, FVal.bytes]
  | str v => by_cases h : v = [] <;> simp [goTypeAndValue, FVal.bytes, h]

/-- … which is weaker than `fieldType == TypeNil`: the empty string has a nil key and a non-nil type -/
theorem empty_string_key_nil_type_not : (goTypeAndValue (.str [])).2 = none ∧ (goTypeAndValue (.str [])).1 = false := by
  decide

/-- **fk index: "" is no reference.** Whenever the key is nil — nil OR the empty string — the entity scan of
    `fkIndex.CheckIntegrity` leaves the state alone and reports nothing for a nullable field (the
    non-nullable report otherwise): no lookup of the id "", no dangling reference, no rewrite to nil. -/
theorem fk_index_empty_is_no_reference (st f : Name) (n : Bool) (fkSt fkF : Name) (fix : Bool) (s : St) (id : Id)
    (h : s.evalB st id f = []) :
    fkStep2 st f n fkSt fkF fix s id = (s, if n then [] else [⟨st, f, .fkNull id, false⟩]) := by
  unfold fkStep2; rw [if_pos h]

/-- the same for `fkConstraint.CheckIntegrity` -/
theorem fk_constraint_empty_is_no_reference (st f : Name) (n : Bool) (linked : Name) (fix : Bool) (s : St) (id : Id)
    (h : s.evalB st id f = []) :
    fcStep st f n linked fix s id = (s, if n then [] else [⟨st, f, .fkNull id, false⟩]) := by
  unfold fcStep; rw [if_pos h]

/-- a healthy database with the EMPTY STRING in every nullable indexed / referencing field — alias, owner
    (fk index), dep (fk constraint), boss (self fk index) of a thing, tag of its extension data, label of an
    owner — as create / update leave it: no index entry, no back-reference -/
def emptyRefs : StD :=
  { ents :=
      [ (things,
          [ ⟨a1, [("name", .str n1), ("alias", .str []), ("owner", .str []), ("home", .str b1), ("dep", .str []),
                  ("req", .str b1), ("boss", .str [])], [("roles", [])]⟩ ]),
        (thingsX, [ ⟨a1, [("badge", .str n1), ("tag", .str []), ("sponsor", .str b1)], [("caps", [])]⟩ ]),
        (owners, [ ⟨b1, [("label", .str [])], [("residents", [a1])]⟩ ]) ]
    uniq := [ ((things, "name"), [(n1, a1)]), ((thingsX, "badge"), [(n1, a1)]) ]
    setx := [] }

/-- it is consistent, the check reports nothing, a fix run reports nothing and changes nothing -/
theorem empty_string_refs_clean :
    emptyRefs.toSt.WF ∧ Inv uniSchema emptyRefs.toSt ∧ (checkAll uniSchema false emptyRefs.toSt).2 = [] ∧
    (checkAll uniSchema true emptyRefs.toSt).2 = [] ∧ (checkAll uniSchema true emptyRefs.toSt).1 = emptyRefs.toSt :=
  ⟨emptyRefs.wf (by decide), by decide, by decide, by decide,
    fix_noop_on_consistent uniSchema _ (emptyRefs.wf (by decide)) (by decide)⟩

/-- a back-reference that claims a1 although a1's owner is "" is stale — reported and removed -/
example :
    (fkIndexCheck things "owner" true owners "things" true
      ({ emptyRefs with ents :=
          [ (things, [ ⟨a1, [("name", .str n1), ("owner", .str []), ("home", .str b1), ("req", .str b1)], [("roles", [])]⟩ ]),
            (owners, [ ⟨b1, [], [("things", [a1]), ("residents", [a1])]⟩ ]) ] } : StD).toSt).2.map (fun r => (r.msg, r.fixed))
      = [(.fkBackStale b1 a1 [], true)] := by decide

/-! ## schemas with names, keys / paths and declaring stores (round 8)

  In the schemas of `C09/Model.lean` one identifier `f` names a symbol, addresses its index bucket and
  addresses its value inside the entity bucket.  The code keeps these apart: the index bucket and the report
  texts use `symbol.GetName()`, every read of a value goes through `symbol.GetStore().GetEntityBucket` and the
  symbol's PATH (`prefix ++ [key]`, `AddSymbolWithKey` / `AddFkSymbolWithKey`), the repair of a dangling
  reference clears the value where it is stored (`entityBucket.GetPath(path[:len-1]...).Put(path[len-1], nil)`, repair
  C09-nested-fk-repair; before it: `Put(path[0], nil)` and only when `len(path) == 1`), and the inverse test of a link
  collection compares names and ENTITY TYPES.  `checkAllN G L fix` (C09/Naming.lean) is the five procedures
  followed once more with a schema `G` that carries, per symbol, (store, name, path) and, per store, what it
  DECLARES — on symbols of its own, of its parent or of any other store; root, plain child and extended child
  stores come from the layering `L` — over the PHYSICAL database `NSt`: layered entity buckets addressed by
  path, index buckets addressed by (store, name).

  `named_run_is_flat_run` (C09/NamingSim.lean, a simulation proved loop by loop): for EVERY schema `G` with
  `G.Ok` (per store a name denotes one symbol and different symbols live at different paths; the inverse test
  by entity types agrees with the one by stores), every layering and every physical database with distinct ids per bucket, this run IS the run
  of `checkAll G.flat fix` over the flat view `nview G L n` that reads every declared symbol at its path.  So
  every theorem above holds for the family (`named_*`), with `inconsistenciesN` — the symmetric difference
  computed with values read at PATHS and indexes found under NAMES — as the specification.  Two statements
  are about the physical database itself and are proved on it: a check-only run returns it unchanged
  (`named_check_readonly`), and a fix run writes entity buckets only at declared paths
  (`named_fix_writes_declared_paths`) — what sits under a key no symbol is stored at, e.g. under a symbol's
  NAME when name ≠ key, is what it was.  Symbols stored under a prefix (`len(path) > 1`) are covered like any
  other: see `nested_nullable_fk_is_repaired` and, for the code before the repair, `old_nested_nullable_fk_not_repaired`. -/

/-- **the run over names, keys / paths and declaring stores is the flat run over the view** -/
theorem named_run_is_flat_run (G : NSchema) (L : Layering) (hG : G.Ok) (fix : Bool) (n : NSt)
    (hk : n.KeysOk) :
    nview G L (checkAllN G L fix n).1 = (checkAll G.flat fix (nview G L n)).1 ∧
    (checkAllN G L fix n).2 = (checkAll G.flat fix (nview G L n)).2 :=
  (sim_checkAll hG fix n hk).2

/-- the same for any selection / order of the schema's stores (one store in a transaction of its own, the
    reverse order inside one transaction) -/
theorem named_stores_run_is_flat_run (G : NSchema) (L : Layering) (hG : G.Ok) (fix : Bool)
    (sds : List NStoreDef) (hs : ∀ sd ∈ sds, sd ∈ G.stores) (n : NSt) (hk : n.KeysOk) :
    nview G L (checkStoresN G L fix sds n).1 =
      (seqAll ((sds.map NStoreDef.flat).map (StoreDef.check G.flat fix)) (nview G L n)).1 ∧
    (checkStoresN G L fix sds n).2 =
      (seqAll ((sds.map NStoreDef.flat).map (StoreDef.check G.flat fix)) (nview G L n)).2 :=
  (sim_stores hG fix sds hs n hk).2

/-- **read-only, physically.** A check-only run returns the physical database it was given — every key of
    every bucket, also those no symbol of the schema names.  Every schema, every layering, every database;
    no hypothesis. -/
theorem named_check_readonly (G : NSchema) (L : Layering) (n : NSt) : (checkAllN G L false n).1 = n :=
  checkAllN_false G L n

theorem named_check_reports_unfixed (G : NSchema) (L : Layering) (hG : G.Ok) (n : NSt) (hk : n.KeysOk) :
    ∀ r ∈ (checkAllN G L false n).2, r.fixed = false := by
  rw [(named_run_is_flat_run G L hG false n hk).2]
  exact check_reports_unfixed _ _

/-- **complete**, for every schema of the family -/
theorem named_check_complete (G : NSchema) (L : Layering) (hG : G.Ok) (n : NSt) (hwf : n.WF) :
    ∀ d ∈ inconsistenciesN G L n, ∃ r ∈ (checkAllN G L false n).2, r.about = d := by
  rw [(named_run_is_flat_run G L hG false n hwf.keysOk).2]
  exact check_complete _ _ (nview_wf G L hwf)

/-- **sound, report by report** -/
theorem named_check_sound_reports (G : NSchema) (L : Layering) (hG : G.Ok) (n : NSt) (hwf : n.WF) :
    ∀ r ∈ (checkAllN G L false n).2, r.about ∈ inconsistenciesN G L n := by
  rw [(named_run_is_flat_run G L hG false n hwf.keysOk).2]
  exact check_sound_reports _ _ (nview_wf G L hwf)

/-- **sound**: a database whose indexes (found under the symbols' NAMES) mirror the values stored at the symbols'
    PATHS in the buckets of the symbols' STORES yields no report -/
theorem named_check_sound (G : NSchema) (L : Layering) (hG : G.Ok) (n : NSt) (hwf : n.WF)
    (hinv : InvN G L n) : (checkAllN G L false n).2 = [] := by
  rw [(named_run_is_flat_run G L hG false n hwf.keysOk).2]
  exact check_sound _ _ (nview_wf G L hwf) hinv

theorem named_check_clean_iff (G : NSchema) (L : Layering) (hG : G.Ok) (n : NSt) (hwf : n.WF) :
    (checkAllN G L false n).2 = [] ↔ InvN G L n := by
  rw [(named_run_is_flat_run G L hG false n hwf.keysOk).2]
  exact check_clean_iff _ _ (nview_wf G L hwf)

/-- **convergent**: after ONE fix run an immediate re-check reports nothing but genuine data conflicts -/
theorem named_fix_converges (G : NSchema) (L : Layering) (hG : G.Ok) (hS : SchemaOk G.flat) (n : NSt)
    (hwf : n.WF) : ∀ r ∈ (checkAllN G L false (checkAllN G L true n).1).2, Unfixable G.flat r := by
  have h1 := sim_checkAll (L := L) hG true n hwf.keysOk
  rw [(named_run_is_flat_run G L hG false _ h1.1).2, h1.2.1]
  exact fix_converges _ hS _ (nview_wf G L hwf)

/-- **the indexes mirror the entities again, modulo genuine conflicts** -/
theorem named_fix_mirrors (G : NSchema) (L : Layering) (hG : G.Ok) (hS : SchemaOk G.flat) (n : NSt)
    (hwf : n.WF) : ∀ d ∈ inconsistenciesN G L (checkAllN G L true n).1, ConflictKind G.flat d := by
  have h1 := sim_checkAll (L := L) hG true n hwf.keysOk
  unfold inconsistenciesN
  rw [h1.2.1]
  exact fun d hd => (fix_mirrors _ hS _ (nview_wf G L hwf) d hd).1

/-- **idempotent** on everything the schema's symbols and indexes read -/
theorem named_fix_idempotent (G : NSchema) (L : Layering) (hG : G.Ok) (hS : SchemaOk G.flat) (n : NSt)
    (hwf : n.WF) : nview G L (checkAllN G L true (checkAllN G L true n).1).1 = nview G L (checkAllN G L true n).1 := by
  have h1 := sim_checkAll (L := L) hG true n hwf.keysOk
  rw [(named_run_is_flat_run G L hG true _ h1.1).1, h1.2.1]
  exact fix_idempotent _ hS _ (nview_wf G L hwf)

/-- a fix run on a consistent database reports nothing and leaves every declared symbol and index alone -/
theorem named_fix_noop_on_consistent (G : NSchema) (L : Layering) (hG : G.Ok) (n : NSt) (hwf : n.WF)
    (hinv : InvN G L n) : nview G L (checkAllN G L true n).1 = nview G L n := by
  rw [(named_run_is_flat_run G L hG true n hwf.keysOk).1]
  exact fix_noop_on_consistent _ _ (nview_wf G L hwf) hinv

/-- **a run writes entity buckets only at the PATHS of declared symbols** (both modes; every schema and
    layering, no hypothesis on the schema): the ids of every entities bucket, the membership of the child
    stores, and every value / list under a path that is not the path of a declared symbol of the store the
    bucket belongs to are what they were.  In particular nothing is written under a symbol's NAME when the
    name is not a key. -/
theorem named_fix_writes_declared_paths (G : NSchema) (L : Layering) (fix : Bool) (n : NSt) (hk : n.KeysOk) :
    FrameN G n (checkAllN G L fix n).1 := checkAllN_frame fix n hk

/-- **a single fix run repairs everything repairable**, for every schema of the family: what the symbols and
    indexes read after the run is well-formed, an immediate re-check reports only genuine conflicts, every
    remaining discrepancy is of a conflict kind, and the rest of the physical database is untouched -/
theorem named_fix_run_repairs (G : NSchema) (L : Layering) (hG : G.Ok) (hS : SchemaOk G.flat) (n : NSt)
    (hwf : n.WF) :
    (nview G L (checkAllN G L true n).1).WF ∧
    (∀ r ∈ (checkAllN G L false (checkAllN G L true n).1).2, Unfixable G.flat r) ∧
    (∀ d ∈ inconsistenciesN G L (checkAllN G L true n).1, ConflictKind G.flat d) ∧
    FrameN G n (checkAllN G L true n).1 := by
  refine ⟨?_, named_fix_converges G L hG hS n hwf, named_fix_mirrors G L hG hS n hwf,
    named_fix_writes_declared_paths G L true n hwf.keysOk⟩
  rw [(named_run_is_flat_run G L hG true n hwf.keysOk).1]
  exact fix_preserves_wf _ hS _ (nview_wf G L hwf)

/-! ### non-vacuity: a schema with name ≠ key, name of one symbol = key of another, child-declared fks and links -/

def symName : NSym := ⟨things, "name", ["alias"]⟩        -- stored under the key that is the NAME of the next symbol
def symAlias : NSym := ⟨things, "alias", ["name"]⟩       -- … and vice versa
def symBoss : NSym := ⟨thingsX, "boss", ["bossId"]⟩      -- name ≠ key; owned and declared by the EXTENDED CHILD store
def symStaff : NSym := ⟨owners, "staff", ["staff"]⟩
def symDep : NSym := ⟨thingsP, "dep", ["sub", "depK"]⟩   -- NON-nullable fk constraint of the PLAIN CHILD, under a prefix
def symGroups : NSym := ⟨thingsP, "groups", ["groups"]⟩  -- link collection declared by the plain child
def symMembers : NSym := ⟨owners, "members", ["members"]⟩

def demoG : NSchema :=
  { stores :=
      [ { name := things, links := [], constraints := [.unique symName false, .unique symAlias true] },
        { name := thingsX, links := [], constraints := [.fkIndex symBoss true symStaff] },
        { name := thingsP, links := [⟨symGroups, symMembers⟩], constraints := [.fkCons symDep false owners] },
        { name := owners, links := [⟨symMembers, symGroups⟩], constraints := [] } ]
    etype := ND.etypeOf }

example : demoG.Ok := by decide
example : SchemaOk demoG.flat := by decide

def x9 : Bytes := [120, 57]
def b9 : Bytes := [98, 57]

/-- a1: parent-only; a2: extension data (boss b1, stored under "bossId") and plain-child data (dep b1 under
    sub/depK, linked to b1).  Besides, a2's extension bucket holds a key "boss" — the symbol's NAME, which no
    symbol is stored at. -/
def demoGood : ND.NStD :=
  { ents :=
      [ (things, [ ⟨a1, [(["alias"], .str n1), (["name"], .str x1)], []⟩,
                   ⟨a2, [(["alias"], .str n2)], []⟩ ]),
        (thingsX, [ ⟨a2, [(["bossId"], .str b1), (["boss"], .str x9)], []⟩ ]),
        (thingsP, [ ⟨a2, [(["sub", "depK"], .str b1)], [(["groups"], [b1])]⟩ ]),
        (owners, [ ⟨b1, [], [(["staff"], [a2]), (["members"], [a2])]⟩ ]) ]
    uniq := [ ((things, "name"), [(n1, a1), (n2, a2)]), ((things, "alias"), [(x1, a1)]) ]
    setx := [] }

example : InvN demoG uniLayering (demoGood.toNSt uniLayering) := by decide
example : (checkAllN demoG uniLayering false (demoGood.toNSt uniLayering)).2 = [] := by decide

/-- a2's boss now names an owner that does not exist, and the index entry of a2's name is filed under the
    symbol alias' bucket instead -/
def demoBad : ND.NStD :=
  { demoGood with
    ents :=
      [ (things, [ ⟨a1, [(["alias"], .str n1), (["name"], .str x1)], []⟩,
                   ⟨a2, [(["alias"], .str n2)], []⟩ ]),
        (thingsX, [ ⟨a2, [(["bossId"], .str b9), (["boss"], .str x9)], []⟩ ]),
        (thingsP, [ ⟨a2, [(["sub", "depK"], .str b1)], [(["groups"], [b1])]⟩ ]),
        (owners, [ ⟨b1, [], [(["staff"], [a2]), (["members"], [a2])]⟩ ]) ]
    uniq := [ ((things, "name"), [(n1, a1)]), ((things, "alias"), [(x1, a1), (n2, a2)]) ] }

/-- the reports name the symbols by NAME; the repair nulls the reference under its KEY "bossId" in the extension
    bucket, leaves the key "boss" alone, and the re-check is clean -/
example :
    (checkAllN demoG uniLayering true (demoBad.toNSt uniLayering)).2.map (fun r => (r.store, r.field, r.msg, r.fixed)) =
      [ (things, "name", .uqMissing n2 a2, true), (things, "alias", .uqStale n2 a2 [], true),
        (thingsX, "boss", .fkBackStale b1 a2 b9, true), (thingsX, "boss", .fkDangling a2 b9, true) ] ∧
    ((checkAllN demoG uniLayering true (demoBad.toNSt uniLayering)).1.entityBucket uniLayering thingsX a2).map
        (fun e => (e.fields ["bossId"], e.fields ["boss"])) = some (.nil, .str x9) ∧
    (checkAllN demoG uniLayering false (checkAllN demoG uniLayering true (demoBad.toNSt uniLayering)).1).2 = [] := by
  decide

/-- the defect class of the seeded change C09-17 — the repair addressed by the symbol's NAME: nulling the key
    "boss" leaves the reference where it is, the symbol still evaluates to the missing owner -/
example :
    ((demoBad.toNSt uniLayering).modEnt uniLayering thingsX a2 fun e => e.setField ["boss"] .nil).evalT uniLayering symBoss a2
      = .str b9 := by decide

/-! ### the names are irrelevant

  Rename every symbol by an injective `ρ` (`G.ren ρ`: stores, paths, nullability, declaring stores untouched)
  and file every index bucket under the new name (`RenRel ρ n n'`: the same entities buckets,
  `n'.uniq st (ρ f) = n.uniq st f`, likewise the set indexes).  Both runs then make the same decisions: the
  reports are the same up to the label, the entities buckets are EQUAL afterwards (the same keys were read and
  written), and the index buckets are equal under the new names.  The names enter the checker only through
  `getIndexPath` and the report texts; everything else is addressed by store and path
  (C09/NamingIrrelevant.lean, a second simulation, loop by loop).  No hypothesis on the schema or the database. -/
theorem naming_irrelevant (ρ : Name → Name) (hρ : Function.Injective ρ) (G : NSchema) (L : Layering) (fix : Bool)
    (n n' : NSt) (h : RenRel ρ n n') :
    RenRel ρ (checkAllN G L fix n).1 (checkAllN (G.ren ρ) L fix n').1 ∧
    (checkAllN (G.ren ρ) L fix n').2 = (checkAllN G L fix n).2.map (Report.ren ρ) :=
  simr_checkAll hρ G fix n n' h

/-- rename the symbol `boss` to `chief` (and back): an injective renaming -/
def swapBoss (s : Name) : Name := if s = "boss" then "chief" else if s = "chief" then "boss" else s

theorem swapBoss_invol (s : Name) : swapBoss (swapBoss s) = s := by
  unfold swapBoss
  by_cases h1 : s = "boss"
  · subst h1; decide
  · by_cases h2 : s = "chief"
    · subst h2; decide
    · simp [h1, h2]

example : Function.Injective swapBoss := by
  intro a b h
  have := congrArg swapBoss h
  rwa [swapBoss_invol, swapBoss_invol] at this

/-- on the corrupted database above: the renamed schema reports the same four findings, the fk ones under the
    label `chief`, and leaves the same extension bucket -/
example :
    (checkAllN (demoG.ren swapBoss) uniLayering true (demoBad.toNSt uniLayering)).2.map (fun r => (r.store, r.field, r.msg, r.fixed)) =
      [ (things, "name", .uqMissing n2 a2, true), (things, "alias", .uqStale n2 a2 [], true),
        (thingsX, "chief", .fkBackStale b1 a2 b9, true), (thingsX, "chief", .fkDangling a2 b9, true) ] ∧
    ((checkAllN (demoG.ren swapBoss) uniLayering true (demoBad.toNSt uniLayering)).1.entityBucket uniLayering thingsX a2).map
        (fun e => (e.fields ["bossId"], e.fields ["boss"])) = some (.nil, .str x9) := by decide

/-! ### the finding of round 8, repaired: a dangling reference in a NULLABLE foreign key stored under a prefix

  Until the repair C09-nested-fk-repair the code had `tryFix := index.nullable && fix && len(index.symbol.GetPath()) == 1`
  and `entityBucket.Put([]byte(index.symbol.GetPath()[0]), nil)`: for a symbol declared with a prefix
  (`AddFkSymbolWithKey(name, key, store, "sub")`, path `["sub", key]`) the repair was not attempted, every run reported
  the reference `fixed = false` and the re-check was never clean, although nothing conflicts.  Now the value is cleared
  where it is stored (`fkDanglingStepN`); the extractor `c09quirks` records which variant the source has
  (`Generated.c09FkRepairAtPath`, obligation `code_shape_is_repaired`), and the `named_*` theorems above need no
  condition on the paths any more. -/

def symBossNested : NSym := ⟨thingsX, "boss", ["sub", "bossId"]⟩

def nestedG : NSchema :=
  { stores :=
      [ { name := things, links := [], constraints := [] },
        { name := thingsX, links := [], constraints := [.fkIndex symBossNested true symStaff] },
        { name := owners, links := [], constraints := [] } ]
    etype := ND.etypeOf }

def nestedBad : ND.NStD :=
  { ents :=
      [ (things, [ ⟨a2, [], []⟩ ]),
        (thingsX, [ ⟨a2, [(["sub", "bossId"], .str b9)], []⟩ ]),
        (owners, [ ⟨b1, [], []⟩ ]) ]
    uniq := []
    setx := [] }

/-- the former counterexample as a positive instance: one fix run reports the dangling reference as fixed, clears
    the value under sub/bossId, and the re-check is clean -/
theorem nested_nullable_fk_is_repaired :
    nestedG.Ok ∧ SchemaOk nestedG.flat ∧
    (checkAllN nestedG uniLayering true (nestedBad.toNSt uniLayering)).2 = [⟨thingsX, "boss", .fkDangling a2 b9, true⟩] ∧
    ((checkAllN nestedG uniLayering true (nestedBad.toNSt uniLayering)).1.entityBucket uniLayering thingsX a2).map
        (fun e => e.fields ["sub", "bossId"]) = some .nil ∧
    (checkAllN nestedG uniLayering false (checkAllN nestedG uniLayering true (nestedBad.toNSt uniLayering)).1).2 = [] := by
  decide

/-- the code BEFORE the repair (`fkDanglingStepNOld`): on the same database the step reports the reference as NOT
    fixed and leaves it where it is — and the report is not an unfixable conflict, so the spec's convergence clause fails -/
theorem old_nested_nullable_fk_not_repaired :
    (fkDanglingStepNOld uniLayering symBossNested true true (nestedBad.toNSt uniLayering) a2 b9).2 =
      [⟨thingsX, "boss", .fkDangling a2 b9, false⟩] ∧
    (fkDanglingStepNOld uniLayering symBossNested true true (nestedBad.toNSt uniLayering) a2 b9).1.evalT uniLayering symBossNested a2
      = .str b9 ∧
    ¬ Unfixable nestedG.flat ⟨thingsX, "boss", .fkDangling a2 b9, false⟩ := by decide

end StorageModel.Properties.C09
