import StorageModel.C09.WfPres
import StorageModel.C09.Universe
/-
  C09 — Integrity check: sound, complete, read-only in check mode, convergent in fix.

  "On a database whose indexes, foreign keys and links are consistent the integrity check reports
  nothing. On a database with any combination of missing, stale, dangling or one-sided index,
  back-reference or link entries it reports every inconsistency; in check-only mode it leaves the
  database unchanged; and in fix mode a single run repairs every repairable inconsistency so that
  an immediate re-check is clean and the indexes again mirror the entities, leaving only genuine
  data conflicts (duplicate unique values, null in a non-nullable field) reported as unfixable."

  `checkAll S fix` (C09/Model.lean) is the model of `BaseStore.CheckIntegrity` run over every
  store of a schema `S`, following uniqueIndex / setIndex / fkIndex / fkConstraint /
  linkCollectionImpl `.CheckIntegrity` branch by branch, over a state whose index buckets,
  back-reference lists and link lists are ARBITRARY.  `inconsistencies S s` (C09/Spec.lean) is
  the symmetric difference between every index / back-reference list / link list and the image
  of the entity table, computed directly.  All theorems hold for every schema (subject to the
  stated static condition `SchemaOk` for the fix-mode ones) and every state.

  Hypotheses, each with a non-vacuity example below:
  * `s.WF`             what bbolt guarantees of any database: keys of a bucket are distinct and
                       non-empty;
  * `NoEmptyUnique S s` no entity holds the empty string in a unique-indexed field.  The CRUD path
                       accepts "" in a NULLABLE unique index without indexing it; the checker then
                       reports the value as missing.  `empty_alias_*` prove this on a witness: the
                       unchanged code violates the soundness and convergence clauses there
                       (known finding, fix proposal in /verif/fixes/proposed);
  * `SchemaOk S`       constraints are declared on pairwise different locations (a link collection
                       and its inverse excepted) and the two sides of a link collection differ.
-/
namespace StorageModel.Properties.C09
open StorageModel StorageModel.C09

/-! ## check-only mode -/

/-- **read-only.** A check-only run returns the state it was given: entities, unique-index
    buckets, set-index buckets and every nested list are untouched — for every schema and state. -/
theorem check_readonly (S : Schema) (s : St) : (checkAll S false s).1 = s := by
  rw [checkAll_false]

/-- the full read-only clause also covers the *existence* of nested buckets, which the state does
    not record (no decision depends on it): the buckets a run touches through `GetOrCreatePath`
    are `bucketsEnsured`.  A check-only run must find all of them already there. -/
def check_readonly_fullStatement : Prop :=
  ∀ (S : Schema) (s : St) (existing : List (Name × Id × Name)),
    (checkAll S false s).1 = s ∧ ∀ b ∈ bucketsEnsured S s (checkAll S false s).2, b ∈ existing

/-- what holds instead (the model follows `IterateLinks → getFieldBucket → GetOrCreatePath`): the
    run is read-only exactly when every entity of a store with a link collection already has its
    link bucket — `LinkBucketsPresent`.  Missing: nothing on the model side; the CODE creates
    the buckets (known finding, fix proposal in /verif/fixes/proposed). -/
theorem check_readonly_partial (S : Schema) (s : St) (existing : List (Name × Id × Name))
    (hpresent : ∀ b ∈ linkEnsures S s, b ∈ existing) :
    (checkAll S false s).1 = s ∧ ∀ b ∈ bucketsEnsured S s (checkAll S false s).2, b ∈ existing := by
  refine ⟨check_readonly S s, ?_⟩
  intro b hb
  unfold bucketsEnsured at hb
  rcases List.mem_append.1 hb with hb | hb
  · exact hpresent b hb
  · -- no report of a check-only run carries `fixed = true`, so no repairing write happened
    exfalso
    obtain ⟨r, hr, hb⟩ := List.mem_flatMap.1 hb
    have hfix : r.fixed = false := checkReports_unfixed S s r (by rw [checkAll_false] at hr; exact hr)
    unfold reportEnsures at hb
    simp [hfix] at hb

/-- **complete.** Every inconsistency of a (well-formed, otherwise arbitrary) state is the subject
    of a report of the check-only run. -/
theorem check_complete (S : Schema) (s : St) (hwf : s.WF) :
    ∀ d ∈ inconsistencies S s, ∃ r ∈ (checkAll S false s).2, r.about = d := by
  rw [checkAll_false]; exact checkReports_complete hwf S

/-- **sound, report by report.** Every report of a check-only run is about a real inconsistency. -/
theorem check_sound_reports (S : Schema) (s : St) (hwf : s.WF) (hne : NoEmptyUnique S s) :
    ∀ r ∈ (checkAll S false s).2, r.about ∈ inconsistencies S s := by
  rw [checkAll_false]; exact checkReports_sound hwf S hne

/-- **sound.** On a consistent state the check reports nothing. -/
theorem check_sound (S : Schema) (s : St) (hwf : s.WF) (hne : NoEmptyUnique S s) (hinv : Inv S s) :
    (checkAll S false s).2 = [] := by
  apply List.eq_nil_iff_forall_not_mem.2
  intro r hr
  have := check_sound_reports S s hwf hne r hr
  rw [hinv] at this
  cases this

/-- sound and complete together: the check is clean exactly on the consistent states -/
theorem check_clean_iff (S : Schema) (s : St) (hwf : s.WF) (hne : NoEmptyUnique S s) :
    (checkAll S false s).2 = [] ↔ Inv S s := by
  constructor
  · intro h
    apply List.eq_nil_iff_forall_not_mem.2
    intro d hd
    obtain ⟨r, hr, _⟩ := check_complete S s hwf d hd
    rw [h] at hr; cases hr
  · exact check_sound S s hwf hne

/-! ## fix mode -/

/-- **convergent.** After ONE fix run over an arbitrarily corrupted state, an immediate re-check
    reports nothing but genuine data conflicts: duplicate unique value, nil in a non-nullable
    field, dangling reference in a non-nullable foreign key. -/
theorem fix_converges (S : Schema) (hS : SchemaOk S) (s : St) (hwf : s.WF) (hne : NoEmptyUnique S s) :
    ∀ r ∈ (checkAll S false (checkAll S true s).1).2, Unfixable S r :=
  (checkAll_fix_converges S hS s (pre_of_wf hwf hne)).2

/-- **idempotent.** A second fix run changes nothing. -/
theorem fix_idempotent (S : Schema) (hS : SchemaOk S) (s : St) (hwf : s.WF) (hne : NoEmptyUnique S s) :
    (checkAll S true (checkAll S true s).1).1 = (checkAll S true s).1 :=
  checkAll_fix_idempotent S hS s (pre_of_wf hwf hne)

/-- on a consistent state a fix run changes nothing either -/
theorem fix_noop_on_consistent (S : Schema) (s : St) (hwf : s.WF) (hne : NoEmptyUnique S s) (hinv : Inv S s) :
    (checkAll S true s).1 = s := by
  have hrep : checkReports S s = [] := by
    have := check_sound S s hwf hne hinv
    rw [checkAll_false] at this; exact this
  rw [checkAll_units]
  apply units_idempotent
  intro u hu
  have hu' : u.rep s = [] := by
    rw [checkReports_units] at hrep
    apply List.eq_nil_iff_forall_not_mem.2
    intro r hr
    have : r ∈ S.units.flatMap (CUnit.rep s) := List.mem_flatMap.2 ⟨u, hu, hr⟩
    rw [hrep] at this; cases this
  exact u.good_of_rep_nil s hu'

/-- a fix run keeps the state well-formed, so every theorem above applies to the repaired state -/
theorem fix_preserves_wf (S : Schema) (hS : SchemaOk S) (s : St) (hwf : s.WF) (hne : NoEmptyUnique S s) :
    (checkAll S true s).1.WF :=
  checkAll_fix_wf S hS s hwf hne

/-- the kinds of discrepancy that are data conflicts rather than index damage -/
def ConflictKind (S : Schema) : Disc → Prop
  | .uqMissing .. => True
  | .null .. => True
  | .fkDangling st f _ _ => S.nonNullFk st f = true
  | .lkNoInverse .. => True
  | _ => False

/-- **the indexes mirror the entities again, modulo genuine conflicts.** After one fix run, every
    remaining difference between an index and the image of the entity table is a data conflict —
    no extra, stale, dangling, junk or empty index entry, no missing or extra back-reference, no
    dangling or one-sided link is left — and each one is reported, as unfixable, by the re-check.
    (A remaining `uqMissing v id` is reported as `uqDup`: another entity owns the value.) -/
theorem fix_mirrors (S : Schema) (hS : SchemaOk S) (s : St) (hwf : s.WF) (hne : NoEmptyUnique S s) :
    ∀ d ∈ inconsistencies S (checkAll S true s).1,
      ConflictKind S d ∧
      ∃ r ∈ (checkAll S false (checkAll S true s).1).2, r.about = d ∧ Unfixable S r := by
  intro d hd
  obtain ⟨r, hr, hab⟩ := check_complete S _ (fix_preserves_wf S hS s hwf hne) d hd
  have hu := fix_converges S hS s hwf hne r hr
  refine ⟨?_, r, hr, hab, hu⟩
  subst hab
  unfold Unfixable at hu
  unfold Report.about ConflictKind
  cases hm : r.msg <;> simp_all

/-! ## the schema of the correspondence harness -/

theorem universe_schema_ok : SchemaOk uniSchema := by decide

/-! ## non-vacuity: a non-trivial consistent state satisfying every hypothesis -/

def a1 : Bytes := [97, 49]
def a2 : Bytes := [97, 50]
def b1 : Bytes := [98, 49]
def b2 : Bytes := [98, 50]
def n1 : Bytes := [110, 49]
def n2 : Bytes := [110, 50]
def x1 : Bytes := [120, 49]
def l1 : Bytes := [108, 49]
def r1 : Bytes := [114, 49]
def r2 : Bytes := [114, 50]

/-- two things, two owners, every kind of index populated -/
def good : StD :=
  { ents :=
      [ (things,
          [ ⟨a1, [("name", .str n1), ("alias", .str x1), ("owner", .str b1), ("home", .str b1), ("dep", .str b2),
                  ("req", .str b1)],
                 [("roles", [r1, r2]), ("groups", [b1]), ("minions", [a2])]⟩,
            ⟨a2, [("name", .str n2), ("owner", .str b1), ("home", .str b2), ("req", .str b2), ("boss", .str a1)],
                 [("roles", [r2])]⟩ ]),
        (owners,
          [ ⟨b1, [("label", .str l1)], [("things", [a1, a2]), ("residents", [a1]), ("members", [a1])]⟩,
            ⟨b2, [], [("residents", [a2])]⟩ ]) ]
    uniq := [ ((things, "name"), [(n1, a1), (n2, a2)]), ((things, "alias"), [(x1, a1)]), ((owners, "label"), [(l1, b1)]) ]
    setx := [ ((things, "roles"), [(r1, .ids [a1]), (r2, .ids [a1, a2])]) ] }

example : good.toSt.WF := good.wf (by decide)
example : NoEmptyUnique uniSchema good.toSt := by decide
example : Inv uniSchema good.toSt := by decide
example : (checkAll uniSchema false good.toSt).2 = [] := by decide

/-- a corrupted variant: a stale unique entry, a missing set-index entry, a plain junk key, a
    dangling nullable reference, a one-sided link -/
def bad : StD :=
  { good with
    ents :=
      [ (things,
          [ ⟨a1, [("name", .str n1), ("alias", .str x1), ("owner", .str [98, 57]), ("home", .str b1), ("dep", .str b2),
                  ("req", .str b1)],
                 [("roles", [r1, r2]), ("groups", [b1, b2]), ("minions", [a2])]⟩,
            ⟨a2, [("name", .str n2), ("owner", .str b1), ("home", .str b2), ("req", .str b2), ("boss", .str a1)],
                 [("roles", [r2])]⟩ ]),
        (owners,
          [ ⟨b1, [("label", .str l1)], [("things", [a1, a2]), ("residents", [a1]), ("members", [a1])]⟩,
            ⟨b2, [], [("residents", [a2])]⟩ ]) ]
    uniq := [ ((things, "name"), [(n1, a2), (n2, a2)]), ((things, "alias"), [(x1, a1)]), ((owners, "label"), [(l1, b1)]) ]
    setx := [ ((things, "roles"), [(r1, .ids [a1]), ([114, 49, 49], .junk), (r2, .ids [a1])]) ] }

example : bad.toSt.WF := bad.wf (by decide)
example : NoEmptyUnique uniSchema bad.toSt := by decide
example : (inconsistencies uniSchema bad.toSt).length = 7 := by decide
example : (checkAll uniSchema false bad.toSt).2.map (·.msg) =
    [.lkOneSided a1 b2, .uqStale n1 a2 n2, .uqDup n1 a2 a1, .sxJunk [114, 49, 49], .sxMissing r2 a2,
     .fkBackStale b1 a1 [98, 57], .fkDangling a1 [98, 57]] := by decide
example : (checkAll uniSchema false (checkAll uniSchema true bad.toSt).1).2 = [] := by decide

/-! ## the known findings, on concrete witnesses (the model follows the code) -/

/-- an entity with the EMPTY STRING in the nullable unique index `things.alias`: reachable through
    `Create` (the index accepts "" and stores no entry) -/
def emptyAlias : StD :=
  { ents :=
      [ (things, [ ⟨a1, [("name", .str n1), ("alias", .str []), ("home", .str b1), ("req", .str b1)], [("roles", [])]⟩ ]),
        (owners, [ ⟨b1, [], [("residents", [a1])]⟩ ]) ]
    uniq := [ ((things, "name"), [(n1, a1)]) ]
    setx := [] }

/-- the state is well-formed and consistent ... -/
theorem empty_alias_consistent : emptyAlias.toSt.WF ∧ Inv uniSchema emptyAlias.toSt :=
  ⟨emptyAlias.wf (by decide), by decide⟩

/-- ... yet the check reports an inconsistency: soundness fails on the code as found (entity loop
    testing `fieldType == TypeNil` only; the extractor regenerates `quirkEmptyIsNil` from the source), -/
theorem empty_alias_unsound : quirkEmptyIsNil = false →
    (checkAll uniSchema false emptyAlias.toSt).2 = [⟨things, "alias", .uqMissing [] a1, false⟩] := by decide

/-- the fix run claims to have fixed it while writing nothing, and the re-check reports it again
    (convergence fails on the code as found) -/
theorem empty_alias_not_convergent : quirkEmptyIsNil = false →
    (checkAll uniSchema true emptyAlias.toSt).2 = [⟨things, "alias", .uqMissing [] a1, true⟩] ∧
    (checkAll uniSchema false (checkAll uniSchema true emptyAlias.toSt).1).2
      = [⟨things, "alias", .uqMissing [] a1, false⟩] := by decide

/-- with the proposed repair (empty treated like nil) the witness is reported clean -/
theorem empty_alias_clean_when_repaired : quirkEmptyIsNil = true →
    (checkAll uniSchema false emptyAlias.toSt).2 = [] := by decide

/-- a check-only run makes sure the link bucket of EVERY entity of a store with a link collection
    exists (`IterateLinks` → `GetOrCreatePath`): for the healthy state `good`, whose `a2` and `b2`
    have no link bucket, the read-only clause fails on the code as it is -/
theorem check_creates_link_buckets : quirkLinksCreate = true →
    (things, a2, "groups") ∈ bucketsEnsured uniSchema good.toSt (checkAll uniSchema false good.toSt).2 ∧
    (owners, b2, "members") ∈ bucketsEnsured uniSchema good.toSt (checkAll uniSchema false good.toSt).2 := by
  decide

/-- with the proposed repair (read-only `IterateLinks`) a check-only run touches no bucket at all -/
theorem check_readonly_when_repaired (S : Schema) (s : St) : quirkLinksCreate = false →
    (checkAll S false s).1 = s ∧ bucketsEnsured S s (checkAll S false s).2 = [] := by
  intro hq
  refine ⟨check_readonly S s, ?_⟩
  have h := (check_readonly_partial S s [] (by unfold linkEnsures; rw [hq]; intro b hb; cases hb)).2
  exact List.eq_nil_iff_forall_not_mem.2 fun b hb => by cases h b hb

/-- obligation on regenerated data: both code sites had a shape the model knows -/
theorem quirks_recognised : Generated.c09QuirksRecognised = true := by decide

end StorageModel.Properties.C09
