import StorageModel.C15.General
import StorageModel.C15.Config
/-
  C15 — Parent and child (extension) stores stay consistent.

  "For a child store layered on a parent store, an entity created through the child exists in
  both; the child store's queries and lookups return only entities that have child data (all
  parent entities for a store declared extended); updating through either store updates the
  shared fields and the parent's indexes; and deleting through either store removes both
  parts. Parent-store indexes and constraints apply identically to child entities."
  — for all histories of create/update/patch/delete issued through either store over mixed
  populations of plain-parent and child entities, for plain and extended child stores.

  The theorems are about the engine model `StorageModel.C15` (parent store A, plain child A1,
  extended child A2; `stepOp`, `run`, `findById`, `queryIds`, …), which follows boltz/store.go,
  store_crud.go, store_query.go, query_scanners.go, base.go and the index protocol of
  indexes.go, and is compared with the real stores on every run of the check.

  `Config.current` — whether `BaseStore.Create` remembers the indexed values of an already
  existing parent entity before it persists — is regenerated from the source on every run.
  `create_captures_old_parent_values` is the obligation on that datum; with it every theorem
  below holds for ALL histories (including Create through a child store over an existing
  plain-parent id).  `pinned_create_violates` shows what happened without it.
-/
namespace StorageModel.Properties.C15
open StorageModel.C15

/-- Obligation on regenerated data: `BaseStore.Create` has one of the two shapes the model
    has an interpreter for. -/
theorem config_is_known : Config.known = true := by decide

/-- Obligation on regenerated data: `BaseStore.Create` runs the parent's `ProcessBeforeUpdate`
    when the parent entity already exists (the repair of 8269ce9). -/
theorem create_captures_old_parent_values : Config.current.childCreateCapturesOld = true := by decide

/-- a state reached by any history of transactions issued through A, A1 and A2 -/
def Reached (st : St) : Prop := ∃ hist : List (List Op), st = run Config.current St.init hist

theorem admissible (hist : List (List Op)) : General.Admissible Config.current hist :=
  Or.inl create_captures_old_parent_values

theorem reached_general {st : St} (h : Reached st) : General.Reached Config.current st := by
  obtain ⟨hist, rfl⟩ := h
  exact ⟨hist, admissible hist, rfl⟩

/-- **Parent-store indexes and constraints apply identically to child entities.**  After every
    history issued through A, A1 and A2 the parent's unique index on `name` and set index on
    `roles` (and A1's own unique index) are exactly the image of the entity table — whatever
    store an entity was created, extended or updated through — and no entity has an empty name. -/
theorem parent_constraints_apply_to_child_entities (hist : List (List Op)) :
    Inv (run Config.current St.init hist) :=
  General.parent_constraints_apply_to_child_entities _ hist (admissible hist)

/-- The engine model refines the table specification on every history: same entity table,
    and every further operation gives the same result — success with the same table (and the
    invariant again), or the same error. -/
theorem model_refines_spec (hist : List (List Op)) :
    (run Config.current St.init hist).ents = specRun [] hist ∧
    ∀ op, match specOp (specRun [] hist) op with
      | .error e => stepOp Config.current (run Config.current St.init hist) op = .error e
      | .ok ents' => ∃ st', stepOp Config.current (run Config.current St.init hist) op = .ok st' ∧
          st'.ents = ents' ∧ Inv st' := by
  obtain ⟨h1, h2⟩ := General.model_refines_spec _ hist (admissible hist)
  exact ⟨h1, fun op => h2 op (Or.inl create_captures_old_parent_values)⟩

/-- The specification's indexes (`derive`: the image of the table, what the spec side of the
    check prints) answer every index read exactly like the engine model's incrementally
    maintained ones, after every history. -/
theorem derived_indexes_agree (hist : List (List Op)) :
    let st := run Config.current St.init hist
    let d := derive (specRun [] hist)
    d.ents = st.ents ∧ (∀ v, mget d.nameIdx v = mget st.nameIdx v) ∧
    (∀ r j, (r, j) ∈ d.rolesIdx ↔ (r, j) ∈ st.rolesIdx) ∧ (∀ c, mget d.codeIdx c = mget st.codeIdx c) :=
  General.derived_indexes_agree _ hist (admissible hist)

/-- **An entity created through the child exists in both**: after a successful `Create`
    through a child store (plain or extended; over a new id or over an existing entity that
    lacks that child's data) the entity is found through the parent store and through the child
    store with the shared fields and the child field given, both stores' queries return it, and
    the parent's indexes hold it — at any point of any history. -/
theorem create_through_child_exists_in_both (st : St) (hr : Reached st)
    (s : Sel) (hs : s = .A1 ∨ s = .A2) (id : Id) (p : Payload) (st' : St)
    (h : createM Config.current st s id p = .ok st') :
    findById st' .A id = some (p.name, canon p.roles, none) ∧
    findById st' s id = some (p.name, canon p.roles, p.child) ∧
    id ∈ queryIds st' .A .tt ∧ id ∈ queryIds st' s .tt ∧ id ∈ iterateValidIds st' s .tt ∧
    mget st'.nameIdx p.name = some id ∧ (∀ r, r ∈ p.roles → (r, id) ∈ st'.rolesIdx) :=
  General.create_through_child_exists_in_both _ st (reached_general hr) s hs id p st'
    (Or.inl create_captures_old_parent_values) h

/-- **The plain child store's queries return only entities that have child data** (and all of
    those that satisfy the filter) — for every state, every filter, unsorted and sorted scanner
    and the id iterators alike. -/
theorem child_query_only_child_rows (st : St) (f : Filter) (id : Id) :
    (id ∈ queryIds st .A1 f ↔ ∃ e, mget st.ents id = some e ∧ e.c1.isSome = true ∧ f.eval e = true) ∧
    (id ∈ querySorted st .A1 f ↔ id ∈ queryIds st .A1 f) ∧
    (id ∈ iterateValidIds st .A1 f ↔ id ∈ queryIds st .A1 f) :=
  General.child_query_only_child_rows st f id

/-- **The extended child store's queries return all parent entities**: the very same answer as
    the parent store's, in the same order; only `IterateValidIds` restricts to the entities
    that have extension data. -/
theorem extended_query_all_parent_rows (st : St) (f : Filter) :
    queryIds st .A2 f = queryIds st .A f ∧ querySorted st .A2 f = querySorted st .A f ∧
    (∀ id, id ∈ queryIds st .A2 f ↔ ∃ e, mget st.ents id = some e ∧ f.eval e = true) ∧
    (∀ id, id ∈ iterateValidIds st .A2 f ↔
      ∃ e, mget st.ents id = some e ∧ e.c2.isSome = true ∧ f.eval e = true) :=
  General.extended_query_all_parent_rows st f

/-- lookups through the plain child store find exactly the entities with child data, and
    show the parent's shared fields -/
theorem child_lookup_only_child_rows (st : St) (id : Id) :
    ((findById st .A1 id).isSome = true ↔ ∃ e, mget st.ents id = some e ∧ e.c1.isSome = true) ∧
    (∀ n r c, findById st .A1 id = some (n, r, c) → findById st .A id = some (n, r, none)) :=
  General.child_lookup_only_child_rows st id

/-- lookups through the extended child store find every parent entity (child field nil when
    there is no extension data), with the parent's shared fields -/
theorem extended_lookup_all_parent_rows (st : St) (id : Id) :
    ((findById st .A2 id).isSome = (findById st .A id).isSome) ∧
    (∀ n r c, findById st .A2 id = some (n, r, c) → findById st .A id = some (n, r, none)) ∧
    (∀ e, mget st.ents id = some e → e.c2 = none → findById st .A2 id = some (e.name, e.roles, none)) :=
  General.extended_lookup_all_parent_rows st id

/-- **Updating through the parent store or through the child store is the same operation**:
    for an entity with child data the parent store's `Update` *is* the child store's `Update`
    of the stored child entity with the caller's shared fields (same resulting state, same
    indexes, same error); and a patch through the child store that does not name the child
    field does the same as the patch through the parent store, whatever child value it carries. -/
theorem update_either_route_same_state (st : St) (id : Id) (e : Ent) (hm : mget st.ents id = some e)
    (p : Payload) (chk : Option Checker) :
    (e.hasChild .A1 = true →
      updateM st .A id p chk = updateM st .A1 id { p with child := e.childField .A1 } chk) ∧
    (e.hasChild .A1 = false → e.hasChild .A2 = true →
      updateM st .A id p chk = updateM st .A2 id { p with child := e.childField .A2 } chk) ∧
    (∀ c : Checker, chk = some c → c.child = false → e.hasChild .A1 = true →
      updateM st .A1 id p chk = updateM st .A id p chk) ∧
    (∀ c : Checker, chk = some c → c.child = false → e.hasChild .A1 = false → e.hasChild .A2 = true →
      updateM st .A2 id p chk = updateM st .A id p chk) :=
  General.update_either_route_same_state st id e hm p chk

/-- … and raises the same entity events (the parent's, then the child's), so listeners of the
    child store see an update of a child entity whichever store it was issued through; creating
    through a child raises the created event on both stores, deleting through any store raises
    the deleted event on the parent and on every child store that finds the entity -/
theorem update_either_route_same_events (st : St) (id : Id) (e : Ent) (hm : mget st.ents id = some e)
    (p p' : Payload) (chk chk' : Option Checker) :
    (e.hasChild .A1 = true → eventsOf st (.update .A id p chk) = eventsOf st (.update .A1 id p' chk')) ∧
    (e.hasChild .A1 = false → e.hasChild .A2 = true →
      eventsOf st (.update .A id p chk) = eventsOf st (.update .A2 id p' chk')) ∧
    (∀ s, s = .A1 ∨ s = .A2 → eventsOf st (.create s id p) = [⟨.A, .created, id⟩, ⟨s, .created, id⟩]) ∧
    (∀ s s', eventsOf st (.delete s id) = eventsOf st (.delete s' id)) ∧
    (∀ s, ⟨.A, .deleted, id⟩ ∈ eventsOf st (.delete s id) ∧ ⟨.A2, .deleted, id⟩ ∈ eventsOf st (.delete s id) ∧
      (e.hasChild .A1 = true → ⟨.A1, .deleted, id⟩ ∈ eventsOf st (.delete s id))) :=
  General.update_either_route_same_events st id e hm p p' chk chk'

/-- **Updating through either store updates the shared fields and the parent's indexes**: a
    successful `Update`/patch through any store leaves the entity with the shared fields the
    checker names replaced (visible through the parent store), every other entity untouched,
    and the parent's indexes again the exact image of the table (so the new name and roles are
    indexed and the old ones are not) — at any point of any history. -/
theorem update_updates_shared_fields_and_indexes (st : St) (hr : Reached st)
    (s : Sel) (id : Id) (p : Payload) (chk : Option Checker) (st' : St)
    (h : updateM st s id p chk = .ok st') :
    Inv st' ∧
    ∃ e, mget st.ents id = some e ∧
      findById st' .A id = some ((persistShared e p chk).name, (persistShared e p chk).roles, none) ∧
      mget st'.nameIdx (persistShared e p chk).name = some id ∧
      (e.name ≠ (persistShared e p chk).name → mget st'.nameIdx e.name = none) ∧
      (∀ r, (r, id) ∈ st'.rolesIdx ↔ r ∈ (persistShared e p chk).roles) ∧
      (∀ j, j ≠ id → mget st'.ents j = mget st.ents j) :=
  General.update_updates_shared_fields_and_indexes _ st (reached_general hr) s id p chk st' h

/-- **Deleting through either store removes both parts**: `DeleteById` through the plain child,
    the extended child or the parent is the same operation, and after it the entity is found
    through no store, returned by no store's queries, and has no child data left. -/
theorem delete_either_route_removes_both (st : St) (s : Sel) (id : Id) :
    deleteM st s id = deleteM st .A id ∧
    ∀ st', deleteM st s id = .ok st' →
      ∀ s', findById st' s' id = none ∧ isEntityPresent st' s' id = false ∧
        (∀ f, id ∉ queryIds st' s' f) ∧ (∀ f, id ∉ querySorted st' s' f) ∧ (∀ f, id ∉ iterateValidIds st' s' f) :=
  General.delete_either_route_removes_both st s id

/-- … and leaves no trace of the id: no index entry of the parent store or of the child store
    refers to it any more, every other entity is untouched, and the invariant still holds. -/
theorem delete_leaves_no_trace (st : St) (hr : Reached st) (s : Sel) (id : Id) (st' : St)
    (h : deleteM st s id = .ok st') :
    Inv st' ∧ mget st'.ents id = none ∧
    (∀ v, mget st'.nameIdx v ≠ some id) ∧ (∀ r, (r, id) ∉ st'.rolesIdx) ∧ (∀ c, mget st'.codeIdx c ≠ some id) ∧
    (∀ j, j ≠ id → mget st'.ents j = mget st.ents j) :=
  General.delete_leaves_no_trace _ st (reached_general hr) s id st' h

/-- which entities have child data changes only by `Create` through that child store and by
    `DeleteById` (through any store) — for every state and every successful operation -/
theorem child_data_changes_only_by_create_delete (st st' : St) (op : Op)
    (h : stepOp Config.current st op = .ok st') (s : Sel) (hs : s = .A1 ∨ s = .A2) (j : Id) :
    isEntityPresent st' s j = General.childDataAfter op s j (isEntityPresent st s j) :=
  General.child_data_changes_only_by_create_delete _ st st' op h s hs j

/-- `childDataAfter` spelled out: create through `s` of `j` sets it, delete of `j` clears it,
    everything else leaves it -/
example (s s' : Sel) (id j : Id) (p : Payload) (chk : Option Checker) (b : Bool) :
    General.childDataAfter (.create s' id p) s j b = ((s' == s && id == j) || b) ∧
    General.childDataAfter (.update s' id p chk) s j b = b ∧
    General.childDataAfter (.delete s' id) s j b = (id != j && b) := ⟨rfl, rfl, rfl⟩

/-- a `Create` through a child store with a name that another entity — plain-parent or child —
    already holds is refused as a duplicate, exactly as through the parent store; so is an
    `Update`/patch through a child store that changes the name to a taken one -/
theorem uniqueness_enforced_through_child (st : St) (hr : Reached st)
    (s : Sel) (id other : Id) (eo : Ent) (p : Payload)
    (hne : other ≠ id) (ho : mget st.ents other = some eo) (hname : eo.name = p.name) :
    (id ≠ 0 → isEntityPresent st s id = false → createM Config.current st s id p = .error .dupName) ∧
    (∀ e chk, id ≠ 0 → mget st.ents id = some e → e.hasChild s = true → proceed chk (·.name) = true →
      e.name ≠ p.name → updateM st s id p chk = .error .dupName) := by
  obtain ⟨h1, h2⟩ := General.uniqueness_enforced_through_child _ st (reached_general hr) s id other eo p hne ho hname
  exact ⟨fun a b => h1 a b (Or.inl create_captures_old_parent_values), h2⟩

/-! ### non-vacuity -/

/-- a mixed population reached through all three stores, with a child create over an existing
    plain-parent entity, updates and a delete through the "other" store -/
def sampleHist : List (List Op) :=
  [[.create .A 2 ⟨3, [1], none⟩], [.create .A1 1 ⟨1, [1, 2], some 1⟩], [.create .A2 3 ⟨2, [2], some 2⟩],
   [.update .A 1 ⟨1, [3], none⟩ none], [.update .A2 3 ⟨2, [], none⟩ (some ⟨false, true, false⟩)],
   [.create .A1 4 ⟨3, [], none⟩],      -- refused: the name is held by the plain-parent entity 2
   [.create .A1 2 ⟨4, [2, 3], some 2⟩], -- extends the plain-parent entity 2, renaming it
   [.delete .A2 1]]

example : Reached (run Config.current St.init sampleHist) := ⟨sampleHist, rfl⟩
example : queryIds (run Config.current St.init sampleHist) .A .tt = [2, 3] := by decide
example : queryIds (run Config.current St.init sampleHist) .A1 .tt = [2] := by decide
example : queryIds (run Config.current St.init (sampleHist.take 6)) .A1 .tt = [1] := by decide
example : queryIds (run Config.current St.init sampleHist) .A2 .tt = [2, 3] := by decide
example : iterateValidIds (run Config.current St.init sampleHist) .A2 .tt = [3] := by decide
example : mget (run Config.current St.init sampleHist).nameIdx 3 = none ∧
    mget (run Config.current St.init sampleHist).nameIdx 4 = some 2 := by decide
example : createM Config.current (run Config.current St.init (sampleHist.take 5)) .A1 4 ⟨3, [], none⟩
    = .error .dupName := by decide

/-! ### why the tree before 8269ce9 violated C15 -/

/-- **No old values captured on Create**: `A.Create(1, name 1, roles [1,2]); A1.Create(1, name 2,
    roles [3], code 1)` succeeded, and afterwards the parent's unique index still mapped the old
    name to the entity and the set index still listed it under the old roles: the indexes were
    not the image of the table. -/
theorem pinned_create_violates :
    let st := run ⟨false⟩ St.init [[.create .A 1 ⟨1, [1, 2], none⟩], [.create .A1 1 ⟨2, [3], some 1⟩]]
    findById st .A 1 = some (2, [3], none) ∧ mget st.nameIdx 1 = some 1 ∧ (1, 1) ∈ st.rolesIdx ∧ ¬ Inv st := by
  refine ⟨by decide, by decide, by decide, ?_⟩
  intro h
  obtain ⟨_, e, he, hk⟩ := (h.name 1 1).1 (by decide)
  have : e = ⟨2, [3], some (some 1), none⟩ := by
    have h2 : mget (run ⟨false⟩ St.init [[.create .A 1 ⟨1, [1, 2], none⟩], [.create .A1 1 ⟨2, [3], some 1⟩]]).ents 1
        = some ⟨2, [3], some (some 1), none⟩ := by decide
    rw [h2] at he; exact (Option.some.inj he).symm
  subst this
  exact absurd hk (by decide)

/-- … and with an unchanged name the create was refused as a duplicate of the entity itself,
    where the specification (and the repaired code) accepts it -/
example : createM ⟨false⟩ (run ⟨false⟩ St.init [[.create .A 1 ⟨1, [], none⟩]]) .A2 1 ⟨1, [], none⟩
    = .error .dupName := by decide
example : (specCreate (specRun [] [[.create .A 1 ⟨1, [], none⟩]]) .A2 1 ⟨1, [], none⟩).toOption.isSome = true := by
  decide
example : (createM ⟨true⟩ (run ⟨true⟩ St.init [[.create .A 1 ⟨1, [], none⟩]]) .A2 1 ⟨1, [], none⟩).toOption.isSome = true := by
  decide

/-- the same history on the repaired variant replaces the index entries -/
example :
    let st := run ⟨true⟩ St.init [[.create .A 1 ⟨1, [1, 2], none⟩], [.create .A1 1 ⟨2, [3], some 1⟩]]
    mget st.nameIdx 1 = none ∧ mget st.nameIdx 2 = some 1 ∧ st.rolesIdx = [(3, 1)] := by decide

end StorageModel.Properties.C15

#print axioms StorageModel.Properties.C15.config_is_known
#print axioms StorageModel.Properties.C15.create_captures_old_parent_values
#print axioms StorageModel.Properties.C15.parent_constraints_apply_to_child_entities
#print axioms StorageModel.Properties.C15.model_refines_spec
#print axioms StorageModel.Properties.C15.derived_indexes_agree
#print axioms StorageModel.Properties.C15.create_through_child_exists_in_both
#print axioms StorageModel.Properties.C15.child_query_only_child_rows
#print axioms StorageModel.Properties.C15.extended_query_all_parent_rows
#print axioms StorageModel.Properties.C15.child_lookup_only_child_rows
#print axioms StorageModel.Properties.C15.extended_lookup_all_parent_rows
#print axioms StorageModel.Properties.C15.update_either_route_same_state
#print axioms StorageModel.Properties.C15.update_either_route_same_events
#print axioms StorageModel.Properties.C15.update_updates_shared_fields_and_indexes
#print axioms StorageModel.Properties.C15.delete_either_route_removes_both
#print axioms StorageModel.Properties.C15.delete_leaves_no_trace
#print axioms StorageModel.Properties.C15.child_data_changes_only_by_create_delete
#print axioms StorageModel.Properties.C15.uniqueness_enforced_through_child
#print axioms StorageModel.Properties.C15.pinned_create_violates
