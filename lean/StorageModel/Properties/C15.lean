import StorageModel.C15.General
import StorageModel.C15.Config
import StorageModel.C15.Cursor
import StorageModel.C15.Paging
import StorageModel.C15.Order
import StorageModel.C15.Extended
import StorageModel.C15.Layout
import StorageModel.C15.DepthProofs
/-
  C15 — Parent and child (extension) stores stay consistent.

  "For a child store layered on a parent store, an entity created through the child exists in
  both; the child store's queries and lookups return only entities that have child data (all
  parent entities for a store declared extended); updating through either store updates the
  shared fields and the parent's indexes; and deleting through either store removes both
  parts. Parent-store indexes and constraints apply identically to child entities."
  — for all histories of create/update/patch/delete issued through either store over mixed
  populations of plain-parent and child entities, for plain and extended child stores.

  The theorems are about the engine model `StorageModel.C15` (parent store A, plain child A1,
  extended child A2; `stepOpX`, `runX` — create / update / patch (with the parent entity strategy's
  validation of the shared fields) / DeleteById / DeleteWhere through each store —, `findById`,
  `queryIds`, …), which follows boltz/store.go,
  store_crud.go, store_query.go, query_scanners.go, base.go and the index protocol of
  indexes.go, and is compared with the real stores on every run of the check.

  `Config.current` — whether `BaseStore.Create` remembers the indexed values of an already
  existing parent entity before it persists — is regenerated from the source on every run.
  `create_captures_old_parent_values` is the obligation on that datum; with it every theorem
  below holds for ALL histories (including Create through a child store over an existing
  plain-parent id).  `pinned_create_violates` shows what happened without it.
-/
namespace StorageModel.Properties.C15
open StorageModel.C15

/-- Obligation on regenerated data: `BaseStore.Create` has one of the two shapes the model
    has an interpreter for. -/
theorem config_is_known : Config.known = true := by decide

/-- Obligation on regenerated data: `BaseStore.Create` runs the parent's `ProcessBeforeUpdate`
    when the parent entity already exists (the repair of 8269ce9). -/
theorem create_captures_old_parent_values : Config.current.childCreateCapturesOld = true := by decide

/-- a state reached by any history of transactions (create, update, patch, DeleteById,
    DeleteWhere; valid and invalid shared-field values) issued through A, A1 and A2 -/
def Reached (st : St) : Prop := ∃ hist : List (List OpX), st = runX Config.current St.init hist

theorem reached_inv {st : St} (h : Reached st) : Inv st := by
  obtain ⟨hist, rfl⟩ := h
  exact (runX_refines Config.current create_captures_old_parent_values hist St.init inv_init).2

/-- the histories over create / update / DeleteById with valid values only (`run`, `stepOp` of
    Model.lean) are among them -/
theorem admissible (hist : List (List Op)) : General.Admissible Config.current hist :=
  Or.inl create_captures_old_parent_values

/-- **Parent-store indexes and constraints apply identically to child entities.**  After every
    history issued through A, A1 and A2 the parent's unique index on `name` and set index on
    `roles` (and A1's own unique index) are exactly the image of the entity table — whatever
    store an entity was created, extended or updated through — and no entity has an empty name. -/
theorem parent_constraints_apply_to_child_entities (hist : List (List OpX)) :
    Inv (runX Config.current St.init hist) :=
  (runX_refines Config.current create_captures_old_parent_values hist St.init inv_init).2

/-- The engine model refines the table specification on every history: same entity table,
    and every further operation gives the same result — success with the same table (and the
    invariant again), or the same error. -/
theorem model_refines_spec (hist : List (List OpX)) :
    (runX Config.current St.init hist).ents = specRunX [] hist ∧
    ∀ op, match specOpX (specRunX [] hist) op with
      | .error e => stepOpX Config.current (runX Config.current St.init hist) op = .error e
      | .ok ents' => ∃ st', stepOpX Config.current (runX Config.current St.init hist) op = .ok st' ∧
          st'.ents = ents' ∧ Inv st' := by
  obtain ⟨h1, h2⟩ := runX_refines Config.current create_captures_old_parent_values hist St.init inv_init
  refine ⟨h1, fun op => ?_⟩
  have := stepOpX_refines Config.current create_captures_old_parent_values _ h2 op
  rw [h1] at this
  exact this

/-- The specification's indexes (`derive`: the image of the table, what the spec side of the
    check prints) answer every index read exactly like the engine model's incrementally
    maintained ones, after every history. -/
theorem derived_indexes_agree (hist : List (List OpX)) :
    let st := runX Config.current St.init hist
    let d := derive (specRunX [] hist)
    d.ents = st.ents ∧ (∀ v, mget d.nameIdx v = mget st.nameIdx v) ∧
    (∀ r j, (r, j) ∈ d.rolesIdx ↔ (r, j) ∈ st.rolesIdx) ∧ (∀ c, mget d.codeIdx c = mget st.codeIdx c) := by
  obtain ⟨h1, h2⟩ := runX_refines Config.current create_captures_old_parent_values hist St.init inv_init
  have h1' : specRunX [] hist = (runX Config.current St.init hist).ents := h1.symm
  simp only
  rw [h1']
  refine ⟨rfl, ?_, ?_, ?_⟩
  · intro v
    rw [derive_nameIdx]
    exact umirror_agree (deriveUniq_mirror _ _ (umirror_unique h2.name)) h2.name v
  · intro r j
    rw [derive_roles_mirror _ r j, h2.roles r j]
  · intro c
    rw [derive_codeIdx]
    exact umirror_agree (deriveUniq_mirror _ _ (umirror_unique h2.code)) h2.code c

/-- **An entity created through the child exists in both**: after a successful `Create`
    through a child store (plain or extended; over a new id or over an existing entity that
    lacks that child's data) the entity is found through the parent store and through the child
    store with the shared fields and the child field given, both stores' queries return it, and
    the parent's indexes hold it — at any point of any history. -/
theorem create_through_child_exists_in_both (st : St) (hr : Reached st)
    (s : Sel) (hs : s = .A1 ∨ s = .A2) (id : Id) (p : Payload) (st' : St)
    (h : createV Config.current st s id p = .ok st') :
    findById st' .A id = some (p.name, canon p.roles, none) ∧
    findById st' s id = some (p.name, canon p.roles, p.child) ∧
    id ∈ queryIds st' .A .tt ∧ id ∈ queryIds st' s .tt ∧ id ∈ iterateValidIds st' s .tt ∧
    mget st'.nameIdx p.name = some id ∧ (∀ r, r ∈ p.roles → (r, id) ∈ st'.rolesIdx) :=
  General.create_through_child_exists_in_both _ st (reached_inv hr) s hs id p st'
    (Or.inl create_captures_old_parent_values) (createV_ok _ st s id p st' h).1

/-- **The plain child store's queries return only entities that have child data** (and all of
    those that satisfy the filter) — for every state, every filter, unsorted and sorted scanner
    and the id iterators alike. -/
theorem child_query_only_child_rows (st : St) (f : Filter) (id : Id) :
    (id ∈ queryIds st .A1 f ↔ ∃ e, mget st.ents id = some e ∧ e.c1.isSome = true ∧ f.eval e = true) ∧
    (id ∈ querySorted st .A1 f ↔ id ∈ queryIds st .A1 f) ∧
    (id ∈ iterateValidIds st .A1 f ↔ id ∈ queryIds st .A1 f) :=
  General.child_query_only_child_rows st f id

/-- **The extended child store's queries return all parent entities**: the very same answer as
    the parent store's, in the same order; only `IterateValidIds` restricts to the entities
    that have extension data. -/
theorem extended_query_all_parent_rows (st : St) (f : Filter) :
    queryIds st .A2 f = queryIds st .A f ∧ querySorted st .A2 f = querySorted st .A f ∧
    (∀ id, id ∈ queryIds st .A2 f ↔ ∃ e, mget st.ents id = some e ∧ f.eval e = true) ∧
    (∀ id, id ∈ iterateValidIds st .A2 f ↔
      ∃ e, mget st.ents id = some e ∧ e.c2.isSome = true ∧ f.eval e = true) :=
  General.extended_query_all_parent_rows st f

/-- lookups through the plain child store find exactly the entities with child data, and
    show the parent's shared fields -/
theorem child_lookup_only_child_rows (st : St) (id : Id) :
    ((findById st .A1 id).isSome = true ↔ ∃ e, mget st.ents id = some e ∧ e.c1.isSome = true) ∧
    (∀ n r c, findById st .A1 id = some (n, r, c) → findById st .A id = some (n, r, none)) :=
  General.child_lookup_only_child_rows st id

/-- lookups through the extended child store find every parent entity (child field nil when
    there is no extension data), with the parent's shared fields -/
theorem extended_lookup_all_parent_rows (st : St) (id : Id) :
    ((findById st .A2 id).isSome = (findById st .A id).isSome) ∧
    (∀ n r c, findById st .A2 id = some (n, r, c) → findById st .A id = some (n, r, none)) ∧
    (∀ e, mget st.ents id = some e → e.c2 = none → findById st .A2 id = some (e.name, e.roles, none)) :=
  General.extended_lookup_all_parent_rows st id

/-- **Updating through the parent store or through the child store is the same operation**:
    for an entity with child data the parent store's `Update` *is* the child store's `Update`
    of the stored child entity with the caller's shared fields (same resulting state, same
    indexes, same error); and a patch through the child store that does not name the child
    field does the same as the patch through the parent store, whatever child value it carries. -/
theorem update_either_route_same_state (st : St) (id : Id) (e : Ent) (hm : mget st.ents id = some e)
    (p : Payload) (chk : Option Checker) :
    (e.hasChild .A1 = true →
      updateM st .A id p chk = updateM st .A1 id { p with child := e.childField .A1 } chk) ∧
    (e.hasChild .A1 = false → e.hasChild .A2 = true →
      updateM st .A id p chk = updateM st .A2 id { p with child := e.childField .A2 } chk) ∧
    (∀ c : Checker, chk = some c → c.child = false → e.hasChild .A1 = true →
      updateM st .A1 id p chk = updateM st .A id p chk) ∧
    (∀ c : Checker, chk = some c → c.child = false → e.hasChild .A1 = false → e.hasChild .A2 = true →
      updateM st .A2 id p chk = updateM st .A id p chk) :=
  General.update_either_route_same_state st id e hm p chk

/-- … and raises the same entity events (the parent's, then the child's), so listeners of the
    child store see an update of a child entity whichever store it was issued through; creating
    through a child raises the created event on both stores, deleting through any store raises
    the deleted event on the parent and on every child store that finds the entity -/
theorem update_either_route_same_events (st : St) (id : Id) (e : Ent) (hm : mget st.ents id = some e)
    (p p' : Payload) (chk chk' : Option Checker) :
    (e.hasChild .A1 = true → eventsOf st (.update .A id p chk) = eventsOf st (.update .A1 id p' chk')) ∧
    (e.hasChild .A1 = false → e.hasChild .A2 = true →
      eventsOf st (.update .A id p chk) = eventsOf st (.update .A2 id p' chk')) ∧
    (∀ s, s = .A1 ∨ s = .A2 → eventsOf st (.create s id p) = [⟨.A, .created, id⟩, ⟨s, .created, id⟩]) ∧
    (∀ s s', eventsOf st (.delete s id) = eventsOf st (.delete s' id)) ∧
    (∀ s, ⟨.A, .deleted, id⟩ ∈ eventsOf st (.delete s id) ∧ ⟨.A2, .deleted, id⟩ ∈ eventsOf st (.delete s id) ∧
      (e.hasChild .A1 = true → ⟨.A1, .deleted, id⟩ ∈ eventsOf st (.delete s id))) :=
  General.update_either_route_same_events st id e hm p p' chk chk'

/-- **Updating through either store updates the shared fields and the parent's indexes**: a
    successful `Update`/patch through any store leaves the entity with the shared fields the
    checker names replaced (visible through the parent store), every other entity untouched,
    and the parent's indexes again the exact image of the table (so the new name and roles are
    indexed and the old ones are not) — at any point of any history. -/
theorem update_updates_shared_fields_and_indexes (st : St) (hr : Reached st)
    (s : Sel) (id : Id) (p : Payload) (chk : Option Checker) (st' : St)
    (h : updateV st s id p chk = .ok st') :
    Inv st' ∧
    ∃ e, mget st.ents id = some e ∧
      findById st' .A id = some ((persistShared e p chk).name, (persistShared e p chk).roles, none) ∧
      mget st'.nameIdx (persistShared e p chk).name = some id ∧
      (e.name ≠ (persistShared e p chk).name → mget st'.nameIdx e.name = none) ∧
      (∀ r, (r, id) ∈ st'.rolesIdx ↔ r ∈ (persistShared e p chk).roles) ∧
      (∀ j, j ≠ id → mget st'.ents j = mget st.ents j) :=
  General.update_updates_shared_fields_and_indexes Config.current st (reached_inv hr) s id p chk st'
    (updateV_ok st s id p chk st' h).1

/-- **Deleting through either store removes both parts**: `DeleteById` through the plain child,
    the extended child or the parent is the same operation, and after it the entity is found
    through no store, returned by no store's queries, and has no child data left. -/
theorem delete_either_route_removes_both (st : St) (s : Sel) (id : Id) :
    deleteM st s id = deleteM st .A id ∧
    ∀ st', deleteM st s id = .ok st' →
      ∀ s', findById st' s' id = none ∧ isEntityPresent st' s' id = false ∧
        (∀ f, id ∉ queryIds st' s' f) ∧ (∀ f, id ∉ querySorted st' s' f) ∧ (∀ f, id ∉ iterateValidIds st' s' f) :=
  General.delete_either_route_removes_both st s id

/-- … and leaves no trace of the id: no index entry of the parent store or of the child store
    refers to it any more, every other entity is untouched, and the invariant still holds. -/
theorem delete_leaves_no_trace (st : St) (hr : Reached st) (s : Sel) (id : Id) (st' : St)
    (h : deleteM st s id = .ok st') :
    Inv st' ∧ mget st'.ents id = none ∧
    (∀ v, mget st'.nameIdx v ≠ some id) ∧ (∀ r, (r, id) ∉ st'.rolesIdx) ∧ (∀ c, mget st'.codeIdx c ≠ some id) ∧
    (∀ j, j ≠ id → mget st'.ents j = mget st.ents j) :=
  General.delete_leaves_no_trace Config.current st (reached_inv hr) s id st' h

/-- which entities have child data changes only by `Create` through that child store and by
    `DeleteById` (through any store) — for every state and every successful operation -/
theorem child_data_changes_only_by_create_delete (st st' : St) (op : Op)
    (h : stepOpX Config.current st (.ofOp op) = .ok st') (s : Sel) (hs : s = .A1 ∨ s = .A2) (j : Id) :
    isEntityPresent st' s j = General.childDataAfter op s j (isEntityPresent st s j) :=
  General.child_data_changes_only_by_create_delete _ st st' op (stepOpX_ofOp_ok _ st st' op h) s hs j

/-- `childDataAfter` spelled out: create through `s` of `j` sets it, delete of `j` clears it,
    everything else leaves it -/
example (s s' : Sel) (id j : Id) (p : Payload) (chk : Option Checker) (b : Bool) :
    General.childDataAfter (.create s' id p) s j b = ((s' == s && id == j) || b) ∧
    General.childDataAfter (.update s' id p chk) s j b = b ∧
    General.childDataAfter (.delete s' id) s j b = (id != j && b) := ⟨rfl, rfl, rfl⟩

/-- a `Create` through a child store with a name that another entity — plain-parent or child —
    already holds is refused as a duplicate, exactly as through the parent store; so is an
    `Update`/patch through a child store that changes the name to a taken one -/
theorem uniqueness_enforced_through_child (st : St) (hr : Reached st)
    (s : Sel) (id other : Id) (eo : Ent) (p : Payload)
    (hne : other ≠ id) (ho : mget st.ents other = some eo) (hname : eo.name = p.name) :
    (id ≠ 0 → isEntityPresent st s id = false → validateShared p none = none →
      createV Config.current st s id p = .error .dupName) ∧
    (∀ e chk, id ≠ 0 → mget st.ents id = some e → e.hasChild s = true → proceed chk (·.name) = true →
      e.name ≠ p.name → validateShared p chk = none → updateV st s id p chk = .error .dupName) := by
  obtain ⟨h1, h2⟩ := General.uniqueness_enforced_through_child _ st (reached_inv hr) s id other eo p hne ho hname
  refine ⟨fun a b hv => ?_, fun e chk a hm hc hpn hn hv => ?_⟩
  · rw [createV_of_valid _ st s id p hv]
    exact h1 a b (Or.inl create_captures_old_parent_values)
  · rw [updateV_of_valid st s id p chk (by simp [updatePre, a, hm, hc]) hv]
    exact h2 e chk a hm hc hpn hn

/-! ### the id cursors a store hands out, under any script of `Next` / `Seek` calls

  `IdCur` (C15/Cursor.lean) follows `ForwardBoltCursor`, `uniqueIndexScanner` used as a cursor
  (`newFilteredCursor`), `IterateIds`, `IterateValidIds` and `ValidIdsCursors` with its skip
  loops; `ListCur` is the specification: a position in `ownedIds` — the ids of the entities the
  store owns (plain child: the ones with child data; extended child: every parent entity, for
  `IterateValidIds` the ones with extension data) that satisfy the filter, in key order — where
  `Next` drops the head and `Seek v` goes to the first owned id ≥ v. -/

/-- **`IterateIds` through any store, any population, any script**: what the caller sees after
    opening the cursor and after every `Next` / `Seek` is what a list cursor over the owned ids
    shows (rows without child data are skipped by a plain child store at the first element,
    on `Next` and on `Seek`; a seek past the last owned id invalidates; a seek before the first
    owned id rests on it). -/
theorem iterate_ids_cursor_is_list_cursor (st : St) (s : Sel) (f : Filter) (script : List Step) :
    IdCur.trace st s f (.plain (iterateIdsCur st s f)) script =
      (ListCur.start (ownedIds st.ents s false f)).trace script := by
  obtain ⟨g, a⟩ := iterateIdsCur_spec st s f
  exact plain_trace st s f script _ _ g (scanned_eq_owned st s f).symm (by rw [a, scanned_eq_owned]; rfl)

/-- **`IterateValidIds` through any store, any population, any script** — for the extended store
    this is `ValidIdsCursors`: the first-element skip of `IterateValidIds`, the skip loop after
    `wrapped.Next()` and the skip loop after `wrapped.Seek()` leave runs of plain-parent ids of
    any length, wherever they lie in the key space. -/
theorem iterate_valid_ids_cursor_is_list_cursor (st : St) (s : Sel) (f : Filter) (script : List Step) :
    IdCur.trace st s f (iterateValidIdsCur st s f) script =
      (ListCur.start (ownedIds st.ents s true f)).trace script := by
  cases hs : s.isExtended with
  | true =>
    obtain ⟨c, hc, g, a⟩ := iterateValidIdsCur_extended st s f hs
    rw [hc]
    exact valid_trace st s f script c _ g (scanned_present_eq_owned st s f).symm
      (by rw [a, scanned_present_eq_owned]; rfl)
  | false =>
    have : iterateValidIdsCur st s f = .plain (iterateIdsCur st s f) := by
      simp [iterateValidIdsCur, hs]
    rw [this, iterate_ids_cursor_is_list_cursor, ownedIds_validOnly_irrelevant _ _ _ hs]

/-- … hence no script makes a cursor rest on an id the store does not own: through the plain
    child store only entities with child data, through the extended store's `IterateValidIds`
    only entities with extension data — and always entities that exist and satisfy the filter. -/
theorem cursor_rests_only_on_owned_ids (st : St) (s : Sel) (f : Filter) (script : List Step) (id : Id) :
    (some id ∈ IdCur.trace st s f (.plain (iterateIdsCur st s f)) script →
      ∃ e, mget st.ents id = some e ∧ ownsEnt s false e = true ∧ f.eval e = true) ∧
    (some id ∈ IdCur.trace st s f (iterateValidIdsCur st s f) script →
      ∃ e, mget st.ents id = some e ∧ e.hasChild s = true ∧ f.eval e = true) := by
  constructor
  · intro h
    rw [iterate_ids_cursor_is_list_cursor] at h
    exact (mem_ownedIds _ _ _ _ _).1 (ListCur.trace_mem _ script (fun a ha => ha) id h)
  · intro h
    rw [iterate_valid_ids_cursor_is_list_cursor] at h
    obtain ⟨e, he, ho, hf⟩ := (mem_ownedIds _ _ _ _ _).1 (ListCur.trace_mem _ script (fun a ha => ha) id h)
    exact ⟨e, he, by simpa [ownsEnt] using ho, hf⟩

/-- `ownsEnt` spelled out, and the list specification spelled out: `Seek v` rests on the first
    owned id ≥ v (none: invalid), wherever the cursor was -/
example (e : Ent) : ownsEnt .A false e = true ∧ ownsEnt .A1 false e = e.c1.isSome ∧ ownsEnt .A1 true e = e.c1.isSome ∧
    ownsEnt .A2 false e = true ∧ ownsEnt .A2 true e = e.c2.isSome := ⟨rfl, rfl, rfl, rfl, rfl⟩
example (lc : ListCur) (v : Id) : (lc.step (.seek v)).current = lc.all.find? (fun a => v ≤ a) := by
  simp only [ListCur.step, ListCur.current]
  induction lc.all with
  | nil => rfl
  | cons x t ih =>
    by_cases h : x < v
    · have h' : ¬ v ≤ x := Nat.not_le.2 h
      simp [h, h', ih]
    · have h' : v ≤ x := Nat.le_of_not_lt h
      simp [h, h']

/-- the list functions the other theorems speak about are these lists: a cursor walked to its
    end with `Next` delivers `queryIds` / `iterateValidIds`, in this order -/
theorem query_lists_are_owned_ids (st : St) (s : Sel) (f : Filter) :
    queryIds st s f = ownedIds st.ents s false f ∧ iterateValidIds st s f = ownedIds st.ents s true f :=
  ⟨queryIds_eq_owned st s f, iterateValidIds_eq_owned st s f⟩

/-- **`QueryWithCursorC`** (the scanners' `ScanCursor` over the ids a caller's cursor provider
    enumerates): exactly the provided ids the store owns that satisfy the filter, in the
    provider's order (unsorted scanner) / as a set (sorting scanner) — a plain child store never
    returns a provided id without child data. -/
theorem query_with_cursor_only_owned_rows (st : St) (s : Sel) (f : Filter) (provided : List Id) :
    queryWithCursor st s f provided = provided.filter (ownedPred st.ents s false f) ∧
    (∀ id, id ∈ queryWithCursorSorted st s f provided ↔
      id ∈ provided ∧ ownedPred st.ents s false f id = true) := by
  have h : queryWithCursor st s f provided = provided.filter (ownedPred st.ents s false f) := by
    unfold queryWithCursor
    rw [scanLoop_eq_filter]
    exact List.filter_congr (fun id _ => rowOk_eq_owned st s f id)
  refine ⟨h, fun id => ?_⟩
  have : queryWithCursorSorted st s f provided =
      (queryWithCursor st s f provided).foldl (fun acc id => insRow st id acc) [] := rfl
  rw [this, mem_foldl_insRow, h, List.mem_filter]
  simp

/-- after every history the cursor over a key of the parent's `roles` index (a typical provider)
    enumerates exactly the entities — plain-parent and child alike — that hold the role -/
theorem roles_index_cursor_enumerates_holders (st : St) (hr : Reached st) (r : Val) (id : Id) :
    id ∈ rolesIndexIds st r ↔ ∃ e, mget st.ents id = some e ∧ r ∈ e.roles := by
  obtain ⟨hist, rfl⟩ := hr
  have hinv := parent_constraints_apply_to_child_entities hist
  unfold rolesIndexIds
  rw [mem_canon, ← hinv.roles r id]
  simp

/-- non-vacuity (the population of seeded change C15-4: extension data on 1 and 5 only): the
    extended store's `IterateValidIds` cursor, sought to 2, leaves the run 2,3,4 and rests on 5;
    with a single `if` in place of the loop of `ValidIdsCursors.Seek` it would rest on 3 -/
def sampleMixed : St :=
  run Config.current St.init [[.create .A2 1 ⟨1, [], none⟩, .create .A 2 ⟨2, [], none⟩, .create .A 3 ⟨3, [1], none⟩,
    .create .A1 4 ⟨4, [1], some 1⟩, .create .A2 5 ⟨5, [], some 2⟩, .create .A 6 ⟨6, [], none⟩]]

example : IdCur.trace sampleMixed .A2 .tt (iterateValidIdsCur sampleMixed .A2 .tt) [.seek 2, .next, .seek 0, .next, .seek 6] =
    [some 1, some 5, none, some 1, some 5, none] := by decide
example : IdCur.trace sampleMixed .A1 .tt (iterateValidIdsCur sampleMixed .A1 .tt) [.seek 2, .next, .seek 5] =
    [some 4, some 4, none, none] := by decide
example : ownedIds sampleMixed.ents .A2 true .tt = [1, 5] ∧ ownedIds sampleMixed.ents .A2 false .tt = [1, 2, 3, 4, 5, 6] ∧
    ownedIds sampleMixed.ents .A1 false .tt = [4] := by decide
example : (ScanCur.next sampleMixed .A2 .tt (ScanCur.seek sampleMixed .A2 .tt (iterateIdsCur sampleMixed .A2 .tt) 2)).current
    = some 3 := by decide
example : queryWithCursor sampleMixed .A1 .tt (rolesIndexIds sampleMixed 1) = [4] ∧
    queryWithCursor sampleMixed .A2 .tt (rolesIndexIds sampleMixed 1) = [3, 4] := by decide

/-! ### paged walks: a compiled query with `skip` / `limit` handed to `IterateIds` / `IterateValidIds` / `QueryIds`

`newFilteredCursor` calls `setPaging` when the filter is an `ast.Query`; `uniqueIndexScanner.Next` then
does its offset / collected accounting (`pscanNext`, `PScanCur`; C15/Paging.lean).  The specification
is the budgeted list cursor `PListCur` over the ids the store OWNS: `skip` is used up by owned rows
only (rows without child data never count, through the plain child store), `limit` counts the rows
handed out, both budgets survive a `Seek`. -/

/-- **paged `IterateIds` through any store, any population, any page, any script of `Next` / `Seek`**:
    what the caller sees is what the budgeted list cursor over the owned ids shows.  (`IterateValidIds`
    of a store that is not extended returns the same scanner.) -/
theorem paged_iterate_ids_cursor_is_paged_list_cursor (st : St) (s : Sel) (f : Filter) (pg : Page)
    (script : List Step) :
    (iterateIdsPaged st s f pg).trace st s f pg script =
      (PListCur.start pg (ownedIds st.ents s false f)).trace pg script :=
  iterateIdsPaged_trace st s f pg script

/-- **a paged walk (Next only) enumerates the page of the owned ids, and so does `QueryIds`**: the
    rows `skip` leaves out are rows the store owns, the walk through a plain child store delivers
    `(owned.drop skip).take limit` — the list `QueryIds` returns for the same query, whose count is the
    number of all owned matching rows. -/
theorem paged_walk_is_page_of_owned_ids (st : St) (s : Sel) (f : Filter) (pg : Page) (n : Nat) :
    (iterateIdsPaged st s f pg).trace st s f pg (List.replicate n .next) =
      (ListCur.start (pg.of (ownedIds st.ents s false f))).trace (List.replicate n .next) ∧
    queryIdsPaged st s f pg = (pg.of (ownedIds st.ents s false f), (ownedIds st.ents s false f).length) := by
  refine ⟨?_, queryIdsPaged_spec st s f pg⟩
  rw [iterateIdsPaged_trace]
  exact PListCur.trace_nexts pg _ n

/-- … and no page, no script makes a paged cursor rest on an id the store does not own -/
theorem paged_cursor_rests_only_on_owned_ids (st : St) (s : Sel) (f : Filter) (pg : Page)
    (script : List Step) (id : Id)
    (h : some id ∈ (iterateIdsPaged st s f pg).trace st s f pg script) :
    ∃ e, mget st.ents id = some e ∧ ownsEnt s false e = true ∧ f.eval e = true := by
  rw [iterateIdsPaged_trace] at h
  exact (mem_ownedIds _ _ _ _ _).1 (PListCur.start_trace_mem pg _ script id h)

/-- the page spelled out -/
example (l : List Id) (k n : Nat) : (Page.mk k (some n)).of l = (l.drop k).take n ∧ (Page.mk k none).of l = l.drop k :=
  ⟨rfl, rfl⟩

/-- non-vacuity (`sampleMixed` extended by A1 data on 2 and 6: plain parents 3 and — for A1 — 1, 5 lie before and
    between the A1 entities 2, 4, 6): `skip 1 limit 10` through A1 starts at the second A1 entity; if the rows
    used up by `skip` were not restricted to A1's entities (seeded C15-17) it would start at 2 -/
def samplePaged : St :=
  run Config.current St.init [[.create .A2 1 ⟨1, [], none⟩, .create .A1 2 ⟨2, [], some 2⟩, .create .A 3 ⟨3, [1], none⟩,
    .create .A1 4 ⟨4, [1], some 1⟩, .create .A2 5 ⟨5, [], some 2⟩, .create .A1 6 ⟨6, [], some 3⟩]]

example : (iterateIdsPaged samplePaged .A1 .tt ⟨1, some 10⟩).trace samplePaged .A1 .tt ⟨1, some 10⟩ [.next, .next] =
    [some 4, some 6, none] ∧
    queryIdsPaged samplePaged .A1 .tt ⟨1, some 10⟩ = ([4, 6], 3) ∧
    (iterateIdsPaged samplePaged .A2 .tt ⟨2, some 2⟩).trace samplePaged .A2 .tt ⟨2, some 2⟩ [.next, .next] =
    [some 3, some 4, none] ∧
    (iterateIdsPaged samplePaged .A1 .tt ⟨1, some 2⟩).trace samplePaged .A1 .tt ⟨1, some 2⟩ [.seek 1, .seek 1, .seek 1] =
    [some 4, some 2, none, none] := by decide

/-! ### DeleteWhere through any store -/

/-- **`DeleteWhere` through a store removes exactly the entities that store's own `QueryIds`
    returns for the filter** — the ids the store owns (plain child: entities with child data;
    extended child and parent: every entity) that satisfy it —, each through the usual delete
    fan-out: it never fails, the removed entities are gone from every store, no index entry of
    the parent or of a child store refers to them, every other entity (a plain-parent entity
    matching a filter issued through the plain child store, say) is untouched, and the
    invariant holds again — at any point of any history. -/
theorem delete_where_exact (st : St) (hr : Reached st) (s : Sel) (f : Filter) :
    ∃ st', deleteWhereM st s f = .ok st' ∧ Inv st' ∧
      queryIds st s f = ownedIds st.ents s false f ∧
      (∀ j, mget st'.ents j = if j ∈ queryIds st s f then none else mget st.ents j) ∧
      (∀ j, j ∈ queryIds st s f →
        (∀ s', findById st' s' j = none) ∧ (∀ v, mget st'.nameIdx v ≠ some j) ∧
        (∀ r, (r, j) ∉ st'.rolesIdx) ∧ (∀ c, mget st'.codeIdx c ≠ some j)) := by
  obtain ⟨st', h1, h2, h3⟩ := deleteWhere_refines st (reached_inv hr) s f
  have hq := queryIds_eq_owned st s f
  have hget : ∀ j, mget st'.ents j = if j ∈ queryIds st s f then none else mget st.ents j := by
    intro j; rw [h2, hq]; exact mget_foldl_mdel _ _ j
  refine ⟨st', h1, h3, hq, hget, ?_⟩
  intro j hj
  have hgone : mget st'.ents j = none := by rw [hget j, if_pos hj]
  refine ⟨fun s' => by simp [findById, bucketForLoad, hgone], ?_, ?_, ?_⟩
  · intro v hv
    obtain ⟨_, e, he, _⟩ := (h3.name v j).1 hv
    rw [hgone] at he; cases he
  · intro r hr'
    obtain ⟨e, he, _⟩ := (h3.roles r j).1 hr'
    rw [hgone] at he; cases he
  · intro c hc
    obtain ⟨_, e, he, _⟩ := (h3.code c j).1 hc
    rw [hgone] at he; cases he

/-- … spelled out for the plain child store: an entity without A1 data survives whatever the filter -/
theorem delete_where_through_child_spares_plain_parents (st : St) (hr : Reached st) (f : Filter)
    (j : Id) (e : Ent) (hj : mget st.ents j = some e) (hplain : e.c1 = none) :
    ∃ st', deleteWhereM st .A1 f = .ok st' ∧ mget st'.ents j = some e := by
  obtain ⟨st', h1, _, hq, hget, _⟩ := delete_where_exact st hr .A1 f
  refine ⟨st', h1, ?_⟩
  rw [hget j, hq, if_neg, hj]
  intro hmem
  obtain ⟨e', he', ho, _⟩ := (mem_ownedIds _ _ _ _ _).1 hmem
  rw [hj] at he'; cases he'
  simp [ownsEnt, Sel.isExtended, Ent.hasChild, hplain] at ho

/-! ### rejection agrees whichever store the write goes through -/

/-- **Every write the parent store refuses is refused through the child stores too, with the same
    error, and leaves the state as it was.**  (1) Whether `Create` is refused by the parent
    strategy's validation depends on the shared fields only: past the pre-checks, through every
    store and with any child value the verdict of `validateShared` is the result.  (2) For an
    entity with child data, `Update`/patch through the parent store *is* the update through
    the child store (same state or same error — validation errors, duplicates, …), also with the
    strategy's validation in place.  (3) A refused operation rolls its transaction back. -/
theorem reject_either_route_same (st : St) (id : Id) (p : Payload) (chk : Option Checker) :
    (∀ s c e, validateShared p none = some e → createPre st.ents s id = none →
      createV Config.current st s id { p with child := c } = .error e) ∧
    (∀ s c e, validateShared p chk = some e → updatePre st.ents s id = none →
      updateV st s id { p with child := c } chk = .error e) ∧
    (∀ e, mget st.ents id = some e → e.hasChild .A1 = true →
      updateV st .A id p chk = updateV st .A1 id { p with child := e.childField .A1 } chk) ∧
    (∀ e, mget st.ents id = some e → e.hasChild .A1 = false → e.hasChild .A2 = true →
      updateV st .A id p chk = updateV st .A2 id { p with child := e.childField .A2 } chk) ∧
    (∀ op rest e, stepOpX Config.current st op = .error e → stepTxX Config.current st (op :: rest) = st) := by
  refine ⟨?_, ?_, ?_, ?_, ?_⟩
  · intro s c e hv hp
    simp only [createV, hp, validateShared_child_irrelevant, hv]
  · intro s c e hv hp
    simp only [updateV, updateVWith, hp, validateShared_child_irrelevant, hv]
  · intro e hm h1
    have hpre : updatePre st.ents .A id = updatePre st.ents .A1 id := by
      have h1' : e.c1.isSome = true := h1
      simp [updatePre, hm, h1', Ent.hasChild]
    simp only [updateV, updateVWith, hpre, validateShared_child_irrelevant]
    rw [(update_either_route_same_state st id e hm p chk).1 h1]
  · intro e hm h1 h2
    have hpre : updatePre st.ents .A id = updatePre st.ents .A2 id := by
      have h2' : e.c2.isSome = true := h2
      simp [updatePre, hm, h2', Ent.hasChild]
    simp only [updateV, updateVWith, hpre, validateShared_child_irrelevant]
    rw [(update_either_route_same_state st id e hm p chk).2.1 h1 h2]
  · intro op rest e h
    exact stepTxX_of_error _ st op rest e h

/-- `validateShared` spelled out; non-vacuity: a reserved name / a fourth role is refused through
    the parent and through both child stores, on create and on update, and a patch that does not
    name the field is not -/
example (p : Payload) : validateShared p none =
    (if p.name == 9 then some Err.invalidName else if decide (p.roles.length > 3) then some Err.invalidRoles else none) := rfl
example : ∀ s ∈ [Sel.A, Sel.A1, Sel.A2],
    createV Config.current St.init s 1 ⟨9, [1], some 1⟩ = .error .invalidName ∧
    createV Config.current St.init s 1 ⟨1, [1, 2, 3, 1], some 1⟩ = .error .invalidRoles := by decide
example :
    let st := run Config.current St.init [[.create .A1 1 ⟨1, [1], some 1⟩]]
    updateV st .A 1 ⟨2, [1, 1, 1, 1], none⟩ none = .error .invalidRoles ∧
    updateV st .A1 1 ⟨2, [1, 1, 1, 1], some 1⟩ none = .error .invalidRoles ∧
    (updateV st .A1 1 ⟨2, [1, 1, 1, 1], some 1⟩ (some ⟨true, false, false⟩)).toOption.isSome = true := by decide
/-- non-vacuity for `DeleteWhere`: population of `sampleMixed` (A1 data on 4 only): `DeleteWhere(true)`
    through A1 removes 4 alone, through A2 or A everything -/
example : (deleteWhereM sampleMixed .A1 .tt).toOption.map (fun st => idsInOrder st) = some [1, 2, 3, 5, 6] ∧
    (deleteWhereM sampleMixed .A2 .tt).toOption.map (fun st => idsInOrder st) = some [] ∧
    (deleteWhereM sampleMixed .A1 (.hasRole 1)).toOption.map (fun st => (idsInOrder st, rolesIndexIds st 1)) = some ([1, 2, 3, 5, 6], [3]) := by
  decide

/-! ### every lookup API of a store agrees on which entities the store owns -/

/-- **`FindById`, `LoadById`, `LoadEntity`, `IsEntityPresent` and `GetEntityBucket != nil` are
    functions of the one predicate "the store owns the entity" and the stored fields**: through a
    plain child store the three lookups find exactly the entities with child data, through an
    extended child store (and the parent) every parent entity — all three alike, with the same
    shared fields and child field —, and the two presence tests say whether the store has data of
    its own for the id.  For every state, store and id. -/
theorem lookup_apis_agree (st : St) (s : Sel) (id : Id) :
    findById st s id = ownedLookup st.ents s id ∧
    loadEntity st s id = ownedLookup st.ents s id ∧
    loadById st s id = (match ownedLookup st.ents s id with
      | some x => .ok x
      | none => .error .notfound) ∧
    isEntityPresent st s id = ownsData st.ents s id ∧
    entityBucketNonNil st s id = ownsData st.ents s id := by
  have h := findById_eq_owned st s id
  have h2 : loadEntity st s id = findById st s id := by
    unfold loadEntity findById; cases bucketForLoad st s id <;> rfl
  have h3 : loadById st s id = (match findById st s id with | some x => .ok x | none => .error .notfound) := by
    unfold loadById findById; cases bucketForLoad st s id <;> rfl
  have h4 : isEntityPresent st s id = ownsData st.ents s id := by
    unfold isEntityPresent ownsData ownsEnt
    cases mget st.ents id with
    | none => rfl
    | some e => cases s <;> simp [Sel.isExtended, Ent.hasChild]
  refine ⟨h, by rw [h2, h], by rw [h3, h]; cases ownedLookup st.ents s id <;> rfl, h4, ?_⟩
  rw [← h4]
  unfold entityBucketNonNil isEntityPresent
  cases mget st.ents id <;> rfl

/-- non-vacuity (`sampleMixed`: extension data on 1 and 5, A1 data on 4, plain 2, 3, 6): the extended
    store's lookups find the plain-parent entity 2 (child field nil) though it has no data for it;
    the plain child store's do not -/
example : loadEntity sampleMixed .A2 2 = some (2, [], none) ∧ loadById sampleMixed .A2 2 = .ok (2, [], none) ∧
    isEntityPresent sampleMixed .A2 2 = false ∧ loadEntity sampleMixed .A1 2 = none ∧
    loadById sampleMixed .A1 2 = .error .notfound ∧ loadEntity sampleMixed .A1 4 = some (4, [1], some 1) := by decide

/-! ### the shape of the layering: child data paths of any length

  `Schema` = the `BasePath`s of the two child stores (the sub-path of the child's data bucket inside
  the parent's entity bucket; one or more segments; shared prefixes such as ext/a, ext/b allowed;
  well-formed = non-empty and neither a prefix of the other).  `StC`, `stepC`, `runC`
  (C15/Layout.lean) are the stores over real bucket trees: `getOrCreateEntityBucket` creates the
  whole path, the child's strategy writes its field into that bucket and — through
  `PersistContext.GetParentContext` — the shared fields into the parent's *entity bucket*;
  `absSt` is what the stores read back through these paths. -/

/-- a state of the stores over real bucket trees reached by any history, for a schema -/
def ReachedC (sch : Schema) (stc : StC) : Prop :=
  ∃ hist : List (List OpX), stc = runC Config.current sch StC.init hist

/-- **Every path shape behaves alike**: for every well-formed schema and every history, what the
    stores read back from the real buckets is the state of the model all other theorems speak
    about — so each of them holds for child paths of every length. -/
theorem layering_shape_irrelevant (sch : Schema) (hw : sch.wellFormed = true) (hist : List (List OpX)) :
    absSt sch (runC Config.current sch StC.init hist) = runX Config.current St.init hist ∧
    (runC Config.current sch StC.init hist).OK := by
  have := runC_simulates Config.current sch hw hist StC.init StC.init_ok
  rwa [absSt_init] at this

theorem reachedC_reached {sch : Schema} (hw : sch.wellFormed = true) {stc : StC} (h : ReachedC sch stc) :
    Reached (absSt sch stc) ∧ stc.OK := by
  obtain ⟨hist, rfl⟩ := h
  obtain ⟨h1, h2⟩ := layering_shape_irrelevant sch hw hist
  exact ⟨⟨hist, h1⟩, h2⟩

/-- the invariant (parent indexes = exact image of what is read through the paths; no empty name),
    for every path shape and every history -/
theorem invariant_for_every_path (sch : Schema) (hw : sch.wellFormed = true) (hist : List (List OpX)) :
    Inv (absSt sch (runC Config.current sch StC.init hist)) := by
  rw [(layering_shape_irrelevant sch hw hist).1]
  exact parent_constraints_apply_to_child_entities hist

/-- **An entity created through the child exists in both — for every path shape**: after a
    successful `Create` through a child store whose data path is `sch.childPath s`, the shared
    fields are in the parent's entity bucket itself, the child's data bucket exists at its path with
    the child's field in it, and (reading back through the paths) everything
    `create_through_child_exists_in_both` says holds. -/
theorem create_through_child_exists_in_both_for_every_path (sch : Schema) (hw : sch.wellFormed = true)
    (stc : StC) (hr : ReachedC sch stc) (s : Sel) (hs : s = .A1 ∨ s = .A2) (id : Id) (p : Payload) (stc' : StC)
    (h : createC Config.current sch stc s id p = .ok stc') :
    (∃ t, mget stc'.trees id = some t ∧
      t.get [] "name" = some (.str (some p.name)) ∧ t.get [] "roles" = some (.list (canon p.roles)) ∧
      t.getPath (sch.childPath s) = true ∧ t.get (sch.childPath s) (childKey s) = some (.str p.child)) ∧
    findById (absSt sch stc') .A id = some (p.name, canon p.roles, none) ∧
    findById (absSt sch stc') s id = some (p.name, canon p.roles, p.child) ∧
    id ∈ queryIds (absSt sch stc') .A .tt ∧ id ∈ queryIds (absSt sch stc') s .tt ∧
    id ∈ iterateValidIds (absSt sch stc') s .tt ∧
    mget stc'.nameIdx p.name = some id ∧ (∀ r, r ∈ p.roles → (r, id) ∈ stc'.rolesIdx) := by
  obtain ⟨hreach, hok⟩ := reachedC_reached hw hr
  have hsim := createC_simulates Config.current sch hw stc hok s id p
  rw [h] at hsim
  have habs := create_through_child_exists_in_both (absSt sch stc) hreach s hs id p (absSt sch stc') hsim.1
  refine ⟨?_, habs⟩
  unfold createC at h
  cases hc : createV Config.current (absSt sch stc) s id p with
  | error e => simp [hc] at h
  | ok st' =>
    simp only [hc] at h
    cases h
    refine ⟨persistC sch (createBucketC sch (entTree stc id) s) s p none, by simp [StC.withIdx], ?_⟩
    have hpres := createBucketC_present sch (entTree stc id) s
    rcases hs with rfl | rfl
    · simp only [Schema.childPath] at hpres
      simp [persistC, persistCAt, writeShared, proceed, Schema.childPath, childKey, Tree.get_set, hpres]
    · simp only [Schema.childPath] at hpres
      simp [persistC, persistCAt, writeShared, proceed, Schema.childPath, childKey, Tree.get_set, hpres]

/-- **Updating through either store is the same operation — for every path shape**: for an entity
    with child data the parent store's `Update` over the real buckets is literally the child
    store's (same trees, same indexes, same error). -/
theorem update_either_route_same_state_for_every_path (sch : Schema) (stc : StC) (id : Id) (t : Tree)
    (hm : mget stc.trees id = some t) (p : Payload) (chk : Option Checker) :
    (t.getPath sch.p1 = true →
      updateC sch stc .A id p chk = updateC sch stc .A1 id { p with child := cellStr (t.get sch.p1 "code") } chk) ∧
    (t.getPath sch.p1 = false → t.getPath sch.p2 = true →
      updateC sch stc .A id p chk = updateC sch stc .A2 id { p with child := cellStr (t.get sch.p2 "colour") } chk) := by
  have hget : mget (absSt sch stc).ents id = some (viewC sch t) := by rw [absSt_get, hm]; rfl
  constructor
  · intro h1
    have hc1 : (viewC sch t).hasChild .A1 = true := by simp [viewC, Ent.hasChild, h1]
    have hf : (viewC sch t).childField .A1 = cellStr (t.get sch.p1 "code") := by simp [viewC, Ent.childField, h1]
    have hv := (reject_either_route_same (absSt sch stc) id p chk).2.2.1 _ hget hc1
    have hp1 : isEntityPresent (absSt sch stc) .A1 id = true := by simp [isEntityPresent, hget, hc1]
    unfold updateC
    rw [hv, hf]
    simp [updTarget, updPayload, hp1, hget, hc1, hf]
  · intro h1 h2
    have hc1 : (viewC sch t).hasChild .A1 = false := by simp [viewC, Ent.hasChild, h1]
    have hc2 : (viewC sch t).hasChild .A2 = true := by simp [viewC, Ent.hasChild, h2]
    have hf : (viewC sch t).childField .A2 = cellStr (t.get sch.p2 "colour") := by simp [viewC, Ent.childField, h2]
    have hv := (reject_either_route_same (absSt sch stc) id p chk).2.2.2.1 _ hget hc1 hc2
    have hp1 : isEntityPresent (absSt sch stc) .A1 id = false := by simp [isEntityPresent, hget, hc1]
    have hp2 : isEntityPresent (absSt sch stc) .A2 id = true := by simp [isEntityPresent, hget, hc2]
    unfold updateC
    rw [hv, hf]
    simp [updTarget, updPayload, hp1, hp2, hget, hc1, hc2, hf]

/-- **The parent part and the child parts of an entity live in buckets that do not contain each
    other's fields**: the parent's fields are in the entity bucket, each child's field in its own
    data bucket, which is neither the entity bucket nor inside (or around) the other child's data
    bucket; hence what the parent strategy persists leaves both children's presence and fields
    as they were, what a child persists leaves the shared fields and the other child's part as they
    were, and creating one child's data bucket does not make the other child's appear. -/
theorem parent_and_child_parts_disjoint (sch : Schema) (hw : sch.wellFormed = true) :
    (sch.p1 ≠ [] ∧ sch.p2 ≠ [] ∧ sch.p1.isPrefixOf sch.p2 = false ∧ sch.p2.isPrefixOf sch.p1 = false) ∧
    (∀ t p chk, (viewC sch (writeShared t [] p chk)).c1 = (viewC sch t).c1 ∧
      (viewC sch (writeShared t [] p chk)).c2 = (viewC sch t).c2) ∧
    (∀ t c, (viewC sch (t.set sch.p1 "code" c)).name = (viewC sch t).name ∧
      (viewC sch (t.set sch.p1 "code" c)).roles = (viewC sch t).roles ∧
      (viewC sch (t.set sch.p1 "code" c)).c2 = (viewC sch t).c2) ∧
    (∀ t c, (viewC sch (t.set sch.p2 "colour" c)).name = (viewC sch t).name ∧
      (viewC sch (t.set sch.p2 "colour" c)).roles = (viewC sch t).roles ∧
      (viewC sch (t.set sch.p2 "colour" c)).c1 = (viewC sch t).c1) ∧
    (∀ t, (createBucketC sch t .A1).getPath sch.p2 = t.getPath sch.p2 ∧
      (createBucketC sch t .A2).getPath sch.p1 = t.getPath sch.p1) := by
  have f := sch.facts hw
  have a1 : ¬ (sch.p1 = ([] : Path)) := f.ne1
  have a2 : ¬ (sch.p2 = ([] : Path)) := f.ne2
  have a3 : ¬ (sch.p2 = sch.p1) := fun e => f.ne12 e.symm
  refine ⟨⟨f.ne1, f.ne2, f.n12, f.n21⟩, ?_, ?_, ?_, ?_⟩
  · intro t p chk
    rw [viewC_writeShared sch hw]
    exact ⟨rfl, rfl⟩
  · intro t c
    simp [viewC, Tree.get_set, a1, f.ne12]
  · intro t c
    simp [viewC, Tree.get_set, a2, a3]
  · intro t
    simp [createBucketC, Schema.childPath, Tree.getPath_getOrCreatePath, f.n12, f.n21]

/-- why `GetParentContext` must look the parent's entity bucket up through the parent store: taking
    "the bucket one level above the child's data bucket" is the entity bucket only for one-segment
    child paths — with the path ext/mgr the shared fields land in `<entity>/ext` and the parent
    reads nothing (seeded change C15-9) -/
example :
    let sch : Schema := ⟨["ext", "mgr"], ["ext", "tl"]⟩
    let t := createBucketC sch Tree.empty .A1
    sch.wellFormed = true ∧
    (viewC sch (persistC sch t .A1 ⟨1, [2], some 3⟩ none)) = ⟨1, [2], some (some 3), none⟩ ∧
    (viewC sch (persistCAt sch.p1.dropLast sch t .A1 ⟨1, [2], some 3⟩ none)) = ⟨0, [], some (some 3), none⟩ := by
  decide

/-- non-vacuity: three-segment and shared-prefix paths; an A1 create, an A2 create over it, an
    update through the parent and a DeleteWhere through A1 -/
example :
    let sch : Schema := ⟨["x", "y", "a"], ["x", "b"]⟩
    let stc := runC Config.current sch StC.init
      [[.create .A1 1 ⟨1, [1], some 1⟩, .create .A2 1 ⟨1, [1], some 2⟩, .create .A 2 ⟨2, [], none⟩],
       [.update .A 1 ⟨3, [2], none⟩ none]]
    sch.wellFormed = true ∧
    findById (absSt sch stc) .A1 1 = some (3, [2], some 1) ∧ findById (absSt sch stc) .A2 1 = some (3, [2], some 2) ∧
    queryIds (absSt sch stc) .A1 .tt = [1] ∧
    (stepTxC Config.current sch stc [.deleteWhere .A1 .tt]).trees.map (·.1) = [2] := by
  decide

/-! ### two child stores of one parent: the registration order -/

/-- **Every child store of the parent takes part in `Update` and `DeleteById` whichever was
    registered first**: with the child stores registered A2 (extended — its `FindById` reports
    every parent entity), A1 instead of A1, A2 every operation on every state gives the same
    state or the same error (so every theorem above holds for either wiring: the delete fan-out
    still runs A1's delete constraints after A2 reported the entity, and an entity carrying data
    of both child stores is updated alike through either), and a delete raises the same events. -/
theorem child_store_registration_order_irrelevant (a2First : Bool) (st : St) (op : OpX) :
    stepOpXOrd a2First Config.current st op = stepOpX Config.current st op ∧
    (∀ s id ev, ev ∈ eventsOfOrd a2First st (.delete s id) ↔ ev ∈ eventsOf st (.delete s id)) ∧
    (∀ op', eventsOfOrd false st op' = eventsOf st op') :=
  ⟨stepOpXOrd_order_irrelevant a2First _ st op, delete_events_order a2First st, eventsOfOrd_false st⟩

/-- … in particular after a delete through any store, in either wiring, no index entry of the
    parent or of a child store refers to the id -/
theorem delete_fans_out_to_every_child_store (a2First : Bool) (st : St) (hr : Reached st) (s : Sel) (id : Id)
    (st' : St) (h : deleteMOrd a2First st s id = .ok st') :
    Inv st' ∧ mget st'.ents id = none ∧
    (∀ v, mget st'.nameIdx v ≠ some id) ∧ (∀ r, (r, id) ∉ st'.rolesIdx) ∧ (∀ c, mget st'.codeIdx c ≠ some id) := by
  rw [deleteMOrd_order_irrelevant] at h
  obtain ⟨a, b, c, d, e, _⟩ := delete_leaves_no_trace st hr s id st' h
  exact ⟨a, b, c, d, e⟩

/-- non-vacuity: an A1 entity deleted through the parent with A2 registered first — A2 reports it
    first, A1's `code` entry is removed all the same, all three stores' listeners hear of it -/
example :
    let st := run Config.current St.init [[.create .A1 1 ⟨1, [1], some 2⟩]]
    mget st.codeIdx 2 = some 1 ∧
    (deleteMOrd true st .A 1).toOption.map (fun st' => mget st'.codeIdx 2) = some none ∧
    eventsOfOrd true st (.delete .A 1) = [⟨.A, .deleted, 1⟩, ⟨.A2, .deleted, 1⟩, ⟨.A1, .deleted, 1⟩] := by decide

/-! ### non-vacuity -/

/-- a mixed population reached through all three stores, with a child create over an existing
    plain-parent entity, updates and a delete through the "other" store -/
def sampleHist : List (List OpX) :=
  [[.create .A 2 ⟨3, [1], none⟩], [.create .A1 1 ⟨1, [1, 2], some 1⟩], [.create .A2 3 ⟨2, [2], some 2⟩],
   [.update .A 1 ⟨1, [3], none⟩ none], [.update .A2 3 ⟨2, [], none⟩ (some ⟨false, true, false⟩)],
   [.create .A1 4 ⟨3, [], none⟩],      -- refused: the name is held by the plain-parent entity 2
   [.create .A1 2 ⟨4, [2, 3], some 2⟩], -- extends the plain-parent entity 2, renaming it
   [.delete .A2 1]]

example : Reached (runX Config.current St.init sampleHist) := ⟨sampleHist, rfl⟩
example : queryIds (runX Config.current St.init sampleHist) .A .tt = [2, 3] := by decide
example : queryIds (runX Config.current St.init sampleHist) .A1 .tt = [2] := by decide
example : queryIds (runX Config.current St.init (sampleHist.take 6)) .A1 .tt = [1] := by decide
example : queryIds (runX Config.current St.init sampleHist) .A2 .tt = [2, 3] := by decide
example : iterateValidIds (runX Config.current St.init sampleHist) .A2 .tt = [3] := by decide
example : mget (runX Config.current St.init sampleHist).nameIdx 3 = none ∧
    mget (runX Config.current St.init sampleHist).nameIdx 4 = some 2 := by decide
example : createV Config.current (runX Config.current St.init (sampleHist.take 5)) .A1 4 ⟨3, [], none⟩
    = .error .dupName := by decide

/-! ### why the tree before 8269ce9 violated C15 -/

/-- **No old values captured on Create**: `A.Create(1, name 1, roles [1,2]); A1.Create(1, name 2,
    roles [3], code 1)` succeeded, and afterwards the parent's unique index still mapped the old
    name to the entity and the set index still listed it under the old roles: the indexes were
    not the image of the table. -/
theorem pinned_create_violates :
    let st := run ⟨false⟩ St.init [[.create .A 1 ⟨1, [1, 2], none⟩], [.create .A1 1 ⟨2, [3], some 1⟩]]
    findById st .A 1 = some (2, [3], none) ∧ mget st.nameIdx 1 = some 1 ∧ (1, 1) ∈ st.rolesIdx ∧ ¬ Inv st := by
  refine ⟨by decide, by decide, by decide, ?_⟩
  intro h
  obtain ⟨_, e, he, hk⟩ := (h.name 1 1).1 (by decide)
  have : e = ⟨2, [3], some (some 1), none⟩ := by
    have h2 : mget (run ⟨false⟩ St.init [[.create .A 1 ⟨1, [1, 2], none⟩], [.create .A1 1 ⟨2, [3], some 1⟩]]).ents 1
        = some ⟨2, [3], some (some 1), none⟩ := by decide
    rw [h2] at he; exact (Option.some.inj he).symm
  subst this
  exact absurd hk (by decide)

/-- … and with an unchanged name the create was refused as a duplicate of the entity itself,
    where the specification (and the repaired code) accepts it -/
example : createM ⟨false⟩ (run ⟨false⟩ St.init [[.create .A 1 ⟨1, [], none⟩]]) .A2 1 ⟨1, [], none⟩
    = .error .dupName := by decide
example : (specCreate (specRun [] [[.create .A 1 ⟨1, [], none⟩]]) .A2 1 ⟨1, [], none⟩).toOption.isSome = true := by
  decide
example : (createM ⟨true⟩ (run ⟨true⟩ St.init [[.create .A 1 ⟨1, [], none⟩]]) .A2 1 ⟨1, [], none⟩).toOption.isSome = true := by
  decide

/-- the same history on the repaired variant replaces the index entries -/
example :
    let st := run ⟨true⟩ St.init [[.create .A 1 ⟨1, [1, 2], none⟩], [.create .A1 1 ⟨2, [3], some 1⟩]]
    mget st.nameIdx 1 = none ∧ mget st.nameIdx 2 = some 1 ∧ st.rolesIdx = [(3, 1)] := by decide

end StorageModel.Properties.C15

#print axioms StorageModel.Properties.C15.config_is_known
#print axioms StorageModel.Properties.C15.create_captures_old_parent_values
#print axioms StorageModel.Properties.C15.parent_constraints_apply_to_child_entities
#print axioms StorageModel.Properties.C15.model_refines_spec
#print axioms StorageModel.Properties.C15.derived_indexes_agree
#print axioms StorageModel.Properties.C15.create_through_child_exists_in_both
#print axioms StorageModel.Properties.C15.child_query_only_child_rows
#print axioms StorageModel.Properties.C15.extended_query_all_parent_rows
#print axioms StorageModel.Properties.C15.child_lookup_only_child_rows
#print axioms StorageModel.Properties.C15.extended_lookup_all_parent_rows
#print axioms StorageModel.Properties.C15.update_either_route_same_state
#print axioms StorageModel.Properties.C15.update_either_route_same_events
#print axioms StorageModel.Properties.C15.update_updates_shared_fields_and_indexes
#print axioms StorageModel.Properties.C15.delete_either_route_removes_both
#print axioms StorageModel.Properties.C15.delete_leaves_no_trace
#print axioms StorageModel.Properties.C15.child_data_changes_only_by_create_delete
#print axioms StorageModel.Properties.C15.uniqueness_enforced_through_child
#print axioms StorageModel.Properties.C15.iterate_ids_cursor_is_list_cursor
#print axioms StorageModel.Properties.C15.iterate_valid_ids_cursor_is_list_cursor
#print axioms StorageModel.Properties.C15.cursor_rests_only_on_owned_ids
#print axioms StorageModel.Properties.C15.query_lists_are_owned_ids
#print axioms StorageModel.Properties.C15.paged_iterate_ids_cursor_is_paged_list_cursor
#print axioms StorageModel.Properties.C15.paged_walk_is_page_of_owned_ids
#print axioms StorageModel.Properties.C15.paged_cursor_rests_only_on_owned_ids
#print axioms StorageModel.Properties.C15.query_with_cursor_only_owned_rows
#print axioms StorageModel.Properties.C15.roles_index_cursor_enumerates_holders
#print axioms StorageModel.Properties.C15.child_store_registration_order_irrelevant
#print axioms StorageModel.Properties.C15.delete_fans_out_to_every_child_store
#print axioms StorageModel.Properties.C15.delete_where_exact
#print axioms StorageModel.Properties.C15.delete_where_through_child_spares_plain_parents
#print axioms StorageModel.Properties.C15.reject_either_route_same
#print axioms StorageModel.Properties.C15.layering_shape_irrelevant
#print axioms StorageModel.Properties.C15.invariant_for_every_path
#print axioms StorageModel.Properties.C15.create_through_child_exists_in_both_for_every_path
#print axioms StorageModel.Properties.C15.update_either_route_same_state_for_every_path
#print axioms StorageModel.Properties.C15.parent_and_child_parts_disjoint
#print axioms StorageModel.Properties.C15.lookup_apis_agree
#print axioms StorageModel.Properties.C15.pinned_create_violates


/-! ## Layering depth (round 14): chains of stores root → child → grandchild → … (C15/Depth.lean)

  `lv : Chain` describes the stores below the root (plain / extended, own index or not), store `k+1`
  is a child store of store `k` and registered with it.  All statements are for every chain, every
  state, every store of the chain. -/
namespace StorageModel.Properties.C15
open StorageModel.C15
section depth
open StorageModel.C15.Depth

/-- an entity created through store k exists in store k and in every store above it: `IsEntityPresent`
    and `FindById` through every level j ≤ k (any depth) -/
theorem create_through_child_exists_in_all_ancestors (lv : Chain) (st st' : DSt) (k : Nat) (id : Id)
    (p : DPayload) (h : createD lv st k id p = .ok st') :
    ∀ j, j ≤ k → isPresent st' j id = true ∧ (Depth.findById lv st' j id).isSome = true := by
  intro j hj
  have he := createD_entity lv st st' k id p h
  have hp := persistD_present ((mget st.ents id).getD DEnt.empty) k p none k j hj
  constructor
  · simp [isPresent, he, hp]
  · simp [Depth.findById, Depth.bucketForLoad, he, hp]

/-- queries of store k (QueryIds / IterateIds, any filter) return exactly the entities with data of
    store k — every entity for the root, every row for a store declared extended — that satisfy the filter -/
theorem level_query_returns_exactly_kept_rows (lv : Chain) (st : DSt) (k : Nat) (f : Filter) (x : Id) :
    x ∈ queryIdsD lv st k f ↔
      ∃ e, mget st.ents x = some e ∧ (k = 0 ∨ e.present k = true ∨ isExt lv k = true) ∧ fevalD f e = true :=
  mem_queryIdsD lv st k f x

/-- DeleteById through any store of the chain is the same operation, and afterwards no store of the chain
    finds the entity, reports it present or returns it from a query -/
theorem chain_delete_removes_entity_at_every_level (lv : Chain) (st st' : DSt) (k : Nat) (id : Id)
    (h : deleteD lv st k id = .ok st') :
    (∀ k', deleteD lv st k' id = deleteD lv st k id) ∧
    ∀ j, Depth.findById lv st' j id = none ∧ isPresent st' j id = false ∧ ∀ f, id ∉ queryIdsD lv st' j f := by
  have he := deleteD_ents lv st st' k id h
  refine ⟨fun _ => rfl, fun j => ⟨?_, ?_, ?_⟩⟩
  · simp [Depth.findById, Depth.bucketForLoad, he]
  · simp [isPresent, he]
  · intro f hm
    obtain ⟨e, hget, _⟩ := (mem_queryIdsD lv st' j f id).1 hm
    simp [he] at hget

/-- the EXACT effect of DeleteById on the own indexes of the stores at depth ≥ 2 (grandchild and below):
    none — the root only walks the stores registered with it -/
theorem chain_delete_leaves_deep_indexes_untouched (lv : Chain) (st st' : DSt) (k : Nat) (id : Id)
    (h : deleteD lv st k id = .ok st') (j : Nat) (hj : 1 ≤ j) :
    st'.lidx.getD j [] = st.lidx.getD j [] :=
  deleteD_deep_indexes_untouched lv st st' k id h j hj

/-- the delete clause for the deep indexes as the property demands it: no entry of any own index of a
    store at depth ≥ 2 refers to the deleted id.  FALSE for the code on chains whose grandchild store
    declares an index (`grandchild_delete_leaves_index_entry`). -/
def chain_delete_leaves_no_trace_fullStatement : Prop :=
  ∀ (lv : Chain) (st st' : DSt) (k : Nat) (id : Id), deleteD lv st k id = .ok st' →
    ∀ j v, 1 ≤ j → mget (st'.lidx.getD j []) v ≠ some id

/-- … proved under the hypothesis that names the gap: no store below the first child level holds index
    entries (it declares no index: its bucket is never written) -/
theorem chain_delete_leaves_no_trace_partial (lv : Chain) (st st' : DSt) (k : Nat) (id : Id)
    (hNoDeep : ∀ j, 1 ≤ j → st.lidx.getD j [] = [])
    (h : deleteD lv st k id = .ok st') :
    ∀ j v, 1 ≤ j → mget (st'.lidx.getD j []) v ≠ some id := by
  intro j v hj
  rw [deleteD_deep_indexes_untouched lv st st' k id h j hj, hNoDeep j hj]
  simp

def plain3 : Chain := [⟨false, true⟩, ⟨false, true⟩]

/-- the witness: A → C → G, all plain, G with an own index.  `G.Create(e1, name v1, roles r1 r2, code v3,
    tag v2)` then `DeleteById(e1)` through any of the three stores: the entity is gone, G's index still maps
    v2 to e1 — "deleting through either store removes both parts" fails at depth 3 -/
theorem grandchild_delete_leaves_index_entry :
    ∀ k ∈ [0, 1, 2],
      let st := runD plain3 (DSt.init plain3) [[.create 2 1 ⟨1, [1, 2], [some 3, some 2]⟩], [.delete k 1]]
      st.ents = [] ∧ mget (st.lidx.getD 1 []) 2 = some 1 ∧ st.nameIdx = [] ∧ st.lidx.getD 0 [] = [] := by
  decide

theorem chain_delete_fullStatement_fails : ¬ chain_delete_leaves_no_trace_fullStatement := by
  intro hfull
  have := hfull plain3 (runD plain3 (DSt.init plain3) [[.create 2 1 ⟨1, [1, 2], [some 3, some 2]⟩]])
    (runD plain3 (DSt.init plain3) [[.create 2 1 ⟨1, [1, 2], [some 3, some 2]⟩], [.delete 0 1]]) 0 1 (by decide) 1 2 (by decide)
  exact this (by decide)

/-! ### Create through a store at depth ≥ 2 over an entity without data of the store above it -/

/-- the create clause as the property demands it ("parent-store indexes … apply identically"): whatever the
    entity already has, its old indexed values are captured before the create persists (so the root's old
    entries are replaced).  FALSE for the code at depth ≥ 2 (`grandchild_create_over_root_only_leaves_stale_entries`). -/
def chain_create_captures_old_fullStatement : Prop :=
  ∀ (lv : Chain) (st : DSt) (k : Nat) (id : Id) (p : DPayload), id ≠ 0 → isPresent st k id = false →
    createD lv st k id p =
      indexAfterD lv k true st id ((mget st.ents id).getD DEnt.empty)
        (persistD ((mget st.ents id).getD DEnt.empty) k p none k)

/-- … proved under the hypothesis that names the gap: the store ONE level up has its data bucket for the id
    (what `parentExists` tests), or the entity does not exist at all -/
theorem chain_create_captures_old_partial (lv : Chain) (st : DSt) (k : Nat) (id : Id) (p : DPayload)
    (hid : id ≠ 0) (hnew : isPresent st k id = false)
    (hgap : (k ≠ 0 ∧ isPresent st (k - 1) id = true) ∨ mget st.ents id = none) :
    createD lv st k id p =
      indexAfterD lv k true st id ((mget st.ents id).getD DEnt.empty)
        (persistD ((mget st.ents id).getD DEnt.empty) k p none k) := by
  unfold createD
  simp only [hid, if_false, hnew, Bool.false_eq_true]
  rcases hgap with ⟨hk, hp⟩ | hnone
  · simp [hk, hp]
  · have : isPresent st (k - 1) id = false := by simp [isPresent, hnone]
    simp [this, hnone]

/-- witness: `A.Create(e1, v1, [r1])`, then `G.Create(e1, v2, [r3], code v3, tag v2)`: C has no data for e1, so
    nothing is captured — the name index maps v1 AND v2 to e1, role r1 still lists e1 -/
theorem grandchild_create_over_root_only_leaves_stale_entries :
    let st := runD plain3 (DSt.init plain3)
      [[.create 0 1 ⟨1, [1], []⟩], [.create 2 1 ⟨2, [3], [some 3, some 2]⟩]]
    mget st.nameIdx 1 = some 1 ∧ mget st.nameIdx 2 = some 1 ∧ (1, 1) ∈ st.rolesIdx ∧
      (mget st.ents 1).map (·.name) = some 2 := by decide

/-- … and with an unchanged name the create is refused as a duplicate of the entity's own entry -/
theorem grandchild_create_over_root_only_refused_as_own_duplicate :
    createD plain3 (runD plain3 (DSt.init plain3) [[.create 0 1 ⟨1, [1], []⟩]]) 2 1 ⟨1, [1], [some 3, some 2]⟩
      = .error .dupName := by decide

theorem chain_create_fullStatement_fails : ¬ chain_create_captures_old_fullStatement := by
  intro hfull
  have h := hfull plain3 (runD plain3 (DSt.init plain3) [[.create 0 1 ⟨1, [1], []⟩]]) 2 1
    ⟨1, [1], [some 3, some 2]⟩ (by decide) (by decide)
  revert h
  decide

/-! ### queries vs. lookups of an extended store at depth ≥ 2 -/

/-- the query / lookup clause: a store's queries (filter `true`) return exactly the ids its FindById finds.
    FALSE for the code for an extended store at depth ≥ 2 (`extended_grandchild_query_lookup_mismatch`). -/
def level_query_agrees_with_lookup_fullStatement : Prop :=
  ∀ (lv : Chain) (st : DSt) (k : Nat) (x : Id),
    x ∈ queryIdsD lv st k .tt ↔ (Depth.findById lv st k x).isSome = true

/-- … proved under the hypothesis that names the gap: the store is not extended, or it sits at depth ≤ 1 -/
theorem level_query_agrees_with_lookup_partial (lv : Chain) (st : DSt) (k : Nat) (x : Id)
    (hgap : isExt lv k = false ∨ k ≤ 1) :
    x ∈ queryIdsD lv st k .tt ↔ (Depth.findById lv st k x).isSome = true := by
  rw [mem_queryIdsD]
  unfold scanKeeps Depth.findById Depth.bucketForLoad
  cases hm : mget st.ents x with
  | none => simp
  | some e =>
    by_cases hp : e.present k = true
    · simp [hp, fevalD]
    · have hp' : e.present k = false := by simpa using hp
      have hk : k ≠ 0 := by
        intro h0; subst h0; simp [DEnt.present] at hp
      rcases hgap with hx | hle
      · simp [hp', hx, hk, fevalD]
      · have h1 : k = 1 := by omega
        subst h1
        by_cases hx : isExt lv 1 = true
        · simp [hx, fevalD, DEnt.present]
        · have hx' : isExt lv 1 = false := by simpa using hx
          simp [hp', hx', fevalD]

/-- witness: plain C, extended G, one root-only entity e1: `G.QueryIds(true)` = [e1], `G.FindById(e1)` finds
    nothing, `C.QueryIds(true)` = [] -/
theorem extended_grandchild_query_lookup_mismatch :
    let lv : Chain := [⟨false, true⟩, ⟨true, true⟩]
    let st := runD lv (DSt.init lv) [[.create 0 1 ⟨1, [1], []⟩]]
    queryIdsD lv st 2 .tt = [1] ∧ Depth.findById lv st 2 1 = none ∧ queryIdsD lv st 1 .tt = [] := by decide

theorem level_query_lookup_fullStatement_fails : ¬ level_query_agrees_with_lookup_fullStatement := by
  intro hfull
  have h := (hfull [⟨false, true⟩, ⟨true, true⟩]
    (runD [⟨false, true⟩, ⟨true, true⟩] (DSt.init [⟨false, true⟩, ⟨true, true⟩]) [[.create 0 1 ⟨1, [1], []⟩]]) 2 1).1 (by decide)
  revert h
  decide

/-- non-vacuity: update through the root of an entity with grandchild data is routed down two levels and
    replaces the root's index entries -/
example :
    let st := runD plain3 (DSt.init plain3)
      [[.create 2 1 ⟨1, [1], [some 3, some 2]⟩], [.update 0 1 ⟨2, [3], []⟩ none]]
    mget st.nameIdx 2 = some 1 ∧ mget st.nameIdx 1 = none ∧ st.rolesIdx = [(3, 1)] ∧
      Depth.findById plain3 st 2 1 = some (2, [3], [some 3, some 2]) := by decide

end depth
end StorageModel.Properties.C15

#print axioms StorageModel.Properties.C15.create_through_child_exists_in_all_ancestors
#print axioms StorageModel.Properties.C15.level_query_returns_exactly_kept_rows
#print axioms StorageModel.Properties.C15.chain_delete_removes_entity_at_every_level
#print axioms StorageModel.Properties.C15.chain_delete_leaves_deep_indexes_untouched
#print axioms StorageModel.Properties.C15.chain_delete_leaves_no_trace_partial
#print axioms StorageModel.Properties.C15.grandchild_delete_leaves_index_entry
#print axioms StorageModel.Properties.C15.chain_delete_fullStatement_fails
#print axioms StorageModel.Properties.C15.chain_create_captures_old_partial
#print axioms StorageModel.Properties.C15.grandchild_create_over_root_only_leaves_stale_entries
#print axioms StorageModel.Properties.C15.grandchild_create_over_root_only_refused_as_own_duplicate
#print axioms StorageModel.Properties.C15.chain_create_fullStatement_fails
#print axioms StorageModel.Properties.C15.level_query_agrees_with_lookup_partial
#print axioms StorageModel.Properties.C15.extended_grandchild_query_lookup_mismatch
#print axioms StorageModel.Properties.C15.level_query_lookup_fullStatement_fails
