import StorageModel.Cursor.KindsProofs
import StorageModel.Cursor.StackedProofs
import StorageModel.Cursor.ReuseProofs
import StorageModel.Cursor.Multi
import StorageModel.Cursor.WriteProofs
import StorageModel.Cursor.World
/-
  C14 — Every set cursor enumerates its set exactly, in order, and seeks correctly.

  "Every set cursor the library hands out - forward or reverse, raw or typed, filtered, union or
  tree-backed, over index values, index keys, link sets or related-entity sets - enumerates
  exactly the elements of its underlying set once each in key order (descending for reverse
  cursors), reports invalid once exhausted and immediately for an empty set without panicking,
  and returns element values without storage type tags.  After Seek(v) a seekable cursor is
  positioned on the first element >= v (the last element <= v for reverse cursors), or is
  invalid if there is none."   — for all finite sets of byte strings (including the empty string,
  shared prefixes, the empty set) × all cursor kinds × all seek targets × all interleavings of
  Next and Seek.

  `Desc` describes a cursor the library hands out (kind + data, nested for the wrappers);
  `Desc.open` is the model — the literal Go adapters stacked on the bbolt cursor model
  (StorageModel/Cursor/{Bolt,Mem,Scanner,Kinds}.lean); `Desc.spec` / `Desc.list` the
  specification.  The correspondence check runs `Desc.open` (driver) against the real cursors.
  bbolt itself (ordered keys, First/Last/Next/Prev/Seek) is modelled, not verified.
-/
namespace StorageModel.Properties.C14
open StorageModel StorageModel.Cursor

/-! ### what the underlying set of a described cursor is -/

/-- the elements of the underlying set, in any order, possibly repeated -/
def elems : Desc → List Bytes
  | .fwd xs | .rev xs | .tfwd _ xs | .trev _ xs | .setsym xs | .slice _ xs | .tree _ _ xs => xs
  | .setsymNone | .empty => []
  | .filt i keep => (elems i).filter (Desc.mem keep)
  | .union _ a b => elems a ++ elems b
  | .scan i skip keep => (elems i).filter (fun x => !Desc.mem skip x && Desc.mem keep x)
  | .validIds i present => (elems i).filter (Desc.mem present)

theorem mem_list_iff : ∀ (d : Desc) (x : Bytes), x ∈ d.list ↔ x ∈ elems d
  | .fwd xs, x | .tfwd _ xs, x | .setsym xs, x => mem_sortD
  | .rev xs, x | .trev _ xs, x => by simp [Desc.list, elems, mem_sortD]
  | .setsymNone, x | .empty, x => by simp [Desc.list, elems]
  | .slice _ vals, x => Iff.rfl
  | .tree d _ adds, x => mem_sortD
  | .filt i keep, x => by simp [Desc.list, elems, mem_list_iff i x]
  | .scan i skip keep, x => by simp [Desc.list, elems, mem_list_iff i x]
  | .validIds i present, x => by simp [Desc.list, elems, mem_list_iff i x]
  | .union d a b, x => by simp [Desc.list, elems, mem_sortD, mem_list_iff a x, mem_list_iff b x]

/-- **the specification list is the underlying set in key order**: `order kind (dedupSort xs)` -/
theorem list_is_ordered_set (d : Desc) (h : d.WF) : d.list = order d.dir (dedupSort (elems d)) := by
  rw [← sortD_eq_order]
  exact sorted_ext (Desc.sorted d h) sorted_sortD (fun x => by rw [mem_list_iff, mem_sortD])

/-! ### the property theorems -/

/-- **Any interleaving of Next and Seek.**  For every described cursor and every script the
    model — the literal adapters over the bbolt model — produces, observation by observation
    (after opening and after every operation), what the specification prescribes; in particular
    no operation panics.  (`d.render` is `some` except for cursors that read through
    `GetTypeAndValue`, which return nil for the empty element.) -/
theorem next_seek_mix (d : Desc) (h : d.WF) (ops : List Op) :
    d.open.run ops = (d.spec.openRun ops).map (Obs.render d.render) :=
  (Desc.implements d h).run_eq ops

/-- **Exact enumeration, once each, in order.**  Iterating a freshly opened cursor to exhaustion
    yields exactly the underlying set as `order kind (dedupSort xs)` — each element once,
    ascending for forward and descending for reverse cursors — and terminates within the model's
    loop budget. -/
theorem enumerates (d : Desc) (h : d.WF) :
    d.open.toList d.fuel = .ok ((order d.dir (dedupSort (elems d))).map d.render) := by
  rw [← list_is_ordered_set d h]
  have := (Desc.implements d h).toList_eq (fuel := d.fuel) (by rw [Desc.spec_list]; exact Desc.list_lt_fuel d)
  rwa [Desc.spec_list] at this

theorem getLast?_cons_snoc {α} (a : α) (l : List α) (x : α) : (a :: (l ++ [x])).getLast? = some x := by
  rw [← List.cons_append, List.getLast?_append]; simp

theorem not_before_fwd (v : Bytes) : (fun x => !decide (Dir.fwd.before x v)) = fun x => decide (v ≤ x) := by
  funext x
  have : (v ≤ x) ↔ ¬ x < v := ble_iff
  simp only [Dir.before, this, decide_not]

theorem not_before_rev (v : Bytes) : (fun x => !decide (Dir.rev.before x v)) = fun x => decide (x ≤ v) := by
  funext x
  have : (x ≤ v) ↔ ¬ v < x := ble_iff
  simp only [Dir.before, this, decide_not]

theorem run_nexts_spec (S : Spec) : ∀ (n : Nat) (rem : List Bytes),
    S.run (List.replicate n .next) rem = (List.range n).map fun i => Spec.observe (rem.drop (i + 1))
  | 0, _ => rfl
  | n + 1, rem => by
    have ih := run_nexts_spec S n rem.tail
    simp only [List.replicate_succ, Spec.run, Spec.method, ih, List.range_succ_eq_map, List.map_cons, List.map_map]
    simp [Function.comp_def, List.drop_tail] 

/-- **Exhausted means invalid, and it stays so.**  After as many `Next` calls as there are
    elements the cursor reports invalid, and every further `Next` leaves it invalid
    (no panic, no resurrection). -/
theorem exhausted_invalid (d : Desc) (h : d.WF) (k : Nat) :
    (d.open.run (List.replicate (d.list.length + k) .next)).getLast? = some .invalid := by
  rw [next_seek_mix d h, Spec.openRun, Desc.spec_list, run_nexts_spec]
  cases hn : d.list.length + k with
  | zero =>
    have : d.list = [] := List.eq_nil_of_length_eq_zero (by omega)
    simp [this, Spec.observe, Obs.render]
  | succ n =>
    have : d.list.drop (n + 1) = [] := List.drop_eq_nil_iff.2 (by omega)
    simp only [List.range_succ, List.map_append, List.map_cons, List.map_nil, this, Spec.observe, Obs.render]
    exact getLast?_cons_snoc _ _ _

theorem spec_method_nil (d : Desc) (op : Op) : ∀ f, d.spec.method op = some f → f [] = [] ∨ d.list ≠ [] := by
  intro f hf
  by_cases hl : d.list = []
  · left
    cases op with
    | next => simp only [Spec.method, Option.some.injEq] at hf; subst hf; rfl
    | seek v =>
      by_cases hstd : d.isStd = true
      · rw [Desc.spec_of_isStd hstd] at hf
        simp only [Spec.method, Spec.std] at hf
        split at hf
        · simp only [Option.map_some, Option.some.injEq] at hf
          subst hf; simp [Spec.seekIn, hl]
        · simp at hf
      · cases d <;> simp [Desc.isStd] at hstd
        · simp only [Desc.list] at hl
          simp only [Spec.method, Desc.spec, setSymSpec, Option.map_some, Option.some.injEq] at hf
          subst hf; simp [hl]
        · simp only [Spec.method, Desc.spec, setSymSpec, Option.map_some, Option.some.injEq] at hf
          subst hf; simp
    | seekS v =>
      by_cases hstd : d.isStd = true
      · rw [Desc.spec_of_isStd hstd] at hf
        simp [Spec.method, Spec.std] at hf
      · cases d <;> simp [Desc.isStd] at hstd
        · simp only [Desc.list] at hl
          simp only [Spec.method, Desc.spec, setSymSpec, Option.map_some, Option.some.injEq] at hf
          subst hf; simp [Spec.seekIn, hl]
        · simp only [Spec.method, Desc.spec, setSymSpec, Option.map_some, Option.some.injEq] at hf
          subst hf; simp [Spec.seekIn]
  · exact .inr hl

theorem spec_run_empty (d : Desc) (hl : d.list = []) : ∀ (ops : List Op),
    ∀ o ∈ d.spec.run ops [], o = Obs.invalid ∨ o = Obs.unsupported
  | [], o, ho => by simp [Spec.run] at ho
  | op :: ops, o, ho => by
    unfold Spec.run at ho
    cases hm : d.spec.method op with
    | none =>
      simp only [hm, List.mem_cons] at ho
      rcases ho with rfl | ho
      · exact .inr rfl
      · exact spec_run_empty d hl ops o ho
    | some f =>
      have hf : f [] = [] := by
        rcases spec_method_nil d op f hm with h | h
        · exact h
        · exact absurd hl h
      simp only [hm, hf, List.mem_cons] at ho
      rcases ho with rfl | ho
      · exact .inl rfl
      · exact spec_run_empty d hl ops o ho

/-- **The empty set: invalid at once, never a panic.**  A cursor over an empty set (empty
    bucket, missing bucket, empty tree — `NewTreeCursor` on a tree without root —, filter that
    rejects everything, …) is invalid right after it has been opened and stays invalid under
    every script; nothing panics. -/
theorem empty_invalid_no_panic (d : Desc) (h : d.WF) (hempty : ∀ x, x ∉ elems d) (ops : List Op) :
    ∀ o ∈ d.open.run ops, o = Obs.invalid ∨ o = Obs.unsupported := by
  have hl : d.list = [] := List.eq_nil_iff_forall_not_mem.2 (fun x hx => hempty x ((mem_list_iff d x).1 hx))
  rw [next_seek_mix d h, Spec.openRun, Desc.spec_list, hl]
  intro o ho
  simp only [List.map_cons, List.mem_cons, List.mem_map] at ho
  rcases ho with rfl | ⟨o', ho', rfl⟩
  · exact .inl rfl
  · rcases spec_run_empty d hl ops o' ho' with rfl | rfl
    · exact .inl rfl
    · exact .inr rfl

/-- **No storage type tag in the values.**  The list bucket of a typed cursor holds the keys
    `tag :: e`; the cursor returns the elements `e` themselves (forward: ascending, reverse:
    descending), for every tag byte and every set, including the empty-string element. -/
theorem untagged (tag : UInt8) (xs : List Bytes) :
    (∀ k ∈ tagged tag (dedupSort xs), ∃ e ∈ xs, k = tag :: e) ∧
    (Desc.tfwd tag xs).open.toList (xs.length + 2) = .ok ((dedupSort xs).map some) ∧
    (Desc.trev tag xs).open.toList (xs.length + 2) = .ok ((dedupSort xs).reverse.map some) := by
  refine ⟨?_, ?_, ?_⟩
  · intro k hk
    simp only [tagged, List.mem_map] at hk
    obtain ⟨e, he, rfl⟩ := hk
    exact ⟨e, mem_sortD.1 he, rfl⟩
  · have := (Desc.implements (.tfwd tag xs) trivial).toList_eq (fuel := xs.length + 2)
      (by have : (dedupSort xs).length ≤ xs.length := sortD_length_le .fwd xs
          simp [Desc.spec, Spec.std, Desc.list]; omega)
    exact this
  · have := (Desc.implements (.trev tag xs) trivial).toList_eq (fuel := xs.length + 2)
      (by have : (dedupSort xs).length ≤ xs.length := sortD_length_le .fwd xs
          simp [Desc.spec, Spec.std, Desc.list]; omega)
    exact this

/-- the set-symbol cursor strips the tag as well; by the empty ≡ nil convention of
    `GetTypeAndValue` the empty element is returned as nil (the cursor stays valid on it) -/
theorem untagged_setsym (xs : List Bytes) :
    (Desc.setsym xs).open.toList (xs.length + 2) = .ok ((dedupSort xs).map renderNilEmpty) := by
  have := (Desc.implements (.setsym xs) trivial).toList_eq (fuel := xs.length + 2)
    (by have : (dedupSort xs).length ≤ xs.length := sortD_length_le .fwd xs
        simp [Desc.spec, setSymSpec]; omega)
  exact this

/-! ### seeks -/

/-- the remaining list after a script, according to the specification -/
def specState (S : Spec) : List Op → List Bytes → List Bytes
  | [], rem => rem
  | op :: ops, rem =>
    match S.method op with
    | none => specState S ops rem
    | some f => specState S ops (f rem)

theorem spec_run_snoc (S : Spec) (op : Op) : ∀ (ops : List Op) (rem : List Bytes),
    S.run (ops ++ [op]) rem = S.run ops rem ++
      (match S.method op with
        | none => [Obs.unsupported]
        | some f => [Spec.observe (f (specState S ops rem))])
  | [], rem => by
    simp only [List.nil_append, Spec.run, specState]
    cases S.method op <;> rfl
  | o :: ops, rem => by
    simp only [List.cons_append, Spec.run, specState]
    cases S.method o with
    | none => simp [spec_run_snoc S op ops rem]
    | some f => simp [spec_run_snoc S op ops (f rem)]

theorem last_after_seek (d : Desc) (h : d.WF) (hstd : d.isStd = true) (hsk : d.seekable = true)
    (ops : List Op) (v : Bytes) :
    (d.open.run (ops ++ [.seek v])).getLast? = some ((Spec.observe (Spec.seekIn d.dir d.list v)).render d.render) := by
  rw [next_seek_mix d h, Spec.openRun, spec_run_snoc]
  rw [Desc.spec_of_isStd hstd, hsk]
  simp only [Spec.method, Spec.std, if_true, Option.map_some, List.map_cons, List.map_append, List.map_nil]
  exact getLast?_cons_snoc _ _ _

/-- **Seek on a forward cursor.**  Whatever happened before (any script `ops`), after `Seek(v)`
    the cursor stands on the first element `≥ v` of its set, or is invalid if there is none. -/
theorem seek_forward (d : Desc) (h : d.WF) (hstd : d.isStd = true) (hsk : d.seekable = true)
    (hdir : d.dir = .fwd) (ops : List Op) (v : Bytes) :
    (d.open.run (ops ++ [.seek v])).getLast? =
      some (match ((dedupSort (elems d)).filter (fun x => decide (v ≤ x))).head? with
        | some x => .value (d.render x)
        | none => .invalid) := by
  rw [last_after_seek d h hstd hsk]
  have hs := Desc.sorted d h
  have hl := list_is_ordered_set d h
  rw [hdir] at hs hl
  simp only [order] at hl
  rw [hdir, Spec.seekIn, dropWhile_eq_filter v hs, ← hl]
  rw [not_before_fwd]
  cases (d.list.filter fun x => decide (v ≤ x)) <;> rfl

/-- **Seek on a reverse cursor.**  After `Seek(v)` the cursor stands on the last element `≤ v`
    of its set (in key order), or is invalid if there is none. -/
theorem seek_reverse (d : Desc) (h : d.WF) (hstd : d.isStd = true) (hsk : d.seekable = true)
    (hdir : d.dir = .rev) (ops : List Op) (v : Bytes) :
    (d.open.run (ops ++ [.seek v])).getLast? =
      some (match ((dedupSort (elems d)).filter (fun x => decide (x ≤ v))).getLast? with
        | some x => .value (d.render x)
        | none => .invalid) := by
  rw [last_after_seek d h hstd hsk]
  have hs := Desc.sorted d h
  have hl := list_is_ordered_set d h
  rw [hdir] at hs hl
  simp only [order] at hl
  rw [hdir, Spec.seekIn, dropWhile_eq_filter v hs]
  rw [not_before_rev, hl, List.filter_reverse]
  cases hq : ((dedupSort (elems d)).filter fun x => decide (x ≤ v)).reverse with
  | nil =>
    have : ((dedupSort (elems d)).filter fun x => decide (x ≤ v)) = [] := by simpa using hq
    simp [this, Spec.observe, Obs.render]
  | cons y t =>
    have : ((dedupSort (elems d)).filter fun x => decide (x ≤ v)).getLast? = some y := by
      rw [← List.head?_reverse, hq]; rfl
    simp [this, Spec.observe, Obs.render]

/-- **`SeekToString` on the set-symbol cursor** lands on the first element `≥ v`
    (the raw `Seek` of that type compares against stored keys, type byte included: `setSymSpec`). -/
theorem seek_setsym (xs : List Bytes) (ops : List Op) (v : Bytes) :
    ((Desc.setsym xs).open.run (ops ++ [.seekS v])).getLast? =
      some (match ((dedupSort xs).filter (fun x => decide (v ≤ x))).head? with
        | some x => .value (renderNilEmpty x)
        | none => .invalid) := by
  rw [next_seek_mix (.setsym xs) trivial, Spec.openRun, spec_run_snoc]
  have hs : Sorted .fwd (dedupSort xs) := sorted_sortD
  simp only [Spec.method, Desc.spec, setSymSpec, Option.map_some, List.map_cons, List.map_append, List.map_nil]
  rw [getLast?_cons_snoc, Spec.seekIn, dropWhile_eq_filter v hs, not_before_fwd]
  simp only [Desc.render, Desc.renderNil, if_true]
  cases ((dedupSort xs).filter fun x => decide (v ≤ x)) <;> rfl

/-! ### the in-memory cursors, for arbitrary operands -/

/-- **Union: every element of either operand exactly once, in order.**  For any two cursors
    that implement lists sorted in the union's direction — whatever they return for the empty
    element (`some []` or nil, `Faithful`) — `NewUnionSetCursor` behaves, under every script, as a
    cursor over the sorted duplicate-free union: a shared element is emitted once, validity does
    not depend on the returned value being non-nil, and iterating to exhaustion yields the whole
    union, each value rendered as the operand it is taken from renders it (the first on a tie). -/
theorem union_exact {a b : AnyCursor} {S₁ S₂ : Spec} {r₁ r₂ : Render} (d : Dir) (ha : a.Implements S₁ r₁)
    (hb : b.Implements S₂ r₂) (hf₁ : Faithful r₁) (hf₂ : Faithful r₂)
    (h₁ : Sorted d S₁.list) (h₂ : Sorted d S₂.list) (ops : List Op) {fuel : Nat}
    (hf : S₁.list.length + S₂.list.length < fuel) :
    (newUnionSetCursor a b (d == .fwd)).run ops =
      ((Spec.plain (sortD d (S₁.list ++ S₂.list))).openRun ops).map (Obs.render (unionRender S₁.list r₁ r₂)) ∧
    (newUnionSetCursor a b (d == .fwd)).toList fuel =
      .ok ((sortD d (S₁.list ++ S₂.list)).map (unionRender S₁.list r₁ r₂)) ∧
    Faithful (unionRender S₁.list r₁ r₂) := by
  have := newUnionSetCursor_implements ha hb hf₁ hf₂ d h₁ h₂
  rw [merge_eq_sortD h₁ h₂] at this
  refine ⟨this.run_eq ops, this.toList_eq ?_, faithful_unionRender hf₁ hf₂⟩
  have := sortD_length_le d (S₁.list ++ S₂.list)
  simp only [Spec.std, List.length_append] at this ⊢; omega

/-- **Filtered: exactly the accepted elements, none skipped.**  For any wrapped cursor and any
    predicate, `NewFilteredCursor` enumerates the wrapped list filtered — in particular the
    element after a rejected one is not lost, and a cursor whose elements are all rejected (or
    that is empty) is invalid from the start. -/
theorem filtered_exact {c : AnyCursor} {S : Spec} {r : Render} (h : c.Implements S r) (p : Option Bytes → Bool)
    {fuel : Nat} (hf : S.list.length < fuel) :
    (newFilteredCursor c p fuel).toList fuel = .ok ((S.list.filter (fun x => p (r x))).map r) :=
  (newFilteredCursor_implements h p hf).toList_eq
    (Nat.lt_of_le_of_lt (List.length_filter_le _ _) hf)

/-- **Tree cursor = in-order traversal, for every binary tree** (any shape the rebalancing of
    the llrb tree may produce), without panic on the empty tree and on `Next` past the end; a
    `TreeSet` filled by `Add` yields its elements once each in comparator order. -/
theorem tree_inorder (root : Tree) (render : Render) (ops : List Op) (d : Dir) (adds : List Bytes) :
    ({ σ := TreeCur, M := treeMachine render, init := newTreeCursor root } : AnyCursor).run ops =
      ((Spec.plain root.inorder).openRun ops).map (Obs.render render) ∧
    (treeSetCursor d render adds).toList (adds.length + 1) = .ok ((order d (dedupSort adds)).map render) := by
  refine ⟨(treeCursor_implements root render).run_eq ops, ?_⟩
  rw [← sortD_eq_order]
  exact (treeSetCursor_implements d render adds).toList_eq
    (Nat.lt_succ_of_le (sortD_length_le d adds))

/-- **IteratorMatchingAllOf**: for every table of entities (one value list per id), every
    non-empty list of values and either direction, the iterator is a well-formed cursor (so
    `next_seek_mix`, `exhausted_invalid`, … apply) over exactly the ids that hold all the values,
    in key order. -/
theorem allOf_exact (d : Dir) (t : Desc.Table) (ht : Desc.Table.Functional t) (values : List Bytes)
    (hv : values ≠ []) :
    (Desc.allOf d t values).WF ∧
    (Desc.allOf d t values).list = order d (dedupSort (Desc.hasAll t values)) ∧
    (Desc.allOf d t values).open.toList (Desc.allOf d t values).fuel =
      .ok ((order d (dedupSort (Desc.hasAll t values))).map (Desc.allOf d t values).render) := by
  have hwf := Desc.allOf_wf d t values
  have hl : (Desc.allOf d t values).list = order d (dedupSort (Desc.hasAll t values)) := by
    rw [Desc.allOf_list d ht values hv, sortD_eq_order]
  refine ⟨hwf, hl, ?_⟩
  have := (Desc.implements _ hwf).toList_eq (fuel := (Desc.allOf d t values).fuel)
    (by rw [Desc.spec_list]; exact Desc.list_lt_fuel _)
  rwa [Desc.spec_list, hl] at this

/-- **IteratorMatchingAnyOf**: exactly the ids that hold at least one of the values, once each
    (an id holding several of them is not repeated), in key order; no panic when no id matches
    (the tree set is then empty). -/
theorem anyOf_exact (d : Dir) (t : Desc.Table) (values : List Bytes) (hv : values ≠ []) :
    (Desc.anyOf d t values).WF ∧
    (Desc.anyOf d t values).list = order d (dedupSort (Desc.hasAny t values)) ∧
    (Desc.anyOf d t values).open.toList (Desc.anyOf d t values).fuel =
      .ok ((order d (dedupSort (Desc.hasAny t values))).map (Desc.anyOf d t values).render) := by
  have hwf := Desc.anyOf_wf d t values
  have hl : (Desc.anyOf d t values).list = order d (dedupSort (Desc.hasAny t values)) := by
    rw [Desc.anyOf_list d t values hv, sortD_eq_order]
  refine ⟨hwf, hl, ?_⟩
  have := (Desc.implements _ hwf).toList_eq (fuel := (Desc.anyOf d t values).fuel)
    (by rw [Desc.spec_list]; exact Desc.list_lt_fuel _)
  rwa [Desc.spec_list, hl] at this

/-- non-vacuity of `Table.Functional`, and AnyOf over values nobody holds (the case that used to panic) -/
example : Desc.Table.Functional [([97], [[114], [113]]), ([98], [[114]])] := by
  intro x r r' h h'
  simp only [List.mem_cons, Prod.mk.injEq, List.mem_nil_iff, or_false] at h h'
  rcases h with ⟨rfl, rfl⟩ | ⟨rfl, rfl⟩ <;> rcases h' with ⟨h1, rfl⟩ | ⟨h1, rfl⟩ <;> first | rfl | (simp at h1)
example : (Desc.anyOf .fwd [([97], [[114]])] [[120], [121]]).open.run [.next] = [.invalid, .invalid] := by decide

/-- sliceSetCursor enumerates its slice (any list) -/
theorem slice_exact (vals : List Bytes) (ops : List Op) :
    (sliceCursor vals).run ops = (Spec.plain vals).openRun ops := by
  have := (sliceCursor_implements vals).run_eq ops
  rwa [map_render_some] at this

/-- **stackedCursor** (the cursor of a composite set symbol such as `others.tags`; not a set
    cursor: it walks a chain of path elements depth first).  For every non-empty chain, every
    row and every script it yields exactly the depth-first concatenation of the keys of its path
    elements, values without their type byte, and is invalid afterwards; no panic, and the loop
    of `calculateNextCursorPosition` ends within `stackedFuel` iterations. -/
theorem stacked_exact (l0 : Level) (ls : List Level) (rowId : Option Bytes) (ops : List Op) :
    (stackedOpen (l0 :: ls) rowId (stackedFuel (l0 :: ls) rowId)).run ops =
      ((Spec.plain (stackedKeys (l0 :: ls) rowId)).openRun ops).map (Obs.render rowKeyOf) :=
  (stackedOpen_implements l0 ls rowId (Nat.le_refl _)).run_eq ops


/-! ### re-used cursor objects: nothing leaks from one opening into the next

  A query keeps ONE runtime object per set symbol and calls `OpenCursor(tx, rowId)` on it for every
  row it visits (`rowCursorImpl.symbolCache`), leaving it wherever the evaluation of the previous
  row stopped (`anyOf` stops at its first match, `isEmpty` does not move at all, a seek may have
  been made, …).  A *script* is a sequence of segments `(k, ops)` — open on row `k`, run `ops` —
  executed on one object from an arbitrary state `s`.  The theorems: segment by segment the object
  behaves exactly like a fresh cursor over the set of row `k` (and hence like the list
  specification of that set). -/

/-- the description of the fresh set-symbol cursor of a row: no bucket / a bucket holding `xs` -/
def setRowDesc : Option (List Bytes) → Desc
  | none => .setsymNone
  | some xs => .setsym xs

theorem setRowDesc_spec (row : Option (List Bytes)) : (setRowDesc row).spec = setRowSpec row := by
  cases row <;> rfl

theorem setRowDesc_implements (row : Option (List Bytes)) :
    (setRowDesc row).open.Implements (setRowSpec row) renderNilEmpty := by
  have := Desc.implements (setRowDesc row) (by cases row <;> trivial)
  rw [setRowDesc_spec] at this
  cases row <;> exact this

/-- **entitySetSymbolRuntime, re-opened.**  For every assignment of sets (or "no bucket") to rows,
    every sequence of segments and EVERY state `s` the object may have been left in: the
    observations are, segment by segment, those of a fresh cursor over the row's set, i.e. those of
    the list specification of that set (elements in key order, `SeekToString` to the first element
    `≥ v`). -/
theorem reopen_setsym {κ : Type} (rows : κ → Option (List Bytes)) (segs : List (κ × List Op)) (s : SetSymCur) :
    (setSymReusable rows).run segs s = segs.flatMap (fun seg => (setRowDesc (rows seg.1)).open.run seg.2) ∧
    (setSymReusable rows).run segs s =
      segs.flatMap fun seg => ((setRowDesc (rows seg.1)).spec.openRun seg.2).map (Obs.render renderNilEmpty) := by
  have h := setSymReusable_implements rows
  refine ⟨h.run_eq_fresh (fresh := fun k => (setRowDesc (rows k)).open) (fun k => setRowDesc_implements (rows k)) segs s, ?_⟩
  rw [h.run_eq segs s]
  congr 1; funext seg; rw [setRowDesc_spec]

theorem setSymSpec_nil_run : ∀ (ops : List Op), (setSymSpec []).run ops [] = List.replicate ops.length .invalid
  | [] => rfl
  | op :: ops => by
    have ih := setSymSpec_nil_run ops
    cases op <;>
      simp [Spec.run, Spec.method, setSymSpec, Spec.seekIn, Spec.observe, List.replicate_succ] <;> exact ih

/-- **A row without elements after anything.**  Whatever was done to the object before (any
    segments `before`, from any state `s` — e.g. left standing on an element of another row), opening
    it on a row that has no bucket for the set, or an empty one, yields a cursor that is invalid at
    once and after every operation; the earlier observations are unaffected. -/
theorem reopen_empty_invalid {κ : Type} (rows : κ → Option (List Bytes)) (k : κ)
    (hk : ∀ xs, rows k = some xs → ∀ x, x ∉ xs) (before : List (κ × List Op)) (ops : List Op) (s : SetSymCur) :
    (setSymReusable rows).run (before ++ [(k, ops)]) s =
      (setSymReusable rows).run before s ++ List.replicate (ops.length + 1) .invalid := by
  have h := setSymReusable_implements rows
  rw [h.run_eq, h.run_eq, List.flatMap_append]
  congr 1
  have hE : setRowSpec (rows k) = setSymSpec [] := by
    cases hr : rows k with
    | none => rfl
    | some xs =>
      have : dedupSort xs = [] := List.eq_nil_iff_forall_not_mem.2 (fun x hx => hk xs hr x (mem_sortD.1 hx))
      simp [setRowSpec, this]
  have hrun : ((setSymSpec []).openRun ops).map (Obs.render renderNilEmpty) =
      List.replicate (ops.length + 1) .invalid := by
    simp only [Spec.openRun, show (setSymSpec []).list = [] from rfl, setSymSpec_nil_run]
    simp [Spec.observe, Obs.render, List.replicate_succ]
  simp only [List.flatMap_cons, List.flatMap_nil, List.append_nil, hE, hrun]

/-- **compositeEntitySetSymbol, re-opened** (`others.tags`, …): every `OpenCursor` yields the
    depth-first concatenation for the new row, whatever state the previous stacked cursor was in. -/
theorem reopen_stacked {κ : Type} (l0 : Level) (ls : List Level) (rowOf : κ → Option Bytes) (fuel : Nat)
    (hf : ∀ k, stackedFuel (l0 :: ls) (rowOf k) ≤ fuel) (segs : List (κ × List Op)) (s : StackedCur) :
    (compReusable (l0 :: ls) fuel rowOf).run segs s =
      segs.flatMap fun seg =>
        ((Spec.plain (stackedKeys (l0 :: ls) (rowOf seg.1))).openRun seg.2).map (Obs.render rowKeyOf) :=
  (compReusable_implements l0 ls fuel rowOf hf).run_eq segs s

/-- **The sub-query cursor over a set symbol, row after row** (`OpenSetCursorForQuery`: a new
    scanner around the re-opened runtime symbol; no paging).  Segment by segment: the linked ids of
    the row that have a key, pass the child-store test and the filter, in key order; `Seek` is the
    set symbol's raw `Seek` followed by the next accepted row. -/
theorem reopen_subquery_setsym {κ : Type} (rows : κ → Option (List Bytes)) (cfg : ScanCfg) (hcfg : cfg.Unpaged)
    (fuel : Nat) (hf : ∀ k, (setRowSpec (rows k)).list.length + 1 < fuel) (segs : List (κ × List Op))
    (st : ScanState SetSymCur) :
    (scanReusable (setSymReusable rows) cfg fuel).run segs st =
      segs.flatMap fun seg =>
        ((scanSpecR (setRowSpec (rows seg.1)) renderNilEmpty (cfg.keepR renderNilEmpty)).openRun seg.2).map
          (Obs.render renderNilEmpty) :=
  (scanReusable_implements (setSymReusable_implements rows) (fun _ => setSymSpec_stateless _) hcfg hf).run_eq segs st

/-- **The sub-query cursor over a composite set symbol, row after row** (`from others.things where …`):
    the wrapped stacked cursor has no `Seek`, so `Seek` is the forward-only fallback loop. -/
theorem reopen_subquery_stacked {κ : Type} (l0 : Level) (ls : List Level) (rowOf : κ → Option Bytes) (cfg : ScanCfg)
    (hcfg : cfg.Unpaged) (fuel fuel' : Nat) (hf : ∀ k, stackedFuel (l0 :: ls) (rowOf k) ≤ fuel)
    (hf' : ∀ k, (stackedKeys (l0 :: ls) (rowOf k)).length + 1 < fuel') (segs : List (κ × List Op))
    (st : ScanState StackedCur) :
    (scanReusable (compReusable (l0 :: ls) fuel rowOf) cfg fuel').run segs st =
      segs.flatMap fun seg =>
        ((scanSpecR (Spec.plain (stackedKeys (l0 :: ls) (rowOf seg.1))) rowKeyOf (cfg.keepR rowKeyOf)).openRun seg.2).map
          (Obs.render rowKeyOf) :=
  (scanReusable_implements (compReusable_implements l0 ls fuel rowOf hf) (fun _ => plain_stateless _) hcfg hf').run_eq
    segs st

/-- **The non-seekable fallback of `uniqueIndexScanner.Seek`.**  For ANY wrapped cursor without a
    `Seek` method (it implements `Spec.plain L`, rendering through any `r`), after ANY script,
    `Seek(v)` leaves the scanner on the first of the rows *still ahead of it* whose value is not
    below `v`, or invalid if there is none — a forward-only seek: it never moves backwards, the loop
    ends within the budget, nothing panics. -/
theorem scan_fallback_seek {c : AnyCursor} {L : List Bytes} {r : Render} (h : c.Implements (Spec.plain L) r)
    (cfg : ScanCfg) (hcfg : cfg.Unpaged) {fuel : Nat} (hf : L.length + 1 < fuel) (ops : List Op) (v : Bytes) :
    ((newScanCursor c cfg fuel).run (ops ++ [.seek v])).getLast? =
      some ((Spec.observe
        ((specState (scanSpecR (Spec.plain L) r (cfg.keepR r)) ops (L.filter (cfg.keepR r))).dropWhile
          (fun x => decide ((r x).getD [] < v)))).render r) := by
  have himp := newScanCursor_implementsR h (plain_stateless L) hcfg (fuel := fuel) hf
  rw [himp.run_eq, Spec.openRun, spec_run_snoc]
  simp only [Spec.method, scanSpecR, Spec.std, Option.map_some, List.map_cons, List.map_append, List.map_nil]
  exact getLast?_cons_snoc _ _ _

/-- **The paged sub-query cursor** (`from others where … skip S limit L`), re-opened row after row
    and driven with `Next` (the `SetCursor` interface the set functions use): for ANY re-used set
    symbol object that implements its row specifications (`setSymReusable_implements`,
    `compReusable_implements`), every opening shows the window `drop S / take L` of the rows of the
    NEW row's set that the query accepts — offset and limit counters do not carry over from the
    previous row, nor does its position. -/
theorem reopen_subquery_paged {σ κ : Type} {U : Reusable σ κ} {S : κ → Spec} {r : κ → Render}
    (h : U.Implements S r) (cfg : ScanCfg) {fuel : Nat} (hf : ∀ k, (S k).list.length < fuel)
    (segs : List (κ × List Op)) (hsegs : ∀ seg ∈ segs, NextOnlyOps seg.2) (st : ScanState σ) :
    (scanReusable U cfg fuel).run segs st =
      segs.flatMap fun seg =>
        ((Spec.plain (cfg.page 0 0 ((S seg.1).list.filter (cfg.keepR (r seg.1))))).openRun seg.2).map
          (Obs.render (r seg.1)) := by
  rw [← Reusable.run_nextOnly _ segs hsegs st]
  exact (scanReusable_implementsP h cfg hf).run_eq segs st

/-- the window of a fresh scanner: drop `skip`, take `limit` -/
theorem page_fresh (cfg : ScanCfg) (K : List Bytes) :
    cfg.page 0 0 K = match cfg.targetLimit with
      | none => K.drop cfg.targetOffset
      | some l => (K.drop cfg.targetOffset).take l := by
  unfold ScanCfg.page; cases cfg.targetLimit <;> simp

/-- a paged sub-query re-opened: row 0 links `a b c`, row 1 `b c d`; `skip 1 limit 1` shows `b`, then `c` -/
example : (scanReusable (setSymReusable (fun k : Nat => if k = 0 then some [[97], [98], [99]] else some [[98], [99], [100]]))
      { skipRow := fun _ => false, filter := fun _ => true, targetOffset := 1, targetLimit := some 1 } 9).run
    [(0, [.next]), (1, [.next])] { cursor := setSymNew, current := none, offset := 0, collected := 0 } =
    [.value (some [98]), .invalid, .value (some [99]), .invalid] := by decide

/-- non-vacuity: a stacked cursor (no `Seek`) wrapped by the scanner; a fuel that satisfies the hypotheses -/
example : ∃ (c : AnyCursor) (L : List Bytes), c.Implements (Spec.plain L) rowKeyOf ∧ L.length + 1 < 9 :=
  ⟨stackedOpen [fun _ => [[5, 97], [5, 98]]] none 9, [[5, 97], [5, 98]],
    stackedOpen_implements _ [] none (by decide), by decide⟩

/-- the sample of the class: left standing on `a` of row 0, re-opened on a row without bucket -/
example : (setSymReusable (fun k : Nat => if k = 0 then some [[97], [98]] else none)).run
    [(0, []), (1, [.next]), (0, [.next, .next])] setSymNew =
    [.value (some [97]), .invalid, .invalid, .value (some [97]), .value (some [98]), .invalid] := by decide


/-! ### several cursors alive at once -/

/-- **Cursors alive at once do not disturb each other.**  For any well-formed descriptions opened
    together (from one bucket object, one link collection, one store, one transaction) and any
    interleaved script, the observations are those of each cursor run ALONE on the operations
    addressed to it, i.e. of its own list specification — a `Next` or `Seek` on one never moves
    another.  (True of the model because each modelled cursor owns its bbolt cursor, as
    `bucket.Cursor()` per opening gives in the code; the correspondence run is what ties it.) -/
theorem interleaved_cursors_independent (ds : List Desc) (hwf : ∀ d ∈ ds, d.WF) (script : List (Nat × Op)) :
    multiRun ds script = multiSpec ds script := by
  unfold multiRun multiSpec
  congr 1
  funext i
  cases hi : ds[i]? with
  | none => exact next_seek_mix .empty trivial _
  | some d => exact next_seek_mix d (hwf d (List.mem_of_getElem? hi)) _

/-- a forward and a reverse cursor over one list bucket walking in lock step -/
example : multiRun [.tfwd 5 [[97], [98], [99]], .trev 5 [[97], [98], [99]]] [(0, .next), (1, .next), (0, .next), (1, .seek [97])] =
    [.value (some [97]), .value (some [99]), .value (some [98]), .value (some [98]), .value (some [99]),
     .value (some [97])] := by decide

/-! ### non-vacuity and concrete instances -/

/-- a well-formed nested description: union of a filtered typed reverse cursor and a tree set -/
example : (Desc.union .rev (.filt (.trev 5 [[97], [], [98]]) [[97], []]) (.tree .rev false [[99], [97]])).WF := by
  refine ⟨trivial, trivial, rfl, rfl⟩

/-- both renders in use are faithful (non-vacuity of `Faithful`) -/
example : Faithful some ∧ Faithful renderNilEmpty := ⟨faithful_some, faithful_nilEmpty⟩

example : (Desc.validIds (.scan (.fwd [[97], [98], [99]]) [] [[97], [99]]) [[99]]).WF :=
  ⟨⟨trivial, rfl, rfl⟩, rfl⟩

/-- the empty-string element is an element like any other for the typed cursors … -/
example : (Desc.tfwd 5 [[97], []]).open.run [.next, .next] = [.value (some []), .value (some [97]), .invalid] := by decide
/-- … reverse `Seek` on an exact hit returns the element, not the stored key … -/
example : (Desc.trev 5 [[97], [98]]).open.run [.seek [97]] = [.value (some [98]), .value (some [97])] := by decide
/-- … and a tree cursor over the empty set is invalid, not a panic. -/
example : (Desc.tree .fwd false []).open.run [.next] = [.invalid, .invalid] := by decide

/-- a union over the set-symbol cursor, which returns nil for the empty element: the union is
    valid on it and goes on (before cd6cfe4 it reported invalid here: `current == nil`) -/
example : (Desc.union .fwd (.setsym [[], [97]]) (.tfwd 5 [[98]])).open.run [.next, .next, .next] =
    [.value none, .value (some [97]), .value (some [98]), .invalid] := by decide


/-! ### cursor objects re-opened / re-sought after the set under them was REWRITTEN (one write transaction)

  Between the operations of one script the world is written: a `store.Update` deletes and re-creates
  the list bucket of the row the cursor stands on, single keys are put or deleted, links added or removed,
  entities created or deleted, the data a filter reads changes (Cursor/Write.lean, Cursor/World.lean).
  A script is a list of items `writes; entry; operations`, the entry being `open k` (OpenCursor /
  the provider / OpenSetCursorForQuery / IterateIds again) or `Seek v` / `SeekToString v` on the object
  as it stands.  Guaranteed — and proved here for every world, every write function, every script and
  EVERY state the object may be in (whatever it cached: bbolt cursor, bucket, position, value, row):
  after the entry the object walks the CURRENT set.  Not promised (the model answers `unspecified`, the
  same on both sides of every equation below): a re-seek on a cursor whose bucket object was replaced
  (`ident` changed), or through the forward-only fallback loop; `Next` straight after a write. -/

/-- **Every script over a written world: the set symbol follows the current world.**  For every
    assignment of sets to rows per world, every bucket-identity function that tells existing from
    missing buckets, every write function, every script of items and every initial state: item by item
    the observations are those of the list specification of the row AS IT IS AT THAT ITEM. -/
theorem write_script_setsym {ω κ ι W : Type} [DecidableEq ι] (rows : ω → κ → Option (List Bytes)) (ident : ω → κ → ι)
    (hid : ∀ w0 w k, ident w0 k = ident w k → (rows w0 k).isSome = (rows w k).isSome)
    (apply : W → ω → ω) (items : List (Item W κ)) (w : ω) (s : SetSymCur) :
    (setSymW rows ident).run apply items w none s =
      specRunW (fun w k => setRowSpec (rows w k)) (fun _ _ => renderNilEmpty) ident true apply items w none :=
  (setSymW_implements rows ident hid).run_eq apply items w s

/-- one `open` item in isolation, for an object implementing its row specifications: from EVERY state, after ANY writes -/
theorem open_item {ω σ κ ι W : Type} [DecidableEq ι] {U : WObject ω σ κ ι} {S : ω → κ → Spec}
    {r : ω → κ → Render} (h : U.Implements S r) (apply : W → ω → ω) (ws : List W) (k : κ) (ops : List Op) (w : ω) (s : σ) :
    U.run apply [⟨ws, .open k, ops⟩] w none s =
      ((S (applyAll apply ws w) k).openRun ops).map (Obs.render (r (applyAll apply ws w) k)) := by
  rw [h.run_eq]
  simp [specRunW, specEnter, Spec.openRun]

/-- **Re-opened after a write: exactly the current set.**  Whatever state `s` the runtime set symbol is
    in — left on any element of any row, opened on this very row `k` before the rewrite, exhausted, never
    opened —, after ANY writes `ws` (the row's bucket deleted and re-created, keys put or deleted, the entity
    deleted, …) `OpenCursor` on row `k` followed by any script shows the observations of a fresh cursor over
    the set the row holds NOW; iterated to exhaustion: exactly its elements, once each, in key order. -/
theorem reopen_after_write_enumerates_current {ω κ ι W : Type} [DecidableEq ι] (rows : ω → κ → Option (List Bytes))
    (ident : ω → κ → ι) (hid : ∀ w0 w k, ident w0 k = ident w k → (rows w0 k).isSome = (rows w k).isSome)
    (apply : W → ω → ω) (ws : List W) (k : κ) (ops : List Op) (w : ω) (s : SetSymCur) :
    (setSymW rows ident).run apply [⟨ws, .open k, ops⟩] w none s =
        (setRowDesc (rows (applyAll apply ws w) k)).open.run ops ∧
    (setSymW rows ident).run apply [⟨ws, .open k, ops⟩] w none s =
        ((setRowSpec (rows (applyAll apply ws w) k)).openRun ops).map (Obs.render renderNilEmpty) ∧
    ∀ s', (setSymW rows ident).reopen (applyAll apply ws w) k s = .ok s' →
      setSym.toList ((((rows (applyAll apply ws w) k).map dedupSort).getD []).length + 1) s' =
        .ok ((((rows (applyAll apply ws w) k).map dedupSort).getD []).map renderNilEmpty) := by
  have h := setSymW_implements rows ident hid
  refine ⟨?_, open_item h apply ws k ops w s, ?_⟩
  · rw [open_item h apply ws k ops w s, (setRowDesc_implements _).run_eq]
  · intro s' hs'
    have hR := setSym_reopen_row (rows (applyAll apply ws w) k) s
    simp only [setSymW, Outcome.ok.injEq] at hs'
    subst hs'
    exact (setSym_refines_row _).toList_eq _ hR (by simp [setRowSpec, setSymSpec])

/-- **SeekToString after re-opening after a write**: lands on the first element `≥ v` of the set the row
    holds NOW (or the cursor is invalid), whatever the object cached and whatever was done since the open. -/
theorem seek_after_reopen_after_write {ω κ ι W : Type} [DecidableEq ι] (rows : ω → κ → Option (List Bytes))
    (ident : ω → κ → ι) (hid : ∀ w0 w k, ident w0 k = ident w k → (rows w0 k).isSome = (rows w k).isSome)
    (apply : W → ω → ω) (ws : List W) (k : κ) (ops : List Op) (v : Bytes) (w : ω) (s : SetSymCur) :
    ((setSymW rows ident).run apply [⟨ws, .open k, ops ++ [.seekS v]⟩] w none s).getLast? =
      some (match ((((rows (applyAll apply ws w) k).map dedupSort).getD []).filter (fun x => decide (v ≤ x))).head? with
        | some x => .value (renderNilEmpty x)
        | none => .invalid) := by
  rw [open_item (setSymW_implements rows ident hid), Spec.openRun, spec_run_snoc]
  generalize hE : ((rows (applyAll apply ws w) k).map dedupSort).getD [] = E
  have hs : Sorted .fwd E := by
    subst hE
    cases rows (applyAll apply ws w) k with
    | none => exact List.Pairwise.nil
    | some xs => exact sorted_sortD
  simp only [setRowSpec, hE, Spec.method, setSymSpec, Option.map_some, List.map_cons, List.map_append, List.map_nil]
  rw [getLast?_cons_snoc, Spec.seekIn, dropWhile_eq_filter v hs, not_before_fwd]
  cases (E.filter fun x => decide (v ≤ x)) <;> rfl

/-- **Re-sought after single-key writes.**  The set symbol is opened on row `k` (after any writes `ws0`, from any
    state), driven by any script, then the row is written WITHOUT replacing its bucket object (`ident` unchanged:
    keys put / deleted, links added / removed) and `SeekToString v` is called on the object as it stands: it
    lands on the first element `≥ v` of the CURRENT set — bbolt searches the live bucket from its root —, and
    the following operations follow the current set's specification. -/
theorem reseek_after_keywrite_setsym {ω κ ι W : Type} [DecidableEq ι] (rows : ω → κ → Option (List Bytes))
    (ident : ω → κ → ι) (hid : ∀ w0 w k, ident w0 k = ident w k → (rows w0 k).isSome = (rows w k).isSome)
    (apply : W → ω → ω) (ws0 ws : List W) (k : κ) (ops0 ops : List Op) (v : Bytes) (w : ω) (s : SetSymCur)
    (hsame : ident (applyAll apply ws0 w) k = ident (applyAll apply ws (applyAll apply ws0 w)) k) :
    (setSymW rows ident).run apply [⟨ws0, .open k, ops0⟩, ⟨ws, .seekS v, ops⟩] w none s =
      ((setRowSpec (rows (applyAll apply ws0 w) k)).openRun ops0).map (Obs.render renderNilEmpty) ++
      (let cur := setRowSpec (rows (applyAll apply ws (applyAll apply ws0 w)) k)
       (Spec.observe (Spec.seekIn .fwd cur.list v) :: cur.run ops (Spec.seekIn .fwd cur.list v)).map
         (Obs.render renderNilEmpty)) := by
  rw [write_script_setsym rows ident hid]
  simp [specRunW, specEnter, Spec.openRun, hsame, setRowSpec, setSymSpec]

/-- **The bolt cursor adapters, re-sought after single-key writes** (`ForwardBoltCursor`, `ReverseBoltCursor`,
    `TypedForward/TypedReverseBoltCursor` as handed out by `TypedBucket`, `GetRelatedEntitiesCursor`, `IterateLinks`):
    every script of writes / `open` (a new cursor) / `Seek` on the live cursor follows the list specification of the
    bucket's CURRENT keys — forward: first element `≥ v`; reverse: last element `≤ v`. -/
theorem write_script_bolt {ω κ ι W : Type} [DecidableEq ι] (tag : UInt8) (elems : ω → κ → List Bytes) (ident : ω → κ → ι)
    (hE : ∀ w k, Asc (elems w k)) (apply : W → ω → ω) (items : List (Item W κ)) (w : ω) (s : BoltCur) :
    (tfwdW tag elems ident).run apply items w none s =
      specRunW (fun w k => Spec.seekable .fwd (elems w k)) (fun _ _ => some) ident true apply items w none ∧
    (trevW tag elems ident).run apply items w none s =
      specRunW (fun w k => Spec.seekable .rev (elems w k).reverse) (fun _ _ => some) ident true apply items w none ∧
    (fwdW elems ident).run apply items w none s =
      specRunW (fun w k => Spec.seekable .fwd (elems w k)) (fun _ _ => some) ident true apply items w none ∧
    (revW elems ident).run apply items w none s =
      specRunW (fun w k => Spec.seekable .rev (elems w k).reverse) (fun _ _ => some) ident true apply items w none :=
  ⟨(tfwdW_implements tag elems ident).run_eq apply items w s, (trevW_implements tag elems ident hE).run_eq apply items w s,
    (fwdW_implements elems ident).run_eq apply items w s, (revW_implements elems ident hE).run_eq apply items w s⟩

/-- **Objects that are only re-opened** (a composite set symbol's stacked cursor, the sub-query scanner over
    it, the paged sub-query scanner, a provider): if in every world the object implements the row specifications
    of that world from every state (`reopen_stacked`, `reopen_subquery_*`), then over a written world every
    script of `writes; open k; operations` shows, item by item, the specification of the row in the world of that item. -/
theorem reopen_after_write_any {ω σ κ W : Type} {U : ω → Reusable σ κ} {S : ω → κ → Spec} {r : ω → κ → Render}
    (h : ∀ w, (U w).Implements (S w) (r w)) (apply : W → ω → ω) (items : List (Item W κ)) (w : ω) (s : σ) :
    (WObject.ofFamily U).run apply items w none s = specRunW S r (fun _ _ => ()) false apply items w none :=
  (WObject.ofFamily_implements h).run_eq apply items w s

/-- … the stacked cursor of a composite set symbol whose chain reads the written world -/
theorem reopen_after_write_stacked {ω κ W : Type} (chain : ω → Level × List Level) (rowOf : κ → Option Bytes) (fuel : Nat)
    (hf : ∀ w k, stackedFuel ((chain w).1 :: (chain w).2) (rowOf k) ≤ fuel)
    (apply : W → ω → ω) (items : List (Item W κ)) (w : ω) (s : StackedCur) :
    (WObject.ofFamily fun w => compReusable ((chain w).1 :: (chain w).2) fuel rowOf).run apply items w none s =
      specRunW (fun w k => Spec.plain (stackedKeys ((chain w).1 :: (chain w).2) (rowOf k))) (fun _ _ => rowKeyOf)
        (fun _ _ => ()) false apply items w none :=
  reopen_after_write_any (fun w => compReusable_implements (chain w).1 (chain w).2 fuel rowOf (hf w)) apply items w s

/-- … the paged sub-query scanner (`Next` only) around ANY re-used symbol object: every opening shows the window
    `drop S / take L` of the accepted rows of the row's CURRENT set -/
theorem reopen_after_write_subquery_paged {ω σ κ W : Type} {U : ω → Reusable σ κ} {S : ω → κ → Spec} {r : ω → κ → Render}
    (h : ∀ w, (U w).Implements (S w) (r w)) (cfg : ScanCfg) {fuel : Nat} (hf : ∀ w k, (S w k).list.length < fuel)
    (apply : W → ω → ω) (items : List (Item W κ)) (w : ω) (st : ScanState σ) :
    (WObject.ofFamily fun w => (scanReusable (U w) cfg fuel).nextOnly).run apply items w none st =
      specRunW (fun w k => Spec.plain (cfg.page 0 0 ((S w k).list.filter (cfg.keepR (r w k))))) r
        (fun _ _ => ()) false apply items w none :=
  reopen_after_write_any (fun w => scanReusable_implementsP (h w) cfg (hf w)) apply items w st

/-- **The sub-query scanner over the set symbol, re-opened and re-sought after writes** (no paging): the accepted
    linked ids of the row's CURRENT set; `Seek` = the set symbol's raw seek in the live bucket, then the next accepted row. -/
theorem write_script_subquery_setsym {ω κ ι W : Type} [DecidableEq ι] (rows : ω → κ → Option (List Bytes)) (ident : ω → κ → ι)
    (hid : ∀ w0 w k, ident w0 k = ident w k → (rows w0 k).isSome = (rows w k).isSome)
    (cfg : ω → ScanCfg) (hcfg : ∀ w, (cfg w).Unpaged) (fuel : Nat)
    (hf : ∀ w k, (setRowSpec (rows w k)).list.length + 1 < fuel)
    (apply : W → ω → ω) (items : List (Item W κ)) (w : ω) (st : ScanState SetSymCur) :
    (scanW (setSymW rows ident) cfg fuel).run apply items w none st =
      specRunW (fun w k => scanSpecR (setRowSpec (rows w k)) renderNilEmpty ((cfg w).keepR renderNilEmpty))
        (fun _ _ => renderNilEmpty) ident true apply items w none :=
  (scanW_implements (setSymW_implements rows ident hid) (fun _ _ => setSymSpec_stateless _) hcfg hf
    (fun _ _ => ⟨_, rfl⟩)).run_eq apply items w st

theorem keepR_some (cfg : ScanCfg) : cfg.keepR some = cfg.keep := by
  funext x; simp [ScanCfg.keepR]

theorem seekable_stateless (d : Dir) (L : List Bytes) : (Spec.seekable d L).SeekStateless := by
  intro g hg v rem
  simp only [Spec.std, if_true, Option.some.injEq] at hg
  subst hg
  exact ⟨rfl, seekIn_length_le d L v⟩

/-- **The id cursor (`IterateIds`) over a written world.**  The ids of the store AND the verdict of the filter
    on each row change between the operations (an entity updated so that it stops / starts matching, created,
    deleted).  For every script of `writes; entry; operations` — entry = a new `IterateIds` cursor, or `Seek v` on
    the live one — and every initial state: after the entry the cursor shows the ids the filter accepts ON THE
    CURRENT DATA, in key order; `Seek v` re-reads the entities bucket and asks the filter again. -/
theorem write_script_idcursor {ω W : Type} (ids : ω → List Bytes) (cfg : ω → ScanCfg) (hcfg : ∀ w, (cfg w).Unpaged)
    (fuel : Nat) (hf : ∀ w, (ids w).length + 1 < fuel) (apply : W → ω → ω) (items : List (Item W Unit)) (w : ω)
    (st : ScanState BoltCur) :
    (idCursorW ids cfg fuel).run apply items w none st =
      specRunW (fun w _ => idSpec (ids w) (cfg w).keep) (fun _ _ => some) (fun _ _ => ()) true apply items w none := by
  have h := (scanW_implements (fwdW_implements (fun w (_ : Unit) => ids w) (fun _ _ => ()))
    (fun w _ => seekable_stateless .fwd (ids w)) hcfg (fuel := fuel) (fun w _ => hf w) (fun _ _ => ⟨_, rfl⟩)).run_eq apply items w st
  simp only [keepR_some] at h
  exact h

/-- **Seek back to a row whose verdict changed.**  An id cursor is opened (after any writes `ws0`, from any state),
    driven by any script — e.g. it stands on row `v` —, then the world is written (`ws`: row `v` is updated so that
    the filter no longer accepts it, or deleted, or a smaller matching id is created) and `Seek v` is called on the
    SAME cursor: it stands on the first id `≥ v` that the filter accepts on the CURRENT data, or is invalid. -/
theorem idcursor_seek_after_write {ω W : Type} (ids : ω → List Bytes) (hids : ∀ w, Sorted .fwd (ids w)) (cfg : ω → ScanCfg)
    (hcfg : ∀ w, (cfg w).Unpaged) (fuel : Nat) (hf : ∀ w, (ids w).length + 1 < fuel) (apply : W → ω → ω)
    (ws0 ws : List W) (ops0 : List Op) (v : Bytes) (w : ω) (st : ScanState BoltCur) :
    ((idCursorW ids cfg fuel).run apply [⟨ws0, .open (), ops0⟩, ⟨ws, .seek v, []⟩] w none st).getLast? =
      some (let w2 := applyAll apply ws (applyAll apply ws0 w)
        match (((ids w2).filter (cfg w2).keep).filter (fun x => decide (v ≤ x))).head? with
        | some x => .value (some x)
        | none => .invalid) := by
  rw [write_script_idcursor ids cfg hcfg fuel hf]
  simp only [specRunW, specEnter]
  generalize applyAll apply ws (applyAll apply ws0 w) = w2
  simp only [idSpec, Bool.true_and, decide_true, if_true, Spec.run, List.map_cons, List.map_nil, List.append_nil]
  rw [List.getLast?_append, List.getLast?_singleton]
  rw [Option.some_or, Option.some.injEq]
  rw [seekIn_filter (hids w2), Spec.seekIn, dropWhile_eq_filter v (sorted_filter _ (hids w2)), not_before_fwd]
  cases (((ids w2).filter (cfg w2).keep).filter fun x => decide (v ≤ x)) <;> rfl

/-! the write paths of the concrete world (Cursor/World.lean) -/

theorem World.find_modify (w : World) (id k : Bytes) (f : WThing → WThing) (hf : ∀ t, (f t).id = t.id) :
    (w.modify id f).find k = (w.find k).map fun t => if t.id == id then f t else t := by
  unfold World.find World.modify
  simp only
  induction w.things with
  | nil => rfl
  | cons t ts ih =>
    simp only [List.map_cons, List.find?_cons]
    have hid' : (if (t.id == id) = true then f t else t).id = t.id := by
      split
      · exact hf t
      · rfl
    rw [hid']
    cases hk : t.id == k with
    | true => rfl
    | false => exact ih

/-- **`store.Update` of the row the cursor stands on**: the `tags` bucket of thing `id` is deleted and re-created
    with `tags`; the set symbol re-opened on `id` — from whatever state, e.g. opened on `id` just before — enumerates
    exactly `tags`, once each, in key order (an emptied set: invalid at once); the bucket object is a new one. -/
theorem reopen_after_update (w : World) (id : Bytes) (tags : List Bytes) (t : WThing) (ht : w.find id = some t) (hti : t.id = id)
    (ops : List Op) (s : SetSymCur) :
    (setSymW World.tagsOf World.tagsIdent).run World.applyWrite [⟨[.setTags id tags], .open id, ops⟩] w none s =
      ((setSymSpec (dedupSort tags)).openRun ops).map (Obs.render renderNilEmpty) ∧
    (World.tagsIdent (World.applyWrite (.setTags id tags) w) id ≠ World.tagsIdent w id ∨ t.gen = w.clock + 1) := by
  have hfind : (World.applyWrite (.setTags id tags) w).find id = some { t with tags := tags, gen := w.clock + 1 } := by
    have h0 : ({ w with clock := w.clock + 1 } : World).find id = some t := ht
    have := World.find_modify { w with clock := w.clock + 1 } id id
      (fun t => { t with tags := tags, gen := w.clock + 1 }) (fun _ => rfl)
    simpa [World.applyWrite, h0, hti] using this
  refine ⟨?_, ?_⟩
  · rw [open_item (setSymW_implements World.tagsOf World.tagsIdent World.tagsIdent_some)]
    simp [applyAll, World.tagsOf, hfind, setRowSpec]
  · by_cases hg : t.gen = w.clock + 1
    · exact .inr hg
    · refine .inl ?_
      simp only [World.tagsIdent, hfind, ht, Option.map_some, ne_eq, Option.some.injEq, Prod.mk.injEq, and_true, true_and]
      exact fun h => hg h.symm

/-- **The entity deleted under the cursor**: re-opened on the deleted row the set symbol is invalid at once and stays so. -/
theorem reopen_after_delete (w : World) (id : Bytes) (ops : List Op) (s : SetSymCur) :
    (setSymW World.tagsOf World.tagsIdent).run World.applyWrite [⟨[.delete id], .open id, ops⟩] w none s =
      List.replicate (ops.length + 1) .invalid := by
  rw [open_item (setSymW_implements World.tagsOf World.tagsIdent World.tagsIdent_some)]
  have hnone : (World.applyWrite (.delete id) w).find id = none := by
    simp only [World.applyWrite, World.find, List.find?_eq_none, List.mem_filter]
    intro t ht
    simpa using ht.2
  simp only [applyAll, List.foldl, World.tagsOf, hnone, Option.map_none, setRowSpec, Option.getD_none, Spec.openRun,
    show (setSymSpec []).list = [] from rfl, setSymSpec_nil_run]
  simp [Spec.observe, Obs.render, List.replicate_succ]

/-- the sample of the class: `tags` of row `e` = {a, b, c}; opened, rewritten to {b, d} by an update, re-opened on the
    same row with no other row in between: b, d — then emptied: invalid at once -/
example : (setSymW World.tagsOf World.tagsIdent).run World.applyWrite
    [⟨[], .open [101], [.next]⟩, ⟨[.setTags [101] [[98], [100]]], .open [101], [.next, .next]⟩,
     ⟨[.setTags [101] []], .open [101], []⟩]
    { things := [{ id := [101], tags := [[97], [98], [99]], others := [], boss := none, rc := none }], others := [] } none setSymNew =
    [.value (some [97]), .value (some [98]), .value (some [98]), .value (some [100]), .invalid, .invalid] := by decide

/-- a re-seek is answered only while the bucket object is the same: after a single key put it is, after the update it is not -/
example : (setSymW World.tagsOf World.tagsIdent).run World.applyWrite
    [⟨[], .open [101], []⟩, ⟨[.putTag [101] [96]], .seekS [], []⟩, ⟨[.setTags [101] [[98]]], .seekS [], []⟩]
    { things := [{ id := [101], tags := [[97]], others := [], boss := none, rc := none }], others := [] } none setSymNew =
    [.value (some [97]), .value (some [96]), .failed "unspecified"] := by decide

/-- the id cursor stands on `e1`, `e1` stops matching, `Seek e1`: the next matching id (the second sample of C14-21) -/
example : (idCursorW World.ids
      (fun w => { skipRow := fun _ => false, filter := fun id => ((w.tagsOf id).getD []).contains [120],
                  targetOffset := 0, targetLimit := none }) 9).run World.applyWrite
    [⟨[], .open (), []⟩, ⟨[.setTags [101, 49] [[121]]], .seek [101, 49], [.next]⟩]
    { things := [{ id := [101, 49], tags := [[120]], others := [], boss := none, rc := none },
                 { id := [101, 50], tags := [[122]], others := [], boss := none, rc := none },
                 { id := [101, 51], tags := [[120]], others := [], boss := none, rc := none }], others := [] } none
    { cursor := newForwardBoltCursor [], current := none, offset := 0, collected := 0 } =
    [.value (some [101, 49]), .value (some [101, 51]), .invalid] := by decide

/-- non-vacuity of the identity hypothesis: the identities of the concrete world tell existing from missing buckets -/
example : ∀ w0 w k, World.rcIdent w0 k = World.rcIdent w k → (World.rcOf w0 k).isSome = (World.rcOf w k).isSome :=
  World.rcIdent_some

end StorageModel.Properties.C14

#print axioms StorageModel.Properties.C14.next_seek_mix
#print axioms StorageModel.Properties.C14.enumerates
#print axioms StorageModel.Properties.C14.exhausted_invalid
#print axioms StorageModel.Properties.C14.empty_invalid_no_panic
#print axioms StorageModel.Properties.C14.untagged
#print axioms StorageModel.Properties.C14.seek_forward
#print axioms StorageModel.Properties.C14.seek_reverse
#print axioms StorageModel.Properties.C14.union_exact
#print axioms StorageModel.Properties.C14.filtered_exact
#print axioms StorageModel.Properties.C14.tree_inorder
#print axioms StorageModel.Properties.C14.allOf_exact
#print axioms StorageModel.Properties.C14.anyOf_exact
#print axioms StorageModel.Properties.C14.stacked_exact
#print axioms StorageModel.Properties.C14.reopen_setsym
#print axioms StorageModel.Properties.C14.reopen_empty_invalid
#print axioms StorageModel.Properties.C14.reopen_stacked
#print axioms StorageModel.Properties.C14.reopen_subquery_setsym
#print axioms StorageModel.Properties.C14.reopen_subquery_stacked
#print axioms StorageModel.Properties.C14.scan_fallback_seek
#print axioms StorageModel.Properties.C14.reopen_subquery_paged
#print axioms StorageModel.Properties.C14.interleaved_cursors_independent
#print axioms StorageModel.Properties.C14.write_script_setsym
#print axioms StorageModel.Properties.C14.reopen_after_write_enumerates_current
#print axioms StorageModel.Properties.C14.seek_after_reopen_after_write
#print axioms StorageModel.Properties.C14.reseek_after_keywrite_setsym
#print axioms StorageModel.Properties.C14.write_script_bolt
#print axioms StorageModel.Properties.C14.reopen_after_write_any
#print axioms StorageModel.Properties.C14.reopen_after_write_stacked
#print axioms StorageModel.Properties.C14.reopen_after_write_subquery_paged
#print axioms StorageModel.Properties.C14.write_script_subquery_setsym
#print axioms StorageModel.Properties.C14.write_script_idcursor
#print axioms StorageModel.Properties.C14.idcursor_seek_after_write
#print axioms StorageModel.Properties.C14.reopen_after_update
#print axioms StorageModel.Properties.C14.reopen_after_delete
