import StorageModel.C18.MvccProofs
import StorageModel.C18.Store
import StorageModel.C18.Globals
import StorageModel.C18.ParserPool
import StorageModel.C18.SortFieldsProofs
import StorageModel.Generated.Globals
/-
  C18 — Concurrent use: snapshot-isolated reads and no data races.

  "Read transactions may run queries and lookups concurrently with each other and with a writer:
  every read transaction observes the database exactly as of one committed state (all of a
  transaction's effects on entities, indexes and links, or none of them), and its query results
  equal what a serial execution on that state returns. Parsing, store symbol resolution and the
  error-classification helpers can be called from many goroutines without data races."
  — for all interleavings of N reader goroutines with a writer committing multi-operation
  transactions, and all concurrent uses of the package-level helpers.

  PARTIAL.  Proved here: the MVCC model (StorageModel/C18/Mvcc.lean), for ALL interleavings, and
  an obligation decided over the regenerated table of package-level variables.  NOT provable
  here, and not claimed: that bbolt implements the MVCC model (it is assumed; the correspondence
  harness compares every reader log of the real code with the model on the tagged version), and
  absence of data races in the Go code — that is a property of the Go memory model and the
  scheduler.  The table obligation and the race-detector runs bound it, they do not settle it; the
  table is exactly as good as /verif/extract/globals.go (writes through an alias created
  elsewhere, or inside library types, are not seen).
-/
namespace StorageModel.Properties.C18
open StorageModel.C18

section
variable {V Op Q A : Type} (apply : V → Op → V) (eval : Q → V → A)

/-- **Every observation equals the serial result on the pinned version** — for every interleaving
    (any list of writer / reader events, any number of readers): an observation tagged `k` is the
    answer `eval q` gives on the state produced by executing, serially, the first `k` committed
    write transactions. -/
theorem read_sees_one_version (v0 : V) (evs : List (Ev Op Q)) :
    let s := run apply eval (St.init v0 : St V Op Q A) evs
    ∀ o ∈ s.log, o.tag ≤ s.txs.length ∧ o.a = eval o.q (versionAt apply v0 s.txs o.tag) := by
  intro s o ho
  have hinv := Inv_run apply eval _ evs (Inv_init apply eval v0)
  have hv0 : s.v0 = v0 := by simp only [s]; rw [run_v0]; rfl
  obtain ⟨h1, h2, _⟩ := hinv.log o ho
  exact ⟨h1, by rw [← hv0]; exact h2⟩

/-- … and all observations of one read transaction carry the same tag, i.e. come from ONE version. -/
theorem one_version_per_read_tx (v0 : V) (evs : List (Ev Op Q)) :
    let s := run apply eval (St.init v0 : St V Op Q A) evs
    ∀ o ∈ s.log, ∀ o' ∈ s.log, o.rtx = o'.rtx → o.tag = o'.tag := by
  intro s o ho o' ho' he
  exact (Inv_run apply eval _ evs (Inv_init apply eval v0)).logLog o ho o' ho' he

/-- **All or nothing.**  What a reader sees is always the result of a whole number of committed
    transactions: never a prefix of a transaction's operations, never an open or aborted one. -/
theorem all_or_nothing_visibility (v0 : V) (evs : List (Ev Op Q)) :
    let s := run apply eval (St.init v0 : St V Op Q A) evs
    ∀ o ∈ s.log, ∃ k, k ≤ s.txs.length ∧ o.a = eval o.q ((s.txs.take k).foldl (applyTx apply) v0) := by
  intro s o ho
  obtain ⟨h1, h2⟩ := read_sees_one_version apply eval v0 evs o ho
  exact ⟨o.tag, h1, h2⟩

/-- an aborted write transaction leaves the committed state and the list of committed
    transactions untouched, whatever it did -/
theorem abort_invisible (s : St V Op Q A) (ops : List Op) (hw : s.wcopy = none) :
    let s' := run apply eval s ([.wbegin] ++ ops.map .wop ++ [.wabort])
    s'.cur = s.cur ∧ s'.txs = s.txs ∧ s'.log = s.log ∧ s'.wcopy = none := by
  have key : ∀ (ops : List Op) (t : St V Op Q A) (w : V) (done : List Op), t.wcopy = some (w, done) →
      (run apply eval t (ops.map .wop ++ [.wabort])).cur = t.cur ∧
      (run apply eval t (ops.map .wop ++ [.wabort])).txs = t.txs ∧
      (run apply eval t (ops.map .wop ++ [.wabort])).log = t.log ∧
      (run apply eval t (ops.map .wop ++ [.wabort])).wcopy = none := by
    intro ops
    induction ops with
    | nil => intro t w done h; simp [run, step]
    | cons o os ih =>
      intro t w done h
      simp only [List.map_cons, List.cons_append, run, step, h]
      exact ih _ (apply w o) (done ++ [o]) rfl
  simp only [List.cons_append, List.nil_append, run, step, hw]
  exact key ops _ s.cur [] rfl

end

/-- the check the driver applies to the implementation's reader logs accepts every log the MVCC
    model can produce over the harness' universe (store model C18/Store.lean) -/
theorem model_logs_pass_check (evs : List (Ev WOp Qry)) :
    let s := run applyOp evalQ (St.init [] : St Ver WOp Qry (List Nat)) evs
    ∀ o ∈ s.log, o.tag ≤ s.txs.length ∧ (evalQ o.q (versionAt applyOp [] s.txs o.tag) == o.a) = true := by
  intro s o ho
  obtain ⟨h1, h2⟩ := read_sees_one_version applyOp evalQ [] evs o ho
  refine ⟨h1, ?_⟩
  show (evalQ o.q (versionAt applyOp [] (run applyOp evalQ (St.init []) evs).txs o.tag) == o.a) = true
  rw [h2]; simp

/-! ## Obligation on the regenerated table of package-level variables -/

/-- **No unsynchronised global writes** (a proof about the table, as good as the extractor): every
    package-level variable of zitiql / ast / boltz / objectz is a sync.Pool, an atomic, a mutex, a
    struct guarded by its own sync.Once, or is never assigned / element-written / address-taken
    outside `init()` except under a mutex. -/
theorem no_unsynchronised_global_writes : noUnsyncWrites Generated.globals = true := by decide

/-- the table is not empty by accident: the anchors named in the property are in it, with the
    expected classification -/
theorem global_table_anchors :
    (hasVar Generated.globals "zitiql" "lexerPool" .syncPool && hasVar Generated.globals "zitiql" "parserPool" .syncPool &&
     hasVar Generated.globals "ast" "EnableQueryDebug" .atomic) = true := by decide

/-- **No shared mutable object is handed out** (a proof about the table, as good as the extractor).
    (a) No plain package-level variable whose value is mutable — a slice, a map, a (pointer to a) type with pointer-receiver
    methods that write the receiver, a struct holding one — is returned by a function, embedded in what a function returns,
    or stored into another object: otherwise every caller of that function holds THE SAME object (two `ast.Parse(s, "")`
    calls returning one query node, whose `SetLimit` / `setPaging` then act on everybody's query).
    (b) No function literal that outlives the call that created it (the `impl` closure of `NewBoolFuncSymbol` …) writes a
    variable captured from the enclosing function outside a lock: such a variable exists once per constructor call and is
    shared by every evaluation in every read transaction. -/
theorem no_shared_mutable_escape : noSharedMutableEscape Generated.globals Generated.closures = true := by decide

/-- what the decided Boolean says, spelled out with its quantifiers (for any table) -/
theorem shared_escape_meaning (gs : List GlobalVar) (cs : List Closure) (h : noSharedMutableEscape gs cs = true) :
    (∀ g ∈ gs, g.kind = .plain → g.mutable = true → g.escapes = []) ∧
    (∀ c ∈ cs, ∀ w ∈ c.writes, w.underLock = true) := by
  simp only [noSharedMutableEscape, Bool.and_eq_true, List.all_eq_true] at h
  refine ⟨fun g hg hk hm => ?_, fun c hc w hw => ?_⟩
  · have := h.1 g hg
    simp only [GlobalVar.noSharedEscape, hk, hm, bne_self_eq_false, Bool.not_true, Bool.false_or,
      List.isEmpty_iff] at this
    exact this
  · have := h.2 c hc
    simp only [Closure.ok, List.all_eq_true] at this
    exact this w hw

/-- the escape analysis is not blind on this tree: it sees `ast.Parse` embedding the (immutable) `BoolNodeTrue` in the query
    node it returns, it classifies the maps as mutable, and the closure table contains the external symbol constructors -/
theorem escape_table_anchors :
    (hasEscape Generated.globals "ast" "BoolNodeTrue" "Parse" false &&
     Generated.globals.any (fun g => g.name == "nodeTypeNames" && g.mutable && g.escapes.isEmpty) &&
     hasClosure Generated.closures "boltz" "NewBoolFuncSymbol" && hasClosure Generated.closures "boltz" "NewStringFuncSymbol") = true := by
  decide

/-- **No append onto a shared slice** (a proof about the table, as good as the extractor): every `append` in the four
    packages whose first argument is a slice kept in a struct field or package-level variable — or a local that may alias one —
    assigns the result back to that same field (the object grows), or the stored slice is only spread into a fresh one
    (the per-call copy idiom of `createElementSymbol`, `getIndexPath`, `NewBaseStore`'s entity path); the one other row is the
    reviewed exception listed with its reason in `reviewedAppends`.  Otherwise slices handed to different callers (the bucket
    paths of two element symbols of one map symbol) would share a backing array. -/
theorem no_append_onto_shared_slice : noAppendOntoShared Generated.appends = true := by decide

/-- what the Boolean says, for any table -/
theorem append_table_meaning (rs : List AppendRow) (h : noAppendOntoShared rs = true) :
    ∀ r ∈ rs, r.how = .ontoShared →
      ∃ e ∈ reviewedAppends, e.1 = r.pkg ∧ e.2.1 = r.func ∧ e.2.2.1 = r.operand := by
  intro r hr hh
  simp only [noAppendOntoShared, List.all_eq_true] at h
  have := h r hr
  simp only [AppendRow.ok, hh, bne_self_eq_false, Bool.false_or, List.any_eq_true, Bool.and_eq_true,
    beq_iff_eq] at this
  obtain ⟨e, he, h1⟩ := this
  exact ⟨e, he, h1.1.1, h1.1.2, h1.2⟩

/-- the append table is not blind on this tree: it lists the per-call copy in `createElementSymbol` and in `getIndexPath`,
    the grow-in-place registrations, and the reviewed row is really there (the exception list has no dead entry) -/
theorem append_table_anchors :
    (hasAppend Generated.appends "boltz" "entityMapSymbol.createElementSymbol" "self.prefix" .copyOut &&
     hasAppend Generated.appends "boltz" "Indexer.getIndexPath" "indexer.basePath" .copyOut &&
     hasAppend Generated.appends "boltz" "Indexer.AddConstraint" "indexer.constraints" .assignedBack &&
     hasAppend Generated.appends "boltz" "NewBaseStore" "definition.BasePath" .ontoShared) = true := by decide

/-- **Evaluation does not write node state** (a proof about the table, as good as the extractor): no method of an ast node
    type other than the build/adjust methods (TypeTransform…, Set…, Adopt…) assigns a field or element of its receiver.  A
    compiled query whose skip and limit are explicit (so that `scanner.setPaging`, which calls SetSkip / SetLimit when they
    are absent, stores nothing) is therefore read-only while it is evaluated, and may be run by any number of read
    transactions at once. -/
theorem eval_does_not_write_nodes : evalDoesNotWriteNodes Generated.nodeWrites = true := by decide

theorem node_write_table_meaning (ws : List NodeWrite) (h : evalDoesNotWriteNodes ws = true) :
    ∀ w ∈ ws, w.phase = .eval →
      ∃ e ∈ reviewedNodeWrites, e.1 = w.typ ∧ e.2.1 = w.method ∧ e.2.2.1 = w.field := by
  intro w hw hp
  simp only [evalDoesNotWriteNodes, List.all_eq_true] at h
  have := h w hw
  simp only [NodeWrite.ok, hp, bne_self_eq_false, Bool.false_or, List.any_eq_true, Bool.and_eq_true,
    beq_iff_eq] at this
  obtain ⟨e, he, h1⟩ := this
  exact ⟨e, he, h1.1.1, h1.1.2, h1.2⟩

/-- the node-write table is not blind: it lists the paging setters that `setPaging` calls and a transform-time write -/
theorem node_write_table_anchors :
    (hasNodeWrite Generated.nodeWrites "queryNode" "SetSkip" "Skip" .setup &&
     hasNodeWrite Generated.nodeWrites "queryNode" "SetLimit" "Limit" .setup &&
     hasNodeWrite Generated.nodeWrites "SetFunctionNode" "TypeTransform" "symbol" .setup) = true := by decide

/-- **No process-wide configuration from request paths**: outside `init()` the four packages never call a function of
    another module that sets process-wide state (antlr.ConfigureRuntime, log / logrus / pfxlog setters, os.Setenv,
    rand.Seed, runtime / debug setters …: the deny-list of the extractor) and never assign a package-level variable of
    another module. -/
theorem no_process_wide_config_calls : noProcessWideConfig Generated.configCalls = true := by decide

theorem config_call_table_meaning (cs : List ConfigCall) (h : noProcessWideConfig cs = true) :
    ∀ c ∈ cs, c.inInit = true := by
  intro c hc
  simp only [noProcessWideConfig, List.all_eq_true] at h
  exact h c hc

/-- **Read APIs do not write their arguments** (a proof about the table, as good as the extractor): no function of the four
    packages whose name marks it as a read path (Find…, Iterator…, Query…, Read…, Eval…, Is…, Get…, …) writes through a slice / map /
    pointer parameter — by element assignment, sort.* / slices.Sort*, copy into it, delete / clear, append into param[:k] — or hands it
    to a function of its package that does.  The values slice of an index lookup stays the caller's: several read transactions may
    pass the same slice. -/
theorem read_apis_do_not_write_arguments : readApisDoNotWriteArguments Generated.paramWrites = true := by decide

theorem param_write_table_meaning (ws : List ParamWrite) (h : readApisDoNotWriteArguments ws = true) :
    ∀ w ∈ ws, w.api = .read →
      ∃ e ∈ reviewedParamWrites, e.1 = w.pkg ∧ e.2.1 = w.func ∧ e.2.2.1 = w.param := by
  intro w hw ha
  simp only [readApisDoNotWriteArguments, List.all_eq_true] at h
  have := h w hw
  simp only [ParamWrite.ok, ha, bne_self_eq_false, Bool.false_or, List.any_eq_true, Bool.and_eq_true,
    beq_iff_eq] at this
  obtain ⟨e, he, h1⟩ := this
  exact ⟨e, he, h1.1.1, h1.1.2, h1.2⟩

/-- the table is not blind: it sees SetLinks sorting its `keys` and SetLinkedIds handing its `value` on to it (write apis) -/
theorem param_write_table_anchors :
    (hasParamWrite Generated.paramWrites "boltz" "linkCollectionImpl.SetLinks" "keys" .sort .write &&
     hasParamWrite Generated.paramWrites "boltz" "PersistContext.SetLinkedIds" "value" .via .write) = true := by decide

/-! ## The pooled parser's error listeners (repaired by 956c2a8) -/

open ParserPool in
/-- a discipline that removes all listeners before it adds its own delivers every error only to the collector of the parse
    that produced it — for every sequence of uses of a pooled recogniser, debug parses included, whatever it carried -/
theorem remove_before_delivers_only_to_own (d : Discipline) (hd : d.removeBeforeAlways = true) (carried : List Nat)
    (us : List ParserPool.Use) : onlyOwn (deliveries d carried us) = true := by
  induction us generalizing carried with
  | nil => rfl
  | cons u rest ih =>
    simp only [deliveries, onlyOwn, List.all_append, Bool.and_eq_true]
    refine ⟨?_, by simpa [onlyOwn] using ih _⟩
    split
    · rfl
    · cases h : d.addsCollector <;> simp [during, hd, h]

/-- **The listener discipline of `zitiql.parse` is the repaired one** (a table obligation, regenerated from the source on every
    run): the pooled parser has its listeners removed before the function adds its own AND, deferred so that it runs before
    `parserPool.Put`, after the parse; the pooled lexer has them removed before; both get the caller's collector. -/
theorem listener_discipline_pinned :
    Generated.parserListeners = { removeBeforeAlways := true, removeBeforePlain := false, removeAfterDeferred := true, addsCollector := true } ∧
    Generated.lexerListeners.removeBeforeAlways = true ∧ Generated.lexerListeners.addsCollector = true := by decide

open ParserPool in
/-- **Every parse delivers only to its own collector** — the code as it is, all sequences of plain and debug parses on one
    pooled parser / lexer, whatever the recogniser carried when it came out of the pool -/
theorem every_parse_delivers_only_to_own (carried : List Nat) (us : List ParserPool.Use) :
    onlyOwn (deliveries Generated.parserListeners carried us) = true ∧
    onlyOwn (deliveries Generated.lexerListeners carried us) = true :=
  ⟨remove_before_delivers_only_to_own _ (by decide) carried us, remove_before_delivers_only_to_own _ (by decide) carried us⟩

open ParserPool in
/-- … and the pooled parser never holds anybody's collector while it sits in the pool -/
theorem pooled_parser_carries_no_collector (carried : List Nat) (u : ParserPool.Use) :
    after Generated.parserListeners carried u = [] := by
  simp [after, Generated.parserListeners]

open ParserPool in
/-- the discipline before 956c2a8 (remove only on the plain branch, nothing after): a plain parse by caller 1 (no errors), then
    a debug parse by caller 2 of an input with one syntax error on the same pooled parser — caller 1's collector received
    caller 2's error -/
example :
    deliveries preFix [] [⟨false, 1, 0⟩, ⟨true, 2, 1⟩] = [(1, 2), (2, 2)] ∧
    onlyOwn (deliveries preFix [] [⟨false, 1, 0⟩, ⟨true, 2, 1⟩]) = false := by decide

/-- in the store model a reader's paging lives in the reader's own query: a paged empty filter is a page of the unpaged
    answer on the same version, whatever other queries were evaluated before -/
theorem paged_query_is_page_of_all (sk l : Nat) (v : Ver) :
    evalQ (.qPage sk l) v = page sk l (evalQ .qAll v) ∧ evalQ (.qPage 0 0) v = evalQ .qAll v ∧
    (0 < l → (evalQ (.qPage sk l) v).length ≤ l) := by
  refine ⟨rfl, by simp [evalQ, page], fun hl => ?_⟩
  have : (l == 0) = false := by simp; omega
  simp [evalQ, page, this, List.length_take]
  omega

/-! ## Round 9: the sort fields of one parsed query under several scans -/

/-- no function appends onto a slice that a getter handed out from an object's own storage (decide over the two tables
    regenerated from the source; one reviewed exception, store construction) -/
theorem no_append_onto_handed_out_slice :
    noAppendOntoHandedOutSlice Generated.sliceGetters Generated.resultAppends = true := by decide

/-- what the Boolean says, for any pair of tables -/
theorem result_append_table_meaning (gs : List SliceGetter) (rs : List ResultAppend)
    (h : noAppendOntoHandedOutSlice gs rs = true) :
    ∀ r ∈ rs, (∀ g ∈ gs, g.name ≠ r.getter) ∨
      reviewedResultAppends.any (fun e => e.1 == r.pkg && e.2.1 == r.func && e.2.2.1 == r.getter) = true := by
  intro r hr
  have := List.all_eq_true.1 h r hr
  simp only [ResultAppend.ok, Bool.or_eq_true, Bool.not_eq_true', List.any_eq_false] at this
  rcases this with h1 | h2
  · left; intro g hg; have := h1 g hg; simpa using this
  · right; exact h2

/-- the analysis sees the scanners appending (through `newRowComparator`'s parameter) onto what `GetSortFields` returns,
    in boltz and in objectz, and `GetSortFields` / `getSortFields` are NOT getters of a stored slice in this tree (the
    model `SortFields.getFresh` is the code's shape); it also sees a real stored-slice getter (`GetRootPath`) -/
theorem result_append_table_anchors :
    hasResultAppend Generated.resultAppends "boltz" "sortingScanner.ScanCursor" "GetSortFields" = true ∧
    hasResultAppend Generated.resultAppends "objectz" "memSortingScanner.Scan" "GetSortFields" = true ∧
    Generated.sliceGetters.any (fun g => g.name == "GetSortFields" || g.name == "getSortFields") = false ∧
    Generated.sliceGetters.any (fun g => g.name == "GetRootPath") = true := by decide

/-- **Every scan keeps its own sort fields.**  For every list of sort fields (any length, also those where the slice
    `getSortFields` builds has spare capacity) and any number of scans of the one parsed query, each taking
    `GetSortFields()` and appending its own terminal field: at the end every scan still sees the query's fields followed
    by ITS element (Go's append on a heap of backing arrays, `getSortFields` building a new slice per call) -/
theorem sorted_scans_keep_their_sort_fields (fields xs : List Nat) :
    SortFields.scansSee fields xs = xs.map (fun x => fields ++ [x]) :=
  SortFields.scans_see_their_own fields xs

/-- one scan leaves every array that existed before untouched (the heap only grows) and holds a slice in a new array -/
theorem sorted_scan_touches_no_earlier_array (h0 : SortFields.Heap) (fields : List Nat) (x : Nat) :
    (∃ extra, (SortFields.scan h0 fields x).1 = h0 ++ extra) ∧ h0.length ≤ (SortFields.scan h0 fields x).2.arr ∧
      SortFields.view (SortFields.scan h0 fields x).1 (SortFields.scan h0 fields x).2 = fields ++ [x] := by
  have := SortFields.scan_spec h0 fields x
  exact ⟨this.1, this.2.1, this.2.2.2⟩

/-- the observation `O<k>` of the harness has one answer for every k: both callers hold k+1 fields ending in their own -/
theorem sort_fields_observation (k : Nat) (v : Ver) : evalQ (.sortFieldsTwice k) v = [k + 1, 1, k + 1, 1] := by
  simp [evalQ, SortFields.two_callers_keep_their_own]

/-- the other shape — the `[]SortField` view built ONCE while parsing and handed to every caller: with 3 sort fields
    (append growth 1, 2, 4: one spare slot) the element caller 1 appended is replaced by caller 2's; with 4 fields
    (no spare slot) nothing is shared.  Not the code's shape (`result_append_table_anchors`). -/
example :
    let p := SortFields.getFresh [] [0, 1, 2]
    let a := SortFields.scanStored p.1 p.2 100
    let b := SortFields.scanStored a.1 p.2 200
    (SortFields.view b.1 a.2, SortFields.view b.1 b.2) = ([0, 1, 2, 200], [0, 1, 2, 200]) := by decide
example :
    let p := SortFields.getFresh [] [0, 1, 2, 3]
    let a := SortFields.scanStored p.1 p.2 100
    let b := SortFields.scanStored a.1 p.2 200
    (SortFields.view b.1 a.2, SortFields.view b.1 b.2) = ([0, 1, 2, 3, 100], [0, 1, 2, 3, 200]) := by decide

/-! ## Round 9: the sorted shared texts -/

theorem insertBy_perm (keys : List (Nat × Bool)) (e : Ent) (l : List Ent) : (insertBy keys e l).Perm (e :: l) := by
  induction l with
  | nil => simp [insertBy]
  | cons x r ih =>
    unfold insertBy
    split
    · exact List.Perm.refl _
    · exact (List.Perm.cons x ih).trans (List.Perm.swap e x r)

theorem foldl_insertBy_perm (keys : List (Nat × Bool)) (l : List Ent) :
    ∀ acc, (l.foldl (fun acc e => insertBy keys e acc) acc).Perm (l ++ acc) := by
  induction l with
  | nil => intro acc; simp
  | cons e r ih =>
    intro acc
    simp only [List.foldl_cons]
    refine (ih _).trans ?_
    refine (List.Perm.append_left r (insertBy_perm keys e acc)).trans ?_
    simp

/-- the sorting scanner's rows, before paging, are exactly the rows that satisfy the filter — none dropped, none doubled —
    for every list of sort keys and every version; the answer of a sorted shared text is a page of such a rearrangement -/
theorem sorted_shared_answer_is_page_of_the_filtered_rows (j : Nat) (v : Ver) :
    ∃ s : List Ent, s.Perm (v.filter (fun e => (sharedSort j).2.1 ≤ e.rank)) ∧
      evalSharedSort j v = ((s.drop (sharedSort j).2.2.1).take (sharedSort j).2.2.2).map (·.id) := by
  refine ⟨(v.filter (fun e => (sharedSort j).2.1 ≤ e.rank)).foldl (fun acc e => insertBy (sharedSort j).1 e acc) [], ?_, ?_⟩
  · simpa using foldl_insertBy_perm (sharedSort j).1 (v.filter (fun e => (sharedSort j).2.1 ≤ e.rank)) []
  · simp only [evalSharedSort]
/-! ## Round 14: cursor-style readers; pools; receiver state of shared objects -/

section
variable {V Op Q A : Type} (apply : V → Op → V) (eval : Q → V → A)

/-- **A read repeated inside one read transaction gives the same answer** — for every interleaving: whatever the writer
    committed and whatever other read transactions (pinned to other versions) read in between.  This is the statement the
    "walk a cursor, let others scan, Seek, walk again" readers exercise. -/
theorem repeated_read_in_one_read_tx_is_stable (v0 : V) (evs : List (Ev Op Q)) :
    let s := run apply eval (St.init v0 : St V Op Q A) evs
    ∀ o ∈ s.log, ∀ o' ∈ s.log, o.rtx = o'.rtx → o.q = o'.q → o.a = o'.a := by
  intro s o ho o' ho' hr hq
  obtain ⟨_, h1⟩ := read_sees_one_version apply eval v0 evs o ho
  obtain ⟨_, h2⟩ := read_sees_one_version apply eval v0 evs o' ho'
  have ht := one_version_per_read_tx apply eval v0 evs o ho o' ho' hr
  rw [h1, h2, hq, ht]

end

/-- on one version, the second walk of a cursor after `Seek("a<x>")` is the first walk from `x` on -/
theorem seek_rewalk_is_suffix_of_walk (k a x : Nat) (v : Ver) :
    evalQ (.cSeek k a x) v = (evalQ (.cWalk k a) v).filter (x ≤ ·) := rfl

/-- **The re-walk of a cursor stays in its own snapshot** — store universe, every interleaving of any number of readers
    with the writer: if a read transaction walked cursor (k, a) and later — after any commits and any scans of other read
    transactions — repositions it with Seek and walks again, the second walk is the first walk from the seek position on. -/
theorem rewalk_after_other_scans_sees_own_version (evs : List (Ev WOp Qry)) (k a x : Nat) :
    let s := run applyOp evalQ (St.init [] : St Ver WOp Qry (List Nat)) evs
    ∀ o ∈ s.log, ∀ o' ∈ s.log, o.rtx = o'.rtx → o.q = .cWalk k a → o'.q = .cSeek k a x →
      o'.a = o.a.filter (x ≤ ·) := by
  intro s o ho o' ho' hr hq hq'
  obtain ⟨_, h1⟩ := read_sees_one_version applyOp evalQ [] evs o ho
  obtain ⟨_, h2⟩ := read_sees_one_version applyOp evalQ [] evs o' ho'
  have ht := one_version_per_read_tx applyOp evalQ [] evs o ho o' ho' hr
  rw [h1, h2, hq, hq', ht]
  rfl

/-- the schedule of the reader scenario as an instance: reader 1 walks `name = "n10"` to its end on version 1; the writer
    renames the row in one transaction; reader 2 (version 2) scans; reader 1 seeks back and walks again — and still gets
    its row; reader 2 does not -/
example :
    let evs : List (Ev WOp Qry) :=
      [.wbegin, .wop (.put 1 10 3 [0]), .wop (.put 2 20 1 []), .wcommit,
       .rbegin 1, .rread 1 (.cWalk 5 10),
       .wbegin, .wop (.put 1 11 3 [0]), .wcommit,
       .rbegin 2, .rread 2 (.cWalk 5 11), .rread 2 (.cWalk 5 10),
       .rread 1 (.cSeek 5 10 0), .rread 1 (.cSeek 5 10 2)]
    ((run applyOp evalQ (St.init [] : St Ver WOp Qry (List Nat)) evs).log.map fun o => (o.reader, o.tag, o.a)) =
      [(1, 1, []), (1, 1, [1]), (2, 2, []), (2, 2, [1]), (1, 1, [1])] := by decide

/-- **No pooled object outlives its release** (a proof about the table, as good as extract/globals_fields.go): every
    `Put` into a sync.Pool of the four packages gives back a local that the same function took from the pool, that is neither
    returned, stored, captured nor sent, at the end of the function (deferred) or without touching it afterwards; and there is
    no hand-made free list (package-level slice-of-pointers / channel variable written outside init).  A Put of a receiver, a
    field or a parameter — an object somebody else still points at, like a row cursor released by the scanner that was handed
    out as a cursor — is rejected. -/
theorem no_pooled_object_outlives_release :
    noPooledObjectOutlivesRelease Generated.poolPuts Generated.freeLists = true := by decide

theorem pool_table_meaning (puts : List PoolPut) (frees : List FreeList) (h : noPooledObjectOutlivesRelease puts frees = true) :
    frees = [] ∧ ∀ p ∈ puts, p.argKind = .localFromGet ∧ p.escapes = "" ∧ (p.deferred = true ∨ p.usedAfter = false) := by
  simp only [noPooledObjectOutlivesRelease, Bool.and_eq_true, List.all_eq_true, List.isEmpty_iff] at h
  refine ⟨h.2, fun p hp => ?_⟩
  have := h.1 p hp
  simp only [PoolPut.ok, Bool.and_eq_true, beq_iff_eq, Bool.or_eq_true, Bool.not_eq_true'] at this
  exact ⟨this.1.1, this.1.2, this.2⟩

/-- the table is not blind: it sees the two pools of zitiql and their deferred Puts in `parse` -/
theorem pool_table_anchors :
    (hasPool Generated.pools "zitiql" "lexerPool" && hasPool Generated.pools "zitiql" "parserPool" &&
     hasPoolPut Generated.poolPuts "zitiql" "lexerPool" "parse" && hasPoolPut Generated.poolPuts "zitiql" "parserPool" "parse") = true := by
  decide

/-- **Read APIs do not write the state of shared objects** (a proof about the table): no method that is a read API by name
    (Is… Get… Find… Query… Iterate… Eval… Validate is reached through VisitSymbol / IsPublicSymbol …) or reachable from one
    writes — assignment, map store, element write, append, delete, ++ — a field of its receiver when the receiver type is a
    shared long-lived one (BaseStore, Indexer, the symbol, index, constraint and link-collection types, objectz.ObjectStore and
    its symbols), except under a lock. -/
theorem read_apis_do_not_write_receiver_state : readApisDoNotWriteReceiverState Generated.fieldWrites = true := by decide

theorem receiver_write_table_meaning (ws : List FieldWrite) (h : readApisDoNotWriteReceiverState ws = true) :
    ∀ w ∈ ws, w.api = .read → w.shared = true → w.underLock = false →
      ∃ e ∈ reviewedFieldWrites, e.1 = w.pkg ∧ e.2.1 = w.typ ∧ e.2.2.1 = w.method ∧ e.2.2.2.1 = w.field := by
  intro w hw ha hs hl
  simp only [readApisDoNotWriteReceiverState, List.all_eq_true] at h
  have := h w hw
  simp only [FieldWrite.ok, ha, hs, hl, bne_self_eq_false, Bool.not_true, Bool.false_or, List.any_eq_true, Bool.and_eq_true,
    beq_iff_eq] at this
  obtain ⟨e, he, h1⟩ := this
  exact ⟨e, he, h1.1.1.1, h1.1.1.2, h1.1.2, h1.2⟩

/-- the table is not blind: it sees the registration-time writers of the maps the read APIs consult (write APIs, shared
    types), and per-scan state written on the read path (the row cursor's symbol cache: read, not shared) -/
theorem receiver_write_table_anchors :
    (hasFieldWrite Generated.fieldWrites "boltz" "BaseStore" "addSymbol" "publicSymbols[]" .elem .write true &&
     hasFieldWrite Generated.fieldWrites "boltz" "BaseStore" "MakeSymbolPublic" "publicSymbols[]" .elem .write true &&
     hasFieldWrite Generated.fieldWrites "boltz" "BaseStore" "AddMapSymbol" "mapSymbols[]" .elem .write true &&
     hasFieldWrite Generated.fieldWrites "objectz" "ObjectStore" "AddStringSymbol" "symbols[]" .elem .write true &&
     hasFieldWrite Generated.fieldWrites "boltz" "rowCursorImpl" "getSymbol" "symbolCache[]" .elem .read false) = true := by decide

/-! ## Non-vacuity -/

/-- the table shape of "IsPublicSymbol memoises accepted element names in a map of the store" is rejected -/
example : readApisDoNotWriteReceiverState
    [{ pkg := "boltz", typ := "BaseStore", method := "IsPublicSymbol", field := "publicElements[]", how := FieldWriteHow.elem,
       api := ApiKind.read, shared := true, underLock := false }] = false := by decide
/-- … the same write under the store's lock, or in a per-scan object, is accepted -/
example : readApisDoNotWriteReceiverState
    [{ pkg := "boltz", typ := "BaseStore", method := "IsPublicSymbol", field := "publicElements[]", how := FieldWriteHow.elem,
       api := ApiKind.read, shared := true, underLock := true },
     { pkg := "boltz", typ := "rowCursorImpl", method := "getSymbol", field := "symbolCache[]", how := FieldWriteHow.elem,
       api := ApiKind.read, shared := false, underLock := false }] = true := by decide

/-- the table shape of "the row cursor releases itself into a pool; the scanner handed out as a cursor calls it" is rejected -/
example : noPooledObjectOutlivesRelease
    [{ pkg := "boltz", pool := "rowCursorPool", func := "rowCursorImpl.release", arg := "rs", argKind := PoolArgKind.receiver,
       deferred := false, usedAfter := false, escapes := "" }] [] = false := by decide
example : noPooledObjectOutlivesRelease
    [{ pkg := "zitiql", pool := "parserPool", func := "parse", arg := "p", argKind := PoolArgKind.localFromGet,
       deferred := false, usedAfter := true, escapes := "" }] [] = false := by decide

/-- an interleaving in which a reader that began before a commit keeps answering from the old
    version while a later reader sees the new one, and an aborted transaction is seen by nobody -/
example :
    let evs : List (Ev WOp Qry) :=
      [.wbegin, .wop (.put 1 10 3 [0]), .wcommit,
       .rbegin 0, .rread 0 (.qRankGe 0),
       .wbegin, .wop (.put 2 20 5 [1]), .wop (.del 1), .rread 0 (.load 1), .wcommit,
       .rbegin 1, .rread 1 (.qRankGe 0), .rread 0 (.qRankGe 0),
       .wbegin, .wop (.put 3 30 1 []), .wabort, .rbegin 2, .rread 2 (.qRankGe 0)]
    ((run applyOp evalQ (St.init [] : St Ver WOp Qry (List Nat)) evs).log.map fun o => (o.reader, o.tag, o.a)) =
      [(2, 2, [2]), (0, 1, [1]), (1, 2, [2]), (0, 1, [1, 10, 3, 0]), (0, 1, [1])] := by decide

/-- the obligation is not vacuous: the table shape that `errors.As(err, &pkgVar)` produces is rejected -/
def tableWithErrorsAsTarget : List GlobalVar :=
  [{ pkg := "boltz", name := "testErrorReferenceExists", kind := VarKind.plain,
     writes := [{ func := "IsReferenceExistsError", how := WriteHow.addr, inInit := false, underLock := false }] }]
example : noUnsyncWrites tableWithErrorsAsTarget = false := by decide

/-- … and so is a package-level cache map written in GetSymbol without a lock -/
def tableWithUnlockedCache : List GlobalVar :=
  [{ pkg := "boltz", name := "symbolCache", kind := VarKind.plain,
     writes := [{ func := "BaseStore.GetSymbol", how := WriteHow.elem, inInit := false, underLock := false }] }]
example : noUnsyncWrites tableWithUnlockedCache = false := by decide

/-- the table shape of "ast.Parse returns one package-level query node for the empty filter" is rejected -/
def tableWithSharedEmptyQuery : List GlobalVar :=
  [{ pkg := "ast", name := "emptyQuery", kind := VarKind.plain, writes := [], typ := "*queryNode", mutable := true,
     escapes := [{ func := "Parse", how := EscapeHow.returned }] }]
example : noSharedMutableEscape tableWithSharedEmptyQuery [] = false := by decide
/-- … while an immutable value handed out (BoolNodeTrue) and a mutable one that never leaves (the name maps) are accepted -/
example : noSharedMutableEscape
    [{ pkg := "ast", name := "BoolNodeTrue", kind := VarKind.plain, writes := [], mutable := false,
       escapes := [{ func := "Parse", how := EscapeHow.returned }] },
     { pkg := "ast", name := "nodeTypeNames", kind := VarKind.plain, writes := [], mutable := true, escapes := [] }] [] = true := by decide

/-- the table shape of "one result buffer per symbol, hoisted out of the Eval closure" is rejected -/
def closuresWithHoistedBuffer : List Closure :=
  [{ pkg := "boltz", func := "NewBoolFuncSymbol", escape := EscapeHow.returned,
     writes := [{ name := "buf", how := WriteHow.elem, decl := DeclKind.loc, underLock := false }] }]
example : noSharedMutableEscape [] closuresWithHoistedBuffer = false := by decide

/-- the table shape of "element symbols append their nested keys onto the map symbol's stored path" is rejected -/
def appendsWithSharedMapPath : List AppendRow :=
  [{ pkg := "boltz", func := "entityMapSymbol.createElementSymbol", operand := "self.path", via := "prefix", how := AppendHow.ontoShared }]
example : noAppendOntoShared appendsWithSharedMapPath = false := by decide

/-- the table shape of "the `in [...]` node builds a lookup map on its first EvalBool" is rejected -/
def nodeWritesWithLazyLookup : List NodeWrite :=
  [{ typ := "InStringArrayExprNode", method := "EvalBool", field := "lookup", how := WriteHow.field, phase := NodePhase.eval },
   { typ := "InStringArrayExprNode", method := "EvalBool", field := "lookup[]", how := WriteHow.elem, phase := NodePhase.eval }]
example : evalDoesNotWriteNodes nodeWritesWithLazyLookup = false := by decide

/-- … and so is a parse entry point that flips a runtime-wide ANTLR option -/
def configCallsWithAntlrTrace : List ConfigCall :=
  [{ pkg := "zitiql", func := "parse", callee := "github.com/antlr4-go/antlr/v4.ConfigureRuntime", inInit := false }]
example : noProcessWideConfig configCallsWithAntlrTrace = false := by decide

/-- the table shape of "IteratorMatchingAllOf sorts the caller's values" is rejected -/
def paramWritesWithSortedValues : List ParamWrite :=
  [{ pkg := "boltz", func := "BaseStore.IteratorMatchingAllOf", param := "values", how := ParamWriteHow.sort, api := ApiKind.read }]
example : readApisDoNotWriteArguments paramWritesWithSortedValues = false := by decide

/-- the table shape of "getSortFields returns the stored view, the scanner appends its id field" is rejected -/
example : noAppendOntoHandedOutSlice
    [{ pkg := "ast", func := "SortByNode.getSortFields", name := "getSortFields", returns := "node.fields" },
     { pkg := "ast", func := "queryNode.GetSortFields", name := "GetSortFields", returns := "via getSortFields()" }]
    [{ pkg := "boltz", func := "sortingScanner.ScanCursor", getter := "GetSortFields", via := "parameter of newRowComparator" }] = false := by
  decide

/-- a sorted shared text on one version: text 16 (`rank >= 1 sort by even, rank desc, name desc skip 1 limit 20`) -/
example :
    let v : Ver := [⟨10, 100, 1, [], []⟩, ⟨11, 110, 2, [], []⟩, ⟨12, 120, 3, [], []⟩, ⟨13, 130, 0, [], []⟩, ⟨14, 140, 3, [], []⟩, ⟨15, 150, 2, [], []⟩]
    evalQ (.qShared 16) v = [11, 14, 12, 10] := by decide

/-- the second reader's unpaged list is not cut by the first reader's limit (the model's answers on one version) -/
example :
    let v : Ver := [⟨0, 0, 1, [], []⟩, ⟨1, 10, 2, [], []⟩, ⟨2, 20, 3, [], []⟩, ⟨3, 30, 0, [], []⟩, ⟨4, 40, 5, [], []⟩]
    (evalQ (.qPage 0 2) v, evalQ .qAll v, evalQ (.qEven 1) v, evalQ (.qEven 0) v, evalQ (.vEven 0 1) v) =
      ([0, 1], [0, 1, 2, 3, 4], [0, 2, 4], [1, 3], [1, 0]) := by decide

end StorageModel.Properties.C18
