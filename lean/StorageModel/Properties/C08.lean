/- C08: property theorems go here (only property theorems, non-vacuity examples, #print axioms). -/
