import StorageModel.Properties.C07
import StorageModel.Tx.Events
import StorageModel.Tx.GroupLemmas
/-
  C08 — Entity events: exactly once per committed change, none for undone work.

  "For every committed create, update or delete, each listener registered for that change type on
  the entity's store is invoked exactly once, after the commit, with the entity's final state
  (create, update) or last state (delete); a change to a child-store entity additionally produces
  exactly one event on the parent store, while plain parent entities produce none on the child
  store. Work that is rolled back or rejected produces no events, and commit actions and
  transaction-complete listeners run once per committed transaction."

  Model: the same as C07's (Tx/Store.lean: EntityChangeState, fireEvents = every constraint's
  ProcessPreCommit, then processPostCommit queued with tx.OnCommit; fireParentEvent / initFromChild;
  DeleteById's flow list with MarkParentEvent; Tx/Db.lean: the three listener adapters (`deliver`),
  processPostCommit, handleCommit, tx-complete listeners, in OnCommit order).  All theorems are about
  the return table regenerated from the code (`FromCode`).

  Two child stores (C, D) are registered on the parent store; an entity may have data in both.  A
  delete announces one flow per store that holds the entity (`Spec.deleteFlows`); an update is
  performed — and announced — by the first child store that holds the entity.

  The model also covers child data created over an existing plain parent entity (legal since fix
  8269ce9: a child store only looks at its own data for "already exists"): such a create is a change
  through the child store like any other — `child_change_parent_event` applies to it — and custom
  index-stage constraints (boltz.Constraint registered with AddConstraint) that reject operations
  through the error holder (see Properties/C07.lean); a rejected operation announces nothing.

  Order: deliveries are compared per listener registration (in order); nothing is claimed about the
  interleaving of asynchronous deliveries.  Commit actions belong to the MutateContext: a context
  used for a second transaction runs the actions registered during the first one again
  (`commit_actions_once` is stated per context-and-transaction).
-/
namespace StorageModel.Properties.C08
open StorageModel.Tx StorageModel.Tx.Spec StorageModel.Properties.C07

theorem table_is_expected : Generated.crudReturns = expectedReturns := C07.table_is_expected
theorem delivery_is_expected :
    Generated.deliveryFlags.all (·.2) = true ∧ Generated.deliveryFlags.length = 16 ∧
    Generated.adapterShapes = ["entityListenerAdapter", "entityFunctionListenerAdapter", "untypedEventListenerWrapper"].map expectedAdapter :=
  C07.delivery_is_expected

/-- **C08, exactly once** (all transactions that hand errors on, Update and Batch, all registrations,
    every registration style — the style only changes how the callback renders the entity): when the
    transaction commits, the listener registered at position `reg` on store σ receives, through the
    `slot`-th change type `t` it was registered with, exactly the committed changes of kind `t.kind`
    on σ — each once, in order, synchronously or asynchronously as `t` says, each with the entity's
    final (create, update) or last (delete) state.  The changes on the parent store include the
    parent events derived from child-store changes. -/
theorem events_exactly_once (env : Env) (h : FromCode env) (db : Db) (prevCtx : Ctx) (tx : TxSpec)
    (hw : tx.wellBehaved) (hok : (runTx env db prevCtx tx).res = .ok)
    (σ : StoreId) (reg slot : Nat) (style : Style) (types : List EvType) (t : EvType)
    (hreg : (env.regs σ)[reg]? = some (.listener style types)) (hslot : types[slot]? = some t) :
    deliveriesTo σ reg slot (runTx env db prevCtx tx).fired =
      ((txFlows env db prevCtx tx).filter (fun fl => fl.store = σ ∧ fl.kind = t.kind)).map
        (fun fl => (t.async, fl.kind, payload fl)) := by
  have ha := runTx_agree env h.expected db prevCtx tx hw
  rw [ha.fired_ok hok, deliveriesTo_commitList]
  generalize txFlows env db prevCtx tx = flows
  induction flows with
  | nil => rfl
  | cons fl rest ih =>
    rw [List.flatMap_cons, ih]
    unfold indexed
    rw [postCommit_sel]
    by_cases hs : fl.store = σ
    · subst hs
      simp only [true_and, Nat.zero_le, if_true, Nat.sub_zero, hreg]
      unfold indexed
      rw [deliver_sel]
      simp only [Nat.zero_le, if_true, Nat.sub_zero, hslot, List.filter_cons]
      by_cases hk : t.kind = fl.kind
      · simp [hk]
      · have hk' : ¬ fl.kind = t.kind := fun e => hk e.symm
        simp [hk, hk']
    · simp [hs]

/-- the number of deliveries = the number of changes (the counting form of "exactly once") -/
theorem events_count (env : Env) (h : FromCode env) (db : Db) (prevCtx : Ctx) (tx : TxSpec)
    (hw : tx.wellBehaved) (hok : (runTx env db prevCtx tx).res = .ok)
    (σ : StoreId) (reg slot : Nat) (style : Style) (types : List EvType) (t : EvType)
    (hreg : (env.regs σ)[reg]? = some (.listener style types)) (hslot : types[slot]? = some t) :
    (deliveriesTo σ reg slot (runTx env db prevCtx tx).fired).length =
      ((txFlows env db prevCtx tx).filter (fun fl => fl.store = σ ∧ fl.kind = t.kind)).length := by
  rw [events_exactly_once env h db prevCtx tx hw hok σ reg slot style types t hreg hslot, List.length_map]

/-- **C08, constraints** (AddEntityConstraint / AddUntypedEntityConstraint): ProcessPostCommit of the
    constraint at position `reg` on store σ runs exactly once for every committed change on σ. -/
theorem constraint_posts_exactly_once (env : Env) (h : FromCode env) (db : Db) (prevCtx : Ctx) (tx : TxSpec)
    (hw : tx.wellBehaved) (hok : (runTx env db prevCtx tx).res = .ok)
    (σ : StoreId) (reg : Nat) (typed : Bool) (vetoes : List (Kind × String))
    (hreg : (env.regs σ)[reg]? = some (.constraint typed vetoes)) :
    postsTo σ reg (runTx env db prevCtx tx).fired = (txFlows env db prevCtx tx).filter (fun fl => fl.store = σ) := by
  have ha := runTx_agree env h.expected db prevCtx tx hw
  rw [ha.fired_ok hok]
  unfold commitList
  rw [postsTo_append, postsTo_append]
  have h1 : postsTo σ reg [Fired.commitActions (specTx env db prevCtx tx).ctx.commitActions] = [] := rfl
  have h2 : postsTo σ reg (if true = true then List.map Fired.txComplete (List.range env.txListeners) else []) = [] := by
    simp only [if_true]
    generalize List.range env.txListeners = l
    induction l with
    | nil => rfl
    | cons a t ih => simpa [postsTo] using ih
  rw [h1, h2]
  simp only [List.nil_append, List.append_nil]
  generalize txFlows env db prevCtx tx = flows
  induction flows with
  | nil => rfl
  | cons fl rest ih =>
    rw [List.flatMap_cons, postsTo_append, ih]
    unfold indexed
    rw [postCommit_posts]
    by_cases hs : fl.store = σ
    · subst hs
      simp [hreg]
    · simp [hs]

/-! ## what the announced changes are -/

/-- the flows of a single accepted operation, as the spec lists them -/
theorem op_flows (env : Env) (h : FromCode env) (fault : Fault) (o : Op) (st : TxSt)
    (hok : (runOp env fault o st).2 = .ok) :
    (runOp env fault o st).1.queue = st.queue ++ (specOp env fault o st.db).flows.map .post ∧
    (runOp env fault o st).1.db = (specOp env fault o st.db).db := by
  obtain ⟨_, _, hrest⟩ := runOp_refines env h.expected fault o st
  obtain ⟨h1, h2, _, _⟩ := hrest hok
  exact ⟨h2, h1⟩

/-- **C08, final state** (create): every flow queued by an accepted create carries, as final state,
    the entity as FindById returns it right after the operation (on the flow's own store: the parent
    view for the parent event), and that is what listeners are handed. -/
theorem events_final_state_create (env : Env) (h : FromCode env) (fault : Fault) (σ : StoreId) (id : String) (f : PFields)
    (rank : String) (st : TxSt) (hok : (runOp env fault (.create σ id f rank) st).2 = .ok) :
    ∀ fl ∈ (specOp env fault (.create σ id f rank) st.db).flows,
      fl.id = id ∧ fl.kind = .created ∧
      payload fl = view fl.store (runOp env fault (.create σ id f rank) st).1.db id ∧ (payload fl).isSome = true := by
  obtain ⟨_, hiff, hrest⟩ := runOp_refines env h.expected fault (.create σ id f rank) st
  have hacc := hiff.mp hok
  obtain ⟨hdb, _⟩ := hrest hok
  rw [hdb]
  obtain ⟨e1, e2⟩ := specCreate_accepted env fault σ id f rank st.db hacc
  simp only [specOp, e1, e2]
  intro fl hfl
  cases σ with
  | P =>
    simp only [writeFlows, List.mem_singleton] at hfl
    subst hfl
    simp [payload, view_put_same]
  | C =>
    simp only [writeFlows, List.mem_cons, List.mem_nil_iff, or_false] at hfl
    rcases hfl with rfl | rfl <;> simp [payload, view_put_same, writtenEnt]
  | D =>
    simp only [writeFlows, List.mem_cons, List.mem_nil_iff, or_false] at hfl
    rcases hfl with rfl | rfl <;> simp [payload, view_put_same, writtenEnt]

/-- **C08, final state** (update): the same for an accepted update; the flow also carries the state
    before the update. -/
theorem events_final_state_update (env : Env) (h : FromCode env) (fault : Fault) (σ : StoreId) (id : String) (f : PFields)
    (rank : String) (st : TxSt) (hok : (runOp env fault (.update σ id f rank) st).2 = .ok) :
    ∀ fl ∈ (specOp env fault (.update σ id f rank) st.db).flows,
      fl.id = id ∧ fl.kind = .updated ∧
      payload fl = view fl.store (runOp env fault (.update σ id f rank) st).1.db id ∧
      fl.initial = view fl.store st.db id := by
  obtain ⟨_, hiff, hrest⟩ := runOp_refines env h.expected fault (.update σ id f rank) st
  have hacc := hiff.mp hok
  obtain ⟨hdb, _⟩ := hrest hok
  rw [hdb]
  obtain ⟨_, e1, e2⟩ := specUpdate_accepted env fault σ id f rank st.db hacc
  simp only [specOp, e1, e2]
  intro fl hfl
  cases hs : updateStore σ st.db id with
  | P =>
    rw [hs] at hfl
    simp only [writeFlows, List.mem_singleton] at hfl
    subst hfl
    simp [payload]
  | C =>
    rw [hs] at hfl
    simp only [writeFlows, List.mem_cons, List.mem_nil_iff, or_false] at hfl
    rcases hfl with rfl | rfl <;> simp [payload]
  | D =>
    rw [hs] at hfl
    simp only [writeFlows, List.mem_cons, List.mem_nil_iff, or_false] at hfl
    rcases hfl with rfl | rfl <;> simp [payload]

/-- **C08, last state** (delete): every flow queued by an accepted delete carries the entity as it was
    before the delete, and the entity is gone afterwards. -/
theorem events_last_state_delete (env : Env) (h : FromCode env) (fault : Fault) (σ : StoreId) (id : String) (st : TxSt)
    (hok : (runOp env fault (.delete σ id) st).2 = .ok) :
    (∀ fl ∈ (specOp env fault (.delete σ id) st.db).flows,
      fl.id = id ∧ fl.kind = .deleted ∧ payload fl = view fl.store st.db id ∧ (payload fl).isSome = true) ∧
    (runOp env fault (.delete σ id) st).1.db.get id = none := by
  obtain ⟨_, hiff, hrest⟩ := runOp_refines env h.expected fault (.delete σ id) st
  have hacc := hiff.mp hok
  obtain ⟨hdb, _⟩ := hrest hok
  rw [hdb]
  obtain ⟨⟨e, hg⟩, e1, e2⟩ := specDelete_accepted env fault id st.db hacc
  simp only [specOp, e1, e2]
  refine ⟨?_, Db.get_del_same _ _⟩
  intro fl hfl
  unfold deleteFlows view at hfl
  simp only [hg] at hfl
  cases hc : e.child <;> cases hd : e.child2 <;>
    simp only [hc, hd, Option.map_none, Option.map_some, List.nil_append, List.cons_append, List.mem_cons,
      List.mem_nil_iff, or_false] at hfl
  all_goals (rcases hfl with rfl | hfl)
  all_goals (try (rcases hfl with rfl | hfl))
  all_goals (try subst hfl)
  all_goals (try (exact absurd hfl (by simp)))
  all_goals simp [payload, view, hg, hc, hd]

/-- the flows of a delete, spelled out on the stored entity -/
theorem deleteFlows_shape (db : Db) (id : String) (e : Ent) (hg : db.get id = some e) :
    deleteFlows db id =
      (⟨.P, .deleted, id, some (.parent id e.f), none, e.child.isSome || e.child2.isSome⟩ : Flow) ::
      ((e.child.map fun r => (⟨.C, .deleted, id, some (.child id e.f r), none, false⟩ : Flow)).toList ++
       (e.child2.map fun g => (⟨.D, .deleted, id, some (.child2 id e.f g), none, false⟩ : Flow)).toList) := by
  unfold deleteFlows view
  simp only [hg]
  cases e.child <;> cases e.child2 <;> simp

/-- the child stores an operation's change concerns: the store a create goes through, the store that
    performs an update, every child store that holds a deleted entity (in registration order) -/
def childStoresOf (o : Op) (db : Db) : List StoreId :=
  match o with
  | .create σ _ _ _ => if σ = .P then [] else [σ]
  | .update σ id _ _ => if updateStore σ db id = .P then [] else [updateStore σ db id]
  | .delete _ id => (if hasChild db id then [.C] else []) ++ (if hasChild2 db id then [.D] else [])
  | .deleteWhere _ _ => []

/-- **C08, a change to a child-store entity produces exactly one event on the parent store, marked as
    parent event, and exactly one on every child store concerned** — for a create through a child store
    (from scratch or over an existing parent entity, which may already have data in the other child
    store), an update (through any store) of an entity with child data — performed by the first child
    store that holds it —, a delete (through any store) of an entity with data in one or in both child
    stores: one flow per child store that holds it, in registration order. -/
theorem child_change_parent_event (env : Env) (h : FromCode env) (fault : Fault) (o : Op) (st : TxSt)
    (hok : (runOp env fault o st).2 = .ok)
    (hchild : childStoresOf o st.db ≠ []) :
    ∃ pf cfs, (specOp env fault o st.db).flows = pf :: cfs ∧
      pf.store = .P ∧ pf.parentEvent = true ∧
      cfs.map (·.store) = childStoresOf o st.db ∧
      (∀ cf ∈ cfs, cf.store ≠ .P ∧ cf.parentEvent = false ∧ cf.kind = pf.kind ∧ cf.id = pf.id) ∧
      (runOp env fault o st).1.queue = st.queue ++ (pf :: cfs).map .post := by
  obtain ⟨_, hiff, hrest⟩ := runOp_refines env h.expected fault o st
  have hacc := hiff.mp hok
  obtain ⟨_, hq, _⟩ := hrest hok
  rw [hq]
  cases o with
  | create σ id f rank =>
    obtain ⟨_, e2⟩ := specCreate_accepted env fault σ id f rank st.db hacc
    simp only [specOp, e2]
    cases σ with
    | P => simp [childStoresOf] at hchild
    | C => exact ⟨_, _, rfl, rfl, rfl, rfl, by simp, rfl⟩
    | D => exact ⟨_, _, rfl, rfl, rfl, rfl, by simp, rfl⟩
  | update σ id f rank =>
    obtain ⟨_, _, e2⟩ := specUpdate_accepted env fault σ id f rank st.db hacc
    simp only [specOp, e2]
    unfold childStoresOf at hchild ⊢
    cases hs : updateStore σ st.db id with
    | P => simp [hs] at hchild
    | C => exact ⟨_, _, rfl, rfl, rfl, by simp [hs], by simp, rfl⟩
    | D => exact ⟨_, _, rfl, rfl, rfl, by simp [hs], by simp, rfl⟩
  | delete σ id =>
    obtain ⟨⟨e, hg⟩, _, e2⟩ := specDelete_accepted env fault id st.db hacc
    simp only [specOp, e2]
    rw [deleteFlows_shape st.db id e hg]
    unfold childStoresOf hasChild hasChild2 at hchild ⊢
    simp only [hg, Option.bind_some] at hchild ⊢
    refine ⟨_, _, rfl, rfl, ?_, ?_, ?_, rfl⟩
    · cases hc : e.child <;> cases hd : e.child2 <;> simp_all
    · cases hc : e.child <;> cases hd : e.child2 <;> simp
    · cases hc : e.child <;> cases hd : e.child2 <;> simp
  | deleteWhere σ q => simp [childStoresOf] at hchild

/-- **C08, plain parent entities produce no event on a child store**: a create through the parent
    store, an update or delete of an entity without data in any child store queue exactly one flow, on
    the parent store, not marked as parent event. -/
theorem plain_parent_no_child_event (env : Env) (h : FromCode env) (fault : Fault) (o : Op) (st : TxSt)
    (hok : (runOp env fault o st).2 = .ok)
    (hplain : childStoresOf o st.db = [] ∧ (match o with | .deleteWhere _ _ => False | _ => True)) :
    ∃ pf, (specOp env fault o st.db).flows = [pf] ∧ pf.store = .P ∧ pf.parentEvent = false ∧
      (runOp env fault o st).1.queue = st.queue ++ [.post pf] := by
  obtain ⟨_, hiff, hrest⟩ := runOp_refines env h.expected fault o st
  have hacc := hiff.mp hok
  obtain ⟨_, hq, _⟩ := hrest hok
  rw [hq]
  obtain ⟨hplain, hnw⟩ := hplain
  cases o with
  | create σ id f rank =>
    obtain ⟨_, e2⟩ := specCreate_accepted env fault σ id f rank st.db hacc
    simp only [specOp, e2]
    cases σ with
    | P => exact ⟨_, rfl, rfl, rfl, rfl⟩
    | C => simp [childStoresOf] at hplain
    | D => simp [childStoresOf] at hplain
  | update σ id f rank =>
    obtain ⟨_, _, e2⟩ := specUpdate_accepted env fault σ id f rank st.db hacc
    simp only [specOp, e2]
    unfold childStoresOf at hplain
    cases hs : updateStore σ st.db id with
    | P => exact ⟨_, rfl, rfl, rfl, rfl⟩
    | C => simp [hs] at hplain
    | D => simp [hs] at hplain
  | delete σ id =>
    obtain ⟨⟨e, hg⟩, _, e2⟩ := specDelete_accepted env fault id st.db hacc
    simp only [specOp, e2]
    rw [deleteFlows_shape st.db id e hg]
    unfold childStoresOf hasChild hasChild2 at hplain
    simp only [hg, Option.bind_some] at hplain
    cases hc : e.child <;> cases hd : e.child2 <;> simp [hc, hd] at hplain
    exact ⟨_, rfl, rfl, rfl, rfl⟩
  | deleteWhere σ q => exact absurd hnw (by simp)

/-! ## nothing for undone work; commit actions and tx-complete listeners once -/

/-- **C08, work that is rolled back produces no events** (any body, any table): no listener, no
    constraint post-commit, no commit action, no tx-complete listener. -/
theorem rolled_back_no_events (env : Env) (db : Db) (prevCtx : Ctx) (tx : TxSpec)
    (hne : (runTx env db prevCtx tx).res ≠ .ok) : (runTx env db prevCtx tx).fired = [] :=
  (tx_atomic env db prevCtx tx hne).2

/-- a rejected operation queues nothing that could be delivered later: the transaction it is in fails
    (`C07.tx_error_surfaces`), and within the operation nothing is queued after the veto -/
theorem rejected_op_tx_fails (env : Env) (h : FromCode env) (db : Db) (ctx : Ctx) (pre post : List Step) (o : Op)
    (fault : Fault) (hp : Propagating (pre ++ .op o fault false :: post))
    (hrej : OpFails env (specBody env db ctx pre).db o) :
    (dbUpdate env db ctx (pre ++ .op o fault false :: post)).fired = [] := by
  have hne := rejected_operation_surfaces env h db ctx pre post o fault hp hrej
  simp only [dbUpdate] at hne ⊢
  cases ha : (attempt env true db ctx (pre ++ .op o fault false :: post)).res with
  | ok => simp [ha, commit] at hne
  | err e => simp [rollback]

/-- **C08, commit actions and transaction-complete listeners run once per committed transaction** —
    the full statement: one goroutine runs the commit actions of the transaction's context (each as
    often as it is registered on the context, in order), and every tx-complete listener runs exactly
    once, whether the transaction was run by Db.Update or by Db.Batch.  (Before cb70ebf Db.Batch
    registered no tx-complete listeners and this statement was false; `batch_runs_tx_complete` below is
    the former counter-example, now a witness.) -/
theorem commit_actions_once (env : Env) (h : FromCode env) (db : Db) (prevCtx : Ctx) (tx : TxSpec)
    (hw : tx.wellBehaved) (hok : (runTx env db prevCtx tx).res = .ok) :
    commitActionRuns (runTx env db prevCtx tx).fired = [(runTx env db prevCtx tx).ctx.commitActions] ∧
    txCompleteRuns (runTx env db prevCtx tx).fired = List.range env.txListeners := by
  have ha := runTx_agree env h.expected db prevCtx tx hw
  rw [ha.fired_ok hok, ha.ctx]
  unfold commitList
  rw [commitActionRuns_append, commitActionRuns_append, txCompleteRuns_append, txCompleteRuns_append]
  have hmid : ∀ flows : List Flow,
      commitActionRuns (flows.flatMap fun fl => postCommit fl (indexed (env.regs fl.store))) = [] ∧
      txCompleteRuns (flows.flatMap fun fl => postCommit fl (indexed (env.regs fl.store))) = [] := by
    intro flows
    induction flows with
    | nil => exact ⟨rfl, rfl⟩
    | cons fl rest ih =>
      simp only [List.flatMap_cons, commitActionRuns_append, txCompleteRuns_append,
        (postCommit_no_actions fl _).1, (postCommit_no_actions fl _).2, List.nil_append]
      exact ih
  have htail : ∀ l : List Nat, commitActionRuns (l.map Fired.txComplete) = [] ∧ txCompleteRuns (l.map Fired.txComplete) = l := by
    intro l
    induction l with
    | nil => exact ⟨rfl, rfl⟩
    | cons a t ih => simp [commitActionRuns, txCompleteRuns, ih]
  rw [(hmid _).1, (hmid _).2]
  simp [commitActionRuns, txCompleteRuns, (htail _).1, (htail _).2]

/-- the former counter-example: one tx-complete listener, a Batch transaction that registers a commit
    action and deletes an entity — it commits, the commit action runs once, and so does the listener -/
def batchWitnessEnv : Env := { regsP := [], regsC := [], txListeners := 1, t := Generated.crudReturns }
def batchWitnessDb : Db := [("p1", { f := ⟨"n1", [], none, [], []⟩, child := none })]
def batchWitnessTx : TxSpec := { mode := .batch, reuseCtx := false, body := [.addCommit 1, .op (.delete .P "p1") .none false] }

theorem batch_runs_tx_complete :
    (runTx batchWitnessEnv batchWitnessDb Ctx.empty batchWitnessTx).res = .ok ∧
    commitActionRuns (runTx batchWitnessEnv batchWitnessDb Ctx.empty batchWitnessTx).fired = [[1]] ∧
    txCompleteRuns (runTx batchWitnessEnv batchWitnessDb Ctx.empty batchWitnessTx).fired = [0] := by
  decide

-- non-vacuity: a committed transaction deleting an entity with child data (a parent and a child flow),
-- a listener registered for [deleted, deletedAsync] on the parent store
example :
    (runTx { regsP := [.listener .untyped [⟨.deleted, false⟩, ⟨.deleted, true⟩]], regsC := [], txListeners := 1, t := Generated.crudReturns }
      [("c1", { f := ⟨"n", [], none, [], []⟩, child := some "k" })] Ctx.empty
      { mode := .update, reuseCtx := false, body := [.op (.delete .C "c1") .none false] }).res = .ok := by
  decide

-- non-vacuity / witness: child data created over an existing plain parent entity announces exactly one
-- parent event (marked) and one child event; a listener registered for creates on the parent store is
-- called once, with the parent view of the entity as it is after the create
example :
    (runTx { regsP := [.listener .untyped [⟨.created, false⟩]], regsC := [], txListeners := 0, t := Generated.crudReturns }
      [("p4", { f := ⟨"n0", ["t"], none, [], []⟩, child := none })] Ctx.empty
      { mode := .update, reuseCtx := false, body := [.op (.create .C "p4" ⟨"n0", ["t"], none, [], []⟩ "k5") .none false] }).res = .ok ∧
    deliveriesTo .P 0 0
      (runTx { regsP := [.listener .untyped [⟨.created, false⟩]], regsC := [], txListeners := 0, t := Generated.crudReturns }
        [("p4", { f := ⟨"n0", ["t"], none, [], []⟩, child := none })] Ctx.empty
        { mode := .update, reuseCtx := false, body := [.op (.create .C "p4" ⟨"n0", ["t"], none, [], []⟩ "k5") .none false] }).fired
      = [(false, .created, some (.parent "p4" ⟨"n0", ["t"], none, [], []⟩))] := by
  decide +kernel

-- witness: an entity with data in BOTH child stores is deleted through the first one — the delete listener
-- of the second child store is called exactly once, with the entity's last state in that store
example :
    deliveriesTo .D 0 0
      (runTx { regsP := [], regsC := [], regsD := [.listener .func [⟨.deleted, false⟩]], txListeners := 0, t := Generated.crudReturns }
        [("c1", { f := ⟨"n", [], none, [], []⟩, child := some "k", child2 := some "g" })] Ctx.empty
        { mode := .update, reuseCtx := false, body := [.op (.delete .C "c1") .none false] }).fired
      = [(false, .deleted, some (.child2 "c1" ⟨"n", [], none, [], []⟩ "g"))] := by
  decide +kernel

/-- **a context built with NewTxMutateContext** around the transaction of an enclosing Db.Update (mode raw):
    the commit actions registered on that context run exactly once when the transaction commits, the
    tx-complete listeners once (`commit_actions_once` holds for this mode as for the others — this is
    its instance), and never for a failed one (`rolled_back_no_events`).  Its pre-commit actions are never
    run: a failing one does not fail the transaction (witness below). -/
theorem commit_actions_once_tx_context (env : Env) (h : FromCode env) (db : Db) (prevCtx : Ctx) (body : List Step)
    (hw : Propagating body)
    (hok : (runTx env db prevCtx { mode := .raw, reuseCtx := false, body := body }).res = .ok) :
    commitActionRuns (runTx env db prevCtx { mode := .raw, reuseCtx := false, body := body }).fired =
      [(runTx env db prevCtx { mode := .raw, reuseCtx := false, body := body }).ctx.commitActions] ∧
    txCompleteRuns (runTx env db prevCtx { mode := .raw, reuseCtx := false, body := body }).fired = List.range env.txListeners :=
  commit_actions_once env h db prevCtx { mode := .raw, reuseCtx := false, body := body } hw hok

example :
    (runTx { regsP := [.listener .untyped [⟨.created, false⟩]], regsC := [], txListeners := 1, t := Generated.crudReturns }
      [] Ctx.empty
      { mode := .raw, reuseCtx := false, body := [.addCommit 4, .addPre 2 true, .op (.create .P "p1" ⟨"n", [], none, [], []⟩ "") .none false] }).fired
      = [.commitActions [4], .listener .P 0 0 false .created (some (.parent "p1" ⟨"n", [], none, [], []⟩)), .txComplete 0] := by
  decide +kernel

/-! ## batch groups: several Db.Batch calls coalesced by bbolt into one batch (Tx/Group.lean)

  bbolt's DB.Batch queues calls and runs them — in arrival order — inside ONE transaction; when a member's function
  returns an error the shared transaction is rolled back, that member is taken out (the last call moves into its
  place) and re-run alone, the others are re-run together from scratch.  The schedule (when the solo re-runs happen
  relative to the rounds of the batch) is a scheduling fact: the theorems hold for EVERY schedule, any number of
  members, any bodies (handing operation errors on), any fault positions, any database, any contexts.

  What the code does / what the property demands.  The closure of DbImpl.Batch registers, per invocation, on the bbolt
  transaction it is invoked in: the member's handleCommit (setTx), the post-commit work of the member's changes
  (fireEvents), the tx-complete listeners (called with the member's MutateContext).  A shared transaction that commits
  with m members therefore runs every tx-complete listener m times, once per member context, and m commit-action
  goroutines, one per member context.  The property's "once per committed transaction" is read per committed Db.Batch
  CALL (the caller's transaction; the listener is handed that call's context): `batch_group_committed_once` shows that a
  call returns nil iff exactly one committed bbolt transaction invoked its function, `batch_group_tx_complete_once`
  that this transaction runs the call's commit actions and the tx-complete listeners exactly once for it, and
  `batch_group_rolled_back_no_events` that nothing else does. -/

/-- the group after a schedule, under the code's runner -/
abbrev groupRun (env : Env) (specs : Nat → Member) (db : Db) (ctxs : Nat → Ctx) (arrival : List Nat) (sched : List Sched) :=
  runGroup (modelRunner env) specs db ctxs arrival sched

/-- **every member whose call returns nil was committed in exactly one transaction** — and a call that returned an
    error, or has not returned, is part of no committed transaction (any runner, any schedule). -/
theorem batch_group_committed_once (env : Env) (specs : Nat → Member) (db : Db) (ctxs : Nat → Ctx)
    (arrival : List Nat) (hn : arrival.Nodup) (sched : List Sched) (k : Nat) :
    committedWith k (groupRun env specs db ctxs arrival sched).txs =
      if (groupRun env specs db ctxs arrival sched).result k = some .ok then 1 else 0 :=
  (runGroup_inv (modelRunner env) specs db ctxs arrival hn sched).count k

/-- when the schedule has run to its end (no call left in the batch, nobody left to try solo) every call has returned -/
theorem batch_group_all_return (env : Env) (specs : Nat → Member) (db : Db) (ctxs : Nat → Ctx)
    (arrival : List Nat) (hn : arrival.Nodup) (sched : List Sched)
    (hc : (groupRun env specs db ctxs arrival sched).complete = true) (k : Nat) (hk : k ∈ arrival) :
    ((groupRun env specs db ctxs arrival sched).result k).isSome = true := by
  have hi := runGroup_inv (modelRunner env) specs db ctxs arrival hn sched
  simp only [GState.complete, Bool.and_eq_true, List.isEmpty_iff] at hc
  rcases hi.covered k hk with h1 | h1 | h1
  · rw [hc.1] at h1; cases h1
  · rw [hc.2] at h1; cases h1
  · exact h1

/-- every invocation logged for a transaction of the group is the closure of DbImpl.Batch for a body that hands
    operation errors on -/
theorem group_parts_from (env : Env) (specs : Nat → Member) (hw : ∀ k, Propagating (specs k).body)
    (db : Db) (ctxs : Nat → Ctx) (arrival : List Nat) (hn : arrival.Nodup) (sched : List Sched)
    (t : GTx) (ht : t ∈ (groupRun env specs db ctxs arrival sched).txs) (p : Part) (hp : p ∈ t.parts) :
    PartFrom (modelRunner env) specs p ∧ Propagating p.body := by
  have hf := ((runGroup_inv (modelRunner env) specs db ctxs arrival hn sched).wf t ht).parts p hp
  exact ⟨hf, by rw [hf.2]; exact bodyAt_propagating _ (hw _) _⟩

/-- a committed transaction of the group, segment by segment: every invocation was accepted and what it registered
    on the OnCommit list is `commitList` of its accepted changes with the member's context -/
theorem group_committed_parts (env : Env) (h : FromCode env) (specs : Nat → Member) (hw : ∀ k, Propagating (specs k).body)
    (db : Db) (ctxs : Nat → Ctx) (arrival : List Nat) (hn : arrival.Nodup) (sched : List Sched)
    (t : GTx) (ht : t ∈ (groupRun env specs db ctxs arrival sched).txs) (hc : t.committed = true) (p : Part) (hp : p ∈ t.parts) :
    p.accepted env = true ∧ p.out.ctx = (p.spec env).ctx ∧
    p.out.fired = commitList env (p.spec env).ctx (p.spec env).flows true := by
  have hwf := (runGroup_inv (modelRunner env) specs db ctxs arrival hn sched).wf t ht
  obtain ⟨hf, hpp⟩ := group_parts_from env specs hw db ctxs arrival hn sched t ht p hp
  have hok := chainOk_all_ok _ _ _ (hwf.chain hc) p hp
  obtain ⟨m1, m2, m3⟩ := part_model env h.expected specs p hf hpp
  exact ⟨m2.mp hok, m1, (m3 hok).2.2⟩

theorem deliveriesTo_flatMap (σ : StoreId) (reg slot : Nat) (ps : List Part) :
    deliveriesTo σ reg slot (ps.flatMap (·.out.fired)) = ps.flatMap (fun p => deliveriesTo σ reg slot p.out.fired) := by
  induction ps with
  | nil => rfl
  | cons p rest ih => simp [List.flatMap_cons, deliveriesTo_append, ih]

theorem postsTo_flatMap (σ : StoreId) (reg : Nat) (ps : List Part) :
    postsTo σ reg (ps.flatMap (·.out.fired)) = ps.flatMap (fun p => postsTo σ reg p.out.fired) := by
  induction ps with
  | nil => rfl
  | cons p rest ih => simp [List.flatMap_cons, postsTo_append, ih]

/-- **C08 for batch groups, exactly once**: for each COMMITTED transaction of the group (a round of the batch that
    went through, or a solo re-run that succeeded) the listener registered at position `reg` on store σ receives,
    through the `slot`-th change type it was registered with, exactly the accepted changes of that kind on σ of the
    members of that transaction — member after member, each change once, in order, with its final / last state.
    (`events_exactly_once` is the case of a single caller.) -/
theorem batch_group_events_exactly_once (env : Env) (h : FromCode env) (specs : Nat → Member)
    (hw : ∀ k, Propagating (specs k).body) (db : Db) (ctxs : Nat → Ctx) (arrival : List Nat) (hn : arrival.Nodup)
    (sched : List Sched) (t : GTx) (ht : t ∈ (groupRun env specs db ctxs arrival sched).txs) (hc : t.committed = true)
    (σ : StoreId) (reg slot : Nat) (style : Style) (types : List EvType) (ty : EvType)
    (hreg : (env.regs σ)[reg]? = some (.listener style types)) (hslot : types[slot]? = some ty) :
    deliveriesTo σ reg slot t.fired =
      ((t.flows env).filter (fun fl => fl.store = σ ∧ fl.kind = ty.kind)).map (fun fl => (ty.async, fl.kind, payload fl)) := by
  have hparts := group_committed_parts env h specs hw db ctxs arrival hn sched t ht hc
  unfold GTx.fired GTx.flows
  rw [if_pos hc, deliveriesTo_flatMap]
  generalize t.parts = ps at hparts
  induction ps with
  | nil => rfl
  | cons p rest ih =>
    rw [List.flatMap_cons, List.flatMap_cons, List.filter_append, List.map_append,
      ih (fun q hq => hparts q (List.mem_cons_of_mem _ hq)), (hparts p (List.mem_cons_self ..)).2.2,
      deliveries_of_commitList env _ _ true σ reg slot style types ty hreg hslot]

/-- the same for constraint registrations: ProcessPostCommit runs exactly once for every accepted change on σ of the
    committed transaction's members -/
theorem batch_group_constraint_posts_once (env : Env) (h : FromCode env) (specs : Nat → Member)
    (hw : ∀ k, Propagating (specs k).body) (db : Db) (ctxs : Nat → Ctx) (arrival : List Nat) (hn : arrival.Nodup)
    (sched : List Sched) (t : GTx) (ht : t ∈ (groupRun env specs db ctxs arrival sched).txs) (hc : t.committed = true)
    (σ : StoreId) (reg : Nat) (typed : Bool) (vetoes : List (Kind × String))
    (hreg : (env.regs σ)[reg]? = some (.constraint typed vetoes)) :
    postsTo σ reg t.fired = (t.flows env).filter (fun fl => fl.store = σ) := by
  have hparts := group_committed_parts env h specs hw db ctxs arrival hn sched t ht hc
  unfold GTx.fired GTx.flows
  rw [if_pos hc, postsTo_flatMap]
  generalize t.parts = ps at hparts
  induction ps with
  | nil => rfl
  | cons p rest ih =>
    rw [List.flatMap_cons, List.flatMap_cons, List.filter_append,
      ih (fun q hq => hparts q (List.mem_cons_of_mem _ hq)), (hparts p (List.mem_cons_self ..)).2.2,
      posts_of_commitList env _ _ true σ reg typed vetoes hreg]

/-- **commit actions and tx-complete listeners, per member closure**: in a committed transaction of the group every
    member that took part contributes exactly one segment to the OnCommit list, and that segment runs one goroutine
    with the commit actions of the member's context and every tx-complete listener exactly once (with that member's
    context); the members of a transaction are pairwise different.  Together with `batch_group_committed_once`: for
    every Db.Batch call that returns nil the commit actions of its context and the tx-complete listeners run exactly
    once — in the one committed transaction it took part in. -/
theorem batch_group_tx_complete_once (env : Env) (h : FromCode env) (specs : Nat → Member)
    (hw : ∀ k, Propagating (specs k).body) (db : Db) (ctxs : Nat → Ctx) (arrival : List Nat) (hn : arrival.Nodup)
    (sched : List Sched) (t : GTx) (ht : t ∈ (groupRun env specs db ctxs arrival sched).txs) (hc : t.committed = true) :
    t.invoked.Nodup ∧
    ∀ p ∈ t.parts, commitActionRuns p.out.fired = [p.out.ctx.commitActions] ∧
      txCompleteRuns p.out.fired = List.range env.txListeners := by
  refine ⟨((runGroup_inv (modelRunner env) specs db ctxs arrival hn sched).wf t ht).nodup, ?_⟩
  intro p hp
  obtain ⟨_, e1, e2⟩ := group_committed_parts env h specs hw db ctxs arrival hn sched t ht hc p hp
  rw [e2, e1]
  exact actions_of_commitList env _ _

/-- the whole transaction: as many commit-action goroutines and as many rounds of tx-complete listener calls as it
    has members (what the code does: registration per member closure) -/
theorem batch_group_tx_complete_per_member (env : Env) (h : FromCode env) (specs : Nat → Member)
    (hw : ∀ k, Propagating (specs k).body) (db : Db) (ctxs : Nat → Ctx) (arrival : List Nat) (hn : arrival.Nodup)
    (sched : List Sched) (t : GTx) (ht : t ∈ (groupRun env specs db ctxs arrival sched).txs) (hc : t.committed = true) :
    commitActionRuns t.fired = t.parts.map (·.out.ctx.commitActions) ∧
    txCompleteRuns t.fired = t.parts.flatMap (fun _ => List.range env.txListeners) := by
  have hparts := (batch_group_tx_complete_once env h specs hw db ctxs arrival hn sched t ht hc).2
  unfold GTx.fired
  rw [if_pos hc]
  generalize t.parts = ps at hparts
  induction ps with
  | nil => exact ⟨rfl, rfl⟩
  | cons p rest ih =>
    obtain ⟨i1, i2⟩ := ih (fun q hq => hparts q (List.mem_cons_of_mem _ hq))
    obtain ⟨a1, a2⟩ := hparts p (List.mem_cons_self ..)
    simp only [List.flatMap_cons, commitActionRuns_append, txCompleteRuns_append, i1, i2, a1, a2, List.map_cons]
    simp

/-- **nothing is delivered for the rolled-back shared transaction or for a failed solo run** (bbolt discards the
    OnCommit list of a transaction that does not commit; that nothing reaches a listener except through that list is
    `delivery_is_expected`), the database is as before it — and a call that returned an error is part of no committed
    transaction at all. -/
theorem batch_group_rolled_back_no_events (env : Env) (specs : Nat → Member) (db : Db) (ctxs : Nat → Ctx)
    (arrival : List Nat) (hn : arrival.Nodup) (sched : List Sched) :
    (∀ t ∈ (groupRun env specs db ctxs arrival sched).txs, t.committed = false → t.fired = [] ∧ t.dbAfter = t.dbBefore) ∧
    (∀ k e, (groupRun env specs db ctxs arrival sched).result k = some (.err e) →
      committedWith k (groupRun env specs db ctxs arrival sched).txs = 0) := by
  have hi := runGroup_inv (modelRunner env) specs db ctxs arrival hn sched
  refine ⟨?_, ?_⟩
  · intro t ht hc
    exact ⟨by simp [GTx.fired, hc], (hi.wf t ht).rolled hc⟩
  · intro k e hr
    rw [hi.count k, hr]
    simp

/-- a committed transaction of the group as the spec reads it: every member's invocation accepted (no step rejected,
    no pre-commit action failing), each on the database the member before it produced; and the transactions of the
    group follow one another on the database -/
theorem batch_group_committed_is_accepted (env : Env) (h : FromCode env) (specs : Nat → Member)
    (hw : ∀ k, Propagating (specs k).body) (db : Db) (ctxs : Nat → Ctx) (arrival : List Nat) (hn : arrival.Nodup)
    (sched : List Sched) :
    (∀ t ∈ (groupRun env specs db ctxs arrival sched).txs, t.committed = true → specChain env t.dbBefore t.parts t.dbAfter) ∧
    Linked db (groupRun env specs db ctxs arrival sched).txs (groupRun env specs db ctxs arrival sched).db := by
  have hi := runGroup_inv (modelRunner env) specs db ctxs arrival hn sched
  refine ⟨?_, hi.linked⟩
  intro t ht hc
  exact chainOk_specChain env h.expected specs hw _ _ _ (hi.wf t ht).parts ((hi.wf t ht).chain hc)

/-- **a group of one is Db.Batch with a single caller** (`dbBatch`, about which the theorems above this section
    speak): one round, then — if it failed — the solo re-run. -/
theorem batch_group_single_is_batch (env : Env) (db : Db) (ctx : Ctx) (body : List Step) :
    let s := groupRun env (fun _ => { body := body }) db (fun _ => ctx) [0] [.round, .solo 0]
    s.result 0 = some (dbBatch env db ctx body).res ∧ s.db = (dbBatch env db ctx body).db ∧
    s.ctxOf 0 = (dbBatch env db ctx body).ctx ∧ s.txs.flatMap GTx.fired = (dbBatch env db ctx body).fired ∧
    s.invs 0 = (dbBatch env db ctx body).runs := by
  simp only [groupRun, runGroup, List.foldl, gInit, gStep, List.isEmpty_cons, Bool.false_eq_true, if_false]
  unfold roundGo
  simp only [Nat.zero_add, Member.bodyAt, Nat.le_refl, if_true, ne_eq, not_true_eq_false, false_and, if_false]
  cases hr : (attempt env true db ctx body).res with
  | ok =>
    simp [modelRunner, envAt, Invocation.ok, Res.isOk, hr, roundGo, dbBatch, commit, upd, GTx.fired]
  | err e =>
    simp only [modelRunner, envAt, Invocation.ok, Res.isOk, hr, Nat.le_refl, if_true, Bool.false_eq_true, if_false]
    cases hr2 : (attempt env.later true db (attempt env true db ctx body).st.ctx (laterBody body)).res with
    | ok =>
      simp [swapRemove, upd, dbBatch, hr, hr2, commit, GTx.fired]
    | err e2 =>
      simp [swapRemove, upd, dbBatch, hr, hr2, rollback, GTx.fired]

/-! ### non-vacuity / witnesses (the scenario of a sibling failing after an earlier member already ran) -/

/-- one tx-complete listener, one create listener on the parent store -/
def grpEnv : Env := { regsP := [.listener .untyped [⟨.created, false⟩]], regsC := [], txListeners := 1, t := Generated.crudReturns }

/-- member 0 registers a commit action and creates p1; member 1 creates p2, registers a commit action and fails on
    its first invocation after the create -/
def grpSpecs : Nat → Member := fun k =>
  if k = 0 then { body := [.addCommit 1, .op (.create .P "p1" ⟨"n1", [], none, [], []⟩ "") .none false] }
  else { body := [.op (.create .P "p2" ⟨"n2", [], none, [], []⟩ "") .none false, .addCommit 2],
         faultInv := 1, faultPos := 1, faultTag := 911 }

example : ∀ k, Propagating (grpSpecs k).body := by
  intro k
  unfold grpSpecs Propagating
  split <;> decide

-- the shared transaction (members 0, 1) is rolled back; member 0 is re-run in a round of its own, which commits;
-- member 1 re-runs solo and commits: both calls return nil, each was committed in exactly one transaction, nothing
-- was delivered for the rolled-back shared transaction, and EACH committed transaction runs the tx-complete listener
-- once, one commit-action goroutine and announces exactly its own create
example :
    (groupRun grpEnv grpSpecs [] (fun _ => Ctx.empty) [0, 1] [.round, .round, .solo 1]).result 0 = some .ok ∧
    (groupRun grpEnv grpSpecs [] (fun _ => Ctx.empty) [0, 1] [.round, .round, .solo 1]).result 1 = some .ok ∧
    (groupRun grpEnv grpSpecs [] (fun _ => Ctx.empty) [0, 1] [.round, .round, .solo 1]).complete = true ∧
    (groupRun grpEnv grpSpecs [] (fun _ => Ctx.empty) [0, 1] [.round, .round, .solo 1]).txs.map (fun t => (t.invoked, t.committed))
      = [([0, 1], false), ([0], true), ([1], true)] ∧
    (groupRun grpEnv grpSpecs [] (fun _ => Ctx.empty) [0, 1] [.round, .round, .solo 1]).txs.map (fun t => txCompleteRuns t.fired)
      = [[], [0], [0]] ∧
    (groupRun grpEnv grpSpecs [] (fun _ => Ctx.empty) [0, 1] [.round, .round, .solo 1]).txs.map (fun t => commitActionRuns t.fired)
      = [[], [[1, 1]], [[2]]] ∧
    (groupRun grpEnv grpSpecs [] (fun _ => Ctx.empty) [0, 1] [.round, .round, .solo 1]).txs.map (fun t => deliveriesTo .P 0 0 t.fired)
      = [[], [(false, .created, some (.parent "p1" ⟨"n1", [], none, [], []⟩))],
             [(false, .created, some (.parent "p2" ⟨"n2", [], none, [], []⟩))]] := by
  decide +kernel

-- the other order of the same group (the solo re-run gets the writer lock before the next round): same verdicts
example :
    (groupRun grpEnv grpSpecs [] (fun _ => Ctx.empty) [0, 1] [.round, .solo 1, .round]).txs.map (fun t => (t.invoked, t.committed, txCompleteRuns t.fired))
      = [([0, 1], false, []), ([1], true, [0]), ([0], true, [0])] := by
  decide +kernel

-- nobody fails: ONE committed transaction with two members — the tx-complete listener runs once per member closure
-- (twice in that bbolt transaction, once for each call's context), two commit-action goroutines
example :
    (groupRun grpEnv (fun k => { (grpSpecs k) with faultInv := 0 }) [] (fun _ => Ctx.empty) [0, 1] [.round]).txs.map
        (fun t => (t.invoked, t.committed, txCompleteRuns t.fired, commitActionRuns t.fired))
      = [([0, 1], true, [0, 0], [[1], [2]])] := by
  decide +kernel

-- a member that always fails (its solo re-run fails too): its call returns the error, no committed transaction
-- contains it, nothing is delivered for it; the other member commits alone
example :
    (groupRun grpEnv (fun k => if k = 0 then grpSpecs 0 else { body := [.addCommit 2, .fail 7] }) [] (fun _ => Ctx.empty) [0, 1]
        [.round, .solo 1, .round]).result 1 = some (.err (.caller 7)) ∧
    (groupRun grpEnv (fun k => if k = 0 then grpSpecs 0 else { body := [.addCommit 2, .fail 7] }) [] (fun _ => Ctx.empty) [0, 1]
        [.round, .solo 1, .round]).txs.map (fun t => (t.invoked, t.committed, t.fired.length))
      = [([0, 1], false, 0), ([1], false, 0), ([0], true, 3)] := by
  decide +kernel

end StorageModel.Properties.C08
